// Harness for C17: starts the real server.Server on loopback (HTTP, HTTPS with a certificate generated
// here, gRPC), sends real requests and records what the client, recording handlers / middleware and
// the logger observe.  Every exchange becomes one case evaluated in Coq by Run/CorrC17.v.
package main

import (
	"bytes"
	"context"
	"crypto/ecdsa"
	"crypto/elliptic"
	crand "crypto/rand"
	"crypto/tls"
	"crypto/x509"
	"crypto/x509/pkix"
	"encoding/pem"
	"flag"
	"fmt"
	"io"
	"log"
	"log/slog"
	"math/big"
	"math/rand"
	"net"
	"net/http"
	"net/http/httptest"
	"net/http/httptrace"
	"net/textproto"
	"os"
	"path/filepath"
	"reflect"
	"sort"
	"strconv"
	"strings"
	"sync"
	"time"

	"github.com/rbell/toolchest/server"
	"github.com/rbell/toolchest/server/example/grpcService"
	"github.com/rbell/toolchest/server/example/proto"
	"github.com/rbell/toolchest/server/httpMiddleware"
	"github.com/rbell/toolchest/server/serverConfig"
	"google.golang.org/grpc"
	"google.golang.org/grpc/codes"
	"google.golang.org/grpc/credentials/insecure"
	rpb "google.golang.org/grpc/reflection/grpc_reflection_v1"
	"google.golang.org/grpc/status"
	"verifharness/internal/cw"
)

var methods = []string{"GET", "HEAD", "POST", "PUT", "DELETE", "PATCH", "OPTIONS"}
var paths = func() []string {
	p := []string{"/p0", "/p1", "/p2", "/a/b", "/a/b/c", "/x.y", "/UP", "/p0/q"}
	for i := 0; i < 64; i++ { // ids 8..71: one path per handler program of the response-writing family
		p = append(p, "/w"+strconv.Itoa(i))
	}
	return p
}()

// everything below nLiteralPaths is a clean literal path (what the Coq model's ServeMux description covers)
var nLiteralPaths = len(paths)

// route patterns beyond literals and request paths that exercise them (reference-mux family); appended to paths
var muxPatterns = []string{"/", "/static/", "/api/v1/", "/items/{id}", "/exact/{$}", "/files/{p...}", "/lit", "/lit/sub", "/static/css"}
var muxRequests = []string{"/", "/static", "/static/", "/static/x/y.css", "/static/css", "/api/v1", "/api/v1/users", "/items/7", "/items/",
	"/items/7/x", "/exact", "/exact/", "/exact/more", "/files/a/b/c", "/files/", "/lit", "/lit/", "/lit/sub", "//lit", "/lit/./sub",
	"/static/../lit", "/nowhere", "/api//v1/", "/items/%41"}
var muxPatternID, muxRequestID = func() ([]int, []int) {
	var a, b []int
	for _, x := range muxPatterns {
		a = append(a, len(paths))
		paths = append(paths, x)
	}
	for _, x := range muxRequests {
		b = append(b, len(paths))
		paths = append(paths, x)
	}
	return a, b
}()

func methodID(m string) int {
	for i, x := range methods {
		if x == m {
			return i
		}
	}
	return -1
}
func pathID(p string) int {
	for i, x := range paths {
		if x == p {
			return i
		}
	}
	return -1
}

// ---------- recorder ----------
type recorder struct {
	mu sync.Mutex
	ev [][]int
	// overlapping requests: events of a request that carries an X-Rid header go to its own list
	per map[int][][]int
	bar *barrier
}

// barrier: handlers of overlapping requests wait here until all n of them have been entered, so that every
// request has passed the whole middleware chain before any handler reads its body
type barrier struct {
	mu       sync.Mutex
	n, seen  int
	ch       chan struct{}
	timeouts int
}

func newBarrier(n int) *barrier { return &barrier{n: n, ch: make(chan struct{})} }
func (b *barrier) wait() {
	b.mu.Lock()
	b.seen++
	if b.seen == b.n {
		close(b.ch)
	}
	b.mu.Unlock()
	select {
	case <-b.ch:
	case <-time.After(20 * time.Second): // not all requests arrived (environment): the scenario is re-run
		b.mu.Lock()
		b.timeouts++
		b.mu.Unlock()
	}
}

func ridOf(r *http.Request) int {
	if v := r.Header.Get("X-Rid"); v != "" {
		if i, err := strconv.Atoi(v); err == nil {
			return i
		}
	}
	return -1
}
func (r *recorder) addR(q *http.Request, e ...int) {
	id := ridOf(q)
	if id < 0 {
		r.add(e...)
		return
	}
	r.mu.Lock()
	if r.per == nil {
		r.per = map[int][][]int{}
	}
	r.per[id] = append(r.per[id], append([]int{}, e...))
	r.mu.Unlock()
}
func (r *recorder) takeR(id int) [][]int {
	r.mu.Lock()
	defer r.mu.Unlock()
	e := r.per[id]
	delete(r.per, id)
	if e == nil {
		e = [][]int{}
	}
	return e
}

func (r *recorder) add(e ...int) {
	r.mu.Lock()
	r.ev = append(r.ev, append([]int{}, e...))
	r.mu.Unlock()
}
func (r *recorder) take() [][]int {
	r.mu.Lock()
	defer r.mu.Unlock()
	e := r.ev
	r.ev = nil
	if e == nil {
		e = [][]int{}
	}
	return e
}

func bytesToInts(b []byte) []int {
	r := make([]int, len(b))
	for i, x := range b {
		r[i] = int(x)
	}
	return r
}
func intsToBytes(l []int) []byte {
	r := make([]byte, len(l))
	for i, x := range l {
		r[i] = byte(x)
	}
	return r
}

// projection of a header map onto the X-V-<k>: <v> entries, sorted by k, flattened
func projHdr(h http.Header) []int {
	type kv struct{ k, v int }
	var l []kv
	for name, vals := range h {
		if strings.HasPrefix(name, "X-V-") && len(vals) > 0 {
			k, e1 := strconv.Atoi(name[4:])
			v, e2 := strconv.Atoi(vals[0])
			if e1 == nil && e2 == nil {
				l = append(l, kv{k, v})
			}
		}
	}
	sort.Slice(l, func(i, j int) bool { return l[i].k < l[j].k })
	r := []int{}
	for _, x := range l {
		r = append(r, x.k, x.v)
	}
	return r
}

// logger handed to the server: captures the two messages of the supplied logging middleware
type capLogger struct{ rec *recorder }

func (c *capLogger) InfoContext(ctx context.Context, msg string, args ...any) {
	for _, a := range args {
		at, ok := a.(slog.Attr)
		if !ok {
			continue
		}
		switch d := at.Value.Any().(type) {
		case httpMiddleware.RequestLogDetail:
			e := []int{5, methodID(d.Method), pathID(d.URL)}
			c.rec.add(append(e, bytesToInts([]byte(d.Body))...)...)
		case httpMiddleware.ResponseLogDetail:
			st, _ := strconv.Atoi(d.StatusCode)
			e := []int{6, methodID(d.Method), pathID(d.URL), st}
			c.rec.add(append(e, bytesToInts([]byte(d.Response))...)...)
		}
	}
}
func (c *capLogger) Info(msg string, args ...any)                              {}
func (c *capLogger) WarnContext(ctx context.Context, msg string, args ...any)  {}
func (c *capLogger) Warn(msg string, args ...any)                              {}
func (c *capLogger) ErrorContext(ctx context.Context, msg string, args ...any) {}
func (c *capLogger) Error(msg string, args ...any)                             {}

// ---------- handler programs ----------
type hop struct {
	Kind string `json:"op"`
	K    int    `json:"k,omitempty"`
	V    int    `json:"v,omitempty"`
	Bs   []int  `json:"bs,omitempty"`
}

func (o hop) coq() string {
	switch o.Kind {
	case "barrier":
		return "OBarrier"
	case "panic":
		return "OPanic " + cw.Z(o.K) // only ever part of keys and descriptions: panics are compared relationally (CSame)
	case "flush":
		return "OFlush"
	case "obs":
		return "OObs"
	case "read":
		return "ORead " + cw.Z(o.K)
	case "readall":
		return "OReadAll"
	case "gethdr":
		return "OGetHdr"
	case "set":
		return fmt.Sprintf("OSet %s %s", cw.Z(o.K), cw.Z(o.V))
	case "status":
		return "OStatus " + cw.Z(o.K)
	case "write":
		return "OWrite " + cw.ZL(o.Bs)
	case "echo":
		return "OEcho"
	case "echohdr":
		return "OEchoHdr " + cw.Z(o.K)
	}
	panic("bad op " + o.Kind)
}
func opsCoq(ops []hop) string {
	p := make([]string, len(ops))
	for i, o := range ops {
		p[i] = o.coq()
	}
	return cw.L(p)
}

func runOps(ops []hop, w http.ResponseWriter, r *http.Request, rec *recorder) {
	obs := func() {
		e := []int{2, methodID(r.Method), pathID(r.URL.Path)}
		rec.addR(r, append(e, projHdr(r.Header)...)...)
	}
	for _, o := range ops {
		switch o.Kind {
		case "barrier":
			if rec.bar != nil {
				rec.bar.wait()
			}
		case "panic":
			if o.K == 0 {
				panic(http.ErrAbortHandler) // net/http's documented way to abort a response
			}
			panic(panicVal(o.K))
		case "flush":
			// what streaming handlers do: flush when the writer they were given can
			if f, ok := w.(http.Flusher); ok {
				f.Flush()
			}
		case "obs":
			obs()
		case "read":
			buf := make([]byte, o.K)
			n, _ := io.ReadFull(r.Body, buf)
			rec.addR(r, append([]int{3}, bytesToInts(buf[:n])...)...)
		case "readall":
			b, _ := io.ReadAll(r.Body)
			rec.addR(r, append([]int{3}, bytesToInts(b)...)...)
		case "gethdr":
			rec.addR(r, append([]int{4}, projHdr(w.Header())...)...)
		case "set":
			w.Header().Set("X-V-"+strconv.Itoa(o.K), strconv.Itoa(o.V))
		case "status":
			w.WriteHeader(o.K)
		case "write":
			w.Write(intsToBytes(o.Bs))
		case "echo":
			b, _ := io.ReadAll(r.Body)
			rec.addR(r, append([]int{3}, bytesToInts(b)...)...)
			w.Write(b)
		case "echohdr":
			obs()
			if v := r.Header.Get("X-V-" + strconv.Itoa(o.K)); v != "" {
				w.Header().Set("X-V-"+strconv.Itoa(o.K), v)
			}
		}
	}
}

type panicVal int

func panicID(v any) int {
	if v == http.ErrAbortHandler {
		return 0
	}
	if k, ok := v.(panicVal); ok {
		return int(k)
	}
	return -1
}

type mwc struct {
	Kind string `json:"mw"`
	I    int    `json:"i,omitempty"`
	Pre  []hop  `json:"pre,omitempty"`
	Post []hop  `json:"post,omitempty"`
}

func (m mwc) coq() string {
	switch m.Kind {
	case "logreq":
		return "MLogReq"
	case "logresp":
		return "MLogResp"
	case "rec":
		return "MRec " + cw.Z(m.I)
	case "scr":
		return fmt.Sprintf("MScr %s %s", opsCoq(m.Pre), opsCoq(m.Post))
	case "prec":
		return "MPRec " + cw.Z(m.I)
	}
	panic("bad mw")
}
func (m mwc) build(rec *recorder, lg *capLogger) httpMiddleware.HttpHandlerMiddleware {
	switch m.Kind {
	case "logreq":
		return httpMiddleware.LogRequest(lg)
	case "logresp":
		return httpMiddleware.LogResponse(lg)
	case "rec":
		return func(next http.HandlerFunc) http.HandlerFunc {
			return func(w http.ResponseWriter, r *http.Request) {
				rec.addR(r, 0, m.I)
				next(w, r)
				rec.addR(r, 1, m.I)
			}
		}
	case "prec": // records the panic that passes through it and lets it travel on
		return func(next http.HandlerFunc) http.HandlerFunc {
			return func(w http.ResponseWriter, r *http.Request) {
				defer func() {
					if v := recover(); v != nil {
						rec.addR(r, 8, m.I, panicID(v))
						panic(v)
					}
				}()
				next(w, r)
			}
		}
	case "scr":
		return func(next http.HandlerFunc) http.HandlerFunc {
			return func(w http.ResponseWriter, r *http.Request) {
				runOps(m.Pre, w, r, rec)
				next(w, r)
				runOps(m.Post, w, r, rec)
			}
		}
	}
	panic("bad mw")
}

type route struct {
	M   int   `json:"method"`
	P   int   `json:"path"`
	Ops []hop `json:"handler"`
}

type listenerCfg struct {
	Calls  []route `json:"addroute_calls"`
	HasMw  bool    `json:"has_middleware"`
	Mw     []mwc   `json:"middleware"`
	Direct bool    `json:"direct"`
	// Seq, when present, is the exact sequence of calls made on the listener's builder / config object before
	// the server is built (read accessors included); nil = the plain flow UsingMiddleWare, AddRoute..., build.
	Seq []cfgStep `json:"config_call_sequence,omitempty"`
}

// one call of the configuration phase
type cfgStep struct {
	Kind string `json:"call"`                // add | getroutes | getmw | getmisc | usemw | decoymw
	Idx  int    `json:"add_index,omitempty"` // for add: index into addroute_calls (adds appear in that order)
	Via  string `json:"via,omitempty"`       // builder | config (the object obtained from Config.GetHttp[s]ServerConfig())
}

const decoyRec = 99 // the recorder a decoymw step installs; a later usemw must replace it

func (l *listenerCfg) opsCoq() string {
	var p []string
	if l.HasMw && !l.hasStep("usemw") {
		p = append(p, l.setMwCoq())
	}
	for _, st := range l.Seq {
		switch st.Kind {
		case "add":
			c := l.Calls[st.Idx]
			p = append(p, fmt.Sprintf("KAdd %s %s %s", cw.Z(c.M), cw.Z(c.P), opsCoq(c.Ops)))
		case "getroutes":
			p = append(p, "KGetRoutes")
		case "getmw", "getmisc":
			p = append(p, "KGetMw")
		case "usemw":
			if l.HasMw {
				p = append(p, l.setMwCoq())
			}
		case "decoymw":
			p = append(p, fmt.Sprintf("KSetMw [MRec %d] true", decoyRec))
		}
	}
	return cw.L(p)
}
func (l *listenerCfg) setMwCoq() string {
	q := make([]string, len(l.Mw))
	for i, m := range l.Mw {
		q[i] = m.coq()
	}
	return fmt.Sprintf("KSetMw %s %s", cw.L(q), cw.B(l.Direct && len(l.Mw) == 1))
}
func (l *listenerCfg) hasStep(kind string) bool {
	for _, st := range l.Seq {
		if st.Kind == kind {
			return true
		}
	}
	return false
}

func (l *listenerCfg) callsCoq() string {
	p := make([]string, len(l.Calls))
	for i, c := range l.Calls {
		p[i] = fmt.Sprintf("(%s, %s, %s)", cw.Z(c.M), cw.Z(c.P), opsCoq(c.Ops))
	}
	return cw.L(p)
}
func (l *listenerCfg) mwCoq() string {
	if !l.HasMw {
		return "None"
	}
	p := make([]string, len(l.Mw))
	for i, m := range l.Mw {
		p[i] = m.coq()
	}
	return "(Some " + cw.L(p) + ")"
}
func (l *listenerCfg) middleware(rec *recorder, lg *capLogger) httpMiddleware.HttpHandlerMiddleware {
	if !l.HasMw {
		return nil
	}
	ms := make([]httpMiddleware.HttpHandlerMiddleware, len(l.Mw))
	for i, m := range l.Mw {
		ms[i] = m.build(rec, lg)
	}
	if l.Direct && len(ms) == 1 {
		return ms[0]
	}
	return httpMiddleware.BundleMiddleware(ms...)
}

type request struct {
	Listener int   `json:"listener"` // 0 http, 1 https
	M        int   `json:"method"`
	P        int   `json:"path"`
	H        []int `json:"headers"` // flattened sorted (k,v)
	B        []int `json:"body"`
	// Unsized: the body is sent without a Content-Length (HTTP/1.1: Transfer-Encoding: chunked; HTTP/2: DATA
	// frames without a content-length header); the server then sees r.ContentLength == -1
	Unsized bool `json:"body_sent_without_content_length"`
	// MayAbort: the handler may end in a panic; a broken exchange is then an observation, not an environment problem
	MayAbort bool `json:"may_abort,omitempty"`
}

type grpcReg struct {
	D    int `json:"desc"`
	Impl int `json:"impl"`
}

type scenario struct {
	Group      string
	HTTP       *listenerCfg
	HTTPS      *listenerCfg
	TLSInCfg   bool // certificate passed through WithTlsConfig instead of files
	H2         bool
	Collect    bool    // do not emit cases: keep the observations for a relational comparison (runPair, runMux)
	collected  []obsT
	Overlap    bool // all requests are sent concurrently; their handlers meet at a barrier before reading
	Reqs       []request
	Grpc       []grpcReg // RegisterImplementation calls
	GrpcInit   []grpcReg // registered by an initializer
	UseGrpc    bool
	GrpcGetters bool // read accessors of the gRPC config called between the registrations
	Reflection bool
	GrpcCalls  []int
}

// ---------- certificate ----------
type certMat struct {
	certFile, keyFile string
	cert              tls.Certificate
	pool              *x509.CertPool
}

func makeCert(dir string) (*certMat, error) {
	key, err := ecdsa.GenerateKey(elliptic.P256(), crand.Reader)
	if err != nil {
		return nil, err
	}
	tmpl := &x509.Certificate{
		SerialNumber: big.NewInt(time.Now().UnixNano()), Subject: pkix.Name{CommonName: "verif-c17"},
		NotBefore: time.Now().Add(-time.Hour), NotAfter: time.Now().Add(24 * time.Hour),
		KeyUsage: x509.KeyUsageDigitalSignature | x509.KeyUsageCertSign, ExtKeyUsage: []x509.ExtKeyUsage{x509.ExtKeyUsageServerAuth},
		BasicConstraintsValid: true, IsCA: true,
		IPAddresses: []net.IP{net.ParseIP("127.0.0.1")}, DNSNames: []string{"localhost"},
	}
	der, err := x509.CreateCertificate(crand.Reader, tmpl, tmpl, &key.PublicKey, key)
	if err != nil {
		return nil, err
	}
	kb, err := x509.MarshalECPrivateKey(key)
	if err != nil {
		return nil, err
	}
	cp := pem.EncodeToMemory(&pem.Block{Type: "CERTIFICATE", Bytes: der})
	kp := pem.EncodeToMemory(&pem.Block{Type: "EC PRIVATE KEY", Bytes: kb})
	m := &certMat{certFile: filepath.Join(dir, "cert.pem"), keyFile: filepath.Join(dir, "key.pem")}
	if err := os.WriteFile(m.certFile, cp, 0o600); err != nil {
		return nil, err
	}
	if err := os.WriteFile(m.keyFile, kp, 0o600); err != nil {
		return nil, err
	}
	m.cert, err = tls.X509KeyPair(cp, kp)
	if err != nil {
		return nil, err
	}
	m.pool = x509.NewCertPool()
	m.pool.AppendCertsFromPEM(cp)
	return m, nil
}

// ---------- ports ----------
var portRng = rand.New(rand.NewSource(int64(os.Getpid())*7919 + time.Now().UnixNano()))

// freePort probes ports below the kernel's ephemeral range (so nobody gets them by asking for :0).
func freePort(used map[int]bool) int {
	for i := 0; i < 2000; i++ {
		p := 20000 + portRng.Intn(12000)
		if used[p] {
			continue
		}
		l, err := net.Listen("tcp", fmt.Sprintf(":%d", p))
		if err != nil {
			continue
		}
		l.Close()
		used[p] = true
		return p
	}
	panic("no free port")
}

func waitReachable(port int, d time.Duration) bool {
	dl := time.Now().Add(d)
	for time.Now().Before(dl) {
		c, err := net.DialTimeout("tcp", fmt.Sprintf("127.0.0.1:%d", port), 500*time.Millisecond)
		if err == nil {
			c.Close()
			return true
		}
		time.Sleep(5 * time.Millisecond)
	}
	return false
}

// ---------- gRPC services ----------
type echoer interface {
	Echo(context.Context, *proto.HelloRequest) (*proto.HelloReply, error)
}
type echoImpl struct{ id int }

func (e *echoImpl) Echo(ctx context.Context, in *proto.HelloRequest) (*proto.HelloReply, error) {
	return &proto.HelloReply{Message: "impl:" + strconv.Itoa(e.id)}, nil
}

// an own implementation of the example service (besides example/grpcService.HelloService = impl 0)
type helloImpl struct {
	proto.UnimplementedHelloServiceServer
	id int
}

func (h *helloImpl) SayHello(ctx context.Context, in *proto.HelloRequest) (*proto.HelloReply, error) {
	return &proto.HelloReply{Message: "impl:" + strconv.Itoa(h.id)}, nil
}

func echoHandler(srv any, ctx context.Context, dec func(any) error, _ grpc.UnaryServerInterceptor) (any, error) {
	in := new(proto.HelloRequest)
	if err := dec(in); err != nil {
		return nil, err
	}
	return srv.(echoer).Echo(ctx, in)
}

// descriptor 0 = the example's HelloService; 1..4 = hand-written descriptors verif.Svc<i>
var descs = func() []*grpc.ServiceDesc {
	r := []*grpc.ServiceDesc{&proto.HelloService_ServiceDesc}
	for i := 1; i <= 4; i++ {
		r = append(r, &grpc.ServiceDesc{
			ServiceName: "verif.Svc" + strconv.Itoa(i), HandlerType: (*echoer)(nil),
			Methods:  []grpc.MethodDesc{{MethodName: "Echo", Handler: echoHandler}},
			Streams:  []grpc.StreamDesc{},
			Metadata: "verif",
		})
	}
	return r
}()

func grpcImpl(d, impl int) any {
	if d == 0 {
		if impl == 0 {
			return &grpcService.HelloService{}
		}
		return &helloImpl{id: impl}
	}
	return &echoImpl{id: impl}
}
func grpcMethod(d int) string {
	if d == 0 {
		return "/helloService.HelloService/SayHello"
	}
	return "/verif.Svc" + strconv.Itoa(d) + "/Echo"
}
func descOfName(n string) int {
	for i, d := range descs {
		if d.ServiceName == n {
			return i
		}
	}
	return -1
}

// ---------- running one scenario ----------
// what the client (and the recorder) observed of one exchange
type obsT struct {
	st      int
	oh      []int
	ob      []int
	ev      [][]int
	prot    string
	info    [][]int // interim (1xx) responses the client received: code, then projected headers
	aborted bool    // the exchange did not complete: transport error, or the body ended in an error
	loc     []int   // bytes of the Location header
}

// vec renders an observation for the relational oracle (CSame): everything but the logger's lines
func (o obsT) vec() [][]int {
	ab := 0
	if o.aborted {
		ab = 1
	}
	v := [][]int{{ab, o.st}, append([]int{}, o.oh...), append([]int{}, o.ob...)}
	for _, i := range o.info {
		v = append(v, append([]int{100}, i...))
	}
	v = append(v, []int{-1})
	for _, e := range o.ev {
		if len(e) > 0 && (e[0] == 5 || e[0] == 6) {
			continue
		}
		v = append(v, e)
	}
	return v
}

type gen struct {
	w        *cw.Writer
	rng      *rand.Rand
	cert     *certMat
	httpsMw  bool // the HTTPS builder offers UsingMiddleWare
	servers  int
	requests int
	retries  int
	gettersCalled int
	muxSkipped    int
	stopTime time.Duration
	waitTime time.Duration
}

func (g *gen) run(sc *scenario) error {
	var lastErr error
	for attempt := 0; attempt < 4; attempt++ {
		err, retry := g.runOnce(sc)
		if err == nil {
			return nil
		}
		lastErr = err
		if !retry {
			return err
		}
		g.retries++
	}
	return lastErr
}

func (g *gen) runOnce(sc *scenario) (err error, retry bool) {
	rec := &recorder{}
	lg := &capLogger{rec: rec}
	used := map[int]bool{}
	b := serverConfig.BuildServerConfig().WithLogger(lg)
	var httpPort, httpsPort, grpcPort int
	mkHandler := func(l *listenerCfg, i int) http.HandlerFunc {
		c := l.Calls[i]
		return func(w http.ResponseWriter, r *http.Request) {
			rec.addR(r, 7, i)
			runOps(c.Ops, w, r, rec)
		}
	}
	decoy := func(next http.HandlerFunc) http.HandlerFunc {
		return func(w http.ResponseWriter, r *http.Request) {
			rec.addR(r, 0, decoyRec)
			next(w, r)
			rec.addR(r, 1, decoyRec)
		}
	}
	touch := func(rt map[string]map[string]http.HandlerFunc) { // what a caller of GetRoutes typically does: look, count
		n := 0
		for _, ps := range rt {
			for range ps {
				n++
			}
		}
		g.gettersCalled++
		_ = n
	}
	if sc.HTTP != nil {
		httpPort = freePort(used)
		l := sc.HTTP
		hb := serverConfig.BuildHttpServiceConfig().WithPort(strconv.Itoa(httpPort))
		if l.Seq == nil {
			if mw := l.middleware(rec, lg); mw != nil {
				hb = hb.UsingMiddleWare(mw)
			}
			for i, c := range l.Calls {
				hb = hb.AddRoute(methods[c.M], paths[c.P], mkHandler(l, i))
			}
			b = b.WithHttpServiceConfig(hb)
		} else {
			// attach first: the server configuration and the builder share the config object from here on
			b = b.WithHttpServiceConfig(hb)
			obj := b.Build().GetHttpServerConfig()
			if l.HasMw && !l.hasStep("usemw") {
				hb = hb.UsingMiddleWare(l.middleware(rec, lg))
			}
			for _, st := range l.Seq {
				switch st.Kind {
				case "add":
					c := l.Calls[st.Idx]
					if st.Via == "config" {
						obj.AddRoute(methods[c.M], paths[c.P], mkHandler(l, st.Idx))
					} else {
						hb = hb.AddRoute(methods[c.M], paths[c.P], mkHandler(l, st.Idx))
					}
				case "getroutes":
					touch(obj.GetRoutes())
				case "getmw":
					_ = obj.GetMiddleware()
					g.gettersCalled++
				case "getmisc":
					_ = obj.Port
					_ = b.Build().GetHttpServerConfig()
					_ = b.Build().GetLogger()
					g.gettersCalled++
				case "usemw":
					if mw := l.middleware(rec, lg); mw != nil {
						if st.Via == "config" {
							obj.SetMiddleware(mw)
						} else {
							hb = hb.UsingMiddleWare(mw)
						}
					}
				case "decoymw":
					obj.SetMiddleware(decoy)
				}
			}
		}
	}
	if sc.HTTPS != nil {
		httpsPort = freePort(used)
		l := sc.HTTPS
		sb := serverConfig.BuildHttpsServiceConfig().WithPort(strconv.Itoa(httpsPort))
		if sc.TLSInCfg {
			sb = sb.WithTlsConfig(&tls.Config{Certificates: []tls.Certificate{g.cert.cert}, MinVersion: tls.VersionTLS12})
		} else {
			sb = sb.WithCertFile(g.cert.certFile).WithKeyFile(g.cert.keyFile)
		}
		useMw := func(mw httpMiddleware.HttpHandlerMiddleware) {
			// the method is looked up dynamically so that this harness also builds against a tree whose
			// HTTPS builder cannot configure middleware at all (then the cases show the difference)
			m := reflect.ValueOf(sb).MethodByName("UsingMiddleWare")
			if m.IsValid() {
				out := m.Call([]reflect.Value{reflect.ValueOf(mw)})
				if len(out) == 1 {
					if nb, ok := out[0].Interface().(*serverConfig.HttpsServerConfigBuilder); ok {
						sb = nb
					}
				}
			}
		}
		if l.Seq == nil {
			if mw := l.middleware(rec, lg); mw != nil {
				useMw(mw)
			}
			for i, c := range l.Calls {
				sb = sb.AddRoute(methods[c.M], paths[c.P], mkHandler(l, i))
			}
			b = b.WithHttpsServiceConfig(sb)
		} else {
			b = b.WithHttpsServiceConfig(sb)
			obj := b.Build().GetHttpsServerConfig()
			if l.HasMw && !l.hasStep("usemw") {
				useMw(l.middleware(rec, lg))
			}
			for _, st := range l.Seq {
				switch st.Kind {
				case "add":
					c := l.Calls[st.Idx]
					if st.Via == "config" {
						obj.AddRoute(methods[c.M], paths[c.P], mkHandler(l, st.Idx))
					} else {
						sb = sb.AddRoute(methods[c.M], paths[c.P], mkHandler(l, st.Idx))
					}
				case "getroutes":
					touch(obj.GetRoutes())
				case "getmw":
					_ = obj.GetMiddleware()
					g.gettersCalled++
				case "getmisc":
					_ = obj.GetTlsConfig()
					_ = obj.GetCertFile()
					_ = obj.GetKeyFile()
					_ = obj.Port
					g.gettersCalled++
				case "usemw":
					if mw := l.middleware(rec, lg); mw != nil {
						if st.Via == "config" {
							obj.SetMiddleware(mw)
						} else {
							useMw(mw)
						}
					}
				case "decoymw":
					obj.SetMiddleware(decoy)
				}
			}
		}
	}
	if sc.UseGrpc {
		grpcPort = freePort(used)
		gb := serverConfig.BuildGrpcServerConfig().WithPort(strconv.Itoa(grpcPort))
		var gobj *serverConfig.GrpcServerConfig
		if sc.GrpcGetters {
			b = b.WithGrpcServiceConfig(gb)
			gobj = b.Build().GetGrpcServerConfig()
		}
		for ri, r := range sc.Grpc {
			if gobj != nil {
				// read accessors between the registrations; every other registration through the config object
				for range gobj.GetRegistrations() {
				}
				_ = gobj.GetOpts()
				_ = gobj.GetInitializers()
				_ = gobj.IsReflectionEnabled()
				g.gettersCalled++
				if ri%2 == 1 {
					gobj.RegisterImplementation(descs[r.D], grpcImpl(r.D, r.Impl))
					continue
				}
			}
			gb = gb.RegisterImplementation(descs[r.D], grpcImpl(r.D, r.Impl))
		}
		for _, r := range sc.GrpcInit {
			r := r
			gb = gb.AddInitializer(func(s *grpc.Server) { s.RegisterService(descs[r.D], grpcImpl(r.D, r.Impl)) })
		}
		if sc.Reflection {
			gb = gb.EnableReflection()
		}
		b = b.WithGrpcServiceConfig(gb)
	}
	wg := &sync.WaitGroup{}
	srv, e := server.NewServer(b.Build(), context.Background(), wg)
	if e != nil {
		return fmt.Errorf("NewServer: %v", e), false
	}
	if e := srv.Start(context.Background()); e != nil {
		return fmt.Errorf("Start: %v", e), false
	}
	g.servers++
	stopped := false
	stop := func() {
		if stopped {
			return
		}
		stopped = true
		ctx, cancel := context.WithTimeout(context.Background(), 10*time.Second)
		defer cancel()
		srv.Stop(ctx)
	}
	defer stop()
	tw := time.Now()
	for _, p := range []int{httpPort, httpsPort, grpcPort} {
		if p != 0 && !waitReachable(p, 10*time.Second) {
			return fmt.Errorf("listener on port %d not reachable within 10s (port taken by another process?)", p), true
		}
	}
	g.waitTime += time.Since(tw)
	tr := &http.Transport{DisableCompression: true, ForceAttemptHTTP2: sc.H2,
		TLSClientConfig: &tls.Config{RootCAs: g.cert.pool, MinVersion: tls.VersionTLS12}}
	defer tr.CloseIdleConnections()
	client := &http.Client{Transport: tr, Timeout: 30 * time.Second,
		CheckRedirect: func(*http.Request, []*http.Request) error { return http.ErrUseLastResponse }}

	var obs []obsT
	doReq := func(rq request, rid int) (obsT, error) {
		var url string
		if rq.Listener == 0 {
			url = fmt.Sprintf("http://127.0.0.1:%d%s", httpPort, paths[rq.P])
		} else {
			url = fmt.Sprintf("https://127.0.0.1:%d%s", httpsPort, paths[rq.P])
		}
		var body io.Reader
		if rq.Unsized {
			body = struct{ io.Reader }{bytes.NewReader(intsToBytes(rq.B))}
		} else if len(rq.B) > 0 {
			body = bytes.NewReader(intsToBytes(rq.B))
		}
		hr, e := http.NewRequest(methods[rq.M], url, body)
		if e != nil {
			return obsT{}, e
		}
		for i := 0; i+1 < len(rq.H); i += 2 {
			hr.Header.Set("X-V-"+strconv.Itoa(rq.H[i]), strconv.Itoa(rq.H[i+1]))
		}
		if rid >= 0 {
			hr.Header.Set("X-Rid", strconv.Itoa(rid))
		}
		var imu sync.Mutex
		var info [][]int
		hr = hr.WithContext(httptrace.WithClientTrace(hr.Context(), &httptrace.ClientTrace{
			Got1xxResponse: func(code int, header textproto.MIMEHeader) error {
				imu.Lock()
				info = append(info, append([]int{code}, projHdr(http.Header(header))...))
				imu.Unlock()
				return nil
			}}))
		resp, e := client.Do(hr)
		if e != nil {
			if rq.MayAbort {
				imu.Lock()
				defer imu.Unlock()
				return obsT{oh: []int{}, ob: []int{}, info: info, aborted: true}, nil
			}
			return obsT{}, e
		}
		rb, e := io.ReadAll(resp.Body)
		resp.Body.Close()
		if e != nil && !rq.MayAbort {
			return obsT{}, e
		}
		imu.Lock()
		defer imu.Unlock()
		return obsT{st: resp.StatusCode, oh: projHdr(resp.Header), ob: bytesToInts(rb), prot: resp.Proto, info: info,
			aborted: e != nil, loc: bytesToInts([]byte(resp.Header.Get("Location")))}, nil
	}
	if sc.Overlap {
		rec.bar = newBarrier(len(sc.Reqs))
		obs = make([]obsT, len(sc.Reqs))
		errs := make([]error, len(sc.Reqs))
		var cwg sync.WaitGroup
		for i, rq := range sc.Reqs {
			cwg.Add(1)
			go func(i int, rq request) {
				defer cwg.Done()
				obs[i], errs[i] = doReq(rq, i)
			}(i, rq)
		}
		cwg.Wait()
		for i, e := range errs {
			if e != nil {
				return fmt.Errorf("overlapping request %d: %v", i, e), true
			}
			obs[i].ev = rec.takeR(i)
			g.requests++
		}
		if rec.bar.timeouts > 0 {
			return fmt.Errorf("overlapping requests did not all reach their handlers"), true
		}
		rec.take()
	}
	for _, rq := range sc.Reqs {
		if sc.Overlap {
			break
		}
		rec.take()
		o, e := doReq(rq, -1)
		if e != nil {
			return fmt.Errorf("request %s %s (listener %d): %v", methods[rq.M], paths[rq.P], rq.Listener, e), true
		}
		o.ev = rec.take()
		obs = append(obs, o)
		g.requests++
	}
	// gRPC
	type gobsT struct{ d, res int }
	var gobs []gobsT
	var listed []int
	listedOK := false
	if sc.UseGrpc {
		cc, e := grpc.NewClient(fmt.Sprintf("127.0.0.1:%d", grpcPort), grpc.WithTransportCredentials(insecure.NewCredentials()))
		if e != nil {
			return e, false
		}
		defer cc.Close()
		defer func() { cc.Close(); tr.CloseIdleConnections() }() // before Stop (deferred earlier), so that nothing has to be drained
		for _, d := range sc.GrpcCalls {
			ctx, cancel := context.WithTimeout(context.Background(), 20*time.Second)
			out := new(proto.HelloReply)
			e := cc.Invoke(ctx, grpcMethod(d), &proto.HelloRequest{Name: "x"}, out)
			cancel()
			res := -2
			if e == nil {
				if strings.HasPrefix(out.Message, "impl:") {
					res, _ = strconv.Atoi(out.Message[5:])
				} else if out.Message == "Hello, x" {
					res = 0
				}
			} else if status.Code(e) == codes.Unimplemented {
				res = -1
			} else {
				return fmt.Errorf("grpc call %s: %v", grpcMethod(d), e), true
			}
			gobs = append(gobs, gobsT{d, res})
			g.requests++
		}
		if sc.Reflection {
			ctx, cancel := context.WithTimeout(context.Background(), 20*time.Second)
			st, e := rpb.NewServerReflectionClient(cc).ServerReflectionInfo(ctx)
			if e == nil {
				e = st.Send(&rpb.ServerReflectionRequest{MessageRequest: &rpb.ServerReflectionRequest_ListServices{ListServices: ""}})
			}
			if e == nil {
				var rs *rpb.ServerReflectionResponse
				rs, e = st.Recv()
				if e == nil {
					for _, s := range rs.GetListServicesResponse().GetService() {
						if d := descOfName(s.Name); d >= 0 {
							listed = append(listed, d)
						}
					}
					listedOK = true
				}
				st.CloseSend()
			}
			cancel()
			if e != nil {
				return fmt.Errorf("reflection: %v", e), true
			}
		}
	}
	tr.CloseIdleConnections()
	t0 := time.Now()
	stop()
	wg.Wait()
	g.stopTime += time.Since(t0)

	if sc.Collect {
		sc.collected = obs
		return nil, false
	}
	// everything went through: emit the cases
	for i, rq := range sc.Reqs {
		o := obs[i]
		l := sc.HTTP
		lname := "http"
		if rq.Listener == 1 {
			l = sc.HTTPS
			lname = "https"
		}
		hs := []string{}
		for j := 0; j+1 < len(rq.H); j += 2 {
			hs = append(hs, fmt.Sprintf("(%s, %s)", cw.Z(rq.H[j]), cw.Z(rq.H[j+1])))
		}
		ohs := []string{}
		for j := 0; j+1 < len(o.oh); j += 2 {
			ohs = append(ohs, fmt.Sprintf("(%s, %s)", cw.Z(o.oh[j]), cw.Z(o.oh[j+1])))
		}
		coq := fmt.Sprintf("CHttp %d %s %s %s %s %s %s %s %s %s %s %s",
			rq.Listener, l.callsCoq(), l.mwCoq(), cw.B(l.Direct && len(l.Mw) == 1), cw.Z(rq.M), cw.Z(rq.P), cw.L(hs), zl(rq.B),
			cw.Z(o.st), cw.L(ohs), zl(o.ob), zll(o.ev))
		seqKey := ""
		if sc.Overlap {
			coq = "CHttpConc" + coq[len("CHttp"):]
			seqKey = fmt.Sprintf("|overlap %d of %d", i, len(sc.Reqs))
		}
		if l.Seq != nil {
			coq = fmt.Sprintf("CHttpSeq %d %s %s %s %s %s %s %s %s %s",
				rq.Listener, l.opsCoq(), cw.Z(rq.M), cw.Z(rq.P), cw.L(hs), zl(rq.B), cw.Z(o.st), cw.L(ohs), zl(o.ob), zll(o.ev))
			seqKey = fmt.Sprintf("|%v", l.Seq)
		}
		if len(o.info) > 0 {
			coq = fmt.Sprintf("CInfo %s (%s)", cw.ZLL(o.info), coq)
		}
		registered := false
		for _, c := range l.Calls {
			if c.P == rq.P && (c.M == rq.M || (c.M == 0 && rq.M == 1)) {
				registered = true
			}
		}
		tags := []string{lname + "-" + sc.Group, "status-" + strconv.Itoa(o.st), "proto-" + o.prot}
		if registered {
			tags = append(tags, "registered")
		} else {
			tags = append(tags, "unregistered")
		}
		if l.HasMw {
			tags = append(tags, fmt.Sprintf("mwlen-%d", len(l.Mw)))
			for _, m := range l.Mw {
				if m.Kind == "logreq" || m.Kind == "logresp" {
					tags = append(tags, "with-"+m.Kind)
				}
			}
		} else {
			tags = append(tags, "no-middleware")
		}
		if len(rq.B) > 0 {
			tags = append(tags, "with-body")
		}
		framing := "no body"
		if rq.Unsized {
			framing = "no Content-Length (HTTP/1.1 chunked / HTTP/2 unsized)"
			tags = append(tags, "unsized-body")
		} else if len(rq.B) > 0 {
			framing = "Content-Length"
		}
		if sc.Overlap {
			tags = append(tags, "overlapping-requests")
		}
		if len(o.info) > 0 {
			tags = append(tags, "interim-1xx-responses")
		}
		if l.Seq != nil {
			tags = append(tags, "config-sequence")
			if l.hasStep("getroutes") {
				tags = append(tags, "getroutes-between-calls")
			}
			if l.hasStep("decoymw") {
				tags = append(tags, "middleware-replaced")
			}
		}
		desc := map[string]any{
			"kind": "http-exchange", "listener": lname, "config": l,
			"request":  map[string]any{"method": methods[rq.M], "path": paths[rq.P], "xv_headers": rq.H, "body": rq.B, "body_framing": framing, "overlapping_with": map[bool]int{true: len(sc.Reqs) - 1, false: 0}[sc.Overlap]},
			"observed": map[string]any{"status": o.st, "xv_headers": o.oh, "body": o.ob, "events": o.ev, "proto": o.prot, "interim_1xx_responses": o.info},
			"https_builder_has_UsingMiddleWare": g.httpsMw, "tls_in_config": sc.TLSInCfg,
			"event_legend": "0 enter i|1 exit i|2 obs method path hdrs|3 read bytes|4 w.Header()|5 logger request m p body|6 logger response m p status body|7 handler(index of AddRoute call)",
		}
		g.w.Add(cw.Case{Coq: coq, Desc: desc, Tags: tags,
			Key:     fmt.Sprintf("%s|%s|%s|%v|%d %d %v %v %v%s", lname, l.callsCoq(), l.mwCoq(), l.Direct, rq.M, rq.P, rq.H, rq.B, rq.Unsized, seqKey),
			Trivial: len(l.Calls) == 0})
	}
	allRegs := append(append([]grpcReg{}, sc.Grpc...), sc.GrpcInit...)
	rs := []string{}
	for _, r := range allRegs {
		rs = append(rs, fmt.Sprintf("(%s, %s)", cw.Z(r.D), cw.Z(r.Impl)))
	}
	for _, o := range gobs {
		tags := []string{"grpc-" + sc.Group}
		if o.res >= 0 {
			tags = append(tags, "grpc-answered")
		} else {
			tags = append(tags, "grpc-unimplemented")
		}
		g.w.Add(cw.Case{Coq: fmt.Sprintf("CGrpc %s %s %s", cw.L(rs), cw.Z(o.d), cw.Z(o.res)),
			Desc: map[string]any{"kind": "grpc-call", "registrations": sc.Grpc, "registered_by_initializer": sc.GrpcInit, "getters_called_between_registrations": sc.GrpcGetters,
				"reflection": sc.Reflection, "called": grpcMethod(o.d), "answering_impl_or_-1": o.res},
			Tags: tags, Key: fmt.Sprintf("grpc|%v|%v|%v|%d", sc.Grpc, sc.GrpcInit, sc.Reflection, o.d), Trivial: len(allRegs) == 0})
	}
	if listedOK {
		g.w.Add(cw.Case{Coq: fmt.Sprintf("CGrpcList %s %s", cw.L(rs), cw.ZL(listed)),
			Desc: map[string]any{"kind": "grpc-reflection-list", "registrations": sc.Grpc, "registered_by_initializer": sc.GrpcInit, "listed": listed},
			Tags: []string{"grpc-list-" + sc.Group}, Key: fmt.Sprintf("grpclist|%v|%v", sc.Grpc, sc.GrpcInit), Trivial: len(allRegs) == 0})
	}
	return nil, false
}

// ---------- relational oracles ----------

func stripLogging(l []mwc) []mwc {
	r := []mwc{}
	for _, m := range l {
		if m.Kind != "logreq" && m.Kind != "logresp" {
			r = append(r, m)
		}
	}
	return r
}

// runPair runs the same routes and requests on two servers, one with the middleware list mws and one with
// LogRequest/LogResponse removed from it, and emits one CSame case per request: transparency stated
// relationally, for behaviour the Coq model does not describe (handlers that end in a panic).
func (g *gen) runPair(group string, calls []route, mws []mwc, direct bool, reqs []request, h2, tlsInCfg bool) error {
	mk := func(m []mwc) *scenario {
		l := &listenerCfg{Calls: calls, HasMw: true, Mw: m, Direct: direct && len(m) == 1}
		return &scenario{Group: group, HTTP: l, HTTPS: l, H2: h2, TLSInCfg: tlsInCfg, Collect: true, Reqs: reqs}
	}
	a, b := mk(mws), mk(stripLogging(mws))
	if err := g.run(a); err != nil {
		return err
	}
	if err := g.run(b); err != nil {
		return err
	}
	for i, rq := range reqs {
		oa, ob := a.collected[i], b.collected[i]
		lname := []string{"http", "https"}[rq.Listener]
		tags := []string{lname + "-" + group, "proto-" + oa.prot}
		var prog []hop
		for _, c := range calls {
			if c.P == rq.P && c.M == rq.M {
				prog = c.Ops
			}
		}
		ends := "returns"
		for _, o := range prog {
			if o.Kind == "panic" {
				ends = "panic(http.ErrAbortHandler)"
				if o.K != 0 {
					ends = "panic(ordinary value)"
				}
			}
		}
		tags = append(tags, "handler-"+strings.Fields(ends)[0])
		if ob.aborted {
			tags = append(tags, "exchange-aborted")
		}
		g.w.Add(cw.Case{Coq: fmt.Sprintf("CSame 1 %s %s", cw.ZLL(oa.vec()), cw.ZLL(ob.vec())),
			Desc: map[string]any{"kind": "with-vs-without-logging-middleware", "listener": lname, "handler": prog, "handler_ends_with": ends,
				"middleware": mws, "middleware_without_logging": stripLogging(mws), "direct": direct,
				"request": map[string]any{"method": methods[rq.M], "path": paths[rq.P]},
				"with":    map[string]any{"aborted": oa.aborted, "status": oa.st, "xv_headers": oa.oh, "body": oa.ob, "interim": oa.info, "events": oa.ev, "proto": oa.prot},
				"without": map[string]any{"aborted": ob.aborted, "status": ob.st, "xv_headers": ob.oh, "body": ob.ob, "interim": ob.info, "events": ob.ev, "proto": ob.prot},
				"event_legend": "0 enter i|1 exit i|7 handler|8 i v: panic value v (0 = http.ErrAbortHandler) seen by recovering middleware i, which re-panics"},
			Tags: tags, Key: fmt.Sprintf("pair|%s|%s|%v|%v|%v|%d", lname, opsCoq(prog), mws, direct, h2, rq.P)})
	}
	return nil
}

// runMux compares the running server with a reference http.ServeMux built here from the same (method, path)
// list: which handler answers (or 404/405/301 + Location).  The reference is net/http itself, so this says
// nothing about ServeMux; it says that the providers hand every configured route to the router unchanged.
func (g *gen) runMux(rts []route, withMw bool, reqs []request, h2, tlsInCfg bool) error {
	final := map[string]int{}
	var order []string
	for i, c := range rts {
		k := methods[c.M] + " " + paths[c.P]
		if _, ok := final[k]; !ok {
			order = append(order, k)
		}
		final[k] = i // AddRoute: the last registration for a (method, path) pair wins
	}
	ref := http.NewServeMux()
	conflict := false
	func() {
		defer func() {
			if recover() != nil {
				conflict = true
			}
		}()
		for _, k := range order {
			idx := final[k]
			ref.HandleFunc(k, func(w http.ResponseWriter, r *http.Request) {
				w.Header().Set("X-Ref-Idx", strconv.Itoa(idx))
				w.Write([]byte{byte(idx)})
			})
		}
	}()
	if conflict { // ServeMux rejects the pattern set: the real provider would panic the same way; not a configuration
		g.muxSkipped++
		return nil
	}
	l := &listenerCfg{Calls: rts}
	if withMw {
		l.HasMw, l.Mw = true, []mwc{{Kind: "rec", I: 1}, {Kind: "logresp"}}
	}
	sc := &scenario{Group: "mux", HTTP: l, HTTPS: l, H2: h2, TLSInCfg: tlsInCfg, Collect: true, Reqs: reqs}
	if err := g.run(sc); err != nil {
		return err
	}
	for i, rq := range reqs {
		o := sc.collected[i]
		idx := -1
		for _, e := range o.ev {
			if len(e) == 2 && e[0] == 7 {
				idx = e[1]
			}
		}
		rr := httptest.NewRecorder()
		ref.ServeHTTP(rr, httptest.NewRequest(methods[rq.M], paths[rq.P], nil))
		ridx := -1
		if v := rr.Header().Get("X-Ref-Idx"); v != "" {
			ridx, _ = strconv.Atoi(v)
		}
		rloc := bytesToInts([]byte(rr.Header().Get("Location")))
		lname := []string{"http", "https"}[rq.Listener]
		var rs []string
		for _, c := range rts {
			rs = append(rs, methods[c.M]+" "+paths[c.P])
		}
		tags := []string{lname + "-mux", "status-" + strconv.Itoa(rr.Code), "proto-" + o.prot}
		if ridx >= 0 {
			tags = append(tags, "served")
		}
		g.w.Add(cw.Case{Coq: fmt.Sprintf("CSame 0 %s %s", cw.ZLL([][]int{{rr.Code, ridx}, rloc}), cw.ZLL([][]int{{o.st, idx}, o.loc})),
			Desc: map[string]any{"kind": "reference-servemux-vs-server", "listener": lname, "routes": rs, "with_middleware": withMw,
				"request":   map[string]any{"method": methods[rq.M], "path": paths[rq.P]},
				"reference": map[string]any{"status": rr.Code, "handler_index": ridx, "location": rr.Header().Get("Location")},
				"server":    map[string]any{"status": o.st, "handler_index": idx, "location": string(intsToBytes(o.loc)), "proto": o.prot}},
			Tags: tags, Key: fmt.Sprintf("mux|%s|%v|%v|%s %s", lname, rs, withMw, methods[rq.M], paths[rq.P]), Trivial: len(rts) == 0})
	}
	return nil
}

// ---------- generators ----------
func (g *gen) randOps(maxLen int, handler bool) []hop {
	n := g.rng.Intn(maxLen + 1)
	ops := []hop{}
	for i := 0; i < n; i++ {
		switch g.rng.Intn(10) {
		case 0:
			ops = append(ops, hop{Kind: "obs"})
		case 1:
			ops = append(ops, hop{Kind: "read", K: 1 + g.rng.Intn(4)})
		case 2:
			ops = append(ops, hop{Kind: "readall"})
		case 3:
			ops = append(ops, hop{Kind: "gethdr"})
		case 4, 5:
			ops = append(ops, hop{Kind: "set", K: 1 + g.rng.Intn(4), V: g.rng.Intn(50)})
		case 6:
			ops = append(ops, hop{Kind: "status", K: []int{200, 201, 202, 400, 404, 418, 500, 103, 102, 404, 103}[g.rng.Intn(11)]})
			if handler && g.rng.Intn(4) == 0 {
				ops = append(ops, hop{Kind: "flush"})
			}
		case 7:
			ops = append(ops, hop{Kind: "write", Bs: g.randBytes(4)})
		case 8:
			ops = append(ops, hop{Kind: "echo"})
		case 9:
			ops = append(ops, hop{Kind: "echohdr", K: 1 + g.rng.Intn(4)})
		}
	}
	// net/http (HTTP/1.1 without full duplex) discards the unread request body once the response has been
	// flushed: a handler that reads after flushing gets nothing, whatever the middleware.  Programs read first.
	flushed := false
	kept := ops[:0]
	for _, o := range ops {
		if o.Kind == "flush" {
			flushed = true
		}
		if flushed && (o.Kind == "read" || o.Kind == "readall" || o.Kind == "echo") {
			continue
		}
		kept = append(kept, o)
	}
	ops = kept
	return ops
}
func (g *gen) randBytes(max int) []int {
	n := g.rng.Intn(max + 1)
	b := make([]int, n)
	for i := range b {
		b[i] = g.rng.Intn(256)
	}
	return b
}
func (g *gen) randMw(maxLen int) []mwc {
	n := g.rng.Intn(maxLen + 1)
	l := []mwc{}
	for i := 0; i < n; i++ {
		switch g.rng.Intn(6) {
		case 0, 1:
			l = append(l, mwc{Kind: "logreq"})
		case 2, 3:
			l = append(l, mwc{Kind: "logresp"})
		case 4:
			l = append(l, mwc{Kind: "rec", I: 1 + g.rng.Intn(5)})
		case 5:
			l = append(l, mwc{Kind: "scr", Pre: g.randOps(2, false), Post: g.randOps(2, false)})
		}
	}
	return l
}
func (g *gen) randListener() *listenerCfg {
	l := &listenerCfg{}
	nr := g.rng.Intn(6)
	for i := 0; i < nr; i++ {
		l.Calls = append(l.Calls, route{M: g.rng.Intn(len(methods)), P: g.rng.Intn(nLiteralPaths), Ops: g.randOps(6, true)})
	}
	if g.rng.Intn(5) > 0 {
		l.HasMw = true
		l.Mw = g.randMw(5)
		l.Direct = len(l.Mw) == 1 && g.rng.Intn(2) == 0
	}
	// a HEAD response is complete for the client as soon as its header is flushed, i.e. possibly before the handler
	// chain has returned; the recorder could then not attribute the remaining events to this request.  Routes a
	// HEAD request can reach (GET and HEAD routes) therefore do not flush here; the respwrite family flushes on GET
	// routes that only ever get GET requests.
	for ci := range l.Calls {
		if l.Calls[ci].M <= 1 {
			kept := []hop{}
			for _, o := range l.Calls[ci].Ops {
				if o.Kind != "flush" {
					kept = append(kept, o)
				}
			}
			l.Calls[ci].Ops = kept
		}
	}
	for _, m := range l.Mw {
		if m.Kind == "scr" { // scripted middleware may read the body after the handler returned: no flushing handlers then
			for ci := range l.Calls {
				kept := []hop{}
				for _, o := range l.Calls[ci].Ops {
					if o.Kind != "flush" {
						kept = append(kept, o)
					}
				}
				l.Calls[ci].Ops = kept
			}
			break
		}
	}
	if g.rng.Intn(2) == 0 {
		g.randSeq(l)
	}
	return l
}

// randSeq turns the configuration of l into an explicit call sequence: the adds in order, through the builder or
// the config object, with read accessors in between, the middleware set at a random position (possibly
// after a different middleware had been set)
func (g *gen) randSeq(l *listenerCfg) {
	via := func() string {
		if g.rng.Intn(2) == 0 {
			return "config"
		}
		return "builder"
	}
	getter := func() {
		for g.rng.Intn(3) > 0 {
			l.Seq = append(l.Seq, cfgStep{Kind: []string{"getroutes", "getroutes", "getmw", "getmisc"}[g.rng.Intn(4)]})
		}
	}
	l.Seq = []cfgStep{}
	mwAt := g.rng.Intn(len(l.Calls) + 1)
	decoyAt := -1
	if l.HasMw && mwAt > 0 && g.rng.Intn(3) == 0 {
		decoyAt = g.rng.Intn(mwAt)
	}
	for i := 0; i <= len(l.Calls); i++ {
		getter()
		if i == decoyAt {
			l.Seq = append(l.Seq, cfgStep{Kind: "decoymw"})
			getter()
		}
		if i == mwAt && l.HasMw {
			l.Seq = append(l.Seq, cfgStep{Kind: "usemw", Via: via()})
			getter()
		}
		if i < len(l.Calls) {
			l.Seq = append(l.Seq, cfgStep{Kind: "add", Idx: i, Via: via()})
		}
	}
}
func (g *gen) randReq(listener int, l *listenerCfg) request {
	rq := request{Listener: listener, H: []int{}, B: []int{}}
	if len(l.Calls) > 0 && g.rng.Intn(4) > 0 {
		c := l.Calls[g.rng.Intn(len(l.Calls))]
		rq.M, rq.P = c.M, c.P
		if c.M == 0 && g.rng.Intn(4) == 0 {
			rq.M = 1
		}
	} else {
		rq.M, rq.P = g.rng.Intn(len(methods)), g.rng.Intn(nLiteralPaths)
	}
	for k := 1; k <= 4; k++ {
		if g.rng.Intn(3) == 0 {
			rq.H = append(rq.H, k, g.rng.Intn(50))
		}
	}
	if rq.M != 1 && g.rng.Intn(3) > 0 {
		rq.B = g.randBytes(12)
	}
	if rq.M != 1 && (len(rq.B) > 0 && g.rng.Intn(3) == 0 || g.rng.Intn(12) == 0) {
		rq.Unsized = true
	}
	return rq
}

func subsetsOf(n int) [][]int {
	r := [][]int{}
	for mask := 0; mask < 1<<n; mask++ {
		s := []int{}
		for i := 0; i < n; i++ {
			if mask&(1<<i) != 0 {
				s = append(s, i)
			}
		}
		r = append(r, s)
	}
	return r
}

// zl renders a body as a Coq list; long runs of equal bytes are run-length encoded (zrle in Run/CorrC17.v expands
// them), so that bodies far larger than any internal buffer can be part of a case without a huge literal.
func zl(l []int) string {
	if len(l) < 64 {
		return cw.ZL(l)
	}
	type run struct{ v, n int }
	var runs []run
	for _, x := range l {
		if len(runs) > 0 && runs[len(runs)-1].v == x {
			runs[len(runs)-1].n++
		} else {
			runs = append(runs, run{x, 1})
		}
	}
	if len(runs)*4 > len(l) {
		return cw.ZL(l)
	}
	parts := make([]string, len(runs))
	for i, r := range runs {
		parts[i] = fmt.Sprintf("(%s, %d)", cw.Z(r.v), r.n)
	}
	return "(zrle " + cw.L(parts) + ")"
}
func zll(ll [][]int) string {
	parts := make([]string, len(ll))
	for i, l := range ll {
		parts[i] = zl(l)
	}
	return cw.L(parts)
}

func main() {
	seed := flag.Int64("seed", 1, "")
	tier := flag.String("tier", "quick", "")
	out := flag.String("out", "", "")
	flag.Parse()
	log.SetOutput(io.Discard) // net/http reports superfluous WriteHeader calls of our handler programs here
	g := &gen{w: cw.New(*out, "CorrC17"), rng: rand.New(rand.NewSource(*seed))}
	g.w.Chunk = 200
	if err := os.MkdirAll(*out, 0o755); err != nil {
		fmt.Fprintln(os.Stderr, err)
		os.Exit(2)
	}
	var err error
	if g.cert, err = makeCert(*out); err != nil {
		fmt.Fprintln(os.Stderr, "certificate:", err)
		os.Exit(2)
	}
	g.httpsMw = reflect.ValueOf(serverConfig.BuildHttpsServiceConfig()).MethodByName("UsingMiddleWare").IsValid()
	thorough := *tier == "thorough"
	must := func(e error) {
		if e != nil {
			fmt.Fprintln(os.Stderr, "scenario failed (environment):", e)
			os.Exit(3)
		}
	}

	// --- corpus: the witnesses of Findings/MiddlewareFindings.v first ---
	echoPost := &listenerCfg{Calls: []route{{M: 2, P: 1, Ops: []hop{{Kind: "echo"}}}}, HasMw: true, Mw: []mwc{{Kind: "logreq"}}}
	getOnly := &listenerCfg{Calls: []route{{M: 0, P: 1, Ops: []hop{{Kind: "write", Bs: []int{1}}}}}}
	recOnly := &listenerCfg{Calls: []route{{M: 0, P: 1, Ops: []hop{{Kind: "write", Bs: []int{1}}}}}, HasMw: true, Mw: []mwc{{Kind: "rec", I: 1}}}
	must(g.run(&scenario{Group: "corpus", HTTP: getOnly, HTTPS: getOnly, Reqs: []request{{Listener: 1, M: 0, P: 1, H: []int{}, B: []int{}}, {Listener: 0, M: 0, P: 1, H: []int{}, B: []int{}}}}))
	must(g.run(&scenario{Group: "corpus", HTTP: echoPost, HTTPS: echoPost, Reqs: []request{{Listener: 0, M: 2, P: 1, H: []int{}, B: []int{104, 105}}, {Listener: 1, M: 2, P: 1, H: []int{}, B: []int{104, 105}}}}))
	must(g.run(&scenario{Group: "corpus", HTTP: recOnly, HTTPS: recOnly, Reqs: []request{{Listener: 1, M: 0, P: 1, H: []int{}, B: []int{}}, {Listener: 0, M: 0, P: 1, H: []int{}, B: []int{}}}}))

	for _, h2 := range []bool{false, true} {
		for _, mws := range [][]mwc{{{Kind: "logreq"}}, {{Kind: "logresp"}, {Kind: "logreq"}, {Kind: "rec", I: 1}}} {
			l := &listenerCfg{Calls: []route{{M: 2, P: 1, Ops: []hop{{Kind: "echo"}}}, {M: 3, P: 1, Ops: []hop{{Kind: "read", K: 2}, {Kind: "readall"}}}}, HasMw: true, Mw: mws,
				Direct: len(mws) == 1 && h2}
			must(g.run(&scenario{Group: "unsized", HTTP: l, HTTPS: l, H2: h2, TLSInCfg: h2, Reqs: []request{
				{Listener: 0, M: 2, P: 1, H: []int{}, B: []int{104, 105, 0, 255}, Unsized: true}, {Listener: 1, M: 2, P: 1, H: []int{}, B: []int{104, 105, 0, 255}, Unsized: true},
				{Listener: 0, M: 3, P: 1, H: []int{1, 2}, B: []int{7, 8, 9}, Unsized: true}, {Listener: 1, M: 3, P: 1, H: []int{1, 2}, B: []int{7, 8, 9}, Unsized: true},
				{Listener: 0, M: 2, P: 1, H: []int{}, B: []int{}, Unsized: true}, {Listener: 1, M: 2, P: 1, H: []int{}, B: []int{}, Unsized: true}}}))
		}
	}
	// the seeded-change witness for configuration sequences: GetRoutes, then AddRoute under a method already present
	{
		l := &listenerCfg{Calls: []route{{M: 0, P: 0, Ops: []hop{{Kind: "write", Bs: []int{1}}}}, {M: 0, P: 1, Ops: []hop{{Kind: "write", Bs: []int{2}}}}, {M: 0, P: 0, Ops: []hop{{Kind: "write", Bs: []int{3}}}}},
			Seq: []cfgStep{{Kind: "add", Idx: 0, Via: "builder"}, {Kind: "getroutes"}, {Kind: "add", Idx: 1, Via: "builder"}, {Kind: "add", Idx: 2, Via: "config"}}}
		sc := &scenario{Group: "cfgseq", HTTP: l, HTTPS: l}
		for ls := 0; ls < 2; ls++ {
			for _, mp := range [][2]int{{0, 0}, {0, 1}, {2, 1}, {0, 2}} {
				sc.Reqs = append(sc.Reqs, request{Listener: ls, M: mp[0], P: mp[1], H: []int{}, B: []int{}})
			}
		}
		must(g.run(sc))
	}

	// --- overlapping requests: N requests at once through the middleware chain; every handler waits until all N
	//     handlers have been entered and only then reads its body.  Whatever the interleaving, each handler must see
	//     exactly its own request and each client exactly its own response ---
	overlapN, overlapRounds := 8, 1
	if thorough {
		overlapN, overlapRounds = 16, 6
	}
	ovProgs := [][]hop{
		{{Kind: "barrier"}, {Kind: "echo"}},
		{{Kind: "obs"}, {Kind: "barrier"}, {Kind: "read", K: 3}, {Kind: "set", K: 1, V: 7}, {Kind: "readall"}, {Kind: "write", Bs: []int{1, 2}}},
	}
	ovMws := [][]mwc{{{Kind: "logreq"}}, {{Kind: "logreq"}, {Kind: "logresp"}}, {{Kind: "rec", I: 1}, {Kind: "logresp"}, {Kind: "logreq"}}, {{Kind: "logresp"}}, {}}
	for round := 0; round < overlapRounds; round++ {
		for mi, mws := range ovMws {
			for pi, pr := range ovProgs {
				for ls := 0; ls < 2; ls++ {
					l := &listenerCfg{Calls: []route{{M: 2, P: 1, Ops: pr}}, HasMw: true, Mw: mws, Direct: len(mws) == 1 && (mi+pi+ls)%2 == 0}
					sc := &scenario{Group: "overlap", HTTP: l, HTTPS: l, Overlap: true, H2: (mi+pi+round)%2 == 0, TLSInCfg: (mi+ls)%2 == 0}
					for k := 0; k < overlapN; k++ {
						body := make([]int, 24+8*(k%3))
						for i := range body {
							body[i] = 10 + k + 16*round
						}
						sc.Reqs = append(sc.Reqs, request{Listener: ls, M: 2, P: 1, H: []int{3, 100 + k}, B: body, Unsized: (k+pi)%4 == 0})
					}
					must(g.run(sc))
				}
			}
		}
	}

	// --- response writing: every sequence up to length WL over
	//     {WriteHeader(103), WriteHeader(102), WriteHeader(404), WriteHeader(201), Write([1]), Write([]), Flush, Header().Set}
	//     as a handler (interim then final status, final twice, WriteHeader after Write, none at all, empty Write,
	//     Flush in between, header changes after WriteHeader), behind LogResponse (bundled, direct, with others) and
	//     without it; what the client gets (interim responses included) must be the same ---
	WL := 2
	if thorough {
		WL = 3
	}
	wAlpha := []hop{{Kind: "status", K: 103}, {Kind: "status", K: 102}, {Kind: "status", K: 404}, {Kind: "status", K: 201},
		{Kind: "write", Bs: []int{1}}, {Kind: "write", Bs: []int{}}, {Kind: "flush"}, {Kind: "set", K: 1, V: 0}}
	var wProgs [][]hop
	var recW func(cur []hop)
	recW = func(cur []hop) {
		if len(cur) > 0 {
			wProgs = append(wProgs, append([]hop{}, cur...))
		}
		if len(cur) == WL {
			return
		}
		for _, a := range wAlpha {
			if a.Kind == "set" {
				a.V = 10 + len(cur) // different values at different positions
			}
			recW(append(cur, a))
		}
	}
	recW(nil)
	if !thorough { // a seeded sample of the length-3 programs on top of all shorter ones
		for k := 0; k < 16; k++ {
			pr := []hop{}
			for j := 0; j < 3; j++ {
				a := wAlpha[g.rng.Intn(len(wAlpha))]
				if a.Kind == "set" {
					a.V = 10 + j
				}
				pr = append(pr, a)
			}
			wProgs = append(wProgs, pr)
		}
	}
	wMws := []struct {
		mw     []mwc
		direct bool
	}{{[]mwc{{Kind: "logresp"}}, false}, {[]mwc{{Kind: "logresp"}}, true}, {[]mwc{{Kind: "logreq"}, {Kind: "logresp"}, {Kind: "rec", I: 1}, {Kind: "logresp"}}, false}, {[]mwc{{Kind: "rec", I: 1}}, false}}
	for base := 0; base < len(wProgs); base += 8 { // few routes per server: every case carries its whole configuration
		end := base + 8
		if end > len(wProgs) {
			end = len(wProgs)
		}
		for wi, wm := range wMws {
			l := &listenerCfg{HasMw: true, Mw: wm.mw, Direct: wm.direct}
			sc := &scenario{Group: "respwrite", HTTP: l, HTTPS: l, H2: (wi+base/8)%2 == 0, TLSInCfg: wi%2 == 0}
			for k := base; k < end; k++ {
				l.Calls = append(l.Calls, route{M: 0, P: 8 + (k - base), Ops: wProgs[k]})
				sc.Reqs = append(sc.Reqs, request{Listener: (k + wi) % 2, M: 0, P: 8 + (k - base), H: []int{}, B: []int{}})
			}
			must(g.run(sc))
		}
	}

	// --- route patterns beyond literals, against a reference ServeMux: subtrees, "/", wildcards, {$}, request paths
	//     that need cleaning ---
	muxUniv := [][2]int{{0, 0}, {0, 1}, {2, 1}, {0, 2}, {0, 3}, {0, 4}, {0, 5}, {0, 6}, {0, 7}, {0, 8}} // (method, index into muxPatterns)
	nMux := 20
	if thorough {
		nMux = 500
	}
	mkMuxReqs := func(k int) []request {
		var reqs []request
		for qi, pid := range muxRequestID {
			reqs = append(reqs, request{Listener: (qi + k) % 2, M: 0, P: pid, H: []int{}, B: []int{}})
			if (qi+k)%3 == 0 {
				reqs = append(reqs, request{Listener: (qi + k + 1) % 2, M: 2, P: pid, H: []int{}, B: []int{}})
			}
			if (qi+k)%4 == 1 {
				reqs = append(reqs, request{Listener: (qi + k) % 2, M: 1, P: pid, H: []int{}, B: []int{}})
			}
		}
		return reqs
	}
	for k := 0; k < nMux+len(muxUniv)+1; k++ {
		var rts []route
		add := func(u [2]int) {
			rts = append(rts, route{M: u[0], P: muxPatternID[u[1]], Ops: []hop{{Kind: "write", Bs: []int{len(rts)}}}})
		}
		switch {
		case k < len(muxUniv): // every pattern alone
			add(muxUniv[k])
		case k == len(muxUniv): // all of them
			for _, u := range muxUniv {
				add(u)
			}
		default:
			for _, u := range muxUniv {
				if g.rng.Intn(2) == 0 {
					add(u)
				}
			}
			if g.rng.Intn(3) == 0 && len(rts) > 0 { // the same pair registered again: the later handler
				u := rts[g.rng.Intn(len(rts))]
				rts = append(rts, route{M: u.M, P: u.P, Ops: []hop{{Kind: "write", Bs: []int{len(rts)}}}})
			}
		}
		must(g.runMux(rts, k%2 == 0, mkMuxReqs(k), k%4 < 2, k%3 == 0))
	}

	// --- handlers that end in a panic (http.ErrAbortHandler or an ordinary value), after nothing / headers / partial
	//     writes / a flush: with and without the logging middleware the client must see the same outcome (aborted or
	//     completed, what arrived before) and recovering middleware the same panic value ---
	PL := 2
	if thorough {
		PL = 3
	}
	pAlpha := []hop{{Kind: "set", K: 1, V: 5}, {Kind: "status", K: 201}, {Kind: "write", Bs: []int{1, 2}}, {Kind: "flush"}, {Kind: "status", K: 103}}
	var pProgs [][]hop
	var recP func(cur []hop)
	recP = func(cur []hop) {
		for _, end := range []int{0, 3, -1} { // ErrAbortHandler, an ordinary value, no panic
			pr := append([]hop{}, cur...)
			if end >= 0 {
				pr = append(pr, hop{Kind: "panic", K: end})
			}
			pProgs = append(pProgs, pr)
		}
		if len(cur) == PL {
			return
		}
		for _, a := range pAlpha {
			recP(append(cur, a))
		}
	}
	recP(nil)
	pMws := []struct {
		mw     []mwc
		direct bool
	}{{[]mwc{{Kind: "prec", I: 1}, {Kind: "logresp"}}, false}, {[]mwc{{Kind: "logresp"}}, true},
		{[]mwc{{Kind: "prec", I: 1}, {Kind: "logreq"}, {Kind: "logresp"}, {Kind: "rec", I: 2}, {Kind: "logresp"}, {Kind: "prec", I: 3}}, false}}
	for base := 0; base < len(pProgs); base += 8 {
		end := base + 8
		if end > len(pProgs) {
			end = len(pProgs)
		}
		for wi, pm := range pMws {
			var calls []route
			var reqs []request
			for k := base; k < end; k++ {
				calls = append(calls, route{M: 2, P: 8 + (k - base), Ops: pProgs[k]})
				for ls := 0; ls < 2; ls++ { // POST without a body: the client never re-sends it after a broken connection
					reqs = append(reqs, request{Listener: ls, M: 2, P: 8 + (k - base), H: []int{}, B: []int{}, MayAbort: true})
				}
			}
			must(g.runPair("panic", calls, pm.mw, pm.direct, reqs, (wi+base/8)%2 == 0, wi%2 == 1))
		}
	}

	// --- G1: routing, exhaustive: every subset of {GET,HEAD,POST} x {/p0,/p1}, every request of
	//         {GET,HEAD,POST,PUT} x {/p0,/p1,/p2}, on both listeners ---
	univ := [][2]int{{0, 0}, {1, 0}, {2, 0}, {0, 1}, {1, 1}, {2, 1}}
	for si, sub := range subsetsOf(len(univ)) {
		l := &listenerCfg{}
		for _, i := range sub {
			l.Calls = append(l.Calls, route{M: univ[i][0], P: univ[i][1], Ops: []hop{{Kind: "write", Bs: []int{10 + i}}}})
		}
		sc := &scenario{Group: "route", HTTP: l, HTTPS: l, TLSInCfg: si%2 == 1, H2: si%4 >= 2}
		for _, m := range []int{0, 1, 2, 3} {
			for _, p := range []int{0, 1, 2} {
				for ls := 0; ls < 2; ls++ {
					if !thorough && (m+p+si+ls)%2 == 1 { // quick tier: each request on one of the listeners, alternating
						continue
					}
					sc.Reqs = append(sc.Reqs, request{Listener: ls, M: m, P: p, H: []int{}, B: []int{}})
				}
			}
		}
		must(g.run(sc))
	}
	// --- G1b: AddRoute called repeatedly for the same pair (the last one wins) ---
	nDup := 12
	if thorough {
		nDup = 300
	}
	for k := 0; k < nDup; k++ {
		l := &listenerCfg{}
		n := 2 + g.rng.Intn(6)
		for i := 0; i < n; i++ {
			u := univ[g.rng.Intn(4)]
			l.Calls = append(l.Calls, route{M: u[0], P: u[1], Ops: []hop{{Kind: "write", Bs: []int{30 + i}}}})
		}
		sc := &scenario{Group: "route-dup", HTTP: l, HTTPS: l, TLSInCfg: k%2 == 0, H2: k%3 == 0}
		for _, m := range []int{0, 1, 2} {
			for _, p := range []int{0, 1} {
				sc.Reqs = append(sc.Reqs, request{Listener: k % 2, M: m, P: p, H: []int{}, B: []int{}})
			}
		}
		must(g.run(sc))
	}

	// --- G1c: a second exhaustive universe: other methods, paths that share prefixes, HEAD on GET routes ---
	univ2 := [][2]int{{0, 3}, {3, 3}, {0, 4}, {4, 7}, {6, 0}} // GET /a/b, PUT /a/b, GET /a/b/c, DELETE /p0/q, OPTIONS /p0
	for si, sub := range subsetsOf(len(univ2)) {
		l := &listenerCfg{}
		for _, i := range sub {
			l.Calls = append(l.Calls, route{M: univ2[i][0], P: univ2[i][1], Ops: []hop{{Kind: "write", Bs: []int{20 + i}}}})
		}
		sc := &scenario{Group: "route2", HTTP: l, HTTPS: l, TLSInCfg: si%2 == 0, H2: si%4 < 2}
		k := 0
		for _, m := range []int{0, 1, 3, 4, 6} {
			for _, p := range []int{3, 4, 7, 0} {
				sc.Reqs = append(sc.Reqs, request{Listener: (k + si) % 2, M: m, P: p, H: []int{}, B: []int{}})
				k++
			}
		}
		must(g.run(sc))
	}
	// --- G1d: configuration call SEQUENCES, exhaustive: every sequence up to length SL over
	//          {AddRoute(GET,/p0,h) [a second time = replacement], AddRoute(GET,/p1,h), AddRoute(POST,/p0,h), GetRoutes}
	//          that contains a GetRoutes and an AddRoute; adds alternate between builder and config object ---
	SL := 3
	if thorough {
		SL = 5
	}
	alphaPairs := [][2]int{{0, 0}, {0, 1}, {2, 0}} // symbol k < 3: AddRoute(alphaPairs[k]); symbol 3: GetRoutes
	var seqs [][]int
	var recSeq func(cur []int)
	recSeq = func(cur []int) {
		if len(cur) > 0 {
			hasGet, hasAdd := false, false
			for _, x := range cur {
				if x == 3 {
					hasGet = true
				} else {
					hasAdd = true
				}
			}
			if hasGet && hasAdd {
				seqs = append(seqs, append([]int{}, cur...))
			}
		}
		if len(cur) == SL {
			return
		}
		for x := 0; x < 4; x++ {
			recSeq(append(cur, x))
		}
	}
	recSeq(nil)
	for qi, sq := range seqs {
		l := &listenerCfg{Seq: []cfgStep{}}
		for j, x := range sq {
			if x == 3 {
				l.Seq = append(l.Seq, cfgStep{Kind: "getroutes"})
				continue
			}
			l.Calls = append(l.Calls, route{M: alphaPairs[x][0], P: alphaPairs[x][1], Ops: []hop{{Kind: "write", Bs: []int{40 + len(l.Calls)}}}})
			via := "builder"
			if (j+qi)%2 == 1 {
				via = "config"
			}
			l.Seq = append(l.Seq, cfgStep{Kind: "add", Idx: len(l.Calls) - 1, Via: via})
		}
		if qi%3 == 1 { // with a middleware configured after the reads
			l.HasMw, l.Mw = true, []mwc{{Kind: "rec", I: 1}}
			l.Seq = append(l.Seq, cfgStep{Kind: "getmw"}, cfgStep{Kind: "usemw", Via: []string{"builder", "config"}[qi%2]}, cfgStep{Kind: "getmw"}, cfgStep{Kind: "getroutes"})
		}
		sc := &scenario{Group: "cfgseq", HTTP: l, HTTPS: l, TLSInCfg: qi%2 == 0, H2: qi%4 == 0}
		for k, mp := range [][2]int{{0, 0}, {0, 1}, {2, 0}, {2, 1}, {1, 1}} {
			sc.Reqs = append(sc.Reqs, request{Listener: (k + qi) % 2, M: mp[0], P: mp[1], H: []int{}, B: []int{}})
			if k < 3 {
				sc.Reqs = append(sc.Reqs, request{Listener: (k + qi + 1) % 2, M: mp[0], P: mp[1], H: []int{}, B: []int{}})
			}
		}
		must(g.run(sc))
	}

	// --- G2: middleware lists, exhaustive over {LogRequest, LogResponse, rec 1, rec 2} up to length L ---
	alpha := []mwc{{Kind: "logreq"}, {Kind: "logresp"}, {Kind: "rec", I: 1}, {Kind: "rec", I: 2}}
	L := 3
	if thorough {
		L = 5
	}
	progs := [][]hop{
		{{Kind: "echo"}},
		{{Kind: "obs"}, {Kind: "read", K: 2}, {Kind: "set", K: 1, V: 5}, {Kind: "status", K: 201}, {Kind: "readall"}, {Kind: "write", Bs: []int{7, 8}}},
		{{Kind: "echohdr", K: 2}, {Kind: "write", Bs: []int{1}}, {Kind: "set", K: 3, V: 9}, {Kind: "gethdr"}, {Kind: "status", K: 500}},
		{},
	}
	var lists [][]mwc
	var rec func(cur []mwc)
	rec = func(cur []mwc) {
		lists = append(lists, append([]mwc{}, cur...))
		if len(cur) == L {
			return
		}
		for _, a := range alpha {
			rec(append(cur, a))
		}
	}
	rec(nil)
	for li, ml := range lists {
		variants := []bool{false}
		if len(ml) == 1 {
			variants = []bool{false, true}
		}
		for _, direct := range variants {
			l := &listenerCfg{HasMw: true, Mw: ml, Direct: direct}
			for pi, pr := range progs {
				l.Calls = append(l.Calls, route{M: 2, P: pi, Ops: pr})
			}
			sc := &scenario{Group: "mw", HTTP: l, HTTPS: l, TLSInCfg: li%2 == 0, H2: li%3 == 0}
			for pi := range progs {
				body := []int{}
				if (pi+li)%2 == 0 || pi == 0 {
					body = []int{104, 105, 33, 0, 255}
				}
				sc.Reqs = append(sc.Reqs, request{Listener: (li + pi) % 2, M: 2, P: pi, H: []int{2, 40 + pi}, B: body, Unsized: len(body) > 0 && (li/2)%2 == 1})
			}
			must(g.run(sc))
		}
	}
	// no UsingMiddleWare at all, and an empty bundle
	for _, l := range []*listenerCfg{{Calls: []route{{M: 2, P: 0, Ops: progs[0]}}}, {Calls: []route{{M: 2, P: 0, Ops: progs[0]}}, HasMw: true, Mw: []mwc{}}} {
		must(g.run(&scenario{Group: "mw", HTTP: l, HTTPS: l, Reqs: []request{{Listener: 0, M: 2, P: 0, H: []int{}, B: []int{1, 2}}, {Listener: 1, M: 2, P: 0, H: []int{}, B: []int{1, 2}}}}))
	}

	// --- G3: structured random configurations ---
	nRand := 100
	if thorough {
		nRand = 2500
	}
	for k := 0; k < nRand; k++ {
		sc := &scenario{Group: "rand", HTTP: g.randListener(), HTTPS: g.randListener(), TLSInCfg: g.rng.Intn(2) == 0, H2: g.rng.Intn(2) == 0}
		for i := 0; i < 8; i++ {
			if g.rng.Intn(2) == 0 {
				sc.Reqs = append(sc.Reqs, g.randReq(0, sc.HTTP))
			} else {
				sc.Reqs = append(sc.Reqs, g.randReq(1, sc.HTTPS))
			}
		}
		must(g.run(sc))
	}
	// larger bodies (several reads, above net/http's 4 KiB write buffer in the thorough tier)
	sizes := []int{300}
	if thorough {
		sizes = []int{300, 5000}
	}
	for _, sz := range sizes {
		body := make([]int, sz)
		for i := range body {
			body[i] = (i*7 + 3) % 256
		}
		l := &listenerCfg{Calls: []route{{M: 2, P: 0, Ops: []hop{{Kind: "read", K: 100}, {Kind: "echo"}}}}, HasMw: true,
			Mw: []mwc{{Kind: "logresp"}, {Kind: "rec", I: 1}, {Kind: "logreq"}}}
		must(g.run(&scenario{Group: "bigbody", HTTP: l, HTTPS: l, H2: true,
			Reqs: []request{{Listener: 0, M: 2, P: 0, H: []int{}, B: body}, {Listener: 1, M: 2, P: 0, H: []int{}, B: body},
				{Listener: 0, M: 2, P: 0, H: []int{}, B: body, Unsized: true}, {Listener: 1, M: 2, P: 0, H: []int{}, B: body, Unsized: true}}}))
	}

	// bodies far above typical internal buffers/caps (64 KiB and more), as long runs so that the case stays small
	hugeSizes := []int{70000}
	if thorough {
		hugeSizes = []int{70000, 300000, 1100000}
	}
	for _, sz := range hugeSizes {
		body := make([]int, sz)
		for i := range body {
			body[i] = 97 + (i/(sz/3+1))%3
		}
		for mi, mws := range [][]mwc{{{Kind: "logresp"}, {Kind: "rec", I: 1}, {Kind: "logreq"}}, {{Kind: "logreq"}, {Kind: "logresp"}}, {{Kind: "rec", I: 1}}} {
			l := &listenerCfg{Calls: []route{{M: 2, P: 0, Ops: []hop{{Kind: "echo"}}}}, HasMw: true, Mw: mws}
			must(g.run(&scenario{Group: "hugebody", HTTP: l, HTTPS: l, H2: true,
				Reqs: []request{{Listener: 0, M: 2, P: 0, H: []int{}, B: body, Unsized: mi == 1}, {Listener: 1, M: 2, P: 0, H: []int{}, B: body, Unsized: mi != 1}}}))
		}
	}

	// --- G4: gRPC: every subset of the five descriptors, with re-registration and initializers ---
	for si, sub := range subsetsOf(len(descs)) {
		if !thorough && si%2 == 1 && si > 8 && si < 31 {
			continue
		}
		sc := &scenario{Group: "grpc", UseGrpc: true, Reflection: si%2 == 0, GrpcCalls: []int{0, 1, 2, 3, 4}, GrpcGetters: si%3 != 1}
		for j, d := range sub {
			impl := 10*d + 1
			if d == 0 && si%4 < 2 {
				impl = 0 // the example implementation
			}
			if j%2 == 1 && si%3 == 0 {
				sc.GrpcInit = append(sc.GrpcInit, grpcReg{D: d, Impl: impl})
			} else {
				sc.Grpc = append(sc.Grpc, grpcReg{D: d, Impl: impl})
				if si%5 == 0 { // the same descriptor registered again: the map keeps the later implementation
					sc.Grpc = append(sc.Grpc, grpcReg{D: d, Impl: impl + 1})
				}
			}
		}
		if si%7 == 3 { // together with the HTTP listeners
			l := &listenerCfg{Calls: []route{{M: 0, P: 0, Ops: []hop{{Kind: "write", Bs: []int{1}}}}}}
			sc.HTTP, sc.HTTPS = l, l
			sc.Reqs = []request{{Listener: 0, M: 0, P: 0, H: []int{}, B: []int{}}, {Listener: 1, M: 0, P: 0, H: []int{}, B: []int{}}}
		}
		must(g.run(sc))
	}

	g.w.Extra["scope"] = fmt.Sprintf("routing: all %d subsets of 6 (method,path) pairs x 12 requests x 2 listeners, %d repeated-AddRoute configs; middleware: all %d lists over {LogRequest,LogResponse,rec1,rec2} up to length %d x %d handler programs; %d random configurations x 8 requests; gRPC: subsets of %d descriptors; HTTPS with files and with tls.Config, HTTP/1.1 and HTTP/2",
		1<<len(univ), nDup, len(lists), L, len(progs), nRand, len(descs))
	g.w.Extra["scope"] = g.w.Extra["scope"].(string) + fmt.Sprintf("; second routing universe: all %d subsets of 5 pairs (GET/PUT /a/b, GET /a/b/c, DELETE /p0/q, OPTIONS /p0) x 20 requests; configuration call sequences: all %d sequences up to length %d over {3 AddRoute symbols, GetRoutes} with a GetRoutes and an AddRoute (adds via builder and via the config object, middleware set after reads), half of the random configurations as call sequences with getters and replaced middleware; request bodies with and without Content-Length (chunked / unsized h2)", 1<<len(univ2), len(seqs), SL)
	g.w.Extra["scope"] = g.w.Extra["scope"].(string) + fmt.Sprintf("; overlapping requests: %d rounds x 5 middleware lists x 2 handler programs x 2 listeners, %d requests at once meeting at a barrier inside their handlers before reading", overlapRounds, overlapN)
	g.w.Extra["scope"] = g.w.Extra["scope"].(string) + fmt.Sprintf("; response writing: %d handler programs (all sequences up to length %d over 103/102/404/201 WriteHeader, Write, empty Write, Flush, Header().Set) x 4 middleware settings", len(wProgs), WL)
	g.w.Extra["scope"] = g.w.Extra["scope"].(string) + fmt.Sprintf("; reference ServeMux: %d route sets over 10 (method, pattern) pairs (subtrees, /, {id}, {$}, {p...}, literals) x %d request paths incl. ones needing cleaning; panics: %d handler programs (prefix up to length %d, ending in ErrAbortHandler / an ordinary panic / return) x 3 middleware lists, each on a server with and one without the logging middleware", nMux+len(muxUniv)+1, len(muxRequests), len(pProgs), PL)
	g.w.Extra["mux_route_sets_rejected_by_servemux"] = g.muxSkipped
	g.w.Extra["read_accessor_calls_during_configuration"] = g.gettersCalled
	g.w.Extra["servers_started"] = g.servers
	g.w.Extra["requests_sent"] = g.requests
	g.w.Extra["scenario_retries"] = g.retries
	g.w.Extra["time_in_stop_s"] = g.stopTime.Seconds()
	g.w.Extra["time_waiting_reachable_s"] = g.waitTime.Seconds()
	g.w.Extra["https_builder_has_UsingMiddleWare"] = g.httpsMw
	if err := g.w.Flush(); err != nil {
		fmt.Fprintln(os.Stderr, err)
		os.Exit(2)
	}
}
