// Harness for C17: starts the real server.Server on loopback (HTTP, HTTPS with a certificate generated
// here, gRPC), sends real requests and records what the client, recording handlers / middleware and
// the logger observe.  Every exchange becomes one case evaluated in Coq by Run/CorrC17.v.
package main

import (
	"bytes"
	"context"
	"crypto/ecdsa"
	"crypto/elliptic"
	crand "crypto/rand"
	"crypto/tls"
	"crypto/x509"
	"crypto/x509/pkix"
	"encoding/pem"
	"flag"
	"fmt"
	"io"
	"log"
	"log/slog"
	"math/big"
	"math/rand"
	"net"
	"net/http"
	"os"
	"path/filepath"
	"reflect"
	"sort"
	"strconv"
	"strings"
	"sync"
	"time"

	"github.com/rbell/toolchest/server"
	"github.com/rbell/toolchest/server/example/grpcService"
	"github.com/rbell/toolchest/server/example/proto"
	"github.com/rbell/toolchest/server/httpMiddleware"
	"github.com/rbell/toolchest/server/serverConfig"
	"google.golang.org/grpc"
	"google.golang.org/grpc/codes"
	"google.golang.org/grpc/credentials/insecure"
	rpb "google.golang.org/grpc/reflection/grpc_reflection_v1"
	"google.golang.org/grpc/status"
	"verifharness/internal/cw"
)

var methods = []string{"GET", "HEAD", "POST", "PUT", "DELETE", "PATCH", "OPTIONS"}
var paths = []string{"/p0", "/p1", "/p2", "/a/b", "/a/b/c", "/x.y", "/UP", "/p0/q"}

func methodID(m string) int {
	for i, x := range methods {
		if x == m {
			return i
		}
	}
	return -1
}
func pathID(p string) int {
	for i, x := range paths {
		if x == p {
			return i
		}
	}
	return -1
}

// ---------- recorder ----------
type recorder struct {
	mu sync.Mutex
	ev [][]int
}

func (r *recorder) add(e ...int) {
	r.mu.Lock()
	r.ev = append(r.ev, append([]int{}, e...))
	r.mu.Unlock()
}
func (r *recorder) take() [][]int {
	r.mu.Lock()
	defer r.mu.Unlock()
	e := r.ev
	r.ev = nil
	if e == nil {
		e = [][]int{}
	}
	return e
}

func bytesToInts(b []byte) []int {
	r := make([]int, len(b))
	for i, x := range b {
		r[i] = int(x)
	}
	return r
}
func intsToBytes(l []int) []byte {
	r := make([]byte, len(l))
	for i, x := range l {
		r[i] = byte(x)
	}
	return r
}

// projection of a header map onto the X-V-<k>: <v> entries, sorted by k, flattened
func projHdr(h http.Header) []int {
	type kv struct{ k, v int }
	var l []kv
	for name, vals := range h {
		if strings.HasPrefix(name, "X-V-") && len(vals) > 0 {
			k, e1 := strconv.Atoi(name[4:])
			v, e2 := strconv.Atoi(vals[0])
			if e1 == nil && e2 == nil {
				l = append(l, kv{k, v})
			}
		}
	}
	sort.Slice(l, func(i, j int) bool { return l[i].k < l[j].k })
	r := []int{}
	for _, x := range l {
		r = append(r, x.k, x.v)
	}
	return r
}

// logger handed to the server: captures the two messages of the supplied logging middleware
type capLogger struct{ rec *recorder }

func (c *capLogger) InfoContext(ctx context.Context, msg string, args ...any) {
	for _, a := range args {
		at, ok := a.(slog.Attr)
		if !ok {
			continue
		}
		switch d := at.Value.Any().(type) {
		case httpMiddleware.RequestLogDetail:
			e := []int{5, methodID(d.Method), pathID(d.URL)}
			c.rec.add(append(e, bytesToInts([]byte(d.Body))...)...)
		case httpMiddleware.ResponseLogDetail:
			st, _ := strconv.Atoi(d.StatusCode)
			e := []int{6, methodID(d.Method), pathID(d.URL), st}
			c.rec.add(append(e, bytesToInts([]byte(d.Response))...)...)
		}
	}
}
func (c *capLogger) Info(msg string, args ...any)                              {}
func (c *capLogger) WarnContext(ctx context.Context, msg string, args ...any)  {}
func (c *capLogger) Warn(msg string, args ...any)                              {}
func (c *capLogger) ErrorContext(ctx context.Context, msg string, args ...any) {}
func (c *capLogger) Error(msg string, args ...any)                             {}

// ---------- handler programs ----------
type hop struct {
	Kind string `json:"op"`
	K    int    `json:"k,omitempty"`
	V    int    `json:"v,omitempty"`
	Bs   []int  `json:"bs,omitempty"`
}

func (o hop) coq() string {
	switch o.Kind {
	case "obs":
		return "OObs"
	case "read":
		return "ORead " + cw.Z(o.K)
	case "readall":
		return "OReadAll"
	case "gethdr":
		return "OGetHdr"
	case "set":
		return fmt.Sprintf("OSet %s %s", cw.Z(o.K), cw.Z(o.V))
	case "status":
		return "OStatus " + cw.Z(o.K)
	case "write":
		return "OWrite " + cw.ZL(o.Bs)
	case "echo":
		return "OEcho"
	case "echohdr":
		return "OEchoHdr " + cw.Z(o.K)
	}
	panic("bad op " + o.Kind)
}
func opsCoq(ops []hop) string {
	p := make([]string, len(ops))
	for i, o := range ops {
		p[i] = o.coq()
	}
	return cw.L(p)
}

func runOps(ops []hop, w http.ResponseWriter, r *http.Request, rec *recorder) {
	obs := func() {
		e := []int{2, methodID(r.Method), pathID(r.URL.Path)}
		rec.add(append(e, projHdr(r.Header)...)...)
	}
	for _, o := range ops {
		switch o.Kind {
		case "obs":
			obs()
		case "read":
			buf := make([]byte, o.K)
			n, _ := io.ReadFull(r.Body, buf)
			rec.add(append([]int{3}, bytesToInts(buf[:n])...)...)
		case "readall":
			b, _ := io.ReadAll(r.Body)
			rec.add(append([]int{3}, bytesToInts(b)...)...)
		case "gethdr":
			rec.add(append([]int{4}, projHdr(w.Header())...)...)
		case "set":
			w.Header().Set("X-V-"+strconv.Itoa(o.K), strconv.Itoa(o.V))
		case "status":
			w.WriteHeader(o.K)
		case "write":
			w.Write(intsToBytes(o.Bs))
		case "echo":
			b, _ := io.ReadAll(r.Body)
			rec.add(append([]int{3}, bytesToInts(b)...)...)
			w.Write(b)
		case "echohdr":
			obs()
			if v := r.Header.Get("X-V-" + strconv.Itoa(o.K)); v != "" {
				w.Header().Set("X-V-"+strconv.Itoa(o.K), v)
			}
		}
	}
}

type mwc struct {
	Kind string `json:"mw"`
	I    int    `json:"i,omitempty"`
	Pre  []hop  `json:"pre,omitempty"`
	Post []hop  `json:"post,omitempty"`
}

func (m mwc) coq() string {
	switch m.Kind {
	case "logreq":
		return "MLogReq"
	case "logresp":
		return "MLogResp"
	case "rec":
		return "MRec " + cw.Z(m.I)
	case "scr":
		return fmt.Sprintf("MScr %s %s", opsCoq(m.Pre), opsCoq(m.Post))
	}
	panic("bad mw")
}
func (m mwc) build(rec *recorder, lg *capLogger) httpMiddleware.HttpHandlerMiddleware {
	switch m.Kind {
	case "logreq":
		return httpMiddleware.LogRequest(lg)
	case "logresp":
		return httpMiddleware.LogResponse(lg)
	case "rec":
		return func(next http.HandlerFunc) http.HandlerFunc {
			return func(w http.ResponseWriter, r *http.Request) {
				rec.add(0, m.I)
				next(w, r)
				rec.add(1, m.I)
			}
		}
	case "scr":
		return func(next http.HandlerFunc) http.HandlerFunc {
			return func(w http.ResponseWriter, r *http.Request) {
				runOps(m.Pre, w, r, rec)
				next(w, r)
				runOps(m.Post, w, r, rec)
			}
		}
	}
	panic("bad mw")
}

type route struct {
	M   int   `json:"method"`
	P   int   `json:"path"`
	Ops []hop `json:"handler"`
}

type listenerCfg struct {
	Calls  []route `json:"addroute_calls"`
	HasMw  bool    `json:"has_middleware"`
	Mw     []mwc   `json:"middleware"`
	Direct bool    `json:"direct"`
}

func (l *listenerCfg) callsCoq() string {
	p := make([]string, len(l.Calls))
	for i, c := range l.Calls {
		p[i] = fmt.Sprintf("(%s, %s, %s)", cw.Z(c.M), cw.Z(c.P), opsCoq(c.Ops))
	}
	return cw.L(p)
}
func (l *listenerCfg) mwCoq() string {
	if !l.HasMw {
		return "None"
	}
	p := make([]string, len(l.Mw))
	for i, m := range l.Mw {
		p[i] = m.coq()
	}
	return "(Some " + cw.L(p) + ")"
}
func (l *listenerCfg) middleware(rec *recorder, lg *capLogger) httpMiddleware.HttpHandlerMiddleware {
	if !l.HasMw {
		return nil
	}
	ms := make([]httpMiddleware.HttpHandlerMiddleware, len(l.Mw))
	for i, m := range l.Mw {
		ms[i] = m.build(rec, lg)
	}
	if l.Direct && len(ms) == 1 {
		return ms[0]
	}
	return httpMiddleware.BundleMiddleware(ms...)
}

type request struct {
	Listener int   `json:"listener"` // 0 http, 1 https
	M        int   `json:"method"`
	P        int   `json:"path"`
	H        []int `json:"headers"` // flattened sorted (k,v)
	B        []int `json:"body"`
}

type grpcReg struct {
	D    int `json:"desc"`
	Impl int `json:"impl"`
}

type scenario struct {
	Group      string
	HTTP       *listenerCfg
	HTTPS      *listenerCfg
	TLSInCfg   bool // certificate passed through WithTlsConfig instead of files
	H2         bool
	Reqs       []request
	Grpc       []grpcReg // RegisterImplementation calls
	GrpcInit   []grpcReg // registered by an initializer
	UseGrpc    bool
	Reflection bool
	GrpcCalls  []int
}

// ---------- certificate ----------
type certMat struct {
	certFile, keyFile string
	cert              tls.Certificate
	pool              *x509.CertPool
}

func makeCert(dir string) (*certMat, error) {
	key, err := ecdsa.GenerateKey(elliptic.P256(), crand.Reader)
	if err != nil {
		return nil, err
	}
	tmpl := &x509.Certificate{
		SerialNumber: big.NewInt(time.Now().UnixNano()), Subject: pkix.Name{CommonName: "verif-c17"},
		NotBefore: time.Now().Add(-time.Hour), NotAfter: time.Now().Add(24 * time.Hour),
		KeyUsage: x509.KeyUsageDigitalSignature | x509.KeyUsageCertSign, ExtKeyUsage: []x509.ExtKeyUsage{x509.ExtKeyUsageServerAuth},
		BasicConstraintsValid: true, IsCA: true,
		IPAddresses: []net.IP{net.ParseIP("127.0.0.1")}, DNSNames: []string{"localhost"},
	}
	der, err := x509.CreateCertificate(crand.Reader, tmpl, tmpl, &key.PublicKey, key)
	if err != nil {
		return nil, err
	}
	kb, err := x509.MarshalECPrivateKey(key)
	if err != nil {
		return nil, err
	}
	cp := pem.EncodeToMemory(&pem.Block{Type: "CERTIFICATE", Bytes: der})
	kp := pem.EncodeToMemory(&pem.Block{Type: "EC PRIVATE KEY", Bytes: kb})
	m := &certMat{certFile: filepath.Join(dir, "cert.pem"), keyFile: filepath.Join(dir, "key.pem")}
	if err := os.WriteFile(m.certFile, cp, 0o600); err != nil {
		return nil, err
	}
	if err := os.WriteFile(m.keyFile, kp, 0o600); err != nil {
		return nil, err
	}
	m.cert, err = tls.X509KeyPair(cp, kp)
	if err != nil {
		return nil, err
	}
	m.pool = x509.NewCertPool()
	m.pool.AppendCertsFromPEM(cp)
	return m, nil
}

// ---------- ports ----------
var portRng = rand.New(rand.NewSource(int64(os.Getpid())*7919 + time.Now().UnixNano()))

// freePort probes ports below the kernel's ephemeral range (so nobody gets them by asking for :0).
func freePort(used map[int]bool) int {
	for i := 0; i < 2000; i++ {
		p := 20000 + portRng.Intn(12000)
		if used[p] {
			continue
		}
		l, err := net.Listen("tcp", fmt.Sprintf(":%d", p))
		if err != nil {
			continue
		}
		l.Close()
		used[p] = true
		return p
	}
	panic("no free port")
}

func waitReachable(port int, d time.Duration) bool {
	dl := time.Now().Add(d)
	for time.Now().Before(dl) {
		c, err := net.DialTimeout("tcp", fmt.Sprintf("127.0.0.1:%d", port), 500*time.Millisecond)
		if err == nil {
			c.Close()
			return true
		}
		time.Sleep(5 * time.Millisecond)
	}
	return false
}

// ---------- gRPC services ----------
type echoer interface {
	Echo(context.Context, *proto.HelloRequest) (*proto.HelloReply, error)
}
type echoImpl struct{ id int }

func (e *echoImpl) Echo(ctx context.Context, in *proto.HelloRequest) (*proto.HelloReply, error) {
	return &proto.HelloReply{Message: "impl:" + strconv.Itoa(e.id)}, nil
}

// an own implementation of the example service (besides example/grpcService.HelloService = impl 0)
type helloImpl struct {
	proto.UnimplementedHelloServiceServer
	id int
}

func (h *helloImpl) SayHello(ctx context.Context, in *proto.HelloRequest) (*proto.HelloReply, error) {
	return &proto.HelloReply{Message: "impl:" + strconv.Itoa(h.id)}, nil
}

func echoHandler(srv any, ctx context.Context, dec func(any) error, _ grpc.UnaryServerInterceptor) (any, error) {
	in := new(proto.HelloRequest)
	if err := dec(in); err != nil {
		return nil, err
	}
	return srv.(echoer).Echo(ctx, in)
}

// descriptor 0 = the example's HelloService; 1..4 = hand-written descriptors verif.Svc<i>
var descs = func() []*grpc.ServiceDesc {
	r := []*grpc.ServiceDesc{&proto.HelloService_ServiceDesc}
	for i := 1; i <= 4; i++ {
		r = append(r, &grpc.ServiceDesc{
			ServiceName: "verif.Svc" + strconv.Itoa(i), HandlerType: (*echoer)(nil),
			Methods:  []grpc.MethodDesc{{MethodName: "Echo", Handler: echoHandler}},
			Streams:  []grpc.StreamDesc{},
			Metadata: "verif",
		})
	}
	return r
}()

func grpcImpl(d, impl int) any {
	if d == 0 {
		if impl == 0 {
			return &grpcService.HelloService{}
		}
		return &helloImpl{id: impl}
	}
	return &echoImpl{id: impl}
}
func grpcMethod(d int) string {
	if d == 0 {
		return "/helloService.HelloService/SayHello"
	}
	return "/verif.Svc" + strconv.Itoa(d) + "/Echo"
}
func descOfName(n string) int {
	for i, d := range descs {
		if d.ServiceName == n {
			return i
		}
	}
	return -1
}

// ---------- running one scenario ----------
type gen struct {
	w        *cw.Writer
	rng      *rand.Rand
	cert     *certMat
	httpsMw  bool // the HTTPS builder offers UsingMiddleWare
	servers  int
	requests int
	retries  int
	stopTime time.Duration
	waitTime time.Duration
}

func (g *gen) run(sc *scenario) error {
	var lastErr error
	for attempt := 0; attempt < 4; attempt++ {
		err, retry := g.runOnce(sc)
		if err == nil {
			return nil
		}
		lastErr = err
		if !retry {
			return err
		}
		g.retries++
	}
	return lastErr
}

func (g *gen) runOnce(sc *scenario) (err error, retry bool) {
	rec := &recorder{}
	lg := &capLogger{rec: rec}
	used := map[int]bool{}
	b := serverConfig.BuildServerConfig().WithLogger(lg)
	var httpPort, httpsPort, grpcPort int
	if sc.HTTP != nil {
		httpPort = freePort(used)
		hb := serverConfig.BuildHttpServiceConfig().WithPort(strconv.Itoa(httpPort))
		if mw := sc.HTTP.middleware(rec, lg); mw != nil {
			hb = hb.UsingMiddleWare(mw)
		}
		for i, c := range sc.HTTP.Calls {
			i, c := i, c
			hb = hb.AddRoute(methods[c.M], paths[c.P], func(w http.ResponseWriter, r *http.Request) {
				rec.add(7, i)
				runOps(c.Ops, w, r, rec)
			})
		}
		b = b.WithHttpServiceConfig(hb)
	}
	if sc.HTTPS != nil {
		httpsPort = freePort(used)
		sb := serverConfig.BuildHttpsServiceConfig().WithPort(strconv.Itoa(httpsPort))
		if sc.TLSInCfg {
			sb = sb.WithTlsConfig(&tls.Config{Certificates: []tls.Certificate{g.cert.cert}, MinVersion: tls.VersionTLS12})
		} else {
			sb = sb.WithCertFile(g.cert.certFile).WithKeyFile(g.cert.keyFile)
		}
		if mw := sc.HTTPS.middleware(rec, lg); mw != nil {
			// the method is looked up dynamically so that this harness also builds against a tree whose
			// HTTPS builder cannot configure middleware at all (then the cases show the difference)
			m := reflect.ValueOf(sb).MethodByName("UsingMiddleWare")
			if m.IsValid() {
				out := m.Call([]reflect.Value{reflect.ValueOf(mw)})
				if len(out) == 1 {
					if nb, ok := out[0].Interface().(*serverConfig.HttpsServerConfigBuilder); ok {
						sb = nb
					}
				}
			}
		}
		for i, c := range sc.HTTPS.Calls {
			i, c := i, c
			sb = sb.AddRoute(methods[c.M], paths[c.P], func(w http.ResponseWriter, r *http.Request) {
				rec.add(7, i)
				runOps(c.Ops, w, r, rec)
			})
		}
		b = b.WithHttpsServiceConfig(sb)
	}
	if sc.UseGrpc {
		grpcPort = freePort(used)
		gb := serverConfig.BuildGrpcServerConfig().WithPort(strconv.Itoa(grpcPort))
		for _, r := range sc.Grpc {
			gb = gb.RegisterImplementation(descs[r.D], grpcImpl(r.D, r.Impl))
		}
		for _, r := range sc.GrpcInit {
			r := r
			gb = gb.AddInitializer(func(s *grpc.Server) { s.RegisterService(descs[r.D], grpcImpl(r.D, r.Impl)) })
		}
		if sc.Reflection {
			gb = gb.EnableReflection()
		}
		b = b.WithGrpcServiceConfig(gb)
	}
	wg := &sync.WaitGroup{}
	srv, e := server.NewServer(b.Build(), context.Background(), wg)
	if e != nil {
		return fmt.Errorf("NewServer: %v", e), false
	}
	if e := srv.Start(context.Background()); e != nil {
		return fmt.Errorf("Start: %v", e), false
	}
	g.servers++
	stopped := false
	stop := func() {
		if stopped {
			return
		}
		stopped = true
		ctx, cancel := context.WithTimeout(context.Background(), 10*time.Second)
		defer cancel()
		srv.Stop(ctx)
	}
	defer stop()
	tw := time.Now()
	for _, p := range []int{httpPort, httpsPort, grpcPort} {
		if p != 0 && !waitReachable(p, 10*time.Second) {
			return fmt.Errorf("listener on port %d not reachable within 10s (port taken by another process?)", p), true
		}
	}
	g.waitTime += time.Since(tw)
	tr := &http.Transport{DisableCompression: true, ForceAttemptHTTP2: sc.H2,
		TLSClientConfig: &tls.Config{RootCAs: g.cert.pool, MinVersion: tls.VersionTLS12}}
	defer tr.CloseIdleConnections()
	client := &http.Client{Transport: tr, Timeout: 30 * time.Second,
		CheckRedirect: func(*http.Request, []*http.Request) error { return http.ErrUseLastResponse }}

	type obsT struct {
		st   int
		oh   []int
		ob   []int
		ev   [][]int
		prot string
	}
	var obs []obsT
	for _, rq := range sc.Reqs {
		var url string
		if rq.Listener == 0 {
			url = fmt.Sprintf("http://127.0.0.1:%d%s", httpPort, paths[rq.P])
		} else {
			url = fmt.Sprintf("https://127.0.0.1:%d%s", httpsPort, paths[rq.P])
		}
		var body io.Reader
		if len(rq.B) > 0 {
			body = bytes.NewReader(intsToBytes(rq.B))
		}
		hr, e := http.NewRequest(methods[rq.M], url, body)
		if e != nil {
			return e, false
		}
		for i := 0; i+1 < len(rq.H); i += 2 {
			hr.Header.Set("X-V-"+strconv.Itoa(rq.H[i]), strconv.Itoa(rq.H[i+1]))
		}
		rec.take()
		resp, e := client.Do(hr)
		if e != nil {
			return fmt.Errorf("request %s %s: %v", methods[rq.M], url, e), true
		}
		rb, e := io.ReadAll(resp.Body)
		resp.Body.Close()
		if e != nil {
			return fmt.Errorf("reading response of %s %s: %v", methods[rq.M], url, e), true
		}
		obs = append(obs, obsT{resp.StatusCode, projHdr(resp.Header), bytesToInts(rb), rec.take(), resp.Proto})
		g.requests++
	}
	// gRPC
	type gobsT struct{ d, res int }
	var gobs []gobsT
	var listed []int
	listedOK := false
	if sc.UseGrpc {
		cc, e := grpc.NewClient(fmt.Sprintf("127.0.0.1:%d", grpcPort), grpc.WithTransportCredentials(insecure.NewCredentials()))
		if e != nil {
			return e, false
		}
		defer cc.Close()
		defer func() { cc.Close(); tr.CloseIdleConnections() }() // before Stop (deferred earlier), so that nothing has to be drained
		for _, d := range sc.GrpcCalls {
			ctx, cancel := context.WithTimeout(context.Background(), 20*time.Second)
			out := new(proto.HelloReply)
			e := cc.Invoke(ctx, grpcMethod(d), &proto.HelloRequest{Name: "x"}, out)
			cancel()
			res := -2
			if e == nil {
				if strings.HasPrefix(out.Message, "impl:") {
					res, _ = strconv.Atoi(out.Message[5:])
				} else if out.Message == "Hello, x" {
					res = 0
				}
			} else if status.Code(e) == codes.Unimplemented {
				res = -1
			} else {
				return fmt.Errorf("grpc call %s: %v", grpcMethod(d), e), true
			}
			gobs = append(gobs, gobsT{d, res})
			g.requests++
		}
		if sc.Reflection {
			ctx, cancel := context.WithTimeout(context.Background(), 20*time.Second)
			st, e := rpb.NewServerReflectionClient(cc).ServerReflectionInfo(ctx)
			if e == nil {
				e = st.Send(&rpb.ServerReflectionRequest{MessageRequest: &rpb.ServerReflectionRequest_ListServices{ListServices: ""}})
			}
			if e == nil {
				var rs *rpb.ServerReflectionResponse
				rs, e = st.Recv()
				if e == nil {
					for _, s := range rs.GetListServicesResponse().GetService() {
						if d := descOfName(s.Name); d >= 0 {
							listed = append(listed, d)
						}
					}
					listedOK = true
				}
				st.CloseSend()
			}
			cancel()
			if e != nil {
				return fmt.Errorf("reflection: %v", e), true
			}
		}
	}
	tr.CloseIdleConnections()
	t0 := time.Now()
	stop()
	wg.Wait()
	g.stopTime += time.Since(t0)

	// everything went through: emit the cases
	for i, rq := range sc.Reqs {
		o := obs[i]
		l := sc.HTTP
		lname := "http"
		if rq.Listener == 1 {
			l = sc.HTTPS
			lname = "https"
		}
		hs := []string{}
		for j := 0; j+1 < len(rq.H); j += 2 {
			hs = append(hs, fmt.Sprintf("(%s, %s)", cw.Z(rq.H[j]), cw.Z(rq.H[j+1])))
		}
		ohs := []string{}
		for j := 0; j+1 < len(o.oh); j += 2 {
			ohs = append(ohs, fmt.Sprintf("(%s, %s)", cw.Z(o.oh[j]), cw.Z(o.oh[j+1])))
		}
		coq := fmt.Sprintf("CHttp %d %s %s %s %s %s %s %s %s %s %s %s",
			rq.Listener, l.callsCoq(), l.mwCoq(), cw.B(l.Direct && len(l.Mw) == 1), cw.Z(rq.M), cw.Z(rq.P), cw.L(hs), zl(rq.B),
			cw.Z(o.st), cw.L(ohs), zl(o.ob), zll(o.ev))
		registered := false
		for _, c := range l.Calls {
			if c.P == rq.P && (c.M == rq.M || (c.M == 0 && rq.M == 1)) {
				registered = true
			}
		}
		tags := []string{lname + "-" + sc.Group, "status-" + strconv.Itoa(o.st), "proto-" + o.prot}
		if registered {
			tags = append(tags, "registered")
		} else {
			tags = append(tags, "unregistered")
		}
		if l.HasMw {
			tags = append(tags, fmt.Sprintf("mwlen-%d", len(l.Mw)))
			for _, m := range l.Mw {
				if m.Kind == "logreq" || m.Kind == "logresp" {
					tags = append(tags, "with-"+m.Kind)
				}
			}
		} else {
			tags = append(tags, "no-middleware")
		}
		if len(rq.B) > 0 {
			tags = append(tags, "with-body")
		}
		desc := map[string]any{
			"kind": "http-exchange", "listener": lname, "config": l,
			"request":  map[string]any{"method": methods[rq.M], "path": paths[rq.P], "xv_headers": rq.H, "body": rq.B},
			"observed": map[string]any{"status": o.st, "xv_headers": o.oh, "body": o.ob, "events": o.ev, "proto": o.prot},
			"https_builder_has_UsingMiddleWare": g.httpsMw, "tls_in_config": sc.TLSInCfg,
			"event_legend": "0 enter i|1 exit i|2 obs method path hdrs|3 read bytes|4 w.Header()|5 logger request m p body|6 logger response m p status body|7 handler(index of AddRoute call)",
		}
		g.w.Add(cw.Case{Coq: coq, Desc: desc, Tags: tags,
			Key:     fmt.Sprintf("%s|%s|%s|%v|%d %d %v %v", lname, l.callsCoq(), l.mwCoq(), l.Direct, rq.M, rq.P, rq.H, rq.B),
			Trivial: len(l.Calls) == 0})
	}
	allRegs := append(append([]grpcReg{}, sc.Grpc...), sc.GrpcInit...)
	rs := []string{}
	for _, r := range allRegs {
		rs = append(rs, fmt.Sprintf("(%s, %s)", cw.Z(r.D), cw.Z(r.Impl)))
	}
	for _, o := range gobs {
		tags := []string{"grpc-" + sc.Group}
		if o.res >= 0 {
			tags = append(tags, "grpc-answered")
		} else {
			tags = append(tags, "grpc-unimplemented")
		}
		g.w.Add(cw.Case{Coq: fmt.Sprintf("CGrpc %s %s %s", cw.L(rs), cw.Z(o.d), cw.Z(o.res)),
			Desc: map[string]any{"kind": "grpc-call", "registrations": sc.Grpc, "registered_by_initializer": sc.GrpcInit,
				"reflection": sc.Reflection, "called": grpcMethod(o.d), "answering_impl_or_-1": o.res},
			Tags: tags, Key: fmt.Sprintf("grpc|%v|%v|%v|%d", sc.Grpc, sc.GrpcInit, sc.Reflection, o.d), Trivial: len(allRegs) == 0})
	}
	if listedOK {
		g.w.Add(cw.Case{Coq: fmt.Sprintf("CGrpcList %s %s", cw.L(rs), cw.ZL(listed)),
			Desc: map[string]any{"kind": "grpc-reflection-list", "registrations": sc.Grpc, "registered_by_initializer": sc.GrpcInit, "listed": listed},
			Tags: []string{"grpc-list-" + sc.Group}, Key: fmt.Sprintf("grpclist|%v|%v", sc.Grpc, sc.GrpcInit), Trivial: len(allRegs) == 0})
	}
	return nil, false
}

// ---------- generators ----------
func (g *gen) randOps(maxLen int, handler bool) []hop {
	n := g.rng.Intn(maxLen + 1)
	ops := []hop{}
	for i := 0; i < n; i++ {
		switch g.rng.Intn(10) {
		case 0:
			ops = append(ops, hop{Kind: "obs"})
		case 1:
			ops = append(ops, hop{Kind: "read", K: 1 + g.rng.Intn(4)})
		case 2:
			ops = append(ops, hop{Kind: "readall"})
		case 3:
			ops = append(ops, hop{Kind: "gethdr"})
		case 4, 5:
			ops = append(ops, hop{Kind: "set", K: 1 + g.rng.Intn(4), V: g.rng.Intn(50)})
		case 6:
			ops = append(ops, hop{Kind: "status", K: []int{200, 201, 202, 400, 404, 418, 500}[g.rng.Intn(7)]})
		case 7:
			ops = append(ops, hop{Kind: "write", Bs: g.randBytes(4)})
		case 8:
			ops = append(ops, hop{Kind: "echo"})
		case 9:
			ops = append(ops, hop{Kind: "echohdr", K: 1 + g.rng.Intn(4)})
		}
	}
	return ops
}
func (g *gen) randBytes(max int) []int {
	n := g.rng.Intn(max + 1)
	b := make([]int, n)
	for i := range b {
		b[i] = g.rng.Intn(256)
	}
	return b
}
func (g *gen) randMw(maxLen int) []mwc {
	n := g.rng.Intn(maxLen + 1)
	l := []mwc{}
	for i := 0; i < n; i++ {
		switch g.rng.Intn(6) {
		case 0, 1:
			l = append(l, mwc{Kind: "logreq"})
		case 2, 3:
			l = append(l, mwc{Kind: "logresp"})
		case 4:
			l = append(l, mwc{Kind: "rec", I: 1 + g.rng.Intn(5)})
		case 5:
			l = append(l, mwc{Kind: "scr", Pre: g.randOps(2, false), Post: g.randOps(2, false)})
		}
	}
	return l
}
func (g *gen) randListener() *listenerCfg {
	l := &listenerCfg{}
	nr := g.rng.Intn(6)
	for i := 0; i < nr; i++ {
		l.Calls = append(l.Calls, route{M: g.rng.Intn(5), P: g.rng.Intn(5), Ops: g.randOps(6, true)})
	}
	if g.rng.Intn(5) > 0 {
		l.HasMw = true
		l.Mw = g.randMw(5)
		l.Direct = len(l.Mw) == 1 && g.rng.Intn(2) == 0
	}
	return l
}
func (g *gen) randReq(listener int, l *listenerCfg) request {
	rq := request{Listener: listener, H: []int{}, B: []int{}}
	if len(l.Calls) > 0 && g.rng.Intn(4) > 0 {
		c := l.Calls[g.rng.Intn(len(l.Calls))]
		rq.M, rq.P = c.M, c.P
		if c.M == 0 && g.rng.Intn(4) == 0 {
			rq.M = 1
		}
	} else {
		rq.M, rq.P = g.rng.Intn(len(methods)), g.rng.Intn(len(paths))
	}
	for k := 1; k <= 4; k++ {
		if g.rng.Intn(3) == 0 {
			rq.H = append(rq.H, k, g.rng.Intn(50))
		}
	}
	if rq.M != 1 && g.rng.Intn(3) > 0 {
		rq.B = g.randBytes(12)
	}
	return rq
}

func subsetsOf(n int) [][]int {
	r := [][]int{}
	for mask := 0; mask < 1<<n; mask++ {
		s := []int{}
		for i := 0; i < n; i++ {
			if mask&(1<<i) != 0 {
				s = append(s, i)
			}
		}
		r = append(r, s)
	}
	return r
}

// zl renders a body as a Coq list; long runs of equal bytes are run-length encoded (zrle in Run/CorrC17.v expands
// them), so that bodies far larger than any internal buffer can be part of a case without a huge literal.
func zl(l []int) string {
	if len(l) < 64 {
		return cw.ZL(l)
	}
	type run struct{ v, n int }
	var runs []run
	for _, x := range l {
		if len(runs) > 0 && runs[len(runs)-1].v == x {
			runs[len(runs)-1].n++
		} else {
			runs = append(runs, run{x, 1})
		}
	}
	if len(runs)*4 > len(l) {
		return cw.ZL(l)
	}
	parts := make([]string, len(runs))
	for i, r := range runs {
		parts[i] = fmt.Sprintf("(%s, %d)", cw.Z(r.v), r.n)
	}
	return "(zrle " + cw.L(parts) + ")"
}
func zll(ll [][]int) string {
	parts := make([]string, len(ll))
	for i, l := range ll {
		parts[i] = zl(l)
	}
	return cw.L(parts)
}

func main() {
	seed := flag.Int64("seed", 1, "")
	tier := flag.String("tier", "quick", "")
	out := flag.String("out", "", "")
	flag.Parse()
	log.SetOutput(io.Discard) // net/http reports superfluous WriteHeader calls of our handler programs here
	g := &gen{w: cw.New(*out, "CorrC17"), rng: rand.New(rand.NewSource(*seed))}
	g.w.Chunk = 200
	if err := os.MkdirAll(*out, 0o755); err != nil {
		fmt.Fprintln(os.Stderr, err)
		os.Exit(2)
	}
	var err error
	if g.cert, err = makeCert(*out); err != nil {
		fmt.Fprintln(os.Stderr, "certificate:", err)
		os.Exit(2)
	}
	g.httpsMw = reflect.ValueOf(serverConfig.BuildHttpsServiceConfig()).MethodByName("UsingMiddleWare").IsValid()
	thorough := *tier == "thorough"
	must := func(e error) {
		if e != nil {
			fmt.Fprintln(os.Stderr, "scenario failed (environment):", e)
			os.Exit(3)
		}
	}

	// --- corpus: the witnesses of Findings/MiddlewareFindings.v first ---
	echoPost := &listenerCfg{Calls: []route{{M: 2, P: 1, Ops: []hop{{Kind: "echo"}}}}, HasMw: true, Mw: []mwc{{Kind: "logreq"}}}
	getOnly := &listenerCfg{Calls: []route{{M: 0, P: 1, Ops: []hop{{Kind: "write", Bs: []int{1}}}}}}
	recOnly := &listenerCfg{Calls: []route{{M: 0, P: 1, Ops: []hop{{Kind: "write", Bs: []int{1}}}}}, HasMw: true, Mw: []mwc{{Kind: "rec", I: 1}}}
	must(g.run(&scenario{Group: "corpus", HTTP: getOnly, HTTPS: getOnly, Reqs: []request{{Listener: 1, M: 0, P: 1, H: []int{}, B: []int{}}, {Listener: 0, M: 0, P: 1, H: []int{}, B: []int{}}}}))
	must(g.run(&scenario{Group: "corpus", HTTP: echoPost, HTTPS: echoPost, Reqs: []request{{Listener: 0, M: 2, P: 1, H: []int{}, B: []int{104, 105}}, {Listener: 1, M: 2, P: 1, H: []int{}, B: []int{104, 105}}}}))
	must(g.run(&scenario{Group: "corpus", HTTP: recOnly, HTTPS: recOnly, Reqs: []request{{Listener: 1, M: 0, P: 1, H: []int{}, B: []int{}}, {Listener: 0, M: 0, P: 1, H: []int{}, B: []int{}}}}))

	// --- G1: routing, exhaustive: every subset of {GET,HEAD,POST} x {/p0,/p1}, every request of
	//         {GET,HEAD,POST,PUT} x {/p0,/p1,/p2}, on both listeners ---
	univ := [][2]int{{0, 0}, {1, 0}, {2, 0}, {0, 1}, {1, 1}, {2, 1}}
	for si, sub := range subsetsOf(len(univ)) {
		l := &listenerCfg{}
		for _, i := range sub {
			l.Calls = append(l.Calls, route{M: univ[i][0], P: univ[i][1], Ops: []hop{{Kind: "write", Bs: []int{10 + i}}}})
		}
		sc := &scenario{Group: "route", HTTP: l, HTTPS: l, TLSInCfg: si%2 == 1, H2: si%4 >= 2}
		for _, m := range []int{0, 1, 2, 3} {
			for _, p := range []int{0, 1, 2} {
				for ls := 0; ls < 2; ls++ {
					sc.Reqs = append(sc.Reqs, request{Listener: ls, M: m, P: p, H: []int{}, B: []int{}})
				}
			}
		}
		must(g.run(sc))
	}
	// --- G1b: AddRoute called repeatedly for the same pair (the last one wins) ---
	nDup := 12
	if thorough {
		nDup = 300
	}
	for k := 0; k < nDup; k++ {
		l := &listenerCfg{}
		n := 2 + g.rng.Intn(6)
		for i := 0; i < n; i++ {
			u := univ[g.rng.Intn(4)]
			l.Calls = append(l.Calls, route{M: u[0], P: u[1], Ops: []hop{{Kind: "write", Bs: []int{30 + i}}}})
		}
		sc := &scenario{Group: "route-dup", HTTP: l, HTTPS: l, TLSInCfg: k%2 == 0, H2: k%3 == 0}
		for _, m := range []int{0, 1, 2} {
			for _, p := range []int{0, 1} {
				sc.Reqs = append(sc.Reqs, request{Listener: k % 2, M: m, P: p, H: []int{}, B: []int{}})
			}
		}
		must(g.run(sc))
	}

	// --- G2: middleware lists, exhaustive over {LogRequest, LogResponse, rec 1, rec 2} up to length L ---
	alpha := []mwc{{Kind: "logreq"}, {Kind: "logresp"}, {Kind: "rec", I: 1}, {Kind: "rec", I: 2}}
	L := 3
	if thorough {
		L = 5
	}
	progs := [][]hop{
		{{Kind: "echo"}},
		{{Kind: "obs"}, {Kind: "read", K: 2}, {Kind: "set", K: 1, V: 5}, {Kind: "status", K: 201}, {Kind: "readall"}, {Kind: "write", Bs: []int{7, 8}}},
		{{Kind: "echohdr", K: 2}, {Kind: "write", Bs: []int{1}}, {Kind: "set", K: 3, V: 9}, {Kind: "gethdr"}, {Kind: "status", K: 500}},
		{},
	}
	var lists [][]mwc
	var rec func(cur []mwc)
	rec = func(cur []mwc) {
		lists = append(lists, append([]mwc{}, cur...))
		if len(cur) == L {
			return
		}
		for _, a := range alpha {
			rec(append(cur, a))
		}
	}
	rec(nil)
	for li, ml := range lists {
		variants := []bool{false}
		if len(ml) == 1 {
			variants = []bool{false, true}
		}
		for _, direct := range variants {
			l := &listenerCfg{HasMw: true, Mw: ml, Direct: direct}
			for pi, pr := range progs {
				l.Calls = append(l.Calls, route{M: 2, P: pi, Ops: pr})
			}
			sc := &scenario{Group: "mw", HTTP: l, HTTPS: l, TLSInCfg: li%2 == 0, H2: li%3 == 0}
			for pi := range progs {
				body := []int{}
				if (pi+li)%2 == 0 || pi == 0 {
					body = []int{104, 105, 33, 0, 255}
				}
				sc.Reqs = append(sc.Reqs, request{Listener: (li + pi) % 2, M: 2, P: pi, H: []int{2, 40 + pi}, B: body})
			}
			must(g.run(sc))
		}
	}
	// no UsingMiddleWare at all, and an empty bundle
	for _, l := range []*listenerCfg{{Calls: []route{{M: 2, P: 0, Ops: progs[0]}}}, {Calls: []route{{M: 2, P: 0, Ops: progs[0]}}, HasMw: true, Mw: []mwc{}}} {
		must(g.run(&scenario{Group: "mw", HTTP: l, HTTPS: l, Reqs: []request{{Listener: 0, M: 2, P: 0, H: []int{}, B: []int{1, 2}}, {Listener: 1, M: 2, P: 0, H: []int{}, B: []int{1, 2}}}}))
	}

	// --- G3: structured random configurations ---
	nRand := 120
	if thorough {
		nRand = 2500
	}
	for k := 0; k < nRand; k++ {
		sc := &scenario{Group: "rand", HTTP: g.randListener(), HTTPS: g.randListener(), TLSInCfg: g.rng.Intn(2) == 0, H2: g.rng.Intn(2) == 0}
		for i := 0; i < 8; i++ {
			if g.rng.Intn(2) == 0 {
				sc.Reqs = append(sc.Reqs, g.randReq(0, sc.HTTP))
			} else {
				sc.Reqs = append(sc.Reqs, g.randReq(1, sc.HTTPS))
			}
		}
		must(g.run(sc))
	}
	// larger bodies (several reads, above net/http's 4 KiB write buffer in the thorough tier)
	sizes := []int{300}
	if thorough {
		sizes = []int{300, 5000}
	}
	for _, sz := range sizes {
		body := make([]int, sz)
		for i := range body {
			body[i] = (i*7 + 3) % 256
		}
		l := &listenerCfg{Calls: []route{{M: 2, P: 0, Ops: []hop{{Kind: "read", K: 100}, {Kind: "echo"}}}}, HasMw: true,
			Mw: []mwc{{Kind: "logresp"}, {Kind: "rec", I: 1}, {Kind: "logreq"}}}
		must(g.run(&scenario{Group: "bigbody", HTTP: l, HTTPS: l, H2: true,
			Reqs: []request{{Listener: 0, M: 2, P: 0, H: []int{}, B: body}, {Listener: 1, M: 2, P: 0, H: []int{}, B: body}}}))
	}

	// bodies far above typical internal buffers/caps (64 KiB and more), as long runs so that the case stays small
	hugeSizes := []int{70000}
	if thorough {
		hugeSizes = []int{70000, 300000, 1100000}
	}
	for _, sz := range hugeSizes {
		body := make([]int, sz)
		for i := range body {
			body[i] = 97 + (i/(sz/3+1))%3
		}
		for _, mws := range [][]mwc{{{Kind: "logresp"}, {Kind: "rec", I: 1}, {Kind: "logreq"}}, {{Kind: "logreq"}, {Kind: "logresp"}}, {{Kind: "rec", I: 1}}} {
			l := &listenerCfg{Calls: []route{{M: 2, P: 0, Ops: []hop{{Kind: "echo"}}}}, HasMw: true, Mw: mws}
			must(g.run(&scenario{Group: "hugebody", HTTP: l, HTTPS: l, H2: true,
				Reqs: []request{{Listener: 0, M: 2, P: 0, H: []int{}, B: body}, {Listener: 1, M: 2, P: 0, H: []int{}, B: body}}}))
		}
	}

	// --- G4: gRPC: every subset of the five descriptors, with re-registration and initializers ---
	for si, sub := range subsetsOf(len(descs)) {
		if !thorough && si%2 == 1 && si > 8 && si < 31 {
			continue
		}
		sc := &scenario{Group: "grpc", UseGrpc: true, Reflection: si%2 == 0, GrpcCalls: []int{0, 1, 2, 3, 4}}
		for j, d := range sub {
			impl := 10*d + 1
			if d == 0 && si%4 < 2 {
				impl = 0 // the example implementation
			}
			if j%2 == 1 && si%3 == 0 {
				sc.GrpcInit = append(sc.GrpcInit, grpcReg{D: d, Impl: impl})
			} else {
				sc.Grpc = append(sc.Grpc, grpcReg{D: d, Impl: impl})
				if si%5 == 0 { // the same descriptor registered again: the map keeps the later implementation
					sc.Grpc = append(sc.Grpc, grpcReg{D: d, Impl: impl + 1})
				}
			}
		}
		if si%7 == 3 { // together with the HTTP listeners
			l := &listenerCfg{Calls: []route{{M: 0, P: 0, Ops: []hop{{Kind: "write", Bs: []int{1}}}}}}
			sc.HTTP, sc.HTTPS = l, l
			sc.Reqs = []request{{Listener: 0, M: 0, P: 0, H: []int{}, B: []int{}}, {Listener: 1, M: 0, P: 0, H: []int{}, B: []int{}}}
		}
		must(g.run(sc))
	}

	g.w.Extra["scope"] = fmt.Sprintf("routing: all %d subsets of 6 (method,path) pairs x 12 requests x 2 listeners, %d repeated-AddRoute configs; middleware: all %d lists over {LogRequest,LogResponse,rec1,rec2} up to length %d x %d handler programs; %d random configurations x 8 requests; gRPC: subsets of %d descriptors; HTTPS with files and with tls.Config, HTTP/1.1 and HTTP/2",
		1<<len(univ), nDup, len(lists), L, len(progs), nRand, len(descs))
	g.w.Extra["servers_started"] = g.servers
	g.w.Extra["requests_sent"] = g.requests
	g.w.Extra["scenario_retries"] = g.retries
	g.w.Extra["time_in_stop_s"] = g.stopTime.Seconds()
	g.w.Extra["time_waiting_reachable_s"] = g.waitTime.Seconds()
	g.w.Extra["https_builder_has_UsingMiddleWare"] = g.httpsMw
	if err := g.w.Flush(); err != nil {
		fmt.Fprintln(os.Stderr, err)
		os.Exit(2)
	}
}
