package main

func runX02(g *gen) {}
