package main

import (
	"cmp"
	"fmt"
	"reflect"

	"github.com/rbell/toolchest/mapOps"
	"verifharness/internal/cw"
)

var panicOut = []int{-1000}

func sortAt[K comparable, V cmp.Ordered](desc bool, m [][2]int, ek func(int) K, dk func(K) int, ev func(int) V) (out []int) {
	defer func() {
		if recover() != nil {
			out = panicOut
		}
	}()
	gm := mkMap(m, ek, ev)
	var ks []K
	if desc {
		ks = mapOps.SortDescKeys(gm)
	} else {
		ks = mapOps.SortAscKeys(gm)
	}
	if ks == nil {
		return []int{}
	}
	// the input map must be left alone
	if !reflect.DeepEqual(gm, mkMap(m, ek, ev)) {
		return panicOut
	}
	return mapL(ks, dk)
}

const sortReps = 3

func (g *gen) x02case(desc bool, m [][2]int) {
	outs := [][]int{}
	for i := 0; i < sortReps; i++ {
		outs = append(outs, sortAt(desc, m, id, id, id), sortAt(desc, m, encS, decS, encF), sortAt(desc, m, encF, decF, encS))
	}
	if len(m) == 0 {
		outs = append(outs, func() (o []int) {
			defer func() {
				if recover() != nil {
					o = panicOut
				}
			}()
			if desc {
				return nzl(mapOps.SortDescKeys(map[int]int(nil)))
			}
			return nzl(mapOps.SortAscKeys(map[int]int(nil)))
		}())
	}
	vals := map[int]int{}
	ties := false
	for _, e := range m {
		vals[e[1]]++
		if vals[e[1]] > 1 {
			ties = true
		}
	}
	varies := false
	for _, o := range outs {
		if !reflect.DeepEqual(o, outs[0]) {
			varies = true
		}
	}
	fn := "asc"
	if desc {
		fn = "desc"
	}
	tags := []string{fn}
	if ties {
		tags = append(tags, fn+"/ties")
	}
	if varies {
		tags = append(tags, fn+"/observed-tie-order-varies")
	}
	if len(m) > 12 {
		tags = append(tags, fn+"/len>12(beyond insertion-sort threshold)")
	}
	g.w.Add(cw.Case{
		Coq:     fmt.Sprintf("CSort %s %s %s", cw.B(desc), ZP(m), cw.ZLL(outs)),
		Desc:    map[string]any{"fn": fn, "m": m, "observed_outputs": outs},
		Tags:    tags,
		Key:     fmt.Sprint(fn, m),
		Trivial: len(m) < 2,
	})
}

func runX02(g *gen) {
	KA, R, big := 5, 300, 60
	if g.tier == "thorough" {
		KA, R, big = 6, 4000, 200
	}
	g.x02case(false, nil)
	g.x02case(true, nil)
	// exhaustive: every map with keys a subset of 1..KA and values in 1..3 (ties everywhere)
	maps(KA, 3, func(m [][2]int) {
		g.x02case(false, m)
		g.x02case(true, m)
	})
	// random: larger maps (pdqsort leaves the insertion-sort regime above 12 elements), few distinct values
	for i := 0; i < R; i++ {
		n := 1 + g.rng.Intn(big)
		nv := 1 + g.rng.Intn(6)
		if g.rng.Intn(4) == 0 {
			nv = 1000
		}
		m := [][2]int{}
		perm := g.rng.Perm(3 * big)
		for j := 0; j < n; j++ {
			m = append(m, [2]int{perm[j] - big, g.rng.Intn(nv) - nv/2})
		}
		g.x02case(i%2 == 1, m)
	}
	g.w.Extra["scope"] = fmt.Sprintf("exhaustive: all maps with keys a subset of 1..%d and values in 1..3, both functions; %d random maps of 1..%d entries with 1..6 (or ~distinct) values incl. negative; every map is sorted %d times at each of 3 key/value type instantiations (fresh map each time = fresh iteration order), every observed output is checked by the monitor",
		KA, R, big, sortReps)
}
