package main

func runX03(g *gen) {}
