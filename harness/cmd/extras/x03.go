package main

import (
	"fmt"
	"reflect"
	"strings"

	"github.com/rbell/toolchest/storage"
	"verifharness/internal/cw"
)

type treeCall struct {
	Chain []int    `json:"chain"`
	Err   bool     `json:"error_returned"`
	ErrS  string   `json:"error,omitempty"`
	Walk  [][2]int `json:"walk_after"`
}

var panicWalk = [][2]int{{-1000, -1000}}

func walkOf[T comparable](t *storage.Tree[T], dec func(T) int) (w [][2]int) {
	defer func() {
		if recover() != nil {
			w = panicWalk
		}
	}()
	w = [][2]int{}
	t.Walk(func(v T, level int) { w = append(w, [2]int{dec(v), level}) })
	return w
}

func runTree[T comparable](chains [][]int, enc func(int) T, dec func(T) int) (w0 [][2]int, calls []treeCall) {
	t := storage.NewTree[T]()
	w0 = walkOf(t, dec)
	for _, c := range chains {
		call := treeCall{Chain: c}
		func() {
			defer func() {
				if e := recover(); e != nil {
					call.Err, call.ErrS = true, fmt.Sprint("panic: ", e)
					call.Walk = panicWalk
				}
			}()
			var err error
			if c == nil {
				err = storage.AddAncestryChain(t)
			} else {
				err = storage.AddAncestryChain(t, mapL(c, enc)...)
			}
			if err != nil {
				call.Err, call.ErrS = true, "error"
			}
			call.Walk = walkOf(t, dec)
		}()
		calls = append(calls, call)
	}
	return
}

func (g *gen) x03case(label string, chains [][]int) {
	w0, ci := runTree(chains, id, id)
	w0s, cs := runTree(chains, encS, decS)
	w0f, cf := runTree(chains, encF, decF)
	if !reflect.DeepEqual(w0, w0s) || !reflect.DeepEqual(w0, w0f) {
		w0 = panicWalk
	}
	for i := range ci {
		if !reflect.DeepEqual(ci[i], cs[i]) || !reflect.DeepEqual(ci[i], cf[i]) {
			ci[i].Walk = panicWalk
			ci[i].ErrS = fmt.Sprintf("element types disagree: string=%v float64=%v", cs[i], cf[i])
		}
	}
	parts := make([]string, len(ci))
	accepted, errs, dupInChain, deep := 0, 0, false, false
	for i, c := range ci {
		parts[i] = fmt.Sprintf("(%s, %s, %s)", cw.ZL(nzl(c.Chain)), cw.B(c.Err), ZP(c.Walk))
		if c.Err {
			errs++
		} else if len(c.Chain) > 0 {
			accepted++
		}
		seen := map[int]bool{}
		for _, x := range c.Chain {
			if seen[x] {
				dupInChain = true
			}
			seen[x] = true
		}
		for _, p := range c.Walk {
			if p[1] >= 3 {
				deep = true
			}
		}
	}
	tags := []string{label}
	if errs > 0 {
		tags = append(tags, "error-returned")
	}
	if dupInChain {
		tags = append(tags, "value-repeated-in-chain")
	}
	if deep {
		tags = append(tags, "depth>=3")
	}
	if accepted >= 2 {
		tags = append(tags, ">=2-chains-accepted")
	}
	key := make([]string, len(chains))
	for i, c := range chains {
		key[i] = fmt.Sprint(c)
	}
	g.w.Add(cw.Case{
		Coq:     fmt.Sprintf("CTree %s %s", ZP(w0), cw.L(parts)),
		Desc:    map[string]any{"chains": chains, "walk_on_new_tree": w0, "calls": ci},
		Tags:    tags,
		Key:     strings.Join(key, ";"),
		Trivial: accepted == 0,
	})
}

func runX03(g *gen) {
	AL, CL, SL, R := 2, 3, 3, 300
	if g.tier == "thorough" {
		AL, CL, SL, R = 2, 4, 3, 5000
	}
	g.x03case("empty-history", nil)
	// the refutation witness of Findings/Tree.v (X03-F1) first: Walk on a new tree, and after an empty chain
	g.x03case("corpus", [][]int{nil})
	g.x03case("corpus", [][]int{{}, {1, 2, 3}, {1, 2, 4}, {9, 2}, {1, 5, 6}, {}, {1, 2, 3}, {1, 5, 7}, {1, 1, 1}, {1}})
	// exhaustive: every sequence of up to SL chains, each of length <= CL over 1..AL
	all := [][]int{}
	listsUpTo(CL, AL, func(c []int) { all = append(all, c) })
	var rec func(seq [][]int)
	rec = func(seq [][]int) {
		if len(seq) > 0 {
			g.x03case("exhaustive", append([][]int{}, seq...))
		}
		if len(seq) == SL {
			return
		}
		for _, c := range all {
			rec(append(seq, c))
		}
	}
	rec(nil)
	// random: longer histories, deeper and wider trees; most chains start with the root value
	for i := 0; i < R; i++ {
		n := 4 + g.rng.Intn(20)
		al := 2 + g.rng.Intn(4)
		root := 1 + g.rng.Intn(al)
		chains := make([][]int, n)
		for j := range chains {
			c := g.randList(6, 1, al)
			if len(c) > 0 && g.rng.Intn(8) != 0 {
				c[0] = root
			}
			chains[j] = c
		}
		g.x03case("random", chains)
	}
	g.w.Extra["scope"] = fmt.Sprintf("exhaustive: every history of 1..%d AddAncestryChain calls with chains of length 0..%d over %d values on a new tree; %d random histories of 4..23 calls (chains of length 0..6 over 2..5 values, 7 of 8 starting with the root value); Walk is observed on the new tree and after every call; each history runs at element types int, string and float64, which must agree",
		SL, CL, AL, R)
}
