package main

import (
	"cmp"
	"fmt"

	"github.com/rbell/toolchest/propositions"
	"verifharness/internal/cw"
)

// every call is guarded: a panic becomes the observation -1
func guardB(f func() bool) (r int) {
	defer func() {
		if recover() != nil {
			r = -1
		}
	}()
	return b2z(f())
}

// all instantiations / repetitions must give the same answer, otherwise -1 (rejected by the Coq verdict)
func same(rs ...int) int {
	for _, r := range rs {
		if r != rs[0] {
			return -1
		}
	}
	return rs[0]
}

func s1At[T cmp.Ordered](fn string, s []T, v T) int {
	return guardB(func() bool {
		switch fn {
		case "contains":
			return propositions.SliceContains(s, v)
		case "all_lt":
			return propositions.SliceAllLessThan(s, v)
		case "all_le":
			return propositions.SliceAllLessThanOrEqualTo(s, v)
		case "all_gt":
			return propositions.SliceAllGreaterThan(s, v)
		case "all_ge":
			return propositions.SliceAllGreaterThanOrEqualTo(s, v)
		case "any_lt":
			return propositions.SliceAnyLessThan(s, v)
		case "any_le":
			return propositions.SliceAnyLessThanOrEqualTo(s, v)
		case "any_gt":
			return propositions.SliceAnyGreaterThan(s, v)
		case "any_ge":
			return propositions.SliceAnyGreaterThanOrEqualTo(s, v)
		}
		panic("fn")
	})
}

func s2At[T cmp.Ordered](fn string, s, v []T) int {
	return guardB(func() bool {
		switch fn {
		case "contains_all":
			return propositions.SliceContainsAll(s, v)
		case "contains_any":
			return propositions.SliceContainsAny(s, v)
		case "contains_none":
			return propositions.SliceContainsNone(s, v)
		}
		panic("fn")
	})
}

func spAt[T any](fn string, s []T, p func(T) bool) int {
	return guardB(func() bool {
		switch fn {
		case "prop_any":
			return propositions.SlicePropositionAny(s, p)
		case "prop_all":
			return propositions.SlicePropositionAll(s, p)
		case "prop_none":
			return propositions.SlicePropositionNone(s, p)
		}
		panic("fn")
	})
}

func mkMap[K comparable, V any](m [][2]int, ek func(int) K, ev func(int) V) map[K]V {
	r := make(map[K]V, len(m))
	for _, e := range m {
		r[ek(e[0])] = ev(e[1])
	}
	return r
}

func m1At[K comparable, V comparable](fn string, m map[K]V, k K, v V) int {
	return guardB(func() bool {
		switch fn {
		case "map_contains_key":
			return propositions.MapContainsKey(m, k)
		case "map_contains_value":
			return propositions.MapContainsValue(m, v)
		}
		panic("fn")
	})
}

func mpAt[K comparable, V any](fn string, m map[K]V, pk func(K) bool, pv func(V) bool) int {
	return guardB(func() bool {
		switch fn {
		case "map_key_any":
			return propositions.MapKeyPropositionAny(m, pk)
		case "map_key_all":
			return propositions.MapKeyPropositionAll(m, pk)
		case "map_key_none":
			return propositions.MapKeyPropositionNone(m, pk)
		case "map_value_any":
			return propositions.MapValuePropositionAny(m, pv)
		case "map_value_all":
			return propositions.MapValuePropositionAll(m, pv)
		case "map_value_none":
			return propositions.MapValuePropositionNone(m, pv)
		}
		panic("fn")
	})
}

func setOf(l []int) map[int]bool {
	r := map[int]bool{}
	for _, x := range l {
		r[x] = true
	}
	return r
}

func nzl(l []int) []int {
	if l == nil {
		return []int{}
	}
	return l
}

var s1fns = []string{"contains", "all_lt", "all_le", "all_gt", "all_ge", "any_lt", "any_le", "any_gt", "any_ge"}
var s2fns = []string{"contains_all", "contains_any", "contains_none"}
var spfns = []string{"prop_any", "prop_all", "prop_none"}
var m1fns = []string{"map_contains_key", "map_contains_value"}
var mpfns = []string{"map_key_any", "map_key_all", "map_key_none", "map_value_any", "map_value_all", "map_value_none"}

func (g *gen) x01add(coq string, fn string, desc map[string]any, ret int, trivial bool) {
	desc["fn"] = fn
	desc["observed"] = ret
	key := fmt.Sprint(desc["fn"], desc["s"], desc["v"], desc["m"], desc["x"], desc["true_on"])
	g.w.Add(cw.Case{Coq: coq, Desc: desc, Tags: []string{fn, fmt.Sprintf("%s=%d", fn, ret)}, Key: key, Trivial: trivial})
}

func (g *gen) x01s1(fn string, s []int, v int) {
	r := same(s1At(fn, s, v), s1At(fn, mapL(s, encS), encS(v)), s1At(fn, mapL(s, encF), encF(v)))
	g.x01add(fmt.Sprintf("CS1 %s %s %s %s", str(fn), cw.ZL(nzl(s)), cw.Z(v), cw.Z(r)), fn,
		map[string]any{"s": s, "v": v, "nil_slice": s == nil}, r, len(s) == 0)
}

func (g *gen) x01s2(fn string, s, v []int) {
	r := same(s2At(fn, s, v), s2At(fn, mapL(s, encS), mapL(v, encS)), s2At(fn, mapL(s, encF), mapL(v, encF)))
	g.x01add(fmt.Sprintf("CS2 %s %s %s %s", str(fn), cw.ZL(nzl(s)), cw.ZL(nzl(v)), cw.Z(r)), fn,
		map[string]any{"s": s, "v": v}, r, len(s) == 0 || len(v) == 0)
}

func (g *gen) x01sp(fn string, s []int, trueOn []int) {
	ts := setOf(trueOn)
	r := same(spAt(fn, s, func(x int) bool { return ts[x] }),
		spAt(fn, mapL(s, encS), func(x string) bool { return ts[decS(x)] }),
		spAt(fn, mapL(s, encF), func(x float64) bool { return ts[decF(x)] }))
	g.x01add(fmt.Sprintf("CSP %s %s %s %s", str(fn), cw.ZL(nzl(s)), cw.ZL(trueOn), cw.Z(r)), fn,
		map[string]any{"s": s, "true_on": trueOn}, r, len(s) == 0)
}

const mapReps = 4 // Go randomises the iteration start on every range: repeat and require one answer

func (g *gen) x01m1(fn string, m [][2]int, x int) {
	rs := []int{}
	for i := 0; i < mapReps; i++ {
		rs = append(rs, m1At(fn, mkMap(m, id, id), x, x),
			m1At(fn, mkMap(m, encS, encS), encS(x), encS(x)),
			m1At(fn, mkMap(m, encF, encS), encF(x), encS(x)))
	}
	if len(m) == 0 { // also the nil map
		rs = append(rs, m1At(fn, map[int]int(nil), x, x))
	}
	r := same(rs...)
	g.x01add(fmt.Sprintf("CM1 %s %s %s %s", str(fn), ZP(m), cw.Z(x), cw.Z(r)), fn,
		map[string]any{"m": m, "x": x}, r, len(m) == 0)
}

func (g *gen) x01mp(fn string, m [][2]int, trueOn []int) {
	ts := setOf(trueOn)
	rs := []int{}
	pi := func(x int) bool { return ts[x] }
	ps := func(x string) bool { return ts[decS(x)] }
	pf := func(x float64) bool { return ts[decF(x)] }
	for i := 0; i < mapReps; i++ {
		rs = append(rs, mpAt(fn, mkMap(m, id, id), pi, pi),
			mpAt(fn, mkMap(m, encS, encF), ps, pf),
			mpAt(fn, mkMap(m, encF, encS), pf, ps))
	}
	if len(m) == 0 {
		rs = append(rs, mpAt(fn, map[int]int(nil), pi, pi))
	}
	r := same(rs...)
	g.x01add(fmt.Sprintf("CMP %s %s %s %s", str(fn), ZP(m), cw.ZL(trueOn), cw.Z(r)), fn,
		map[string]any{"m": m, "true_on": trueOn}, r, len(m) == 0)
}

func runX01(g *gen) {
	L, A, ML, R := 4, 3, 3, 400
	if g.tier == "thorough" {
		L, A, ML, R = 5, 4, 4, 6000
	}
	// nil slices and the empty map first
	for _, fn := range s1fns {
		g.x01s1(fn, nil, 1)
	}
	for _, fn := range s2fns {
		g.x01s2(fn, nil, nil)
		g.x01s2(fn, nil, []int{1})
		g.x01s2(fn, []int{1}, nil)
	}
	for _, fn := range spfns {
		g.x01sp(fn, nil, []int{1})
	}
	// exhaustive: every slice up to length L over 1..A against every pivot 0..A+1
	listsUpTo(L, A, func(s []int) {
		for v := 0; v <= A+1; v++ {
			for _, fn := range s1fns {
				g.x01s1(fn, s, v)
			}
		}
		subsets(A, func(ts []int) {
			for _, fn := range spfns {
				g.x01sp(fn, s, ts)
			}
		})
	})
	listsUpTo(L-1, A, func(s []int) {
		listsUpTo(2, A+1, func(v []int) {
			for _, fn := range s2fns {
				g.x01s2(fn, s, v)
			}
		})
	})
	// exhaustive maps: keys a subset of 1..ML, values in 1..3
	maps(ML, 3, func(m [][2]int) {
		for x := 0; x <= ML+1; x++ {
			for _, fn := range m1fns {
				g.x01m1(fn, m, x)
			}
		}
		subsets(ML, func(ts []int) {
			for _, fn := range mpfns {
				g.x01mp(fn, m, ts)
			}
		})
	})
	// random: longer inputs, negative values, duplicates
	for i := 0; i < R; i++ {
		s := g.randList(12, -6, 6)
		v := -7 + g.rng.Intn(15)
		g.x01s1(s1fns[g.rng.Intn(len(s1fns))], s, v)
		g.x01s2(s2fns[g.rng.Intn(len(s2fns))], s, g.randList(5, -6, 6))
		g.x01sp(spfns[g.rng.Intn(len(spfns))], s, g.randList(6, -6, 6))
		m := g.randMap(10, -6, 6, -3, 3)
		g.x01m1(m1fns[g.rng.Intn(2)], m, -7+g.rng.Intn(15))
		g.x01mp(mpfns[g.rng.Intn(len(mpfns))], m, g.randList(6, -6, 6))
	}
	g.w.Extra["scope"] = fmt.Sprintf("exhaustive: all slices of length <= %d over %d values x pivots 0..%d x 9 comparison functions, x all %d predicates x 3 quantifiers; slice pairs (len <= %d, len <= 2) x 3; all maps with keys in 1..%d and 3 values x (2 contains + 6 quantifiers x all key/value predicates); %d random rounds (5 calls each); each call at 3 element-type instantiations, map calls repeated %d times on fresh maps",
		L, A, A+1, 1<<A, L-1, ML, R, mapReps)
}
