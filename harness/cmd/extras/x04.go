package main

func runX04(g *gen) {}
