package main

import (
	"cmp"
	"fmt"
	"reflect"
	"strings"

	"github.com/rbell/toolchest/storage"
	"verifharness/internal/cw"
)

type cell struct{ v int }

var cells = func() []*cell {
	r := make([]*cell, 4096)
	for i := range r {
		r[i] = &cell{i}
	}
	return r
}()

func cellOf(v int) *cell {
	if v == 0 {
		return nil
	}
	return cells[v]
}
func cellID(p *cell) int {
	if p == nil {
		return 0
	}
	return p.v
}

// one operation of a history
type bop struct {
	Tgt       int    `json:"tree"`
	Kind      string `json:"op"`
	K         int    `json:"k,omitempty"`
	V         int    `json:"v,omitempty"`
	A         int    `json:"a,omitempty"`
	B         int    `json:"b,omitempty"`
	StopAfter int    `json:"stop_after,omitempty"`
	StopKeys  []int  `json:"stop_keys,omitempty"`
}

var iterKinds = []string{"Ascend", "AscendGreaterOrEqual", "AscendLessThan", "AscendRange",
	"Descend", "DescendLessOrEqual", "DescendGreaterThan", "DescendRange"}
var iterCoq = map[string]string{"Ascend": "IAscend", "AscendGreaterOrEqual": "IAscendGE", "AscendLessThan": "IAscendLT",
	"AscendRange": "IAscendRange", "Descend": "IDescend", "DescendLessOrEqual": "IDescendLE",
	"DescendGreaterThan": "IDescendGT", "DescendRange": "IDescendRange"}

func (o bop) coq() string {
	t := "(" + cw.B(o.Tgt == 1) + ", "
	switch o.Kind {
	case "Set":
		return t + fmt.Sprintf("ZSet %s %s)", cw.Z(o.K), cw.Z(o.V))
	case "Get", "Delete", "Has":
		return t + fmt.Sprintf("Z%s %s)", o.Kind, cw.Z(o.K))
	case "Len", "Min", "Max", "DeleteMin", "DeleteMax", "Clone":
		return t + "Z" + o.Kind + ")"
	}
	return t + fmt.Sprintf("ZIter %s %s %s %d %s)", iterCoq[o.Kind], cw.Z(o.A), cw.Z(o.B), o.StopAfter, cw.ZL(nzl(o.StopKeys)))
}

// what one call showed
type bobs struct {
	Kind  string   `json:"kind"`
	Ok    bool     `json:"ok,omitempty"`
	K     int      `json:"k,omitempty"`
	V     int      `json:"v,omitempty"`
	N     int      `json:"n,omitempty"`
	Visit [][2]int `json:"visit,omitempty"`
	Msg   string   `json:"msg,omitempty"`
}

func (o bobs) coq() string {
	switch o.Kind {
	case "unit":
		return "XUnit"
	case "opt":
		return fmt.Sprintf("XOpt %s %s", cw.B(o.Ok), cw.Z(o.V))
	case "bool":
		return "XBool " + cw.B(o.Ok)
	case "int":
		return "XInt " + cw.Z(o.N)
	case "kv":
		return fmt.Sprintf("XKV %s %s", cw.Z(o.K), cw.Z(o.V))
	case "visit":
		return "XVisit " + ZP(o.Visit)
	}
	return "XPanic"
}

// runHist executes a history on two real trees with key type K
func runHist[K cmp.Ordered](ops []bop, ek func(int) K, dk func(K) int) []bobs {
	trees := [2]*storage.OrderedBTree[K, cell]{storage.NewOrderedBTree[K, cell](), storage.NewOrderedBTree[K, cell]()}
	out := make([]bobs, 0, len(ops))
	var zeroK K
	dkz := func(k K, item bool) int { // a missing item comes back as the zero key
		if !item && k == zeroK {
			return 0
		}
		return dk(k)
	}
	for _, o := range ops {
		out = append(out, func() (r bobs) {
			defer func() {
				if e := recover(); e != nil {
					r = bobs{Kind: "panic", Msg: fmt.Sprint(e)}
				}
			}()
			t := trees[o.Tgt]
			switch o.Kind {
			case "Set":
				t.Set(ek(o.K), cellOf(o.V))
				return bobs{Kind: "unit"}
			case "Get":
				v, ok := t.Get(ek(o.K))
				return bobs{Kind: "opt", Ok: ok, V: cellID(v)}
			case "Delete":
				v, ok := t.Delete(ek(o.K))
				return bobs{Kind: "opt", Ok: ok, V: cellID(v)}
			case "Has":
				return bobs{Kind: "bool", Ok: t.Has(ek(o.K))}
			case "Len":
				return bobs{Kind: "int", N: t.Len()}
			case "Min", "Max", "DeleteMin", "DeleteMax":
				nonEmpty := t.Len() > 0
				var k K
				var v *cell
				switch o.Kind {
				case "Min":
					k, v = t.Min()
				case "Max":
					k, v = t.Max()
				case "DeleteMin":
					k, v = t.DeleteMin()
				case "DeleteMax":
					k, v = t.DeleteMax()
				}
				return bobs{Kind: "kv", K: dkz(k, nonEmpty), V: cellID(v)}
			case "Clone":
				trees[1-o.Tgt] = t.Clone()
				return bobs{Kind: "unit"}
			}
			vis := [][2]int{}
			calls := 0
			stop := setOf(o.StopKeys)
			cb := func(k K, v *cell) bool {
				calls++
				vis = append(vis, [2]int{dk(k), cellID(v)})
				return calls != o.StopAfter && !stop[dk(k)]
			}
			switch o.Kind {
			case "Ascend":
				t.Ascend(cb)
			case "AscendGreaterOrEqual":
				t.AscendGreaterOrEqual(ek(o.A), cb)
			case "AscendLessThan":
				t.AscendLessThan(ek(o.A), cb)
			case "AscendRange":
				t.AscendRange(ek(o.A), ek(o.B), cb)
			case "Descend":
				t.Descend(cb)
			case "DescendLessOrEqual":
				t.DescendLessOrEqual(ek(o.A), cb)
			case "DescendGreaterThan":
				t.DescendGreaterThan(ek(o.A), cb)
			case "DescendRange":
				t.DescendRange(ek(o.A), ek(o.B), cb)
			default:
				panic("unknown op " + o.Kind)
			}
			return bobs{Kind: "visit", Visit: vis}
		}())
	}
	return out
}

var x04ops int

func (g *gen) x04case(label string, ops []bop, trivial bool) {
	oi := runHist(ops, id, id)
	os := runHist(ops, encS, decS)
	of := runHist(ops, encF, decF)
	if !reflect.DeepEqual(oi, os) || !reflect.DeepEqual(oi, of) {
		// make a disagreement between key types visible to the Coq verdict
		for i := range oi {
			if !reflect.DeepEqual(oi[i], os[i]) || !reflect.DeepEqual(oi[i], of[i]) {
				oi[i] = bobs{Kind: "panic", Msg: fmt.Sprintf("key types disagree: int=%v string=%v float64=%v", oi[i], os[i], of[i])}
			}
		}
	}
	co := make([]string, len(ops))
	cr := make([]string, len(oi))
	kinds := map[string]bool{}
	tags := []string{label}
	for i, o := range ops {
		co[i] = o.coq()
		cr[i] = oi[i].coq()
		if !kinds[o.Kind] {
			kinds[o.Kind] = true
			tags = append(tags, "op:"+o.Kind)
		}
	}
	x04ops += len(ops)
	g.w.Extra["operations_executed_and_compared"] = x04ops
	g.w.Add(cw.Case{
		Coq:     "CHist " + cw.L(co) + "\n    " + cw.L(cr),
		Desc:    map[string]any{"kind": label, "ops": ops, "observed": oi},
		Tags:    tags,
		Key:     strings.Join(co, ";"),
		Trivial: trivial,
	})
}

// build a tree holding exactly keys ks (values 10*k+j), either by inserting them in a shuffled order or by
// inserting 1..n and deleting the complement (exercises node splits as well as merges / borrows)
func (g *gen) build(ks []int, n int, viaDelete bool) []bop {
	ops := []bop{}
	if !viaDelete {
		for _, i := range g.rng.Perm(len(ks)) {
			ops = append(ops, bop{Kind: "Set", K: ks[i], V: 10*ks[i] + 1})
		}
		return ops
	}
	in := setOf(ks)
	for _, i := range g.rng.Perm(n) {
		ops = append(ops, bop{Kind: "Set", K: i + 1, V: 10*(i+1) + 2})
	}
	for _, i := range g.rng.Perm(n) {
		if !in[i+1] {
			ops = append(ops, bop{Kind: "Delete", K: i + 1})
		}
	}
	return ops
}

func (g *gen) randOp(keyHi int, nextVal *int) bop {
	t := g.rng.Intn(2)
	k := g.rng.Intn(keyHi+2) - 1
	switch r := g.rng.Intn(100); {
	case r < 30:
		*nextVal++
		v := *nextVal
		if g.rng.Intn(12) == 0 {
			v = 0 // a nil value pointer is a legal value
		}
		return bop{Tgt: t, Kind: "Set", K: k, V: v}
	case r < 38:
		return bop{Tgt: t, Kind: "Get", K: k}
	case r < 50:
		return bop{Tgt: t, Kind: "Delete", K: k}
	case r < 54:
		return bop{Tgt: t, Kind: "Has", K: k}
	case r < 58:
		return bop{Tgt: t, Kind: "Len"}
	case r < 61:
		return bop{Tgt: t, Kind: "Min"}
	case r < 64:
		return bop{Tgt: t, Kind: "Max"}
	case r < 68:
		return bop{Tgt: t, Kind: "DeleteMin"}
	case r < 72:
		return bop{Tgt: t, Kind: "DeleteMax"}
	case r < 76:
		return bop{Tgt: t, Kind: "Clone"}
	}
	o := bop{Tgt: t, Kind: iterKinds[g.rng.Intn(len(iterKinds))], A: k, B: g.rng.Intn(keyHi+2) - 1}
	switch g.rng.Intn(3) {
	case 0:
		o.StopAfter = 1 + g.rng.Intn(4)
	case 1:
		o.StopKeys = g.randList(3, -1, keyHi)
	}
	return o
}

func runX04(g *gen) {
	N, R, RL, KH := 5, 150, 80, 14
	if g.tier == "thorough" {
		N, R, RL, KH = 7, 1200, 200, 40
	}
	// the empty trees
	ops := []bop{}
	for _, k := range []string{"Get", "Delete", "Has", "Len", "Min", "Max", "DeleteMin", "DeleteMax"} {
		ops = append(ops, bop{Kind: k, K: 1})
	}
	for _, k := range iterKinds {
		ops = append(ops, bop{Kind: k, A: 0, B: 0})
	}
	g.x04case("empty", ops, true)
	// exhaustive: every key set within 1..N x every iteration variant x every bound (pair) in 0..N+1 x 4 callbacks,
	// plus every point query
	cnt := 0
	subsets(N, func(ks []int) {
		for vi, kind := range iterKinds {
			cnt++
			ops := g.build(ks, N, cnt%2 == 0)
			for k := 0; k <= N+1; k++ {
				ops = append(ops, bop{Kind: "Get", K: k}, bop{Kind: "Has", K: k})
			}
			ops = append(ops, bop{Kind: "Len"}, bop{Kind: "Min"}, bop{Kind: "Max"})
			nb := map[string]int{"Ascend": 0, "Descend": 0, "AscendRange": 2, "DescendRange": 2}
			bounds, ok := nb[kind]
			if !ok {
				bounds = 1
			}
			for a := 0; a <= N+1; a++ {
				for b := 0; b <= N+1; b++ {
					if (bounds < 2 && b > 0) || (bounds < 1 && a > 0) {
						continue
					}
					for sa := 0; sa <= 3; sa++ {
						ops = append(ops, bop{Kind: kind, A: a, B: b, StopAfter: sa})
					}
					ops = append(ops, bop{Kind: kind, A: a, B: b, StopKeys: []int{(a + b) % (N + 1), N / 2}})
				}
			}
			// drain from one end, observing each removal
			for i := 0; i <= len(ks); i++ {
				if vi%2 == 0 {
					ops = append(ops, bop{Kind: "DeleteMin"})
				} else {
					ops = append(ops, bop{Kind: "DeleteMax"})
				}
			}
			ops = append(ops, bop{Kind: "Len"})
			g.x04case("exhaustive/"+kind, ops, len(ks) == 0)
		}
	})
	// random histories on both trees with Clone
	for i := 0; i < R; i++ {
		nv := 100
		n := RL/2 + g.rng.Intn(RL)
		kh := 3 + g.rng.Intn(KH)
		ops := make([]bop, 0, n)
		for j := 0; j < n; j++ {
			ops = append(ops, g.randOp(kh, &nv))
		}
		g.x04case("random", ops, false)
	}
	g.w.Chunk = 40
	g.w.Extra["scope"] = fmt.Sprintf("exhaustive: every key set within 1..%d (built by shuffled inserts, or by inserting 1..%d and deleting the complement) x each of the 8 iteration variants x every bound / bound pair in 0..%d x callbacks stopping after 0(never),1,2,3 calls or at given keys, plus Get/Has of every key, Len, Min, Max and a full DeleteMin/DeleteMax drain; %d random histories of %d..%d operations over two trees (all operations incl. Clone, nil value pointers, keys -1..<=%d); each history is executed at key types int, string and float64, which must agree",
		N, N, N+1, R, RL/2, RL/2+RL-1, KH+2)
}
