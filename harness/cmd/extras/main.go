// Harness for the extra components X01..X04 (parts of the library no listed property anchors):
//   -comp x01  propositions/{slice,map}Propositions.go
//   -comp x02  mapOps/mapOps.go
//   -comp x03  storage/tree.go
//   -comp x04  storage/orderedBTree.go
// Drives the real code of $VERIF_REPO on generated inputs / operation sequences and records what it
// observed as Coq terms (Run/CorrX0n.v evaluates model + monitor).  All randomness derives from -seed.
package main

import (
	"flag"
	"fmt"
	"math/rand"
	"os"
	"strings"

	"verifharness/internal/cw"
)

type gen struct {
	w    *cw.Writer
	rng  *rand.Rand
	tier string
}

func main() {
	seed := flag.Int64("seed", 1, "")
	tier := flag.String("tier", "quick", "")
	out := flag.String("out", "", "")
	comp := flag.String("comp", "", "x01|x02|x03|x04")
	flag.Parse()
	mod := map[string]string{"x01": "CorrX01", "x02": "CorrX02", "x03": "CorrX03", "x04": "CorrX04"}[*comp]
	if mod == "" {
		fmt.Fprintln(os.Stderr, "unknown -comp")
		os.Exit(2)
	}
	g := &gen{w: cw.New(*out, mod), rng: rand.New(rand.NewSource(*seed)), tier: *tier}
	switch *comp {
	case "x01":
		runX01(g)
	case "x02":
		runX02(g)
	case "x03":
		runX03(g)
	case "x04":
		runX04(g)
	}
	if err := g.w.Flush(); err != nil {
		fmt.Fprintln(os.Stderr, err)
		os.Exit(1)
	}
}

// ---- shared helpers ----

// order-preserving encodings of small integers into the other cmp.Ordered kinds
func encS(i int) string  { return fmt.Sprintf("k%05d", i+10000) }
func decS(s string) int  { var i int; fmt.Sscanf(s, "k%05d", &i); return i - 10000 }
func encF(i int) float64 { return float64(i) / 4 }
func decF(f float64) int { return int(f * 4) }

func mapL[T, U any](l []T, f func(T) U) []U {
	if l == nil {
		return nil
	}
	r := make([]U, len(l))
	for i, x := range l {
		r[i] = f(x)
	}
	return r
}

func id(i int) int { return i }

func str(s string) string { return "\"" + s + "\"" }

// ZP renders a list of pairs
func ZP(ps [][2]int) string {
	p := make([]string, len(ps))
	for i, x := range ps {
		p[i] = "(" + cw.Z(x[0]) + ", " + cw.Z(x[1]) + ")"
	}
	return "[" + strings.Join(p, "; ") + "]"
}

// all lists of length n over 1..a
func lists(n, a int, f func([]int)) {
	l := make([]int, n)
	var rec func(i int)
	rec = func(i int) {
		if i == n {
			f(append([]int{}, l...))
			return
		}
		for v := 1; v <= a; v++ {
			l[i] = v
			rec(i + 1)
		}
	}
	rec(0)
}

func listsUpTo(maxn, a int, f func([]int)) {
	for n := 0; n <= maxn; n++ {
		lists(n, a, f)
	}
}

// all subsets of 1..a as sorted lists
func subsets(a int, f func([]int)) {
	for mask := 0; mask < 1<<a; mask++ {
		s := []int{}
		for k := 0; k < a; k++ {
			if mask&(1<<k) != 0 {
				s = append(s, k+1)
			}
		}
		f(s)
	}
}

// all maps with keys a subset of 1..ka and values in 1..va, as key-sorted entry lists
func maps(ka, va int, f func([][2]int)) {
	subsets(ka, func(ks []int) {
		lists(len(ks), va, func(vs []int) {
			m := make([][2]int, len(ks))
			for i := range ks {
				m[i] = [2]int{ks[i], vs[i]}
			}
			f(m)
		})
	})
}

func (g *gen) randList(maxn, lo, hi int) []int {
	n := g.rng.Intn(maxn + 1)
	l := make([]int, n)
	for i := range l {
		l[i] = lo + g.rng.Intn(hi-lo+1)
	}
	return l
}

func (g *gen) randMap(maxn, klo, khi, vlo, vhi int) [][2]int {
	n := g.rng.Intn(maxn + 1)
	seen := map[int]bool{}
	m := [][2]int{}
	for i := 0; i < n; i++ {
		k := klo + g.rng.Intn(khi-klo+1)
		if seen[k] {
			continue
		}
		seen[k] = true
		m = append(m, [2]int{k, vlo + g.rng.Intn(vhi-vlo+1)})
	}
	return m
}

func b2z(b bool) int {
	if b {
		return 1
	}
	return 0
}
