//go:build verif

package main

import "github.com/rbell/toolchest/storage"

const hooked = true

func hold[K comparable, V any](c *storage.FifoMapCache[K, V])    { c.VerifHoldSweeps() }
func release[K comparable, V any](c *storage.FifoMapCache[K, V]) { c.VerifReleaseSweeps() }

// layout returns the partitions oldest first, each as its key list
func layout[K comparable, V any](c *storage.FifoMapCache[K, V]) [][]K {
	var out [][]K
	for _, p := range c.VerifLayout() {
		ks := make([]K, 0, len(p.Entries))
		for k := range p.Entries {
			ks = append(ks, k)
		}
		out = append(out, ks)
	}
	return out
}
