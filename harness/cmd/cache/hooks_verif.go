//go:build verif

package main

import "github.com/rbell/toolchest/storage"

const hooked = true

func hold(c *storage.FifoMapCache[int, int])    { c.VerifHoldSweeps() }
func release(c *storage.FifoMapCache[int, int]) { c.VerifReleaseSweeps() }

// layout returns the partitions oldest first, each as its key list
func layout(c *storage.FifoMapCache[int, int]) [][]int {
	var out [][]int
	for _, p := range c.VerifLayout() {
		ks := make([]int, 0, len(p.Entries))
		for k := range p.Entries {
			ks = append(ks, k)
		}
		out = append(out, ks)
	}
	return out
}
