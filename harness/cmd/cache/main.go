// Harness for the sequential cache properties C01, C02, C03, C13: executes generated histories on the
// real FifoMapCache with sweeps held by the verif hook (so that Sweep happens exactly where the history
// says, and un-swept intermediate states are reached deterministically) and records what it observed.
package main

import (
	"context"
	"flag"
	"fmt"
	"math"
	"math/rand"
	"os"
	"runtime"
	"sort"
	"strings"
	"sync/atomic"
	"time"

	"verifharness/internal/cw"
)

type opt struct {
	balanced bool
	nRoot    float64
	minimum  int
}

func (o opt) coq() string {
	if !o.balanced {
		return "ODefault"
	}
	return fmt.Sprintf("(OBalanced %d)", o.minimum)
}
func (o opt) root(n int) int {
	if !o.balanced {
		return 0
	}
	return int(math.Floor(math.Pow(float64(n), 1/o.nRoot)))
}
func (o opt) String() string {
	if !o.balanced {
		return "default"
	}
	return fmt.Sprintf("WithBalancedPartitions(%v,%d)", o.nRoot, o.minimum)
}

type runner struct {
	c       cacheI
	cancel  context.CancelFunc
	o       opt
	U       int
	ops     []string
	desc    []string
	nextVal int
	tags    map[string]bool
	evicted bool
	lastLen int
}

func newRunner(o opt, capacity, U int, preCancel bool, variant int) *runner {
	ctx, cancel := context.WithCancel(context.Background())
	if preCancel {
		cancel() // a cache constructed on a context that is already done
	}
	c := newCache(ctx, o, capacity, variant)
	r := &runner{c: c, cancel: cancel, o: o, U: U, nextVal: 100, tags: map[string]bool{}}
	c.hold()
	return r
}

// close releases the sweeps.  The construction context is deliberately NOT cancelled here: the background ticker
// (period one hour) just stays parked, so that a defect in the cancellation path (property C08's business)
// cannot disturb the sequential checks.  Only the small "cancelled-context" family cancels (label k / K): the
// cache's operations, explicit Sweep included, do not depend on the context, so the model ignores the label.
func (r *runner) close() { r.c.release(); _ = r.cancel }

// waitSweepers waits until no goroutine is inside (or about to enter) FifoMapCache.Sweep
func waitSweepers() {
	buf := make([]byte, 1<<20)
	for i := 0; i < 4000; i++ {
		n := runtime.Stack(buf, true)
		s := string(buf[:n])
		if !strings.Contains(s, "]).Sweep(") && !strings.Contains(s, "]).Sweep\n") && !strings.Contains(s, "FifoMapCache[...]).Sweep") {
			return
		}
		time.Sleep(100 * time.Microsecond)
	}
	panic("sweeper goroutines did not drain")
}

func (r *runner) emit(coq, d string) { r.ops = append(r.ops, coq); r.desc = append(r.desc, d) }

func sorted(l []int) []int { c := append([]int{}, l...); sort.Ints(c); return c }

func (r *runner) obs() {
	gets := make([]int, r.U)
	cont := make([]string, r.U)
	for k := 1; k <= r.U; k++ {
		gets[k-1] = r.c.Get(k)
		cont[k-1] = cw.B(r.c.Contains(k))
	}
	keys, vals := sorted(r.c.Keys()), sorted(r.c.Values())
	l, cp := r.c.Len(), r.c.Capacity()
	if l < r.lastLen {
		r.evicted = true
	}
	r.lastLen = l
	r.emit(fmt.Sprintf("HObs {| ogets := %s; ocontains := [%s]; okeys := %s; ovalues := %s; olen := %d; ocap := %d |}",
		cw.ZL(gets), strings.Join(cont, "; "), cw.ZL(keys), cw.ZL(vals), l, cp),
		fmt.Sprintf("obs gets=%v keys=%v values=%v len=%d cap=%d", gets, keys, vals, l, cp))
}

func (r *runner) set(k int) {
	wp := r.c.Contains(k)
	v := r.nextVal
	r.nextVal++
	r.c.Set(k, v)
	r.emit(fmt.Sprintf("HSet %d %d %s", k, v, cw.B(wp)), fmt.Sprintf("Set(%d,%d) [present before: %v]", k, v, wp))
	g := r.c.Get(k)
	r.emit(fmt.Sprintf("HGet %d %s", k, cw.Z(g)), fmt.Sprintf("Get(%d)=%d", k, g))
	if wp {
		r.tags["update"] = true
	} else {
		r.tags["insert"] = true
	}
}
func (r *runner) get(k int) {
	g := r.c.Get(k)
	r.emit(fmt.Sprintf("HGet %d %s", k, cw.Z(g)), fmt.Sprintf("Get(%d)=%d", k, g))
}
func (r *runner) contains(k int) {
	b := r.c.Contains(k)
	r.emit(fmt.Sprintf("HContains %d %s", k, cw.B(b)), fmt.Sprintf("Contains(%d)=%v", k, b))
}
func (r *runner) del(k int) {
	if r.c.Contains(k) {
		r.tags["delete-present"] = true
	}
	r.c.Delete(k)
	r.emit(fmt.Sprintf("HDelete %d", k), fmt.Sprintf("Delete(%d)", k))
}
func (r *runner) sweep() {
	before := r.c.Len()
	r.c.release()
	r.c.Sweep()
	waitSweepers()
	r.c.hold()
	r.emit("HSweep", "Sweep()")
	if r.c.Len() < before {
		r.tags["eviction"] = true
	}
	r.lastLen = r.c.Len()
}
func (r *runner) clear() {
	r.c.Clear()
	r.emit("HClear", "Clear()")
	r.tags["clear"] = true
	r.lastLen = 0
	r.obs() // C13: an empty cache of unchanged capacity
}
func (r *runner) resize(n int) {
	if !hooked {
		return
	}
	// Resize calls Sweep itself, so sweeps cannot stay held across it; releasing them lets pending
	// sweepers run.  To keep the history deterministic the cache is swept (as a label of the history)
	// first: Resize is therefore exercised on swept states only (the theorems cover un-swept ones).
	r.sweep()
	r.obs()
	before := r.c.layout()
	lb := r.c.Len()
	r.c.release()
	r.c.Resize(n)
	waitSweepers()
	r.c.hold()
	after := r.c.layout()
	where := map[int]int{}
	for i, p := range after {
		for _, k := range p {
			where[k] = i + 1
		}
	}
	order := make([][]int, len(before))
	for i, p := range before {
		ks := append([]int{}, p...)
		sort.Slice(ks, func(a, b int) bool {
			if where[ks[a]] != where[ks[b]] {
				return where[ks[a]] < where[ks[b]] // evicted (0) first, then by new partition
			}
			return ks[a] < ks[b]
		})
		order[i] = ks
	}
	r.emit(fmt.Sprintf("HResize %d %d %s", n, r.o.root(n), cw.ZLL(order)), fmt.Sprintf("Resize(%d) replay order %v", n, order))
	r.obs()
	r.tags["resize"] = true
	if r.c.Len() < lb {
		r.tags["resize-evicts"] = true
	}
	r.lastLen = r.c.Len()
}

type hist struct {
	o    opt
	cap  int
	U    int
	prog []string // "s3" set key 3, "g3", "c3", "d3", "w" sweep, "x" clear, "o" obs, "r12" resize
}

func atoi(s string) int { var i int; fmt.Sscanf(s, "%d", &i); return i }

var shard, nshards, histCounter int

func runHist(w *cw.Writer, mon int, h hist, tag string) {
	histCounter++
	if nshards > 1 && histCounter%nshards != shard {
		return // another process of this run executes this history
	}
	pre := len(h.prog) > 0 && h.prog[0] == "K"
	r := newRunner(h.o, h.cap, h.U, pre, histCounter/max(nshards, 1))
	defer r.close()
	// watchdog: a sequential history whose operation never returns (a lock left held, a lost wake-up) is a failing
	// input in its own right; report it with the operation instead of hanging until the runner's time limit
	var cur atomic.Value
	cur.Store("new cache")
	finished := make(chan struct{})
	defer close(finished)
	go func() {
		select {
		case <-finished:
		case <-time.After(30 * time.Second):
			fmt.Fprintf(os.Stderr, "BLOCKED: operation %q of the sequential history [%s] (option %v, capacity %d) did not return within 30s; observed so far: %v\n",
				cur.Load(), strings.Join(h.prog, " "), h.o, h.cap, r.desc)
			os.Exit(3)
		}
	}()
	r.obs() // block 0: a new cache (Capacity rounding, empty views)
	for i, p := range h.prog {
		cur.Store(fmt.Sprintf("#%d %s", i, p))
		switch p[0] {
		case 's':
			r.set(atoi(p[1:]))
		case 'g':
			r.get(atoi(p[1:]))
		case 'c':
			r.contains(atoi(p[1:]))
		case 'd':
			r.del(atoi(p[1:]))
		case 'w':
			r.sweep()
			r.obs()
		case 'x':
			r.clear()
		case 'o':
			r.obs()
		case 'r':
			r.resize(atoi(p[1:]))
		case 'k':
			r.cancel()
			r.desc = append(r.desc, "construction context cancelled")
			time.Sleep(200 * time.Microsecond) // let the ticker goroutine leave
		case 'K':
			r.desc = append(r.desc, "constructed on an already cancelled context")
		}
		if !hooked && p[0] == 's' {
			r.sweep()
		}
	}
	tags := []string{tag, "opt:" + map[bool]string{false: "default", true: "balanced"}[h.o.balanced], "inst:" + r.c.inst()}
	for t := range r.tags {
		tags = append(tags, t)
	}
	sort.Strings(tags)
	trivial := !(r.tags["eviction"] || r.tags["resize"] || (r.tags["update"] && r.tags["delete-present"]))
	w.Add(cw.Case{
		Coq:  fmt.Sprintf("CHist %d %s %d %d %s", mon, h.o.coq(), h.cap, h.o.root(h.cap), cw.L(r.ops)),
		Desc: map[string]any{"instantiation": r.c.inst(), "option": h.o.String(), "capacity": h.cap, "universe": h.U, "program": strings.Join(h.prog, " "), "observed": r.desc},
		Tags: tags, Key: fmt.Sprint(h.o, h.cap, h.prog), Trivial: trivial,
	})
}

func main() {
	seed := flag.Int64("seed", 1, "")
	tier := flag.String("tier", "quick", "")
	out := flag.String("out", "", "")
	prop := flag.String("prop", "C01", "")
	flag.IntVar(&shard, "shard", 0, "")
	flag.IntVar(&nshards, "nshards", 1, "")
	flag.Parse()
	rng := rand.New(rand.NewSource(*seed))
	mon := map[string]int{"C01": 1, "C02": 2, "C03": 3, "C13": 13}[*prop]
	w := cw.New(*out, "CorrCache")
	w.Chunk = 100
	thorough := *tier == "thorough"
	opts := []opt{{balanced: false, minimum: 1}, {true, 2, 1}, {true, 3, 2}, {true, 1.5, 3}}
	randOpt := func(capacity int) opt {
		o := opts[rng.Intn(len(opts))]
		if o.minimum > capacity {
			o.minimum = capacity
		}
		return o
	}
	// corpus: the refutation witnesses of Findings/Cache.v (F1, F2) and the examples of Props/
	corpus := []hist{
		{opt{}, 4, 6, strings.Fields("s1 s2 s3 s4 d3 s5 s3 w")},              // F1: Len()=5 > Capacity()=4 after a sweep
		{opt{}, 4, 6, strings.Fields("s1 s2 s3 d1 s1 s4 s5 w")},              // F1: re-inserted key not renewed
		{opt{}, 9, 12, strings.Fields("s1 s2 s3 s4 w r12 s5 s6 s7 s8 s9 s10 s11 s12 w")}, // F2: Resize(12) on 9 keeps capacity 9
		{opt{true, 3, 2}, 16, 12, strings.Fields("s1 s2 s3 w r20 s4 w")},     // F2: Resize ignores the configured calculator
		{opt{}, 4, 6, strings.Fields("s1 s2 s3 s4 s5 d3 s1 g1 w g1 g5")},
		{opt{}, 9, 10, strings.Fields("s1 s2 s3 s4 s5 s6 s7 w r4 s8 w x s1 w")},
	}
	for _, h := range corpus {
		runHist(w, mon, h, "corpus")
	}
	// exhaustive small scope
	L := 4
	if thorough {
		L = 5
	}
	var alphabet []string
	switch *prop {
	case "C13":
		alphabet = []string{"s1", "s2", "s3", "d1", "w", "r1", "r2", "r4", "r6", "x"}
		L--
	case "C03":
		alphabet = []string{"s1", "s2", "s3", "s4", "d1", "w", "x"} // Clear restarts the insertion count
	case "C02":
		alphabet = []string{"s1", "s2", "s3", "s4", "d1", "d2", "w"}
	default:
		alphabet = []string{"s1", "s2", "s3", "d1", "d2", "w", "x"}
	}
	type ecfg struct {
		o        opt
		capacity int
	}
	for _, ec := range []ecfg{{opt{}, 1}, {opt{}, 2}, {opt{true, 3, 2}, 2}, {opt{}, 4}} {
		ec := ec
		var rec func(prefix []string)
		rec = func(prefix []string) {
			if len(prefix) > 0 {
				runHist(w, mon, hist{ec.o, ec.capacity, 4, append(append([]string{}, prefix...), "w")}, "exhaustive")
			}
			if len(prefix) == L || (ec.capacity == 4 && len(prefix) == L-1) {
				return
			}
			for _, a := range alphabet {
				if a[0] == 'r' && atoi(a[1:]) < ec.o.minimum {
					continue // new capacity below the option's minimum partition count: outside the configuration class
				}
				rec(append(append([]string{}, prefix...), a))
			}
		}
		rec(nil)
	}
	// structured random histories
	R := 400
	if thorough {
		R = 4000
	}
	for it := 0; it < R; it++ {
		capacity := []int{1, 2, 3, 4, 5, 6, 9, 10, 12, 16, 17, 25}[rng.Intn(12)]
		o := randOpt(capacity)
		U := capacity + 2 + rng.Intn(capacity+3)
		if U > 40 {
			U = 40
		}
		n := 10 + rng.Intn(60)
		var prog []string
		for i := 0; i < n; i++ {
			k := 1 + rng.Intn(U)
			switch x := rng.Intn(100); {
			case x < 45:
				prog = append(prog, fmt.Sprintf("s%d", k))
			case x < 55:
				prog = append(prog, fmt.Sprintf("d%d", k))
			case x < 62:
				prog = append(prog, fmt.Sprintf("g%d", k), fmt.Sprintf("c%d", k))
			case x < 80:
				prog = append(prog, "w")
			case x < 84:
				prog = append(prog, "o")
			case x < 87:
				prog = append(prog, "x")
			case x < 93 && (*prop != "C03" || it%2 == 0):
				// every property's histories contain Resize (C03's FIFO clause stops at the first one,
				// so half of its histories stay without)
				prog = append(prog, fmt.Sprintf("r%d", o.minimum+rng.Intn(2*capacity+3)))
			default:
				prog = append(prog, fmt.Sprintf("s%d", k))
			}
		}
		prog = append(prog, "w")
		runHist(w, mon, hist{o, capacity, U, prog}, "random")
	}
	// many partitions (more than 16 entries in the partition stack): long histories at 17..60 partitions
	M := 30
	if thorough {
		M = 300
	}
	for it := 0; it < M; it++ {
		capacity := []int{20, 30, 40, 50, 60}[rng.Intn(5)]
		o := []opt{{true, 1.05, 1}, {true, 1.2, 1}, {true, 1.1, 1}}[rng.Intn(3)]
		U := capacity + 5 + rng.Intn(10)
		n := 60 + rng.Intn(120)
		var prog []string
		next := 1
		for i := 0; i < n; i++ {
			k := 1 + rng.Intn(U)
			switch x := rng.Intn(100); {
			case x < 50: // mostly fresh keys in order, so that the partitions fill and rotate
				prog = append(prog, fmt.Sprintf("s%d", 1+next%U))
				next++
			case x < 62:
				prog = append(prog, fmt.Sprintf("s%d", k))
			case x < 70:
				prog = append(prog, fmt.Sprintf("d%d", k))
			case x < 80:
				prog = append(prog, fmt.Sprintf("g%d", k), fmt.Sprintf("c%d", k))
			case x < 94:
				prog = append(prog, "w")
			case x < 96 && *prop != "C03":
				prog = append(prog, fmt.Sprintf("r%d", 17+rng.Intn(50)))
			default:
				prog = append(prog, "o")
			}
		}
		prog = append(prog, "w")
		runHist(w, mon, hist{o, capacity, U, prog}, "many-partitions")
	}
	// cancelled-context family: the same kind of history on a cache whose construction context is cancelled before
	// construction (K) or at some point of the history (k); kept small so that a defect of the cancellation path
	// cannot flood the run with goroutines
	for it := 0; it < 24; it++ {
		capacity := []int{1, 4, 9, 10, 16, 25}[rng.Intn(6)]
		o := randOpt(capacity)
		U := 2*capacity + 3
		n := 3*capacity + rng.Intn(20)
		at := rng.Intn(n)
		var prog []string
		if it%3 == 0 {
			prog = append(prog, "K")
			at = -1
		}
		for i := 0; i < n; i++ {
			if i == at {
				prog = append(prog, "k")
			}
			switch x := rng.Intn(100); {
			case x < 70:
				prog = append(prog, fmt.Sprintf("s%d", 1+rng.Intn(U)))
			case x < 78:
				prog = append(prog, fmt.Sprintf("d%d", 1+rng.Intn(U)))
			case x < 92:
				prog = append(prog, "w")
			case x < 95 && *prop != "C03":
				prog = append(prog, fmt.Sprintf("r%d", o.minimum+rng.Intn(2*capacity+3)))
			default:
				prog = append(prog, "o")
			}
		}
		prog = append(prog, "w")
		runHist(w, mon, hist{o, capacity, U, prog}, "cancelled-context")
	}
	// C02: Capacity() rounding for every requested capacity in a range, every option
	if *prop == "C02" {
		maxCap := 400
		if thorough {
			maxCap = 5000
		}
		for capacity := 1; capacity <= maxCap; capacity++ {
			for _, o := range []opt{{}, {true, 2, 1}, {true, 3, 2}, {true, 1.5, 1}, {true, 2.5, 7}} {
				if o.minimum > capacity {
					continue
				}
				runHist(w, mon, hist{o, capacity, 1, nil}, "rounding")
			}
		}
	}
	// C13: (old, new) capacity pairs: growing, shrinking, same partition count / different size
	if *prop == "C13" || *prop == "C02" {
		maxCap := 12
		if thorough {
			maxCap = 30
		}
		for oldc := 1; oldc <= maxCap; oldc++ {
			for newc := 1; newc <= maxCap; newc++ {
				o := opts[(oldc+newc)%len(opts)]
				if o.minimum > oldc || o.minimum > newc {
					o = opts[0]
				}
				var prog []string
				fill := oldc + rng.Intn(3)
				for k := 1; k <= fill; k++ {
					prog = append(prog, fmt.Sprintf("s%d", k))
				}
				prog = append(prog, "w")
				post := []string{fmt.Sprintf("r%d", newc)}
				for k := fill + 1; k <= fill+newc+1; k++ {
					post = append(post, fmt.Sprintf("s%d", k))
				}
				post = append(post, "w")
				runHist(w, mon, hist{o, oldc, fill + newc + 2, append(append([]string{}, prog...), post...)}, "resize-pairs")
				// the same pair with holes: every third key deleted first, so that the survivors fit although
				// the partitions they sit in do not map one-to-one onto the new ones
				holes := append([]string{}, prog...)
				for k := 1 + rng.Intn(3); k <= fill; k += 3 {
					holes = append(holes, fmt.Sprintf("d%d", k))
				}
				runHist(w, mon, hist{o, oldc, fill + newc + 2, append(holes, post...)}, "resize-pairs-holes")
			}
		}
	}
	w.Extra["hooked"] = hooked
	w.Extra["scope"] = fmt.Sprintf("prop %s: corpus %d; every history of <=%d labels over %v at (default,1) (default,2) (balanced(3,2),2 = 2 partitions of 1) (default,4 = 2x2) (sweeps held, so un-swept states are reached); %d random histories of 10-70 labels over capacities 1..25 and 4 partitioning options", *prop, len(corpus), L, alphabet, R)
	if err := w.Flush(); err != nil {
		fmt.Fprintln(os.Stderr, err)
		os.Exit(2)
	}
}
