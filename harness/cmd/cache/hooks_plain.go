//go:build !verif

package main

import "github.com/rbell/toolchest/storage"

// Hook-less fallback (the tagged build failed against the current tree): sweeps cannot be held, so every
// Set is followed by a Sweep in the generated histories, and Resize is not exercised.
const hooked = false

func hold[K comparable, V any](c *storage.FifoMapCache[K, V])          {}
func release[K comparable, V any](c *storage.FifoMapCache[K, V])       {}
func layout[K comparable, V any](c *storage.FifoMapCache[K, V]) [][]K { return nil }
