//go:build !verif

package main

import "github.com/rbell/toolchest/storage"

// Hook-less fallback (the tagged build failed against the current tree): sweeps cannot be held, so every
// Set is followed by a Sweep in the generated histories, and Resize is not exercised.
const hooked = false

func hold(c *storage.FifoMapCache[int, int])    {}
func release(c *storage.FifoMapCache[int, int]) {}
func layout(c *storage.FifoMapCache[int, int]) [][]int { return nil }
