package main

import (
	"context"
	"fmt"
	"time"

	"github.com/rbell/toolchest/storage"
)

// cacheI is what the histories need from a cache; keys and values travel as ints and are encoded into the
// instantiation's key and value types, so that the same histories (and the same Coq cases) run at several
// instantiations of the generic FifoMapCache.
type cacheI interface {
	Set(k, v int)
	Get(k int) int
	Contains(k int) bool
	Delete(k int)
	Sweep()
	Clear()
	Resize(n int)
	Len() int
	Capacity() int
	Keys() []int
	Values() []int
	hold()
	release()
	layout() [][]int
	inst() string
}

type adapter[K comparable, V any] struct {
	c    *storage.FifoMapCache[K, V]
	name string
	kenc func(int) K
	kdec func(K) int
	venc func(int) V
	vdec func(V) int
}

func (a *adapter[K, V]) Set(k, v int)        { a.c.Set(a.kenc(k), a.venc(v)) }
func (a *adapter[K, V]) Get(k int) int       { return a.vdec(a.c.Get(a.kenc(k))) }
func (a *adapter[K, V]) Contains(k int) bool { return a.c.Contains(a.kenc(k)) }
func (a *adapter[K, V]) Delete(k int)        { a.c.Delete(a.kenc(k)) }
func (a *adapter[K, V]) Sweep()              { a.c.Sweep() }
func (a *adapter[K, V]) Clear()              { a.c.Clear() }
func (a *adapter[K, V]) Resize(n int)        { a.c.Resize(n) }
func (a *adapter[K, V]) Len() int            { return a.c.Len() }
func (a *adapter[K, V]) Capacity() int       { return a.c.Capacity() }
func (a *adapter[K, V]) inst() string        { return a.name }
// The slices returned by Keys() and Values() belong to the caller: after decoding, every element is overwritten
// with the zero value, so that an implementation which hands out (and later reuses) an internal slice is exposed.
func (a *adapter[K, V]) Keys() []int {
	var out []int
	ks := a.c.Keys()
	var zk K
	for i, k := range ks {
		out = append(out, a.kdec(k))
		ks[i] = zk
	}
	return out
}
func (a *adapter[K, V]) Values() []int {
	var out []int
	vs := a.c.Values()
	var zv V
	for i, v := range vs {
		out = append(out, a.vdec(v))
		vs[i] = zv
	}
	return out
}
func (a *adapter[K, V]) hold()    { hold(a.c) }
func (a *adapter[K, V]) release() { release(a.c) }
func (a *adapter[K, V]) layout() [][]int {
	var out [][]int
	for _, p := range layout(a.c) {
		ks := make([]int, 0, len(p))
		for _, k := range p {
			ks = append(ks, a.kdec(k))
		}
		out = append(out, ks)
	}
	return out
}

// box values: every Set stores a FRESH pointer whose target has the same content as every other one, so that
// only the pointer's identity tells the values apart (an implementation that compares or copies by content —
// reflect.DeepEqual, a value cache — is exposed); the identity is looked up in a table.
type box struct{ pad [2]int }

func mkCache[K comparable, V any](ctx context.Context, o opt, capacity int) *storage.FifoMapCache[K, V] {
	if o.balanced {
		return storage.NewFifoMapCache[K, V](ctx, capacity, storage.WithSweepFrequency(time.Hour), storage.WithBalancedPartitions(o.nRoot, o.minimum))
	}
	return storage.NewFifoMapCache[K, V](ctx, capacity, storage.WithSweepFrequency(time.Hour))
}

func newCache(ctx context.Context, o opt, capacity, variant int) cacheI {
	id := func(i int) int { return i }
	skey := func(i int) string { return fmt.Sprintf("k%d", i) }
	sdec := func(s string) int { var i int; fmt.Sscanf(s, "k%d", &i); return i }
	switch variant % 3 {
	case 1:
		ids := map[*box]int{}
		return &adapter[int, *box]{c: mkCache[int, *box](ctx, o, capacity), name: "FifoMapCache[int,*box]", kenc: id, kdec: id,
			venc: func(v int) *box { p := &box{}; ids[p] = v; return p },
			vdec: func(p *box) int {
				if p == nil {
					return 0
				}
				if v, ok := ids[p]; ok {
					return v
				}
				return -7 // a pointer that was never stored
			}}
	case 2:
		ids := map[*box]int{}
		return &adapter[string, *box]{c: mkCache[string, *box](ctx, o, capacity), name: "FifoMapCache[string,*box]", kenc: skey, kdec: sdec,
			venc: func(v int) *box { p := &box{}; ids[p] = v; return p },
			vdec: func(p *box) int {
				if p == nil {
					return 0
				}
				if v, ok := ids[p]; ok {
					return v
				}
				return -7
			}}
	default:
		return &adapter[int, int]{c: mkCache[int, int](ctx, o, capacity), name: "FifoMapCache[int,int]", kenc: id, kdec: id, venc: id, vdec: id}
	}
}
