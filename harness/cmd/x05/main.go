// Harness for the extra component X05: drives $VERIF_REPO/rankCalculation (PercentileRanker.Rank directly and
// RankCalculator through NewRankCalculator + options / Accumulate / Reset / Calculate) on generated inputs and
// records every result map with its float64 values rendered EXACTLY (mantissa * 2^exponent) as Coq terms;
// Run/CorrX05.v evaluates the model and the tolerance comparison on integers.  All randomness derives from -seed.
package main

import (
	"flag"
	"fmt"
	"math"
	"math/rand"
	"os"
	"sort"
	"strings"

	"github.com/rbell/toolchest/rankCalculation"
	"verifharness/internal/cw"
)

// ---- exact rendering of a float64 ----
type flt struct {
	Kind string  `json:"kind"` // num | nan | +inf | -inf
	M    int64   `json:"mantissa,omitempty"`
	E    int     `json:"exp2,omitempty"`
	F    float64 `json:"approx,omitempty"`
}

func exact(x float64) flt {
	switch {
	case math.IsNaN(x):
		return flt{Kind: "nan"}
	case math.IsInf(x, 1):
		return flt{Kind: "+inf"}
	case math.IsInf(x, -1):
		return flt{Kind: "-inf"}
	case x == 0:
		return flt{Kind: "num"}
	}
	fr, ex := math.Frexp(x) // x = fr * 2^ex, 0.5 <= |fr| < 1
	m := int64(fr * (1 << 53)) // exact: fr has 53 significant bits
	e := ex - 53
	for m%2 == 0 {
		m /= 2
		e++
	}
	return flt{Kind: "num", M: m, E: e, F: x}
}

func (f flt) coq() string {
	switch f.Kind {
	case "nan":
		return "FNaN"
	case "+inf":
		return "FInf false"
	case "-inf":
		return "FInf true"
	}
	return fmt.Sprintf("FD %s %s", cw.Z(int(f.M)), cw.Z(f.E))
}

type obsEntry struct {
	K int `json:"key"`
	V flt `json:"percentile"`
}

func obsCoq(o []obsEntry) string {
	p := make([]string, len(o))
	for i, e := range o {
		p[i] = fmt.Sprintf("(%s, %s)", cw.Z(e.K), e.V.coq())
	}
	return "[" + strings.Join(p, "; ") + "]"
}

var panicObs = []obsEntry{{K: -1000, V: flt{Kind: "nan"}}}

func collect[T comparable](m map[T]float64, err error, dk func(T) int) []obsEntry {
	if err != nil {
		return panicObs // Rank never returns an error in the model
	}
	o := make([]obsEntry, 0, len(m))
	for k, v := range m {
		o = append(o, obsEntry{K: dk(k), V: exact(v)})
	}
	sort.Slice(o, func(i, j int) bool { return o[i].K < o[j].K })
	return o
}

func encS(i int) string { return fmt.Sprintf("k%d", i) }
func decS(s string) int { var i int; fmt.Sscanf(s, "k%d", &i); return i }
func id(i int) int      { return i }

func ZP(ps [][2]int) string {
	p := make([]string, len(ps))
	for i, x := range ps {
		p[i] = "(" + cw.Z(x[0]) + ", " + cw.Z(x[1]) + ")"
	}
	return "[" + strings.Join(p, "; ") + "]"
}

// ---- direct Rank ----
func rankAt[T comparable](positional bool, m [][2]int, ek func(int) T, dk func(T) int) (o []obsEntry) {
	defer func() {
		if recover() != nil {
			o = panicObs
		}
	}()
	gm := make(map[T]int64, len(m))
	for _, e := range m {
		gm[ek(e[0])] = int64(e[1])
	}
	r, err := rankCalculation.NewPercentileRanker[T](positional).Rank(gm)
	return collect(r, err, dk)
}

type gen struct {
	w   *cw.Writer
	rng *rand.Rand
}

const rankReps = 2

func (g *gen) rankCase(label string, positional bool, m [][2]int) {
	obs := [][]obsEntry{}
	for i := 0; i < rankReps; i++ {
		obs = append(obs, rankAt(positional, m, id, id), rankAt(positional, m, encS, decS))
	}
	if len(m) == 0 {
		r, err := rankCalculation.NewPercentileRanker[int](positional).Rank(nil)
		obs = append(obs, collect(r, err, id))
	}
	oc := make([]string, len(obs))
	for i, o := range obs {
		oc[i] = obsCoq(o)
	}
	ties, nonpos, big := false, true, false
	seen := map[int]bool{}
	for _, e := range m {
		if seen[e[1]] {
			ties = true
		}
		seen[e[1]] = true
		if e[1] > 0 {
			nonpos = false
		}
		if e[1] > 1<<53 {
			big = true
		}
	}
	fn := "rank/value"
	if positional {
		fn = "rank/positional"
	}
	tags := []string{fn, label}
	if ties {
		tags = append(tags, fn+"/ties")
	}
	if nonpos && len(m) > 0 {
		tags = append(tags, fn+"/no-positive-count(NaN,-Inf)")
	}
	if big {
		tags = append(tags, fn+"/count>2^53")
	}
	g.w.Add(cw.Case{
		Coq:     fmt.Sprintf("CRank %s %s %s", cw.B(positional), ZP(m), cw.L(oc)),
		Desc:    map[string]any{"fn": fn, "counts": m, "observed": obs},
		Tags:    tags,
		Key:     fmt.Sprint(fn, m),
		Trivial: len(m) < 2,
	})
}

// ---- RankCalculator ----
type constRanker[T comparable] struct{ c float64 }

func (r constRanker[T]) Rank(entries map[T]int64) (map[T]float64, error) {
	out := make(map[T]float64, len(entries))
	for k := range entries {
		out[k] = r.c
	}
	return out, nil
}

type opt struct {
	Kind string `json:"option"` // WithRankPositionally | WithRanker(percentile,positional) | WithRanker(percentile,value) | WithRanker(const)
	C    int    `json:"const,omitempty"`
}

func (o opt) coq() string {
	switch o.Kind {
	case "WithRankPositionally":
		return "ZWithRankPositionally"
	case "WithRanker(percentile,positional)":
		return "ZWithRanker (ZPercentile true)"
	case "WithRanker(percentile,value)":
		return "ZWithRanker (ZPercentile false)"
	}
	return fmt.Sprintf("ZWithRanker (ZConst %s)", cw.Z(o.C))
}

func mkOpts[T comparable](opts []opt) []rankCalculation.RankCalculatorOption[T] {
	r := []rankCalculation.RankCalculatorOption[T]{}
	for _, o := range opts {
		switch o.Kind {
		case "WithRankPositionally":
			r = append(r, rankCalculation.WithRankPositionally[T]())
		case "WithRanker(percentile,positional)":
			r = append(r, rankCalculation.WithRanker[T](rankCalculation.NewPercentileRanker[T](true)))
		case "WithRanker(percentile,value)":
			r = append(r, rankCalculation.WithRanker[T](rankCalculation.NewPercentileRanker[T](false)))
		default:
			r = append(r, rankCalculation.WithRanker[T](constRanker[T]{float64(o.C)}))
		}
	}
	return r
}

// events: k > 0 Accumulate(k); 0 Reset; -1 Calculate
func calcAt[T comparable](opts []opt, evs []int, ek func(int) T, dk func(T) int) (obs [][]obsEntry) {
	defer func() {
		if recover() != nil {
			obs = append(obs, panicObs)
		}
	}()
	c := rankCalculation.NewRankCalculator[T](mkOpts[T](opts)...)
	for _, e := range evs {
		switch {
		case e > 0:
			c.Accumulate(ek(e))
		case e == 0:
			c.Reset()
		default:
			r, err := c.Calculate()
			obs = append(obs, collect(r, err, dk))
		}
	}
	return obs
}

func (g *gen) calcCase(label string, opts []opt, evs []int, str bool) {
	var obs [][]obsEntry
	ty := "int"
	if str {
		obs, ty = calcAt(opts, evs, encS, decS), "string"
	} else {
		obs = calcAt(opts, evs, id, id)
	}
	oc := make([]string, len(obs))
	for i, o := range obs {
		oc[i] = obsCoq(o)
	}
	op := make([]string, len(opts))
	okinds := make([]string, len(opts))
	for i, o := range opts {
		op[i] = o.coq()
		okinds[i] = o.Kind
	}
	ec := make([]string, len(evs))
	nacc, nreset := 0, 0
	for i, e := range evs {
		switch {
		case e > 0:
			ec[i] = fmt.Sprintf("ZAcc %d", e)
			nacc++
		case e == 0:
			ec[i] = "ZReset"
			nreset++
		default:
			ec[i] = "ZCalc"
		}
	}
	tags := []string{"calc", label, "calc/options=" + strings.Join(okinds, "+")}
	if nreset > 0 {
		tags = append(tags, "calc/with-reset")
	}
	g.w.Add(cw.Case{
		Coq:     fmt.Sprintf("CCalc %s %s %s", cw.L(op), cw.L(ec), cw.L(oc)),
		Desc:    map[string]any{"fn": "calculator", "key_type": ty, "options": opts, "events(k>0 Accumulate k; 0 Reset; -1 Calculate)": evs, "observed": obs},
		Tags:    tags,
		Key:     fmt.Sprint("calc", ty, okinds, opts, evs),
		Trivial: nacc == 0,
	})
}

// ---- generators ----
func lists(n, a int, f func([]int)) {
	l := make([]int, n)
	var rec func(i int)
	rec = func(i int) {
		if i == n {
			f(append([]int{}, l...))
			return
		}
		for v := 0; v < a; v++ {
			l[i] = v
			rec(i + 1)
		}
	}
	rec(0)
}

// all maps with keys a subset of 1..ka and values taken from vals
func maps(ka int, vals []int, f func([][2]int)) {
	for mask := 0; mask < 1<<ka; mask++ {
		ks := []int{}
		for k := 0; k < ka; k++ {
			if mask&(1<<k) != 0 {
				ks = append(ks, k+1)
			}
		}
		lists(len(ks), len(vals), func(ix []int) {
			m := make([][2]int, len(ks))
			for i := range ks {
				m[i] = [2]int{ks[i], vals[ix[i]]}
			}
			f(m)
		})
	}
}

var optSets = [][]opt{
	{},
	{{Kind: "WithRankPositionally"}},
	{{Kind: "WithRanker(percentile,positional)"}},
	{{Kind: "WithRanker(percentile,value)"}},
	{{Kind: "WithRanker(const)", C: 42}},
	{{Kind: "WithRankPositionally"}, {Kind: "WithRanker(percentile,value)"}},
	{{Kind: "WithRanker(const)", C: 7}, {Kind: "WithRankPositionally"}},
}

func main() {
	seed := flag.Int64("seed", 1, "")
	tier := flag.String("tier", "quick", "")
	out := flag.String("out", "", "")
	flag.Parse()
	g := &gen{w: cw.New(*out, "CorrX05"), rng: rand.New(rand.NewSource(*seed))}
	KA, EL, R := 4, 3, 100
	if *tier == "thorough" {
		KA, EL, R = 5, 5, 4000
	}
	// corpus: the witnesses of Findings/Rank.v first
	g.calcCase("corpus", []opt{{Kind: "WithRankPositionally"}}, []int{1, 2, 2, 3, 3, 3, 4, 4, 4, 4, -1}, false)
	g.calcCase("corpus", []opt{{Kind: "WithRanker(const)", C: 42}}, []int{1, 2, 2, -1}, false)
	g.rankCase("corpus", false, [][2]int{{1, 0}, {2, 0}})
	g.rankCase("corpus", false, [][2]int{{1, -3}, {2, 0}})
	g.rankCase("corpus", true, [][2]int{{1, 5}})
	g.rankCase("corpus", true, [][2]int{{1, 5}, {2, 5}, {3, 5}})
	for _, p := range []bool{false, true} {
		g.rankCase("empty", p, nil)
		// exhaustive: every map with keys within 1..KA and counts 1..3 (ties everywhere), both rankers
		maps(KA, []int{1, 2, 3}, func(m [][2]int) { g.rankCase("exhaustive", p, m) })
		// degenerate counts reachable only through the public Ranker API: zero and negative
		maps(3, []int{-2, 0, 1}, func(m [][2]int) { g.rankCase("exhaustive-nonpositive", p, m) })
	}
	// calculator: every event sequence of length <= EL over Accumulate(1..3) / Reset / Calculate, closed by a
	// Calculate, under every option list
	for n := 0; n <= EL; n++ {
		lists(n, 5, func(ix []int) {
			evs := make([]int, 0, n+1)
			for _, x := range ix {
				evs = append(evs, []int{1, 2, 3, 0, -1}[x])
			}
			evs = append(evs, -1)
			for oi, os := range optSets {
				g.calcCase("exhaustive", os, evs, (n+oi)%2 == 1)
			}
		})
	}
	// random
	for i := 0; i < R; i++ {
		n := 1 + g.rng.Intn(30)
		m := [][2]int{}
		perm := g.rng.Perm(200)
		mode := g.rng.Intn(5)
		for j := 0; j < n; j++ {
			var v int
			switch mode {
			case 0:
				v = 1 + g.rng.Intn(4) // many ties
			case 1:
				v = 1 + g.rng.Intn(1000000)
			case 2:
				v = 1 + int(g.rng.Int63n(math.MaxInt64-1)) // beyond 2^53: the int64 -> float64 conversion rounds
			case 3:
				v = g.rng.Intn(7) - 2 // some zero / negative
			default:
				v = 1 + g.rng.Intn(50)
			}
			m = append(m, [2]int{perm[j] + 1, v})
		}
		g.rankCase("random", i%2 == 0, m)
		ne := 5 + g.rng.Intn(60)
		kh := 2 + g.rng.Intn(8)
		evs := make([]int, 0, ne+1)
		for j := 0; j < ne; j++ {
			switch r := g.rng.Intn(20); {
			case r == 0:
				evs = append(evs, 0)
			case r < 3:
				evs = append(evs, -1)
			default:
				evs = append(evs, 1+g.rng.Intn(kh))
			}
		}
		evs = append(evs, -1, -1)
		g.calcCase("random", optSets[g.rng.Intn(len(optSets))], evs, i%2 == 1)
	}
	g.w.Extra["scope"] = fmt.Sprintf("Rank: every map with keys within 1..%d and counts 1..3, every map with keys within 1..3 and counts in {-2,0,1}, both rankers, each %d x 2 calls (int and string keys, fresh map each time); %d random maps of 1..30 entries (many ties / up to 1e6 / up to 2^63 / with zero and negative counts); calculator: every event sequence of length <= %d over Accumulate(1..3), Reset, Calculate (+ final Calculate) under each of %d option lists, %d random histories of 7..66 events; relative tolerance 2^-50, exact at 0 and 100",
		KA, rankReps, R, EL, len(optSets), R)
	if err := g.w.Flush(); err != nil {
		fmt.Fprintln(os.Stderr, err)
		os.Exit(1)
	}
}
