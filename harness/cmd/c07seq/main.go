// Harness for C07 (sequential part): drives the real storage.SafeMap and generic.SyncMap on generated
// operation sequences (fresh map per sequence) at four key/value instantiations (int, string, pointer,
// interface with nil values), decodes everything to integers (0 = zero value) and writes the observations
// as Coq cases for Run/CorrC07.v.  Snapshot non-aliasing (Keys/Values/CopyToMap/TranslateToMapOf) is
// checked here on the Go side: mutate the snapshot and re-read the map, mutate the map and re-read the
// snapshot.  A plain Go map is run alongside as a second, independent reference.
package main

import (
	"flag"
	"fmt"
	"math/rand"
	"os"
	"reflect"
	"sort"
	"strings"

	"github.com/rbell/toolchest/generic"
	"github.com/rbell/toolchest/storage"
	"verifharness/internal/cw"
)

// ---------- codecs: code 0 is the zero value of the Go type ----------
type cell struct{ v int }

var cells = func() []*cell {
	r := make([]*cell, 400)
	for i := range r {
		r[i] = &cell{i}
	}
	return r
}()

type codec[T any] struct {
	name string
	enc  func(int) T
	dec  func(T) int
}

var intC = codec[int]{"int", func(i int) int { return i }, func(i int) int { return i }}
var strC = codec[string]{"string",
	func(i int) string {
		if i == 0 {
			return ""
		}
		return fmt.Sprintf("s%d", i)
	},
	func(s string) int {
		if s == "" {
			return 0
		}
		var i int
		fmt.Sscanf(s, "s%d", &i)
		return i
	}}
var ptrC = codec[*cell]{"ptr",
	func(i int) *cell {
		if i == 0 {
			return nil
		}
		return cells[i]
	},
	func(p *cell) int {
		if p == nil {
			return 0
		}
		return p.v
	}}

// interface type: code 0 is the nil interface value, other codes are boxed ints
var anyC = codec[any]{"any",
	func(i int) any {
		if i == 0 {
			return nil
		}
		return i
	},
	func(a any) int {
		if a == nil {
			return 0
		}
		return a.(int)
	}}

// ---- value types that are NOT comparable with == (a map must store and return them like any other value; only
// CompareAndSwap / CompareAndDelete are documented to require comparable values) ----
type sbox struct {
	tag string
	s   []int
}

var sliceC = codec[[]int]{"[]int",
	func(i int) []int {
		if i == 0 {
			return nil
		}
		return []int{i}
	},
	func(s []int) int {
		if len(s) == 0 {
			return 0
		}
		return s[0]
	}}
var mapC = codec[map[string]int]{"map[string]int",
	func(i int) map[string]int {
		if i == 0 {
			return nil
		}
		return map[string]int{"v": i}
	},
	func(m map[string]int) int { return m["v"] }}
var boxC = codec[sbox]{"struct{[]int}",
	func(i int) sbox {
		if i == 0 {
			return sbox{}
		}
		return sbox{"b", []int{i}}
	},
	func(b sbox) int {
		if len(b.s) == 0 {
			return 0
		}
		return b.s[0]
	}}
var funcC = codec[func() int]{"func() int",
	func(i int) func() int {
		if i == 0 {
			return nil
		}
		return func() int { return i }
	},
	func(f func() int) int {
		if f == nil {
			return 0
		}
		return f()
	}}

// interface type holding uncomparable dynamic values: 0 is the nil interface, odd codes are slices, even codes maps
var anyUncC = codec[any]{"any(holding []int / map[string]int)",
	func(i int) any {
		switch {
		case i == 0:
			return nil
		case i%2 == 1:
			return []int{i}
		}
		return map[string]int{"v": i}
	},
	func(a any) int {
		switch x := a.(type) {
		case nil:
			return 0
		case []int:
			return x[0]
		case map[string]int:
			return x["v"]
		}
		return -999
	}}

// interface-typed KEY holding comparable dynamic values of different types: 0 nil, odd ints, even strings
var anyMixKeyC = codec[any]{"any(holding int / string)",
	func(i int) any {
		switch {
		case i == 0:
			return nil
		case i%2 == 1:
			return i
		}
		return fmt.Sprintf("s%d", i)
	},
	func(a any) int {
		switch x := a.(type) {
		case nil:
			return 0
		case int:
			return x
		case string:
			var i int
			fmt.Sscanf(x, "s%d", &i)
			return i
		}
		return -999
	}}

const freshKey = 399 // a key code no generated sequence uses (alias checks insert and remove it)
const freshVal = 398

// ---------- operations and observations ----------
type op struct {
	Kind string // SafeMap: Contains Get GetOrAdd Set Delete Clear ClearAndResize Has Len Keys Values CopyToMap TranslateToMapOf
	//             SyncMap: Load Store Swap Delete LoadOrStore LoadAndDelete CompareAndDelete CompareAndSwap Range Iterate
	K, V, W int // key, value (or old), new value
	N       int // ClearAndResize size / Range-Iterate budget / translator multiplier
}

func (o op) String() string {
	switch o.Kind {
	case "Contains", "Get", "Delete", "Has", "Load", "LoadAndDelete":
		return fmt.Sprintf("%s(%d)", o.Kind, o.K)
	case "GetOrAdd", "Set", "Store", "Swap", "LoadOrStore", "CompareAndDelete":
		return fmt.Sprintf("%s(%d,%d)", o.Kind, o.K, o.V)
	case "CompareAndSwap":
		return fmt.Sprintf("%s(%d,%d,%d)", o.Kind, o.K, o.V, o.W)
	case "ClearAndResize", "Range", "Iterate":
		return fmt.Sprintf("%s(%d)", o.Kind, o.N)
	case "TranslateToMapOf":
		return fmt.Sprintf("TranslateToMapOf(v*%d+1)", o.N)
	}
	return o.Kind + "()"
}

type obs struct {
	Kind    string // unit bool val int keys vals map valok pairs panic
	B       bool
	V       int
	Keys    []int
	Vals    []int
	NoAlias bool
	Panic   string
}

func (o obs) String() string {
	switch o.Kind {
	case "unit":
		return "()"
	case "bool":
		return fmt.Sprint(o.B)
	case "val", "int":
		return fmt.Sprint(o.V)
	case "valok":
		return fmt.Sprintf("(%d,%v)", o.V, o.B)
	case "keys", "vals":
		return fmt.Sprintf("%v noalias=%v", o.Keys, o.NoAlias)
	case "map":
		return fmt.Sprintf("keys=%v vals=%v noalias=%v", o.Keys, o.Vals, o.NoAlias)
	case "pairs":
		return fmt.Sprintf("keys=%v vals=%v", o.Keys, o.Vals)
	case "panic":
		return "PANIC: " + o.Panic
	}
	return "?"
}

func sortedInts(l []int) []int {
	r := append([]int{}, l...)
	sort.Ints(r)
	return r
}

func sortPairs(ks, vs []int) ([]int, []int) {
	idx := make([]int, len(ks))
	for i := range idx {
		idx[i] = i
	}
	sort.SliceStable(idx, func(a, b int) bool { return ks[idx[a]] < ks[idx[b]] })
	rk, rv := make([]int, len(ks)), make([]int, len(ks))
	for i, j := range idx {
		rk[i], rv[i] = ks[j], vs[j]
	}
	return rk, rv
}

func decMap[K comparable, V any](kc codec[K], dec func(V) int, m map[K]V) ([]int, []int) {
	ks, vs := []int{}, []int{}
	for k, v := range m {
		ks = append(ks, kc.dec(k))
		vs = append(vs, dec(v))
	}
	return sortPairs(ks, vs)
}

// ---------- SafeMap ----------
func snapshotSafe[K comparable, V any](kc codec[K], vc codec[V], m *storage.SafeMap[K, V]) ([]int, []int) {
	return decMap(kc, vc.dec, m.CopyToMap())
}

// perturb mutates the map and restores its abstract content: insert+remove a fresh key, and for one present
// key delete it and put it back
func perturbSafe[K comparable, V any](kc codec[K], vc codec[V], m *storage.SafeMap[K, V]) {
	m.Set(kc.enc(freshKey), vc.enc(freshVal))
	m.Delete(kc.enc(freshKey))
	for k, v := range m.CopyToMap() {
		m.Delete(k)
		m.Set(k, vc.enc(freshVal))
		m.Set(k, v)
		break
	}
}

func runSafe[K comparable, V any](kc codec[K], vc codec[V], ops []op) (out []obs, refOK bool) {
	m := storage.NewSafeMap[K, V](0)
	ref := map[int]int{} // plain Go map on codes
	refOK = true
	for _, o := range ops {
		var r obs
		func() {
			defer func() {
				if p := recover(); p != nil {
					r = obs{Kind: "panic", Panic: fmt.Sprint(p)}
				}
			}()
			switch o.Kind {
			case "Contains":
				r = obs{Kind: "bool", B: m.Contains(kc.enc(o.K))}
			case "Has":
				r = obs{Kind: "bool", B: m.Has(kc.enc(o.K))}
			case "Get":
				r = obs{Kind: "val", V: vc.dec(m.Get(kc.enc(o.K)))}
			case "GetOrAdd":
				r = obs{Kind: "val", V: vc.dec(m.GetOrAdd(kc.enc(o.K), vc.enc(o.V)))}
			case "Set":
				m.Set(kc.enc(o.K), vc.enc(o.V))
				r = obs{Kind: "unit"}
			case "Delete":
				m.Delete(kc.enc(o.K))
				r = obs{Kind: "unit"}
			case "Clear":
				m.Clear()
				r = obs{Kind: "unit"}
			case "ClearAndResize":
				m.ClearAndResize(o.N)
				r = obs{Kind: "unit"}
			case "Len":
				r = obs{Kind: "int", V: m.Len()}
			case "Keys":
				bk, bv := snapshotSafe(kc, vc, m)
				ks := m.Keys()
				dec := make([]int, len(ks))
				for i, k := range ks {
					dec[i] = kc.dec(k)
				}
				// mutate the map (abstract content restored): the snapshot must not move
				perturbSafe(kc, vc, m)
				ok := true
				for i, k := range ks {
					if kc.dec(k) != dec[i] {
						ok = false
					}
				}
				// mutate the snapshot: the map must not move
				for i := range ks {
					ks[i] = kc.enc(freshKey)
				}
				ks = append(ks, kc.enc(freshKey))
				_ = ks
				ak, av := snapshotSafe(kc, vc, m)
				ok = ok && reflect.DeepEqual(bk, ak) && reflect.DeepEqual(bv, av)
				r = obs{Kind: "keys", Keys: sortedInts(dec), NoAlias: ok}
			case "Values":
				bk, bv := snapshotSafe(kc, vc, m)
				vs := m.Values()
				dec := make([]int, len(vs))
				for i, v := range vs {
					dec[i] = vc.dec(v)
				}
				perturbSafe(kc, vc, m)
				ok := true
				for i, v := range vs {
					if vc.dec(v) != dec[i] {
						ok = false
					}
				}
				for i := range vs {
					vs[i] = vc.enc(freshVal)
				}
				vs = append(vs, vc.enc(freshVal))
				_ = vs
				ak, av := snapshotSafe(kc, vc, m)
				ok = ok && reflect.DeepEqual(bk, ak) && reflect.DeepEqual(bv, av)
				r = obs{Kind: "vals", Keys: sortedInts(dec), NoAlias: ok}
			case "CopyToMap":
				cp := m.CopyToMap()
				ks, vs := decMap(kc, vc.dec, cp)
				perturbSafe(kc, vc, m)
				k2, v2 := decMap(kc, vc.dec, cp)
				ok := reflect.DeepEqual(ks, k2) && reflect.DeepEqual(vs, v2)
				for k := range cp {
					cp[k] = vc.enc(freshVal)
				}
				cp[kc.enc(freshKey)] = vc.enc(freshVal)
				for k := range cp {
					delete(cp, k)
					break
				}
				ak, av := snapshotSafe(kc, vc, m)
				ok = ok && reflect.DeepEqual(ks, ak) && reflect.DeepEqual(vs, av)
				r = obs{Kind: "map", Keys: ks, Vals: vs, NoAlias: ok}
			case "TranslateToMapOf":
				mul := o.N
				tm := storage.TranslateToMapOf(m, func(v V) int { return vc.dec(v)*mul + 1 })
				ks, vs := decMap(kc, func(i int) int { return i }, tm)
				bk, bv := snapshotSafe(kc, vc, m)
				perturbSafe(kc, vc, m)
				k2, v2 := decMap(kc, func(i int) int { return i }, tm)
				ok := reflect.DeepEqual(ks, k2) && reflect.DeepEqual(vs, v2)
				for k := range tm {
					tm[k] = -7
				}
				tm[kc.enc(freshKey)] = -7
				ak, av := snapshotSafe(kc, vc, m)
				ok = ok && reflect.DeepEqual(bk, ak) && reflect.DeepEqual(bv, av)
				r = obs{Kind: "map", Keys: ks, Vals: vs, NoAlias: ok}
			default:
				panic("harness: unknown SafeMap op " + o.Kind)
			}
		}()
		// plain Go map reference
		switch o.Kind {
		case "Contains", "Has":
			_, ok := ref[o.K]
			refOK = refOK && r.Kind == "bool" && r.B == ok
		case "Get":
			refOK = refOK && r.Kind == "val" && r.V == ref[o.K]
		case "GetOrAdd":
			if v, ok := ref[o.K]; ok {
				refOK = refOK && r.V == v
			} else {
				ref[o.K] = o.V
				refOK = refOK && r.V == o.V
			}
		case "Set":
			ref[o.K] = o.V
		case "Delete":
			delete(ref, o.K)
		case "Clear", "ClearAndResize":
			ref = map[int]int{}
		case "Len":
			refOK = refOK && r.V == len(ref)
		case "Keys":
			ks, _ := decMap(intC, intC.dec, ref)
			refOK = refOK && reflect.DeepEqual(ks, r.Keys)
		case "Values":
			_, vs := decMap(intC, intC.dec, ref)
			refOK = refOK && reflect.DeepEqual(sortedInts(vs), r.Keys)
		case "CopyToMap":
			ks, vs := decMap(intC, intC.dec, ref)
			refOK = refOK && reflect.DeepEqual(ks, r.Keys) && reflect.DeepEqual(vs, r.Vals)
		case "TranslateToMapOf":
			ks, vs := decMap(intC, func(v int) int { return v*o.N + 1 }, ref)
			refOK = refOK && reflect.DeepEqual(ks, r.Keys) && reflect.DeepEqual(vs, r.Vals)
		}
		out = append(out, r)
	}
	return
}

// ---------- SyncMap ----------
func runSync[K comparable, V any](kc codec[K], vc codec[V], ops []op) (out []obs, refOK bool) {
	m := generic.NewSyncMap[K, V]()
	ref := map[int]int{}
	refOK = true
	for _, o := range ops {
		var r obs
		func() {
			defer func() {
				if p := recover(); p != nil {
					r = obs{Kind: "panic", Panic: fmt.Sprint(p)}
				}
			}()
			switch o.Kind {
			case "Load":
				v, ok := m.Load(kc.enc(o.K))
				r = obs{Kind: "valok", V: vc.dec(v), B: ok}
			case "Store":
				m.Store(kc.enc(o.K), vc.enc(o.V))
				r = obs{Kind: "unit"}
			case "Swap":
				v, ok := m.Swap(kc.enc(o.K), vc.enc(o.V))
				r = obs{Kind: "valok", V: vc.dec(v), B: ok}
			case "Delete":
				m.Delete(kc.enc(o.K))
				r = obs{Kind: "unit"}
			case "LoadOrStore":
				v, ok := m.LoadOrStore(kc.enc(o.K), vc.enc(o.V))
				r = obs{Kind: "valok", V: vc.dec(v), B: ok}
			case "LoadAndDelete":
				v, ok := m.LoadAndDelete(kc.enc(o.K))
				r = obs{Kind: "valok", V: vc.dec(v), B: ok}
			case "CompareAndDelete":
				r = obs{Kind: "bool", B: m.CompareAndDelete(kc.enc(o.K), vc.enc(o.V))}
			case "CompareAndSwap":
				r = obs{Kind: "bool", B: m.CompareAndSwap(kc.enc(o.K), vc.enc(o.V), vc.enc(o.W))}
			case "Range":
				ks, vs := []int{}, []int{}
				calls := 0
				m.Range(func(k K, v V) bool {
					ks = append(ks, kc.dec(k))
					vs = append(vs, vc.dec(v))
					calls++
					return calls <= o.N
				})
				ks, vs = sortPairs(ks, vs)
				r = obs{Kind: "pairs", Keys: ks, Vals: vs}
			case "Iterate":
				ks, vs := []int{}, []int{}
				calls := 0
				for k, v := range m.Iterate() {
					ks = append(ks, kc.dec(k))
					vs = append(vs, vc.dec(v))
					calls++
					if calls > o.N {
						break
					}
				}
				ks, vs = sortPairs(ks, vs)
				r = obs{Kind: "pairs", Keys: ks, Vals: vs}
			default:
				panic("harness: unknown SyncMap op " + o.Kind)
			}
		}()
		cur, present := ref[o.K]
		switch o.Kind {
		case "Load":
			refOK = refOK && r.Kind == "valok" && r.V == cur && r.B == present
		case "Store":
			ref[o.K] = o.V
		case "Swap":
			refOK = refOK && r.Kind == "valok" && r.V == cur && r.B == present
			ref[o.K] = o.V
		case "Delete":
			delete(ref, o.K)
		case "LoadOrStore":
			if present {
				refOK = refOK && r.V == cur && r.B
			} else {
				refOK = refOK && r.V == o.V && !r.B
				ref[o.K] = o.V
			}
		case "LoadAndDelete":
			refOK = refOK && r.Kind == "valok" && r.V == cur && r.B == present
			delete(ref, o.K)
		case "CompareAndDelete":
			if present && cur == o.V {
				refOK = refOK && r.B
				delete(ref, o.K)
			} else {
				refOK = refOK && r.Kind == "bool" && !r.B
			}
		case "CompareAndSwap":
			if present && cur == o.V {
				refOK = refOK && r.B
				ref[o.K] = o.W
			} else {
				refOK = refOK && r.Kind == "bool" && !r.B
			}
		case "Range", "Iterate":
			want := o.N + 1
			if len(ref) < want {
				want = len(ref)
			}
			refOK = refOK && r.Kind == "pairs" && len(r.Keys) == want
			for i, k := range r.Keys {
				v, ok := ref[k]
				refOK = refOK && ok && v == r.Vals[i]
			}
		}
		out = append(out, r)
	}
	return
}

// ---------- Coq rendering ----------
func coqOp(obj string, o op) string {
	switch o.Kind {
	case "Contains", "Has", "Get":
		return fmt.Sprintf("a%s %s", o.Kind, cw.Z(o.K))
	case "GetOrAdd", "Set":
		return fmt.Sprintf("a%s %s %s", o.Kind, cw.Z(o.K), cw.Z(o.V))
	case "Delete":
		if obj == "SafeMap" {
			return fmt.Sprintf("aDelete %s", cw.Z(o.K))
		}
		return fmt.Sprintf("bDelete %s", cw.Z(o.K))
	case "Clear", "Len", "Keys", "Values":
		return "a" + o.Kind
	case "ClearAndResize":
		return fmt.Sprintf("aClearAndResize %d", o.N)
	case "CopyToMap":
		return "aCopy"
	case "TranslateToMapOf":
		return fmt.Sprintf("aTranslate %d", o.N)
	case "Load", "LoadAndDelete":
		return fmt.Sprintf("b%s %s", o.Kind, cw.Z(o.K))
	case "Store", "Swap", "LoadOrStore":
		return fmt.Sprintf("b%s %s %s", o.Kind, cw.Z(o.K), cw.Z(o.V))
	case "CompareAndDelete":
		return fmt.Sprintf("bCAD %s %s", cw.Z(o.K), cw.Z(o.V))
	case "CompareAndSwap":
		return fmt.Sprintf("bCAS %s %s %s", cw.Z(o.K), cw.Z(o.V), cw.Z(o.W))
	case "Range", "Iterate":
		return fmt.Sprintf("b%s %d", o.Kind, o.N)
	}
	panic("coqOp " + o.Kind)
}

func coqObs(obj string, r obs) string {
	p := "S"
	if obj == "SyncMap" {
		p = "Y"
	}
	switch r.Kind {
	case "unit":
		return p + "Unit"
	case "bool":
		return fmt.Sprintf("%sBool %s", p, cw.B(r.B))
	case "val":
		return fmt.Sprintf("SVal %s", cw.Z(r.V))
	case "int":
		return fmt.Sprintf("SInt %s", cw.Z(r.V))
	case "keys":
		return fmt.Sprintf("SKeys %s %s", cw.ZL(r.Keys), cw.B(r.NoAlias))
	case "vals":
		return fmt.Sprintf("SVals %s %s", cw.ZL(r.Keys), cw.B(r.NoAlias))
	case "map":
		return fmt.Sprintf("SMap %s %s %s", cw.ZL(r.Keys), cw.ZL(r.Vals), cw.B(r.NoAlias))
	case "valok":
		return fmt.Sprintf("YValOk %s %s", cw.Z(r.V), cw.B(r.B))
	case "pairs":
		return fmt.Sprintf("YPairs %s %s", cw.ZL(r.Keys), cw.ZL(r.Vals))
	case "panic":
		return p + "Panic"
	}
	panic("coqObs " + r.Kind)
}

// nest renders a monomorphic sequence: C x1 (C x2 (... Nil))
func nest(cons, nilc string, parts []string) string {
	var sb strings.Builder
	for _, p := range parts {
		sb.WriteString(cons + " " + p + " (")
	}
	sb.WriteString(nilc)
	sb.WriteString(strings.Repeat(")", len(parts)))
	return sb.String()
}

type gen struct {
	w                *cw.Writer
	rng              *rand.Rand
	typeDisagree     int
	uncomparableSeqs int // sequences run at the uncomparable value types
	refDisagree      int
	seen             map[string]bool
}

var mutating = map[string]bool{"GetOrAdd": true, "Set": true, "Delete": true, "Clear": true, "ClearAndResize": true,
	"Store": true, "Swap": true, "LoadOrStore": true, "LoadAndDelete": true, "CompareAndDelete": true, "CompareAndSwap": true}

type run struct {
	types   string
	nilable bool
	out     []obs
	refOK   bool
}

func (g *gen) emit(obj, stream string, ops []op, r run) {
	parts := make([]string, len(ops))
	descOps := make([]string, len(ops))
	descObs := make([]string, len(ops))
	tags := []string{}
	panicked := ""
	aliasBad := false
	for i, o := range ops {
		parts[i] = fmt.Sprintf("(%s) (%s)", coqOp(obj, o), coqObs(obj, r.out[i]))
		descOps[i] = o.String()
		descObs[i] = r.out[i].String()
		if r.out[i].Kind == "panic" && panicked == "" {
			panicked = o.Kind
		}
		if (r.out[i].Kind == "keys" || r.out[i].Kind == "vals" || r.out[i].Kind == "map") && !r.out[i].NoAlias {
			aliasBad = true
		}
	}
	head := obj
	if panicked != "" {
		head = obj + ":panic:" + panicked
	} else if aliasBad {
		head = obj + ":alias"
	} else if !r.refOK {
		head = obj + ":gomap-differs"
	}
	tags = append(tags, head, "stream/"+stream)
	nontrivial := false
	mutSeen := false
	for i, o := range ops {
		tags = append(tags, obj+"."+o.Kind)
		if mutating[o.Kind] {
			mutSeen = true
		} else if mutSeen {
			nontrivial = true
		}
		if o.V == 0 && (o.Kind == "Set" || o.Kind == "Store" || o.Kind == "GetOrAdd" || o.Kind == "Swap" || o.Kind == "LoadOrStore") {
			tags = append(tags, "stores-zero-value")
		}
		if r.out[i].Kind == "valok" && r.out[i].B && r.out[i].V == 0 {
			tags = append(tags, "loaded-stored-zero")
		}
	}
	var coq string
	if obj == "SafeMap" {
		coq = fmt.Sprintf("CSafe %s (%s)", cw.B(r.refOK), nest("SC", "SNil", parts))
	} else {
		coq = fmt.Sprintf("CSync %s %s (%s)", cw.B(r.refOK), cw.B(r.nilable), nest("YC", "YNil", parts))
	}
	key := obj + "|" + r.types + "|" + strings.Join(descOps, ";")
	g.w.Add(cw.Case{Coq: coq, Desc: map[string]any{"object": obj, "types": r.types, "ops": descOps, "observed": descObs,
		"go_map_agrees": r.refOK}, Tags: tags, Key: key, Trivial: !nontrivial})
}

// a Range/Iterate that stops early may visit ANY of the present keys: such observations agree when they have
// the same length
func sameObs(ops []op, a, b []obs) bool {
	if len(a) != len(b) {
		return false
	}
	for i := range a {
		if (ops[i].Kind == "Range" || ops[i].Kind == "Iterate") && a[i].Kind == "pairs" && b[i].Kind == "pairs" &&
			len(a[i].Keys) == ops[i].N+1 {
			if len(a[i].Keys) != len(b[i].Keys) {
				return false
			}
			continue
		}
		if !reflect.DeepEqual(a[i], b[i]) {
			return false
		}
	}
	return true
}

// seq runs one operation sequence at all four instantiations; when they agree ONE case is emitted (types "all"),
// otherwise one case per instantiation, so that the failing type is identified by Coq's verdicts.
// needsComparable: CompareAndSwap / CompareAndDelete are documented to require comparable values ("the old value must
// be of a comparable type"): sequences containing them are run at the uncomparable value types with these two
// operations left out
func needsComparable(ops []op) bool {
	for _, o := range ops {
		if o.Kind == "CompareAndSwap" || o.Kind == "CompareAndDelete" {
			return true
		}
	}
	return false
}

// uncomparableRuns: the sequence at value types that cannot be compared with == (slice, map, struct holding a slice,
// func, and an interface type holding slices/maps), and at an interface key type holding values of mixed dynamic types
func uncomparableRuns(obj string, ops []op) []run {
	if obj == "SafeMap" {
		a, ra := runSafe(intC, sliceC, ops)
		b, rb := runSafe(strC, funcC, ops)
		c, rc := runSafe(anyMixKeyC, anyUncC, ops)
		return []run{{"int,[]int", false, a, ra}, {"string,func() int", false, b, rb}, {"any(int|string),any([]int|map)", true, c, rc}}
	}
	a, ra := runSync(intC, sliceC, ops)
	b, rb := runSync(strC, mapC, ops)
	c, rc := runSync(ptrC, boxC, ops)
	d, rd := runSync(intC, funcC, ops)
	e, re := runSync(intC, anyUncC, ops)
	f, rf := runSync(anyMixKeyC, anyUncC, ops)
	return []run{{"int,[]int", false, a, ra}, {"string,map[string]int", false, b, rb}, {"*T,struct{[]int}", false, c, rc},
		{"int,func() int", false, d, rd}, {"int,any([]int|map)", true, e, re}, {"any(int|string),any([]int|map)", true, f, rf}}
}

func (g *gen) emitRuns(obj, stream string, ops []op, runs []run, allLabel string) {
	agree := true
	for _, r := range runs {
		if !sameObs(ops, r.out, runs[0].out) || !r.refOK {
			agree = false
		}
	}
	if agree {
		r := runs[len(runs)-1]
		r.types = allLabel
		g.emit(obj, stream, ops, r)
		return
	}
	g.typeDisagree++
	for _, r := range runs {
		if !r.refOK {
			g.refDisagree++
		}
		g.emit(obj, stream, ops, r)
	}
}

// seq runs one operation sequence at all instantiations; when they agree ONE case is emitted (types "all"),
// otherwise one case per instantiation, so that the failing type is identified by Coq's verdicts.
func (g *gen) seq(obj, stream string, ops []op) {
	k := obj + fmt.Sprint(ops)
	if g.seen[k] {
		return
	}
	g.seen[k] = true
	var runs []run
	if obj == "SafeMap" {
		a, ra := runSafe(intC, intC, ops)
		b, rb := runSafe(strC, strC, ops)
		c, rc := runSafe(ptrC, ptrC, ops)
		d, rd := runSafe(anyC, anyC, ops)
		runs = []run{{"int,int", false, a, ra}, {"string,string", false, b, rb}, {"*T,*T", false, c, rc}, {"any,any", true, d, rd}}
	} else {
		a, ra := runSync(intC, intC, ops)
		b, rb := runSync(strC, strC, ops)
		c, rc := runSync(ptrC, ptrC, ops)
		d, rd := runSync(anyC, anyC, ops)
		e, re := runSync(intC, anyC, ops)
		runs = []run{{"int,int", false, a, ra}, {"string,string", false, b, rb}, {"*T,*T", false, c, rc},
			{"any,any", true, d, rd}, {"int,any", true, e, re}}
	}
	if !needsComparable(ops) {
		g.uncomparableSeqs++
		g.emitRuns(obj, stream, ops, append(runs, uncomparableRuns(obj, ops)...), "all")
		return
	}
	g.emitRuns(obj, stream, ops, runs, "all comparable")
	// the same sequence without CompareAndSwap/CompareAndDelete at the uncomparable value types
	var rest []op
	for _, o := range ops {
		if o.Kind != "CompareAndSwap" && o.Kind != "CompareAndDelete" {
			rest = append(rest, o)
		}
	}
	k2 := obj + "/unc" + fmt.Sprint(rest)
	if len(rest) == 0 || g.seen[k2] || g.seen[obj+fmt.Sprint(rest)] {
		return
	}
	g.seen[k2] = true
	g.uncomparableSeqs++
	g.emitRuns(obj, stream+"-uncomparable", rest, uncomparableRuns(obj, rest), "all uncomparable")
}

func safeAlphabet(keys, vals []int) []op {
	var a []op
	for _, k := range keys {
		a = append(a, op{Kind: "Contains", K: k}, op{Kind: "Get", K: k}, op{Kind: "Delete", K: k}, op{Kind: "Has", K: k})
		for _, v := range vals {
			a = append(a, op{Kind: "GetOrAdd", K: k, V: v}, op{Kind: "Set", K: k, V: v})
		}
	}
	a = append(a, op{Kind: "Clear"}, op{Kind: "ClearAndResize", N: 3}, op{Kind: "Len"}, op{Kind: "Keys"}, op{Kind: "Values"},
		op{Kind: "CopyToMap"}, op{Kind: "TranslateToMapOf", N: 3})
	return a
}

func syncAlphabet(keys, vals []int) []op {
	var a []op
	for _, k := range keys {
		a = append(a, op{Kind: "Load", K: k}, op{Kind: "Delete", K: k}, op{Kind: "LoadAndDelete", K: k})
		for _, v := range vals {
			a = append(a, op{Kind: "Store", K: k, V: v}, op{Kind: "Swap", K: k, V: v}, op{Kind: "LoadOrStore", K: k, V: v},
				op{Kind: "CompareAndDelete", K: k, V: v})
			for _, w := range vals {
				if w != v {
					a = append(a, op{Kind: "CompareAndSwap", K: k, V: v, W: w})
				}
			}
		}
	}
	a = append(a, op{Kind: "Range", N: 0}, op{Kind: "Range", N: 9}, op{Kind: "Iterate", N: 0}, op{Kind: "Iterate", N: 9})
	return a
}

// every sequence of exactly n letters (shorter ones are its prefixes: every call's result is observed),
// followed by one full observation
func (g *gen) exhaustive(obj string, alpha []op, n int, tail []op) int {
	cur := make([]op, n)
	count := 0
	var rec func(i int)
	rec = func(i int) {
		if i == n {
			g.seq(obj, "exhaustive", append(append([]op{}, cur...), tail...))
			count++
			return
		}
		for _, o := range alpha {
			cur[i] = o
			rec(i + 1)
		}
	}
	rec(0)
	return count
}

func (g *gen) randomSafe(length, nkeys, nvals int) []op {
	ops := make([]op, length)
	phase := g.rng.Intn(3) // 0 fill-heavy, 1 delete-heavy, 2 uniform
	for i := range ops {
		k := g.rng.Intn(nkeys)
		v := g.rng.Intn(nvals)
		x := g.rng.Intn(100)
		switch {
		case phase == 0 && x < 45, phase == 2 && x < 20:
			if g.rng.Intn(2) == 0 {
				ops[i] = op{Kind: "Set", K: k, V: v}
			} else {
				ops[i] = op{Kind: "GetOrAdd", K: k, V: v}
			}
		case phase == 1 && x < 35, phase == 2 && x < 35:
			ops[i] = op{Kind: "Delete", K: k}
		case x < 50:
			ops[i] = op{Kind: []string{"Get", "Has", "Contains"}[g.rng.Intn(3)], K: k}
		case x < 60:
			ops[i] = op{Kind: "GetOrAdd", K: k, V: v}
		case x < 66:
			ops[i] = op{Kind: "Len"}
		case x < 72:
			ops[i] = op{Kind: "Keys"}
		case x < 78:
			ops[i] = op{Kind: "Values"}
		case x < 84:
			ops[i] = op{Kind: "CopyToMap"}
		case x < 90:
			ops[i] = op{Kind: "TranslateToMapOf", N: 1 + g.rng.Intn(4)}
		case x < 93:
			ops[i] = op{Kind: "Clear"}
		case x < 95:
			ops[i] = op{Kind: "ClearAndResize", N: g.rng.Intn(8)}
		default:
			ops[i] = op{Kind: "Set", K: k, V: v}
		}
	}
	return ops
}

func (g *gen) randomSync(length, nkeys, nvals int) []op {
	ops := make([]op, length)
	last := map[int]int{} // last value stored per key (so that CompareAnd* succeed often)
	for i := range ops {
		k := g.rng.Intn(nkeys)
		v := g.rng.Intn(nvals)
		old := v
		if lv, ok := last[k]; ok && g.rng.Intn(3) != 0 {
			old = lv
		}
		switch x := g.rng.Intn(100); {
		case x < 18:
			ops[i] = op{Kind: "Store", K: k, V: v}
			last[k] = v
		case x < 30:
			ops[i] = op{Kind: "Load", K: k}
		case x < 40:
			ops[i] = op{Kind: "Swap", K: k, V: v}
			last[k] = v
		case x < 50:
			ops[i] = op{Kind: "LoadOrStore", K: k, V: v}
			if _, ok := last[k]; !ok {
				last[k] = v
			}
		case x < 58:
			ops[i] = op{Kind: "LoadAndDelete", K: k}
		case x < 66:
			ops[i] = op{Kind: "Delete", K: k}
		case x < 76:
			ops[i] = op{Kind: "CompareAndSwap", K: k, V: old, W: v}
		case x < 84:
			ops[i] = op{Kind: "CompareAndDelete", K: k, V: old}
		case x < 92:
			ops[i] = op{Kind: "Range", N: g.rng.Intn(8)}
		default:
			ops[i] = op{Kind: "Iterate", N: g.rng.Intn(8)}
		}
	}
	return ops
}

func main() {
	seed := flag.Int64("seed", 1, "")
	tier := flag.String("tier", "quick", "")
	out := flag.String("out", "", "")
	flag.Parse()
	if *out == "" {
		fmt.Fprintln(os.Stderr, "usage: c07seq -seed N -tier quick|thorough -out DIR")
		os.Exit(2)
	}
	g := &gen{w: cw.New(*out, "CorrC07"), rng: rand.New(rand.NewSource(*seed)), seen: map[string]bool{}}

	// 1. corpus: the Findings witnesses (F8: a stored nil interface value) and a few hand-written sequences
	nilW := [][]op{
		{{Kind: "Store", K: 1, V: 0}, {Kind: "Load", K: 1}},
		{{Kind: "Store", K: 1, V: 0}, {Kind: "Swap", K: 1, V: 2}},
		{{Kind: "Store", K: 1, V: 0}, {Kind: "LoadOrStore", K: 1, V: 2}},
		{{Kind: "LoadOrStore", K: 1, V: 0}},
		{{Kind: "Store", K: 1, V: 0}, {Kind: "LoadAndDelete", K: 1}},
		{{Kind: "Store", K: 1, V: 0}, {Kind: "Range", N: 5}},
		{{Kind: "Store", K: 1, V: 0}, {Kind: "Iterate", N: 5}},
		{{Kind: "Store", K: 0, V: 3}, {Kind: "Range", N: 5}, {Kind: "Iterate", N: 5}}, // nil interface KEY
		{{Kind: "Store", K: 1, V: 0}, {Kind: "Load", K: 1}, {Kind: "Swap", K: 1, V: 2}, {Kind: "LoadAndDelete", K: 1},
			{Kind: "LoadOrStore", K: 1, V: 0}, {Kind: "Range", N: 5}},
		{{Kind: "Store", K: 1, V: 0}, {Kind: "CompareAndSwap", K: 1, V: 0, W: 4}, {Kind: "Load", K: 1},
			{Kind: "CompareAndDelete", K: 1, V: 0}, {Kind: "CompareAndDelete", K: 1, V: 4}, {Kind: "Load", K: 1}},
	}
	for _, s := range nilW {
		g.seq("SyncMap", "corpus", s)
	}
	g.seq("SafeMap", "corpus", []op{{Kind: "GetOrAdd", K: 1, V: 5}, {Kind: "GetOrAdd", K: 1, V: 6}, {Kind: "Set", K: 2, V: 7},
		{Kind: "Keys"}, {Kind: "Values"}, {Kind: "CopyToMap"}, {Kind: "Delete", K: 1}, {Kind: "Get", K: 1}, {Kind: "Len"},
		{Kind: "TranslateToMapOf", N: 2}})
	g.seq("SafeMap", "corpus", []op{{Kind: "Set", K: 0, V: 0}, {Kind: "Contains", K: 0}, {Kind: "Get", K: 0}, {Kind: "GetOrAdd", K: 0, V: 4},
		{Kind: "Len"}, {Kind: "Clear"}, {Kind: "Get", K: 0}, {Kind: "GetOrAdd", K: 0, V: 4}, {Kind: "ClearAndResize", N: 2}, {Kind: "Keys"}})

	// 2. exhaustive small scope: keys {0 (the zero-value / nil key), 1}, values {0 (zero / nil), 1}.
	//    quick:    SafeMap every 3-letter word over the full alphabet; SyncMap every 2-letter word over the full
	//              alphabet and every 3-letter word over the one-key alphabet
	//    thorough: additionally SafeMap every 4-letter word over the one-key alphabet and SyncMap every 3-letter
	//              word over the full alphabet
	nRandom, maxLen := 250, 40
	if *tier == "thorough" {
		nRandom, maxLen = 2000, 100
	}
	keys, vals := []int{0, 1}, []int{0, 1}
	safeTail := []op{{Kind: "Len"}, {Kind: "CopyToMap"}}
	syncTail := []op{{Kind: "Load", K: 0}, {Kind: "Load", K: 1}, {Kind: "Range", N: 9}}
	sa, ya := safeAlphabet(keys, vals), syncAlphabet(keys, vals)
	sa1, ya1 := safeAlphabet([]int{1}, vals), syncAlphabet([]int{1}, vals)
	nSafeEx := g.exhaustive("SafeMap", sa, 3, safeTail)
	nSyncEx := g.exhaustive("SyncMap", ya, 2, syncTail)
	nSyncEx += g.exhaustive("SyncMap", ya1, 3, syncTail)
	exDesc := fmt.Sprintf("SafeMap all 3-letter words over %d letters; SyncMap all 2-letter words over %d letters and all 3-letter words over %d letters (one key)", len(sa), len(ya), len(ya1))
	if *tier == "thorough" {
		nSafeEx += g.exhaustive("SafeMap", sa1, 4, safeTail)
		nSyncEx += g.exhaustive("SyncMap", ya, 3, syncTail)
		exDesc += fmt.Sprintf("; thorough adds SafeMap all 4-letter words over %d letters (one key) and SyncMap all 3-letter words over %d letters", len(sa1), len(ya))
	}

	// 3. structured random
	for i := 0; i < nRandom; i++ {
		l := 5 + g.rng.Intn(maxLen)
		g.seq("SafeMap", "random", g.randomSafe(l, 2+g.rng.Intn(5), 2+g.rng.Intn(6)))
		g.seq("SyncMap", "random", g.randomSync(l, 2+g.rng.Intn(5), 2+g.rng.Intn(6)))
	}

	g.w.Extra["scope"] = fmt.Sprintf("corpus %d sequences (F8 witnesses first); exhaustive: %s (%d SafeMap + %d SyncMap words, each followed by a full observation); random: %d sequences per object of length 5..%d; every sequence at 4 (SafeMap) / 5 (SyncMap) key/value instantiations",
		len(nilW)+2, exDesc, nSafeEx, nSyncEx, nRandom, 5+maxLen)
	g.w.Extra["sequences_with_type_disagreement"] = g.typeDisagree
	g.w.Extra["instantiation_runs_where_plain_go_map_differs"] = g.refDisagree
	g.w.Extra["sequences_run_at_uncomparable_value_types"] = g.uncomparableSeqs
	g.w.Extra["instantiations"] = "comparable: SafeMap int/int, string/string, *T/*T, any/any; SyncMap the same plus int/any. NOT comparable with == (every sequence; CompareAndSwap/CompareAndDelete left out, they are documented to need comparable values): SafeMap int/[]int, string/func() int, any(int|string)/any([]int|map); SyncMap int/[]int, string/map[string]int, *T/struct{[]int}, int/func() int, int/any([]int|map), any(int|string)/any([]int|map)"
	if err := g.w.Flush(); err != nil {
		fmt.Fprintln(os.Stderr, err)
		os.Exit(1)
	}
}
