// Package cw writes harness observations as Coq terms (cases.v, evaluated by vm_compute) and as
// JSON (cases.json, for replay files and evidence samples).
package cw

import (
	"encoding/json"
	"fmt"
	"os"
	"path/filepath"
	"sort"
	"strings"
)

func Z(i int) string {
	if i < 0 {
		return fmt.Sprintf("(%d)", i)
	}
	return fmt.Sprintf("%d", i)
}

func B(b bool) string {
	if b {
		return "true"
	}
	return "false"
}

func ZL(l []int) string {
	p := make([]string, len(l))
	for i, x := range l {
		p[i] = Z(x)
	}
	return "[" + strings.Join(p, "; ") + "]"
}

func ZLL(l [][]int) string {
	p := make([]string, len(l))
	for i, x := range l {
		p[i] = ZL(x)
	}
	return "[" + strings.Join(p, "; ") + "]"
}

// L joins already-rendered Coq terms into a list.
func L(parts []string) string { return "[" + strings.Join(parts, "; ") + "]" }

// Case is one observed case: a Coq term plus a JSON description of the same thing.
type Case struct {
	Coq   string         `json:"-"`
	Desc  map[string]any `json:"desc"`
	Tags  []string       `json:"tags"` // branch / kind labels for histograms and the non-triviality rule
	Key   string         `json:"key"`  // identity for distinctness
	Trivial bool         `json:"trivial"`
}

// Writer collects cases and writes cases.v / cases.json / stats.json into dir.
type Writer struct {
	Dir     string
	Module  string // e.g. "CorrC12"
	Chunk   int
	Cases   []Case
	Extra   map[string]any
}

func New(dir, module string) *Writer {
	return &Writer{Dir: dir, Module: module, Chunk: 250, Extra: map[string]any{}}
}

func (w *Writer) Add(c Case) { w.Cases = append(w.Cases, c) }

func (w *Writer) Flush() error {
	if err := os.MkdirAll(w.Dir, 0o755); err != nil {
		return err
	}
	var sb strings.Builder
	sb.WriteString("From Coq Require Import List ZArith String.\nImport ListNotations.\n")
	sb.WriteString("From TC.Run Require Import RunLib " + w.Module + ".\n")
	sb.WriteString("Local Open Scope Z_scope.\n")
	nch := 0
	for i := 0; i < len(w.Cases); i += w.Chunk {
		j := i + w.Chunk
		if j > len(w.Cases) {
			j = len(w.Cases)
		}
		fmt.Fprintf(&sb, "Definition cases_%d : list case := [\n", nch)
		for k := i; k < j; k++ {
			sb.WriteString("  " + w.Cases[k].Coq)
			if k+1 < j {
				sb.WriteString(";\n")
			} else {
				sb.WriteString("\n")
			}
		}
		sb.WriteString("].\n")
		fmt.Fprintf(&sb, "Definition R_%d := Eval vm_compute in mismatches cases_%d.\nPrint R_%d.\n", nch, nch, nch)
		nch++
	}
	if err := os.WriteFile(filepath.Join(w.Dir, "cases.v"), []byte(sb.String()), 0o644); err != nil {
		return err
	}
	js, err := json.Marshal(w.Cases)
	if err != nil {
		return err
	}
	if err := os.WriteFile(filepath.Join(w.Dir, "cases.json"), js, 0o644); err != nil {
		return err
	}
	// stats
	hist := map[string]int{}
	distinct := map[string]bool{}
	nontrivial := map[string]bool{}
	for _, c := range w.Cases {
		for _, t := range c.Tags {
			hist[t]++
		}
		distinct[c.Key] = true
		if !c.Trivial {
			nontrivial[c.Key] = true
		}
	}
	keys := make([]string, 0, len(hist))
	for k := range hist {
		keys = append(keys, k)
	}
	sort.Strings(keys)
	stats := map[string]any{
		"evaluations":         len(w.Cases),
		"distinct":            len(distinct),
		"distinct_nontrivial": len(nontrivial),
		"chunk":               w.Chunk,
		"chunks":              nch,
		"histogram":           hist,
	}
	for k, v := range w.Extra {
		stats[k] = v
	}
	js, _ = json.MarshalIndent(stats, "", " ")
	return os.WriteFile(filepath.Join(w.Dir, "stats.json"), js, 0o644)
}
