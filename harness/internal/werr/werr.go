// Package werr builds the error values the work-queue harnesses let work functions return, and recognises them again
// on the subscriber side.  A work function may return ANY non-nil error value; the queue must deliver exactly that
// value.  The values are drawn from dynamic types of every kind: pointer, struct value, integer kind, string kind, a
// typed nil pointer inside a non-nil interface, a wrapped error, and a struct with an uncomparable field.
package werr

import (
	"errors"
	"fmt"
	"strconv"
	"strings"
)

type PtrErr struct{ K int }

func (e *PtrErr) Error() string { return "ptr" + strconv.Itoa(e.K) }

type ValErr struct{ K int } // struct value (like a plain struct error type)

func (e ValErr) Error() string { return "val" + strconv.Itoa(e.K) }

type IntErr int // integer kind (like syscall.Errno)

func (e IntErr) Error() string { return "int" + strconv.Itoa(int(e)) }

type StrErr string // string kind

func (e StrErr) Error() string { return string(e) }

type NilPtrErr struct{ pad int } // used as a typed nil pointer: a non-nil error whose pointer is nil

func (e *NilPtrErr) Error() string { return "typed-nil" }

type SliceErr struct { // uncomparable dynamic type: == on it panics
	K    int
	Tags []string
}

func (e SliceErr) Error() string { return "slice" + strconv.Itoa(e.K) }

// NilToken is the one token whose error is the typed nil pointer (it carries no number, so there is only one).
const NilToken = 4

// Kind names the dynamic type used for token k.
func Kind(k int) string {
	switch {
	case k == NilToken:
		return "typed-nil-pointer"
	case k%7 == 0, k%7 == 4:
		return "pointer"
	case k%7 == 1:
		return "struct-value"
	case k%7 == 2:
		return "integer-kind"
	case k%7 == 3:
		return "string-kind"
	case k%7 == 5:
		return "wrapped"
	default:
		return "uncomparable-struct"
	}
}

// Store remembers the values made, so that identity (not only equality) can be checked for pointer-like values.
type Store struct{ made map[int]error }

func NewStore() *Store { return &Store{made: map[int]error{}} }

// Make returns THE error value of token k (the same value every time).
func (s *Store) Make(k int) error {
	if e, ok := s.made[k]; ok {
		return e
	}
	var e error
	switch Kind(k) {
	case "typed-nil-pointer":
		e = (*NilPtrErr)(nil)
	case "pointer":
		e = &PtrErr{k}
	case "struct-value":
		e = ValErr{k}
	case "integer-kind":
		e = IntErr(k)
	case "string-kind":
		e = StrErr("str" + strconv.Itoa(k))
	case "wrapped":
		e = fmt.Errorf("wrapped%d: %w", k, &PtrErr{k})
	default:
		e = SliceErr{k, []string{"tag", strconv.Itoa(k)}}
	}
	s.made[k] = e
	return e
}

// Token recognises a received value: the token whose value it IS (identity for pointers and wrapped errors, equality
// for comparable values, the tag for the uncomparable struct); ok = false for a foreign value; (-2, true) for nil.
func (s *Store) Token(e error) (int, bool) {
	if e == nil {
		return -2, true
	}
	switch v := e.(type) {
	case *NilPtrErr:
		if v == nil {
			_, ok := s.made[NilToken]
			return NilToken, ok
		}
		return 0, false
	case *PtrErr:
		if v != nil && s.made[v.K] == error(v) {
			return v.K, true
		}
		return 0, false
	case ValErr:
		if m, ok := s.made[v.K]; ok && m == error(v) {
			return v.K, true
		}
		return 0, false
	case IntErr:
		if m, ok := s.made[int(v)]; ok && m == error(v) {
			return int(v), true
		}
		return 0, false
	case StrErr:
		k, err := strconv.Atoi(strings.TrimPrefix(string(v), "str"))
		if m, ok := s.made[k]; err == nil && ok && m == error(v) {
			return k, true
		}
		return 0, false
	case SliceErr:
		if m, ok := s.made[v.K]; ok {
			if mv, ok2 := m.(SliceErr); ok2 && mv.K == v.K && len(mv.Tags) == len(v.Tags) && &mv.Tags[0] == &v.Tags[0] {
				return v.K, true
			}
		}
		return 0, false
	}
	// wrapped: the very same *fmt.wrapError value, and it still unwraps to its PtrErr
	var p *PtrErr
	if errors.As(e, &p) && p != nil {
		if m, ok := s.made[p.K]; ok && m == e && errors.Is(e, p) {
			return p.K, true
		}
	}
	return 0, false
}
