module verifharness

go 1.23.7

require github.com/rbell/toolchest v0.0.0

replace github.com/rbell/toolchest => /repo
