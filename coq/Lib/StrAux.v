(* Small lemmas about Coq strings and lists missing from the 8.16 standard library (used by C20). *)
From Coq Require Import String Ascii List Permutation Arith.
Import ListNotations.

Lemma sapp_assoc (a b c : string) : String.append (String.append a b) c = String.append a (String.append b c).
Proof. induction a as [|x a IH]; simpl; [reflexivity|]. now rewrite IH. Qed.

Lemma sapp_nil_l (a : string) : String.append EmptyString a = a.
Proof. reflexivity. Qed.

Lemma sapp_nil_r (a : string) : String.append a EmptyString = a.
Proof. induction a as [|x a IH]; simpl; [reflexivity|]. now rewrite IH. Qed.

Lemma sapp_inj_l (p a b : string) : String.append p a = String.append p b -> a = b.
Proof. induction p as [|x p IH]; simpl; intros H; [exact H|]. injection H as H. exact (IH H). Qed.

Lemma map_flat_map {A B C} (f : B -> C) (g : A -> list B) (l : list A) :
  map f (flat_map g l) = flat_map (fun x => map f (g x)) l.
Proof. induction l as [|x l IH]; simpl; [reflexivity|]. now rewrite map_app, IH. Qed.

Lemma flat_map_map' {A B C} (f : A -> B) (g : B -> list C) (l : list A) :
  flat_map g (map f l) = flat_map (fun x => g (f x)) l.
Proof. induction l as [|x l IH]; simpl; [reflexivity|]. now rewrite IH. Qed.

Lemma flat_map_ext_in' {A B} (f g : A -> list B) (l : list A) :
  (forall x, In x l -> f x = g x) -> flat_map f l = flat_map g l.
Proof.
  induction l as [|x l IH]; simpl; intros H; [reflexivity|].
  rewrite (H x (or_introl eq_refl)), IH; [reflexivity|]. intros y Hy. apply H. now right.
Qed.

Lemma flat_map_perm_pointwise {A B} (f g : A -> list B) (l : list A) :
  (forall x, In x l -> Permutation (f x) (g x)) -> Permutation (flat_map f l) (flat_map g l).
Proof.
  induction l as [|x l IH]; simpl; intros H; [constructor|].
  apply Permutation_app; [apply H; now left|]. apply IH. intros y Hy. apply H. now right.
Qed.

Lemma flat_map_perm_list {A B} (f : A -> list B) (l l' : list A) :
  Permutation l l' -> Permutation (flat_map f l) (flat_map f l').
Proof.
  induction 1; simpl.
  - constructor.
  - now apply Permutation_app_head.
  - rewrite !app_assoc. apply Permutation_app_tail. apply Permutation_app_comm.
  - etransitivity; eassumption.
Qed.

(* ---------- multiset inclusion of lists ---------- *)
Definition msubP {A} (l1 l2 : list A) : Prop := exists r, Permutation (l1 ++ r) l2.

Lemma msubP_refl {A} (l : list A) : msubP l l.
Proof. exists []. now rewrite app_nil_r. Qed.

Lemma msubP_of_perm {A} (l1 l2 : list A) : Permutation l1 l2 -> msubP l1 l2.
Proof. intros H. exists []. now rewrite app_nil_r. Qed.

Lemma msubP_trans {A} (l1 l2 l3 : list A) : msubP l1 l2 -> msubP l2 l3 -> msubP l1 l3.
Proof.
  intros [r1 H1] [r2 H2]. exists (r1 ++ r2). rewrite app_assoc. rewrite <- H2. now apply Permutation_app_tail.
Qed.

Lemma msubP_perm_l {A} (l1 l1' l2 : list A) : Permutation l1 l1' -> msubP l1 l2 -> msubP l1' l2.
Proof. intros Hp [r H]. exists r. rewrite <- H. apply Permutation_app_tail. now symmetry. Qed.

Lemma msubP_perm_r {A} (l1 l2 l2' : list A) : Permutation l2 l2' -> msubP l1 l2 -> msubP l1 l2'.
Proof. intros Hp [r H]. exists r. now rewrite H. Qed.

Lemma msubP_app {A} (a a' b b' : list A) : msubP a a' -> msubP b b' -> msubP (a ++ b) (a' ++ b').
Proof.
  intros [ra Ha] [rb Hb]. exists (ra ++ rb). rewrite <- Ha, <- Hb. rewrite <- !app_assoc.
  apply Permutation_app_head. rewrite !app_assoc. apply Permutation_app_tail. apply Permutation_app_comm.
Qed.

Lemma msubP_app_r {A} (l r : list A) : msubP l (l ++ r).
Proof. exists r. apply Permutation_refl. Qed.

Lemma msubP_nil {A} (l : list A) : msubP [] l.
Proof. exists l. apply Permutation_refl. Qed.

Lemma msubP_map {A B} (f : A -> B) (l1 l2 : list A) : msubP l1 l2 -> msubP (map f l1) (map f l2).
Proof. intros [r H]. exists (map f r). rewrite <- map_app. now apply Permutation_map. Qed.

Lemma msubP_flat_map {A B} (f g : A -> list B) (l : list A) :
  (forall x, In x l -> msubP (f x) (g x)) -> msubP (flat_map f l) (flat_map g l).
Proof.
  induction l as [|x l IH]; simpl; intros H; [apply msubP_refl|].
  apply msubP_app; [apply H; now left|]. apply IH. intros y Hy. apply H. now right.
Qed.

Lemma msubP_length {A} (l1 l2 : list A) : msubP l1 l2 -> length l1 <= length l2.
Proof. intros [r H]. rewrite <- (Permutation_length H), app_length. apply Nat.le_add_r. Qed.

Lemma msubP_in {A} (l1 l2 : list A) x : msubP l1 l2 -> In x l1 -> In x l2.
Proof. intros [r H] Hin. apply (Permutation_in _ H). apply in_or_app. now left. Qed.
