(* Mirror of Go's container/heap (src/container/heap/heap.go), line by line, on [list A].
   Executable definitions only; proofs are in Lib/GoHeapProofs.v.

   [lt]      is the Go [Less] on elements,
   [setpos]  is what the user's [Swap]/[Push]/[Pop] write into an element when it is moved to an
             index (workqueue's [position] field); it is the identity for storage.stack.
   Indices are [nat]; Go's [(j-1)/2] for j = 0 is 0 (truncation), and so is [(0-1)/2] on nat. *)
From Coq Require Import List Arith ZArith Bool.
Import ListNotations.

Section GoHeap.
  Context {A : Type}.
  Variable lt : A -> A -> bool.
  Variable setpos : Z -> A -> A.

  Definition parent (j : nat) : nat := (j - 1) / 2.

  Fixpoint upd (l : list A) (i : nat) (x : A) : list A :=
    match l, i with
    | [], _ => []
    | _ :: t, 0 => x :: t
    | h :: t, S i' => h :: upd t i' x
    end.

  (* h.Swap(i, j):  items[i], items[j] = items[j], items[i]; items[i].position = i; items[j].position = j *)
  Definition swap (l : list A) (i j : nat) : list A :=
    match nth_error l i, nth_error l j with
    | Some x, Some y => upd (upd l i (setpos (Z.of_nat i) y)) j (setpos (Z.of_nat j) x)
    | _, _ => l
    end.

  (* h.Less(i, j) *)
  Definition less (l : list A) (i j : nat) : bool :=
    match nth_error l i, nth_error l j with
    | Some x, Some y => lt x y
    | _, _ => false
    end.

  (* func up(h, j): fuel bounds the number of iterations (S j always suffices) *)
  Fixpoint up (fuel : nat) (l : list A) (j : nat) : list A :=
    match fuel with
    | 0 => l
    | S f =>
        let i := parent j in
        if (i =? j) || negb (less l j i) then l
        else up f (swap l i j) i
    end.

  (* func down(h, i0, n): returns the list and the final index i (Go returns i > i0) *)
  Fixpoint down (fuel : nat) (l : list A) (i n : nat) : list A * nat :=
    match fuel with
    | 0 => (l, i)
    | S f =>
        let j1 := 2 * i + 1 in
        if n <=? j1 then (l, i)
        else
          let j := if (j1 + 1 <? n) && less l (j1 + 1) j1 then j1 + 1 else j1 in
          if negb (less l j i) then (l, i)
          else down f (swap l i j) j n
    end.

  (* for i := n/2 - 1; i >= 0; i-- { down(h, i, n) } ; [k] = number of indices still to process *)
  Fixpoint init_loop (k : nat) (l : list A) (n : nat) : list A :=
    match k with
    | 0 => l
    | S k' => init_loop k' (fst (down n l k' n)) n
    end.

  Definition h_init (l : list A) : list A :=
    let n := length l in init_loop (n / 2) l n.

  (* heap.Push: h.Push(x) appends (user Push writes position n); up(h, n) *)
  Definition h_push (l : list A) (x : A) : list A :=
    let n := length l in
    up (S n) (l ++ [setpos (Z.of_nat n) x]) n.

  (* the user's Pop: remove and return the last element, position := -1 *)
  Definition pop_last (l : list A) : option (A * list A) :=
    match length l with
    | 0 => None
    | S n => match nth_error l n with
             | Some x => Some (setpos (-1)%Z x, firstn n l)
             | None => None
             end
    end.

  (* heap.Pop; None where Go panics (empty heap) *)
  Definition h_pop (l : list A) : option (A * list A) :=
    match length l with
    | 0 => None
    | S n =>
        let l1 := swap l 0 n in
        let l2 := fst (down (S n) l1 0 n) in
        pop_last l2
    end.

  (* heap.Fix *)
  Definition h_fix (l : list A) (i : nat) : list A :=
    let n := length l in
    let '(l', i') := down n l i n in
    if i <? i' then l' else up (S i) l' i.

  (* heap.Remove; None where Go panics (i out of range) *)
  Definition h_remove (l : list A) (i : nat) : option (A * list A) :=
    match length l with
    | 0 => None
    | S n =>
        if n <? i then None
        else if n =? i then pop_last l
        else
          let l1 := swap l i n in
          let '(l2, i') := down (S n) l1 i n in
          let l3 := if i <? i' then l2 else up (S i) l2 i in
          pop_last l3
    end.
End GoHeap.
