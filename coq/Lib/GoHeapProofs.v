(* Correctness of the mirror of Go's container/heap defined in Lib/GoHeap.v.

   Sections:
     Structural : facts about upd/swap/up/down/pop_last that need no hypothesis on the order
                  (nth_error characterisation of swap, lengths, frames, Permutation of keys).
     Heap       : heap_ok is established/preserved by Init/Push/Pop/Remove/Fix; root_min.
     Positions  : positions_ok (recorded position = index) is preserved.
     Instance   : a closed instance (A = Z * Z) showing the hypotheses are satisfiable.  *)
From Coq Require Import List Arith ZArith Bool Lia ZifyNat Permutation.
From TC.Lib Require Import GoHeap.
Import ListNotations.
#[local] Ltac Zify.zify_post_hook ::= Z.div_mod_to_equations.
(* Plain [lia] drags unrelated section variables (anything mentioning A) into its proof terms;
   [clia] first clears every hypothesis that is a product.  Dependencies are then kept explicit
   with [Proof using]. *)
Ltac clear_foralls :=
  repeat match goal with H : ?T |- _ => lazymatch T with forall _, _ => clear H end end.
Ltac clia := clear_foralls; lia.
#[local] Set Default Proof Using "Type".

(* arithmetic on [parent] *)
Ltac arith := clear_foralls; unfold parent in *; lia.

Lemma parent_children : forall c i, 0 < c -> (parent c = i <-> c = 2 * i + 1 \/ c = 2 * i + 2).
Proof. intros c i Hc. arith. Qed.

Lemma parent_lt : forall j, 0 < j -> parent j < j.
Proof. intros j Hj. arith. Qed.

Lemma parent_fix : forall j, parent j = j <-> j = 0.
Proof. intros j. arith. Qed.

(* index permutation performed by [swap l i j] *)
Definition sw (i j k : nat) : nat := if k =? i then j else if k =? j then i else k.

Ltac swv :=
  unfold sw;
  repeat match goal with |- context [?a =? ?b] => destruct (Nat.eqb_spec a b) end;
  try reflexivity; try (exfalso; arith); arith.

Lemma sw_l : forall i j, sw i j i = j.
Proof. intros i j. swv. Qed.

Lemma sw_r : forall i j, sw i j j = i.
Proof. intros i j. swv. Qed.

Lemma sw_other : forall i j k, k <> i -> k <> j -> sw i j k = k.
Proof. intros i j k H1 H2. swv. Qed.

Lemma sw_invol : forall i j k, sw i j (sw i j k) = k.
Proof.
  intros i j k. unfold sw.
  destruct (Nat.eqb_spec k i) as [e1|n1].
  - destruct (Nat.eqb_spec j i) as [e2|n2]; [clia|]. rewrite Nat.eqb_refl. clia.
  - destruct (Nat.eqb_spec k j) as [e2|n2].
    + rewrite Nat.eqb_refl. clia.
    + destruct (Nat.eqb_spec k i) as [e3|n3]; [clia|].
      destruct (Nat.eqb_spec k j) as [e4|n4]; [clia|]. reflexivity.
Qed.

Lemma sw_injective : forall i j, FinFun.Injective (sw i j).
Proof.
  intros i j a b Hab.
  rewrite <- (sw_invol i j a), <- (sw_invol i j b), Hab. reflexivity.
Qed.

(* ------------------------------------------------------------------------------------------ *)
Section Structural.
  Context {A : Type} (lt : A -> A -> bool) (setpos : Z -> A -> A).

  Lemma length_upd : forall (l : list A) i v, length (upd l i v) = length l.
  Proof.
    induction l as [|h t IH]; intros i v; destruct i as [|i']; simpl; auto.
  Qed.

  Lemma nth_upd : forall (l : list A) i v k,
      nth_error (upd l i v) k =
      if k =? i then match nth_error l i with Some _ => Some v | None => None end
      else nth_error l k.
  Proof.
    induction l as [|h t IH]; intros i v k.
    - destruct i, k; simpl; try reflexivity. destruct (k =? i); reflexivity.
    - destruct i as [|i'], k as [|k']; simpl; try reflexivity. apply IH.
  Qed.

  Lemma nth_upd_other : forall (l : list A) i v k, k <> i -> nth_error (upd l i v) k = nth_error l k.
  Proof.
    intros l i v k Hk. rewrite nth_upd. destruct (Nat.eqb_spec k i) as [e|e]; [contradiction|reflexivity].
  Qed.

  Lemma nth_upd_same : forall (l : list A) i v, i < length l -> nth_error (upd l i v) i = Some v.
  Proof.
    intros l i v Hi. rewrite nth_upd, Nat.eqb_refl.
    destruct (nth_error l i) eqn:E; [reflexivity|].
    apply nth_error_None in E. clia.
  Qed.

  (* the element written at index [k] by [swap l i j] is re-tagged with position [k] *)
  Definition tag (i j k : nat) : A -> A :=
    if (k =? i) || (k =? j) then setpos (Z.of_nat k) else fun x => x.

  Lemma swap_oob : forall (l : list A) i j, length l <= i \/ length l <= j -> swap setpos l i j = l.
  Proof.
    intros l i j H. unfold swap.
    destruct (nth_error l i) eqn:Ei; [|reflexivity].
    destruct (nth_error l j) eqn:Ej; [|reflexivity].
    exfalso. destruct H as [H|H]; apply nth_error_None in H; congruence.
  Qed.

  Lemma length_swap : forall (l : list A) i j, length (swap setpos l i j) = length l.
  Proof.
    intros l i j. unfold swap.
    destruct (nth_error l i); [|reflexivity].
    destruct (nth_error l j); [|reflexivity].
    rewrite !length_upd. reflexivity.
  Qed.

  Lemma nth_swap_other : forall (l : list A) i j k,
      k <> i -> k <> j -> nth_error (swap setpos l i j) k = nth_error l k.
  Proof.
    intros l i j k Hi Hj. unfold swap.
    destruct (nth_error l i); [|reflexivity].
    destruct (nth_error l j); [|reflexivity].
    rewrite !nth_upd_other by assumption. reflexivity.
  Qed.

  Lemma nth_swap : forall (l : list A) i j k,
      i < length l -> j < length l ->
      nth_error (swap setpos l i j) k = option_map (tag i j k) (nth_error l (sw i j k)).
  Proof.
    intros l i j k Hi Hj. unfold swap, tag, sw.
    destruct (nth_error l i) as [x|] eqn:Ei; [|apply nth_error_None in Ei; clia].
    destruct (nth_error l j) as [y|] eqn:Ej; [|apply nth_error_None in Ej; clia].
    rewrite nth_upd.
    destruct (Nat.eqb_spec k j) as [ekj|nkj].
    - subst k. rewrite nth_upd.
      destruct (Nat.eqb_spec j i) as [eji|nji].
      + subst j. rewrite Ei. simpl. congruence.
      + rewrite Ej, Ei. simpl. reflexivity.
    - rewrite nth_upd.
      destruct (Nat.eqb_spec k i) as [eki|nki].
      + subst k. rewrite Ei, Ej. simpl. reflexivity.
      + simpl. destruct (nth_error l k); reflexivity.
  Qed.

  (* the plain formulation asked for: what is found at index k after the swap *)
  Lemma nth_swap_plain : forall (l : list A) i j k,
      i < length l -> j < length l ->
      nth_error (swap setpos l i j) k =
      if k =? j then option_map (setpos (Z.of_nat j)) (nth_error l i)
      else if k =? i then option_map (setpos (Z.of_nat i)) (nth_error l j)
      else nth_error l k.
  Proof.
    intros l i j k Hi Hj. rewrite nth_swap by assumption. unfold tag, sw.
    destruct (Nat.eqb_spec k j) as [ekj|nkj].
    - subst k. destruct (Nat.eqb_spec j i) as [eji|nji]; [subst j|]; reflexivity.
    - destruct (Nat.eqb_spec k i) as [eki|nki]; [subst k; reflexivity|].
      simpl. destruct (nth_error l k); reflexivity.
  Qed.

  Lemma tag_same : forall i n (a : A), tag i n n a = setpos (Z.of_nat n) a.
  Proof. intros i n a. unfold tag. rewrite Nat.eqb_refl, orb_true_r. reflexivity. Qed.

  (* unfolding lemmas *)
  Lemma up_S : forall f (l : list A) j,
      up lt setpos (S f) l j =
      if (parent j =? j) || negb (less lt l j (parent j)) then l
      else up lt setpos f (swap setpos l (parent j) j) (parent j).
  Proof. reflexivity. Qed.

  Definition minchild (l : list A) (i n : nat) : nat :=
    if (2 * i + 1 + 1 <? n) && less lt l (2 * i + 1 + 1) (2 * i + 1) then 2 * i + 1 + 1 else 2 * i + 1.

  Lemma down_S : forall f (l : list A) i n,
      down lt setpos (S f) l i n =
      if n <=? 2 * i + 1 then (l, i)
      else if negb (less lt l (minchild l i n) i) then (l, i)
           else down lt setpos f (swap setpos l i (minchild l i n)) (minchild l i n) n.
  Proof. reflexivity. Qed.

  Lemma minchild_range : forall l i n, 2 * i + 1 < n ->
      (minchild l i n = 2 * i + 1 \/ minchild l i n = 2 * i + 2) /\ minchild l i n < n.
  Proof.
    intros l i n Hn. unfold minchild.
    destruct (Nat.ltb_spec (2 * i + 1 + 1) n) as [H|H]; cbn [andb].
    - destruct (less lt l (2 * i + 1 + 1) (2 * i + 1)); clia.
    - clia.
  Qed.

  Lemma init_loop_S : forall k (l : list A) n,
      init_loop lt setpos (S k) l n = init_loop lt setpos k (fst (down lt setpos n l k n)) n.
  Proof. reflexivity. Qed.

  (* lengths *)
  Lemma up_length : forall f (l : list A) j, length (up lt setpos f l j) = length l.
  Proof.
    induction f as [|f IH]; intros l j; [reflexivity|].
    rewrite up_S. destruct ((parent j =? j) || negb (less lt l j (parent j))); [reflexivity|].
    rewrite IH. apply length_swap.
  Qed.

  Lemma down_length : forall f (l : list A) i n, length (fst (down lt setpos f l i n)) = length l.
  Proof.
    induction f as [|f IH]; intros l i n; [reflexivity|].
    rewrite down_S. destruct (n <=? 2 * i + 1); [reflexivity|].
    destruct (negb (less lt l (minchild l i n) i)); [reflexivity|].
    rewrite IH. apply length_swap.
  Qed.

  Lemma init_loop_length : forall k (l : list A) n, length (init_loop lt setpos k l n) = length l.
  Proof.
    induction k as [|k IH]; intros l n; [reflexivity|].
    rewrite init_loop_S, IH. apply down_length.
  Qed.

  (* frames: [up l j] only touches indices <= j, [down l i n] only indices in [i, n) *)
  Lemma up_frame : forall f (l : list A) j m, j < m -> nth_error (up lt setpos f l j) m = nth_error l m.
  Proof.
    induction f as [|f IH]; intros l j m Hm; [reflexivity|].
    rewrite up_S. destruct ((parent j =? j) || negb (less lt l j (parent j))); [reflexivity|].
    assert (Hp : parent j <= j) by arith.
    rewrite IH by clia. apply nth_swap_other; clia.
  Qed.

  Lemma down_frame : forall f (l : list A) i n m,
      n <= m -> nth_error (fst (down lt setpos f l i n)) m = nth_error l m.
  Proof.
    induction f as [|f IH]; intros l i n m Hm; [reflexivity|].
    rewrite down_S. destruct (Nat.leb_spec n (2 * i + 1)) as [H|H]; [reflexivity|].
    destruct (negb (less lt l (minchild l i n) i)); [reflexivity|].
    destruct (minchild_range l i n H) as [_ Hj].
    rewrite IH by clia. apply nth_swap_other; clia.
  Qed.

  Lemma nth_firstn : forall (l : list A) n k, k < n -> nth_error (firstn n l) k = nth_error l k.
  Proof.
    induction l as [|h t IH]; intros n k Hk.
    - rewrite firstn_nil. reflexivity.
    - destruct n as [|n']; [clia|]. destruct k as [|k']; simpl; [reflexivity|]. apply IH. clia.
  Qed.

  Lemma last_split : forall (l : list A) n y,
      length l = S n -> nth_error l n = Some y -> l = firstn n l ++ [y].
  Proof.
    induction l as [|h t IH]; intros n y Hl Hn; [discriminate|].
    destruct n as [|n']; simpl in *.
    - destruct t; [|discriminate]. congruence.
    - f_equal. apply IH; [clia|assumption].
  Qed.

  Lemma pop_last_spec : forall (l : list A) x l',
      pop_last setpos l = Some (x, l') ->
      exists n y, length l = S n /\ nth_error l n = Some y /\
                  x = setpos (-1)%Z y /\ l' = firstn n l /\ l = l' ++ [y].
  Proof.
    intros l x l' H. unfold pop_last in H.
    destruct (length l) as [|n] eqn:El; [discriminate|].
    destruct (nth_error l n) as [y|] eqn:En; [|discriminate].
    injection H as Hx Hl'. exists n, y. subst x l'.
    repeat split; auto. apply last_split; assumption.
  Qed.

  Lemma pop_last_some : forall (l : list A) n y,
      length l = S n -> nth_error l n = Some y ->
      pop_last setpos l = Some (setpos (-1)%Z y, firstn n l).
  Proof. intros l n y Hl Hn. unfold pop_last. rewrite Hl, Hn. reflexivity. Qed.

  (* the common part of Fix and Remove *)
  Definition fix_on (f : nat) (l : list A) (i n : nat) : list A :=
    let '(l', i') := down lt setpos f l i n in
    if i <? i' then l' else up lt setpos (S i) l' i.

  Lemma h_remove_eq : forall l i,
      h_remove lt setpos l i =
      match length l with
      | 0 => None
      | S n => if n <? i then None
               else if n =? i then pop_last setpos l
                    else pop_last setpos (fix_on (S n) (swap setpos l i n) i n)
      end.
  Proof.
    intros l i. unfold h_remove, fix_on.
    destruct (length l) as [|n]; [reflexivity|].
    destruct (n <? i); [reflexivity|]. destruct (n =? i); [reflexivity|].
    destruct (down lt setpos (S n) (swap setpos l i n) i n) as [l2 i']. reflexivity.
  Qed.

  (* content preservation, up to anything [setpos] does not change *)
  Section Perm.
    Context {K : Type} (key : A -> K).
    Hypothesis key_setpos : forall p x, key (setpos p x) = key x.

    Lemma key_tag : forall i j k x, key (tag i j k x) = key x.
    Proof using key_setpos. intros i j k x. unfold tag. destruct ((k =? i) || (k =? j)); auto. Qed.

    Lemma swap_perm : forall (l : list A) i j, Permutation (map key (swap setpos l i j)) (map key l).
    Proof using key_setpos.
      intros l i j.
      destruct (Nat.lt_ge_cases i (length l)) as [Hi|Hi];
        [|rewrite swap_oob by auto; reflexivity].
      destruct (Nat.lt_ge_cases j (length l)) as [Hj|Hj];
        [|rewrite swap_oob by auto; reflexivity].
      apply Permutation_sym, Permutation_nth_error. split.
      - rewrite !map_length, length_swap. reflexivity.
      - exists (sw i j). split; [apply sw_injective|].
        intros k. rewrite !nth_error_map, nth_swap by assumption.
        destruct (nth_error l (sw i j k)); simpl; [|reflexivity].
        rewrite key_tag. reflexivity.
    Qed.

    Lemma up_perm : forall f (l : list A) j, Permutation (map key (up lt setpos f l j)) (map key l).
    Proof using key_setpos.
      induction f as [|f IH]; intros l j; [reflexivity|].
      rewrite up_S. destruct ((parent j =? j) || negb (less lt l j (parent j))); [reflexivity|].
      rewrite IH. apply swap_perm.
    Qed.

    Lemma down_perm : forall f (l : list A) i n,
        Permutation (map key (fst (down lt setpos f l i n))) (map key l).
    Proof using key_setpos.
      induction f as [|f IH]; intros l i n; [reflexivity|].
      rewrite down_S. destruct (n <=? 2 * i + 1); [reflexivity|].
      destruct (negb (less lt l (minchild l i n) i)); [reflexivity|].
      rewrite IH. apply swap_perm.
    Qed.

    Lemma init_loop_perm : forall k (l : list A) n,
        Permutation (map key (init_loop lt setpos k l n)) (map key l).
    Proof using key_setpos.
      induction k as [|k IH]; intros l n; [reflexivity|].
      rewrite init_loop_S, IH. apply down_perm.
    Qed.

    Lemma pop_last_perm : forall (l : list A) x l',
        pop_last setpos l = Some (x, l') -> Permutation (key x :: map key l') (map key l).
    Proof using key_setpos.
      intros l x l' H. apply pop_last_spec in H.
      destruct H as (n & y & _ & _ & Hx & _ & Hl).
      rewrite Hl, map_app. simpl. subst x. rewrite key_setpos.
      apply Permutation_cons_append.
    Qed.

    Theorem h_init_perm : forall l, Permutation (map key (h_init lt setpos l)) (map key l).
    Proof using key_setpos. intros l. unfold h_init. apply init_loop_perm. Qed.

    Theorem h_push_perm : forall l x,
        Permutation (map key (h_push lt setpos l x)) (key x :: map key l).
    Proof using key_setpos.
      intros l x. unfold h_push. rewrite up_perm, map_app. simpl. rewrite key_setpos.
      apply Permutation_sym, Permutation_cons_append.
    Qed.

    Theorem h_pop_perm : forall l x l',
        h_pop lt setpos l = Some (x, l') -> Permutation (key x :: map key l') (map key l).
    Proof using key_setpos.
      intros l x l' H. unfold h_pop in H.
      destruct (length l) as [|n]; [discriminate|].
      apply pop_last_perm in H. rewrite H, down_perm. apply swap_perm.
    Qed.

    Lemma fix_on_perm : forall f l i n, Permutation (map key (fix_on f l i n)) (map key l).
    Proof using key_setpos.
      intros f l i n. unfold fix_on.
      pose proof (down_perm f l i n) as Hd.
      destruct (down lt setpos f l i n) as [l' i']. simpl in Hd.
      destruct (i <? i'); [assumption|]. rewrite up_perm. assumption.
    Qed.

    Theorem h_fix_perm : forall l i, Permutation (map key (h_fix lt setpos l i)) (map key l).
    Proof using key_setpos. intros l i. apply (fix_on_perm (length l) l i (length l)). Qed.

    Theorem h_remove_perm : forall l i x l',
        h_remove lt setpos l i = Some (x, l') -> Permutation (key x :: map key l') (map key l).
    Proof using key_setpos.
      intros l i x l' H. rewrite h_remove_eq in H.
      destruct (length l) as [|n]; [discriminate|].
      destruct (n <? i); [discriminate|].
      destruct (n =? i).
      - apply pop_last_perm. assumption.
      - apply pop_last_perm in H. rewrite H, fix_on_perm. apply swap_perm.
    Qed.
  End Perm.

  Lemma fix_on_length : forall f l i n, length (fix_on f l i n) = length l.
  Proof.
    intros f l i n. unfold fix_on.
    pose proof (down_length f l i n) as Hd.
    destruct (down lt setpos f l i n) as [l' i']. simpl in Hd.
    destruct (i <? i'); [assumption|]. rewrite up_length. assumption.
  Qed.

  Lemma fix_on_frame : forall f l i n m,
      i < n -> n <= m -> nth_error (fix_on f l i n) m = nth_error l m.
  Proof.
    intros f l i n m Hi Hm. unfold fix_on.
    pose proof (down_frame f l i n m Hm) as Hd.
    destruct (down lt setpos f l i n) as [l' i']. simpl in Hd.
    destruct (i <? i'); [assumption|]. rewrite up_frame by clia. assumption.
  Qed.

  Theorem h_init_length : forall l, length (h_init lt setpos l) = length l.
  Proof. intros l. unfold h_init. apply init_loop_length. Qed.

  Theorem h_push_length : forall l x, length (h_push lt setpos l x) = S (length l).
  Proof. intros l x. unfold h_push. rewrite up_length, app_length. simpl. clia. Qed.

  Theorem h_fix_length : forall l i, length (h_fix lt setpos l i) = length l.
  Proof. intros l i. apply (fix_on_length (length l) l i (length l)). Qed.

  Theorem h_pop_none : forall l, h_pop lt setpos l = None <-> l = [].
  Proof.
    intros l. split.
    - intros H. unfold h_pop in H. destruct l as [|a t]; [reflexivity|exfalso].
      cbn [length] in H.
      set (l2 := fst (down lt setpos (S (length t)) (swap setpos (a :: t) 0 (length t)) 0 (length t))) in H.
      assert (Hl : length l2 = S (length t)).
      { unfold l2. rewrite down_length, length_swap. reflexivity. }
      destruct (nth_error l2 (length t)) as [y|] eqn:En.
      + rewrite (pop_last_some l2 (length t) y Hl En) in H. discriminate.
      + apply nth_error_None in En. clia.
    - intros ->. reflexivity.
  Qed.

  (* the popped element is the old root, re-tagged by Swap(0, n) and by the user's Pop *)
  Theorem h_pop_elem : forall l x l' a,
      h_pop lt setpos l = Some (x, l') -> nth_error l 0 = Some a ->
      x = setpos (-1)%Z (setpos (Z.of_nat (length l - 1)) a).
  Proof.
    intros l x l' a H Ha. unfold h_pop in H.
    destruct (length l) as [|n] eqn:El; [discriminate|].
    apply pop_last_spec in H. destruct H as (m & y & Hl & Hy & Hx & _ & _).
    rewrite down_length, length_swap in Hl.
    assert (Hm : m = n) by clia. subst m.
    rewrite down_frame in Hy by apply le_n.
    rewrite nth_swap, sw_r, Ha in Hy by clia. cbn [option_map] in Hy.
    rewrite tag_same in Hy. injection Hy as <-.
    replace (S n - 1) with n by clia. exact Hx.
  Qed.

  Theorem h_pop_length : forall l x l', h_pop lt setpos l = Some (x, l') -> length l = S (length l').
  Proof.
    intros l x l' H. unfold h_pop in H.
    destruct (length l) as [|n] eqn:El; [discriminate|].
    apply pop_last_spec in H. destruct H as (m & y & Hl & _ & _ & Hl' & _).
    rewrite down_length, length_swap in Hl.
    subst l'. rewrite firstn_length_le.
    - clia.
    - rewrite down_length, length_swap. clia.
  Qed.

  Theorem h_remove_none : forall l i, length l <= i -> h_remove lt setpos l i = None.
  Proof.
    intros l i H. rewrite h_remove_eq. destruct (length l) as [|n]; [reflexivity|].
    destruct (Nat.ltb_spec n i); [reflexivity|clia].
  Qed.
End Structural.

(* ------------------------------------------------------------------------------------------ *)
Section Heap.
  Context {A K : Type} (lt : A -> A -> bool) (setpos : Z -> A -> A) (key : A -> K).
  Hypothesis lt_setpos_l : forall p x y, lt (setpos p x) y = lt x y.
  Hypothesis lt_setpos_r : forall p x y, lt x (setpos p y) = lt x y.

  Definition le (x y : A) : bool := negb (lt y x).

  Hypothesis le_total : forall x y, le x y = true \/ le y x = true.
  Hypothesis le_trans : forall x y z, le x y = true -> le y z = true -> le x z = true.
  Hypothesis key_setpos : forall p x, key (setpos p x) = key x.

  Collection Ord := lt_setpos_l lt_setpos_r le_total le_trans.

  Definition ordered (l : list A) (p c : nat) : Prop :=
    forall x y, nth_error l p = Some x -> nth_error l c = Some y -> le x y = true.

  Definition heap_ok (l : list A) : Prop :=
    forall c, 0 < c -> c < length l -> ordered l (parent c) c.

  (* pairs (parent c, c) with c < n and k <= parent c *)
  Definition heap_on (l : list A) (k n : nat) : Prop :=
    forall c, 0 < c -> c < n -> k <= parent c -> ordered l (parent c) c.

  (* a heap with a hole at i: pairs not involving i, and the grand-parent condition *)
  Definition hole_on (l : list A) (k i n : nat) : Prop :=
    (forall c, 0 < c -> c < n -> k <= parent c -> c <> i -> parent c <> i -> ordered l (parent c) c) /\
    (forall c, 0 < c -> c < n -> parent c = i -> 0 < i -> k <= parent i -> ordered l (parent i) c).

  Definition hole_ok (l : list A) (i : nat) : Prop :=
    (forall c, 0 < c -> c < length l -> c <> i -> parent c <> i -> ordered l (parent c) c) /\
    (forall c, 0 < c -> c < length l -> parent c = i -> 0 < i -> ordered l (parent i) c).

  Definition kids_ok (l : list A) (i n : nat) : Prop :=
    forall c, 0 < c -> c < n -> parent c = i -> ordered l i c.

  Lemma heap_ok_nil : heap_ok [].
  Proof. intros c Hc0 Hcn. cbn [length] in Hcn. clia. Qed.

  Lemma heap_ok_iff : forall l, heap_ok l <-> heap_on l 0 (length l).
  Proof.
    intros l. unfold heap_ok, heap_on. split.
    - intros H c Hc0 Hcn _. apply H; assumption.
    - intros H c Hc0 Hcn. apply H; try assumption. clia.
  Qed.

  Lemma hole_ok_iff : forall l i, hole_ok l i <-> hole_on l 0 i (length l).
  Proof.
    intros l i. unfold hole_ok, hole_on. split; intros [Ha Hb]; split.
    - intros c Hc0 Hcn _ Hci Hpc. apply Ha; assumption.
    - intros c Hc0 Hcn Hpc Hi0 _. apply Hb; assumption.
    - intros c Hc0 Hcn Hci Hpc. apply Ha; try assumption. clia.
    - intros c Hc0 Hcn Hpc Hi0. apply Hb; try assumption. clia.
  Qed.

  Lemma heap_on_weaken : forall l k n k' n', heap_on l k n -> k <= k' -> n' <= n -> heap_on l k' n'.
  Proof.
    intros l k n k' n' H Hk Hn c Hc0 Hcn Hkc. apply H; clia.
  Qed.

  (* [ordered] is a statement about [less] *)
  Lemma ordered_less : forall l p c, ordered l p c <-> less lt l c p = false.
  Proof.
    intros l p c. unfold ordered, less, le. split.
    - intros H. destruct (nth_error l c) as [y|]; [|reflexivity].
      destruct (nth_error l p) as [x|]; [|reflexivity].
      specialize (H x y eq_refl eq_refl). apply negb_true_iff in H. exact H.
    - intros H x y Hp Hc. rewrite Hc, Hp in H. rewrite H. reflexivity.
  Qed.

  Lemma less_true_ordered : forall l a b, less lt l a b = true -> ordered l a b.
  Proof using le_total.
    intros l a b H x y Ha Hb. unfold less in H. rewrite Ha, Hb in H.
    destruct (le_total x y) as [T|T]; [exact T|].
    unfold le in T. rewrite H in T. discriminate.
  Qed.

  Lemma ordered_refl : forall l a, ordered l a a.
  Proof using le_total.
    intros l a x y Hx Hy. rewrite Hx in Hy. injection Hy as <-.
    destruct (le_total x x); assumption.
  Qed.

  Lemma ordered_trans : forall l a b c,
      b < length l -> ordered l a b -> ordered l b c -> ordered l a c.
  Proof using le_trans.
    intros l a b c Hb Hab Hbc x z Hx Hz.
    destruct (nth_error l b) as [y|] eqn:Ey; [|apply nth_error_None in Ey; clia].
    apply le_trans with y; [apply (Hab x y Hx Ey)|apply (Hbc y z Ey Hz)].
  Qed.

  Lemma ordered_ext : forall l l' p c,
      nth_error l' p = nth_error l p -> nth_error l' c = nth_error l c ->
      ordered l p c -> ordered l' p c.
  Proof.
    intros l l' p c Hp Hc H x y Hx Hy. rewrite Hp in Hx. rewrite Hc in Hy. exact (H x y Hx Hy).
  Qed.

  Lemma lt_tag_l : forall i j k x y, lt (tag setpos i j k x) y = lt x y.
  Proof using lt_setpos_l. intros i j k x y. unfold tag. destruct ((k =? i) || (k =? j)); auto. Qed.

  Lemma lt_tag_r : forall i j k x y, lt x (tag setpos i j k y) = lt x y.
  Proof using lt_setpos_r. intros i j k x y. unfold tag. destruct ((k =? i) || (k =? j)); auto. Qed.

  Lemma less_swap : forall l i j a b,
      i < length l -> j < length l ->
      less lt (swap setpos l i j) a b = less lt l (sw i j a) (sw i j b).
  Proof using lt_setpos_l lt_setpos_r.
    intros l i j a b Hi Hj. unfold less. rewrite !nth_swap by assumption.
    destruct (nth_error l (sw i j a)); cbn [option_map]; [|reflexivity].
    destruct (nth_error l (sw i j b)); cbn [option_map]; [|reflexivity].
    rewrite lt_tag_l, lt_tag_r. reflexivity.
  Qed.

  Lemma ordered_swap : forall l i j p c,
      i < length l -> j < length l ->
      (ordered (swap setpos l i j) p c <-> ordered l (sw i j p) (sw i j c)).
  Proof using lt_setpos_l lt_setpos_r.
    intros l i j p c Hi Hj. rewrite !ordered_less, less_swap by assumption. reflexivity.
  Qed.

  Lemma hole_close : forall l k i n,
      hole_on l k i n -> kids_ok l i n ->
      (0 < i -> k <= parent i -> ordered l (parent i) i) ->
      heap_on l k n.
  Proof.
    intros l k i n [Ha Hb] Hk Hp c Hc0 Hcn Hkc.
    destruct (Nat.eq_dec c i) as [->|nci]; [apply Hp; assumption|].
    destruct (Nat.eq_dec (parent c) i) as [e|npi].
    - rewrite e. apply Hk; assumption.
    - apply Ha; assumption.
  Qed.

  Lemma kids_none : forall l i n, n <= 2 * i + 1 -> kids_ok l i n.
  Proof. intros l i n H c Hc0 Hcn Hpc. exfalso. arith. Qed.

  (* ---------------- up ---------------- *)
  Lemma up_ok : forall f l j n,
      hole_on l 0 j n -> kids_ok l j n -> j < f -> j < n -> n <= length l ->
      heap_on (up lt setpos f l j) 0 n.
  Proof using Ord.
    induction f as [|f IH]; intros l j n Hh Hk Hf Hj Hn; [clia|].
    rewrite up_S.
    destruct (Nat.eqb_spec (parent j) j) as [e|ne]; cbn [orb].
    - apply parent_fix in e. apply (hole_close l 0 j n Hh Hk). intros; clia.
    - assert (Hj0 : 0 < j) by arith.
      pose proof (parent_lt j Hj0) as Hpj.
      destruct (less lt l j (parent j)) eqn:El; cbn [negb].
      + apply less_true_ordered in El.
        destruct Hh as [Ha Hb].
        remember (parent j) as i eqn:Ei.
        assert (Hil : i < length l) by clia.
        assert (Hjl : j < length l) by clia.
        apply IH; [ | |clia|clia|rewrite length_swap; assumption].
        * split.
          -- intros c Hc0 Hcn _ Hci Hpci.
             rewrite ordered_swap by assumption.
             assert (Hcj : c <> j) by (intros ->; congruence).
             rewrite (sw_other i j c) by assumption.
             destruct (Nat.eq_dec (parent c) j) as [e|npj].
             ++ rewrite e, sw_r. apply Hb; try assumption; clia.
             ++ rewrite sw_other by assumption. apply Ha; try assumption; clia.
          -- intros c Hc0 Hcn Hpc Hi0 _.
             rewrite ordered_swap by assumption.
             assert (Hppi : parent i < i) by (apply parent_lt; assumption).
             rewrite (sw_other i j (parent i)) by clia.
             assert (Hpi : ordered l (parent i) i) by (apply Ha; clia).
             destruct (Nat.eq_dec c j) as [->|ncj].
             ++ rewrite sw_r. exact Hpi.
             ++ assert (Hci : c <> i) by (intros ->; clia).
                rewrite sw_other by assumption.
                apply (ordered_trans l (parent i) i c); try assumption.
                rewrite <- Hpc. apply Ha; clia.
        * intros c Hc0 Hcn Hpc.
          rewrite ordered_swap by assumption. rewrite sw_l.
          destruct (Nat.eq_dec c j) as [->|ncj].
          -- rewrite sw_r. exact El.
          -- assert (Hci : c <> i) by (intros ->; arith).
             rewrite sw_other by assumption.
             apply (ordered_trans l j i c); try assumption.
             rewrite <- Hpc. apply Ha; clia.
      + apply (hole_close l 0 j n Hh Hk). intros _ _. apply ordered_less. exact El.
  Qed.

  (* ---------------- down ---------------- *)
  Lemma minchild_min : forall l i n, 2 * i + 1 < n ->
      forall c, 0 < c -> c < n -> parent c = i -> ordered l (minchild lt l i n) c.
  Proof using le_total.
    intros l i n Hn c Hc0 Hcn Hpc.
    apply parent_children in Hpc; [|assumption].
    unfold minchild.
    destruct (Nat.ltb_spec (2 * i + 1 + 1) n) as [H2|H2]; cbn [andb].
    - destruct (less lt l (2 * i + 1 + 1) (2 * i + 1)) eqn:El.
      + apply less_true_ordered in El. destruct Hpc as [->| ->].
        * exact El.
        * replace (2 * i + 2) with (2 * i + 1 + 1) by clia. apply ordered_refl.
      + apply ordered_less in El. destruct Hpc as [->| ->].
        * apply ordered_refl.
        * replace (2 * i + 2) with (2 * i + 1 + 1) by clia. exact El.
    - assert (Hc : c = 2 * i + 1) by clia. subst c. apply ordered_refl.
  Qed.

  Definition down_post (l : list A) (k i n : nat) (r : list A * nat) : Prop :=
    hole_on (fst r) k (snd r) n /\ kids_ok (fst r) (snd r) n /\
    ((snd r = i /\ fst r = l) \/ (i < snd r /\ ordered (fst r) (parent (snd r)) (snd r))).

  Lemma down_ok : forall f l k i n,
      hole_on l k i n -> k <= i -> n <= length l -> n <= i + f ->
      down_post l k i n (down lt setpos f l i n).
  Proof using Ord.
    induction f as [|f IH]; intros l k i n Hh Hki Hn Hf.
    - cbn [down]. unfold down_post; cbn [fst snd].
      split; [assumption|]. split; [apply kids_none; clia|]. left; auto.
    - rewrite down_S.
      destruct (Nat.leb_spec n (2 * i + 1)) as [Hc|Hc].
      { unfold down_post; cbn [fst snd].
        split; [assumption|]. split; [apply kids_none; clia|]. left; auto. }
      destruct (minchild_range lt l i n Hc) as [Hj12 Hjn].
      pose proof (minchild_min l i n Hc) as Hmin.
      remember (minchild lt l i n) as j eqn:Ej.
      assert (Hpj : parent j = i) by arith.
      destruct (less lt l j i) eqn:El; cbn [negb].
      + apply less_true_ordered in El.
        assert (Hil : i < length l) by clia.
        assert (Hjl : j < length l) by clia.
        assert (Hh2 : hole_on (swap setpos l i j) k j n).
        { destruct Hh as [Ha Hb]. split.
          - intros c Hc0 Hcn Hkc Hcj Hpcj.
            rewrite ordered_swap by assumption.
            destruct (Nat.eq_dec c i) as [->|nci].
            + rewrite sw_l. rewrite sw_other by arith. apply Hb; try assumption; clia.
            + rewrite (sw_other i j c) by assumption.
              destruct (Nat.eq_dec (parent c) i) as [e|npi].
              * rewrite e, sw_l. apply Hmin; assumption.
              * rewrite sw_other by assumption. apply Ha; assumption.
          - intros c Hc0 Hcn Hpc Hj0 Hkpj.
            rewrite ordered_swap by assumption.
            rewrite Hpj, sw_l. rewrite sw_other by arith.
            rewrite <- Hpc. apply Ha; try assumption; arith. }
        assert (Hn2 : n <= length (swap setpos l i j)) by (rewrite length_swap; assumption).
        pose proof (IH (swap setpos l i j) k j n Hh2 ltac:(clia) Hn2 ltac:(clia)) as Hd.
        destruct (down lt setpos f (swap setpos l i j) j n) as [l' i'].
        unfold down_post in *; cbn [fst snd] in *.
        destruct Hd as (Hh' & Hk' & Hm). split; [assumption|]. split; [assumption|]. right.
        destruct Hm as [[-> ->]|[Hlt Ho]].
        * split; [clia|]. rewrite Hpj, ordered_swap, sw_l, sw_r by assumption. exact El.
        * split; [clia|assumption].
      + unfold down_post; cbn [fst snd]. split; [assumption|]. split; [|left; auto].
        intros c Hc0 Hcn Hpc. apply (ordered_trans l i j c); [clia| |apply Hmin; assumption].
        apply ordered_less. exact El.
  Qed.

  (* ---------------- Init ---------------- *)
  Lemma init_loop_ok : forall k l n,
      heap_on l k n -> n <= length l -> heap_on (init_loop lt setpos k l n) 0 n.
  Proof using Ord.
    induction k as [|k IH]; intros l n Hh Hn; [exact Hh|].
    rewrite init_loop_S. apply IH; [|rewrite down_length; assumption].
    assert (Hhole : hole_on l k k n).
    { split.
      - intros c Hc0 Hcn Hkc _ Hpc. apply Hh; try assumption. clia.
      - intros c Hc0 Hcn Hpc Hk0 Hkk. exfalso. arith. }
    pose proof (down_ok n l k k n Hhole (le_n _) Hn ltac:(clia)) as Hd.
    destruct (down lt setpos n l k n) as [l' i'].
    unfold down_post in Hd; cbn [fst snd] in *.
    destruct Hd as (Hh' & Hk' & Hm).
    apply (hole_close l' k i' n Hh' Hk').
    intros Hi0 Hkp. destruct Hm as [[-> ->]|[_ Ho]]; [exfalso; arith|exact Ho].
  Qed.

  Theorem h_init_ok : forall l, heap_ok (h_init lt setpos l).
  Proof using Ord.
    intros l. apply heap_ok_iff. rewrite h_init_length. unfold h_init.
    apply init_loop_ok; [|clia].
    intros c Hc0 Hcn Hk. exfalso. arith.
  Qed.

  (* ---------------- Push ---------------- *)
  Theorem h_push_ok : forall l x, heap_ok l -> heap_ok (h_push lt setpos l x).
  Proof using Ord.
    intros l x Hl. apply heap_ok_iff. rewrite h_push_length. unfold h_push.
    assert (Hord : forall c, 0 < c -> c < length l ->
                     ordered (l ++ [setpos (Z.of_nat (length l)) x]) (parent c) c).
    { intros c Hc0 Hcn. pose proof (parent_lt c Hc0) as Hp.
      apply (ordered_ext l); [apply nth_error_app1; clia|apply nth_error_app1; clia|].
      apply Hl; assumption. }
    apply up_ok; try clia.
    - split.
      + intros c Hc0 Hcn _ Hci _. apply Hord; clia.
      + intros c Hc0 Hcn Hpc _ _. exfalso. arith.
    - intros c Hc0 Hcn Hpc. exfalso. arith.
    - rewrite app_length. cbn [length]. clia.
  Qed.

  (* ---------------- root is minimal ---------------- *)
  Theorem root_min : forall l r, heap_ok l -> nth_error l 0 = Some r ->
      forall i x, nth_error l i = Some x -> le r x = true.
  Proof using le_total le_trans.
    intros l r Hl Hr i. induction i as [i IH] using lt_wf_ind. intros x Hx.
    destruct (Nat.eq_dec i 0) as [->|ni].
    - rewrite Hr in Hx. injection Hx as ->. destruct (le_total x x); assumption.
    - assert (Hi : i < length l) by (apply nth_error_Some; congruence).
      assert (Hp : parent i < i) by (apply parent_lt; clia).
      destruct (nth_error l (parent i)) as [p|] eqn:Ep; [|apply nth_error_None in Ep; clia].
      apply le_trans with p; [apply (IH (parent i) Hp p Ep)|].
      apply (Hl i ltac:(clia) Hi p x Ep Hx).
  Qed.

  Corollary root_min_In : forall l r, heap_ok l -> nth_error l 0 = Some r ->
      forall y, In y l -> le r y = true.
  Proof using le_total le_trans.
    intros l r Hl Hr y Hy. apply In_nth_error in Hy. destruct Hy as [i Hi].
    exact (root_min l r Hl Hr i y Hi).
  Qed.

  (* ---------------- Pop / Remove / Fix ---------------- *)
  Lemma heap_on_firstn : forall l n, heap_on l 0 n -> n <= length l -> heap_ok (firstn n l).
  Proof.
    intros l n H Hn c Hc0 Hcn. rewrite firstn_length_le in Hcn by assumption.
    pose proof (parent_lt c Hc0) as Hp.
    intros x y Hx Hy. rewrite nth_firstn in Hx by clia. rewrite nth_firstn in Hy by clia.
    exact (H c Hc0 Hcn (Nat.le_0_l _) x y Hx Hy).
  Qed.

  Lemma le_setpos_l : forall p x y, le (setpos p x) y = le x y.
  Proof using lt_setpos_r. intros p x y. unfold le. rewrite lt_setpos_r. reflexivity. Qed.

  Lemma le_setpos_r : forall p x y, le x (setpos p y) = le x y.
  Proof using lt_setpos_l. intros p x y. unfold le. rewrite lt_setpos_l. reflexivity. Qed.

  Lemma le_tag_l : forall i j k x y, le (tag setpos i j k x) y = le x y.
  Proof using lt_setpos_r. intros i j k x y. unfold le. rewrite lt_tag_r. reflexivity. Qed.

  (* after moving the element at i to the end, the first n elements form a heap with a hole at i *)
  Lemma hole_after_swap : forall l i n,
      heap_ok l -> length l = S n -> i <= n -> hole_on (swap setpos l i n) 0 i n.
  Proof using Ord.
    intros l i n Hl Hlen Hi.
    assert (Hil : i < length l) by clia.
    assert (Hnl : n < length l) by clia.
    split.
    - intros c Hc0 Hcn _ Hci Hpc. pose proof (parent_lt c Hc0) as Hp.
      rewrite ordered_swap by assumption.
      rewrite (sw_other i n c) by clia. rewrite sw_other by clia.
      apply Hl; clia.
    - intros c Hc0 Hcn Hpc Hi0 _. pose proof (parent_lt i Hi0) as Hp.
      assert (Hci : i < c) by (rewrite <- Hpc; apply parent_lt; assumption).
      rewrite ordered_swap by assumption.
      rewrite (sw_other i n c) by clia. rewrite sw_other by clia.
      apply (ordered_trans l (parent i) i c); [clia|apply Hl; clia|].
      rewrite <- Hpc. apply Hl; clia.
  Qed.

  Lemma fix_on_ok : forall f l i n,
      hole_on l 0 i n -> i < n -> n <= length l -> n <= i + f ->
      heap_on (fix_on lt setpos f l i n) 0 n.
  Proof using Ord.
    intros f l i n Hh Hi Hn Hf. unfold fix_on.
    pose proof (down_ok f l 0 i n Hh (Nat.le_0_l _) Hn Hf) as Hd.
    pose proof (down_length lt setpos f l i n) as Hlen.
    destruct (down lt setpos f l i n) as [l' i'].
    unfold down_post in Hd; cbn [fst snd] in *.
    destruct Hd as (Hh' & Hk' & Hm). destruct Hm as [[-> ->]|[Hlt Ho]].
    - rewrite Nat.ltb_irrefl. apply up_ok; try assumption; clia.
    - destruct (Nat.ltb_spec i i') as [_|Hge]; [|clia].
      apply (hole_close l' 0 i' n Hh' Hk'). intros _ _. exact Ho.
  Qed.

  Lemma h_pop_heap_min : forall l x l',
      heap_ok l -> h_pop lt setpos l = Some (x, l') ->
      heap_ok l' /\ (forall y, In y l -> le x y = true).
  Proof using Ord.
    intros l x l' Hl H.
    unfold h_pop in H.
    destruct (length l) as [|n] eqn:Elen; [discriminate|].
    assert (H0l : 0 < length l) by clia.
    assert (Hnl : n < length l) by clia.
    destruct (nth_error l 0) as [a|] eqn:Ea; [|apply nth_error_None in Ea; clia].
    pose proof (hole_after_swap l 0 n Hl Elen (Nat.le_0_l _)) as Hh.
    assert (Hn1 : n <= length (swap setpos l 0 n)) by (rewrite length_swap; clia).
    pose proof (down_ok (S n) (swap setpos l 0 n) 0 0 n Hh (le_n _) Hn1 ltac:(clia)) as Hd.
    pose proof (down_length lt setpos (S n) (swap setpos l 0 n) 0 n) as Hlen2.
    pose proof (down_frame lt setpos (S n) (swap setpos l 0 n) 0 n n (le_n _)) as Hfr.
    rewrite length_swap in Hlen2.
    rewrite nth_swap, sw_r, Ea in Hfr by assumption. cbn [option_map] in Hfr.
    destruct (down lt setpos (S n) (swap setpos l 0 n) 0 n) as [l2 i'].
    unfold down_post in Hd; cbn [fst snd] in *.
    destruct Hd as (Hh' & Hk' & Hm).
    assert (Hheap : heap_on l2 0 n).
    { apply (hole_close l2 0 i' n Hh' Hk'). intros Hi0 _.
      destruct Hm as [[-> _]|[_ Ho]]; [clia|exact Ho]. }
    rewrite (pop_last_some setpos l2 n _ ltac:(clia) Hfr) in H.
    injection H as <- <-.
    split; [apply heap_on_firstn; [assumption|clia]|].
    intros y Hy. rewrite le_setpos_l, le_tag_l. exact (root_min_In l a Hl Ea y Hy).
  Qed.

  Theorem h_pop_ok : forall l x l',
      heap_ok l -> h_pop lt setpos l = Some (x, l') ->
      heap_ok l' /\
      Permutation (key x :: map key l') (map key l) /\
      (forall y, In y l -> le x y = true).
  Proof using Ord key_setpos.
    intros l x l' Hl H.
    destruct (h_pop_heap_min l x l' Hl H) as [Hok Hmin].
    split; [assumption|]. split; [|assumption].
    exact (h_pop_perm lt setpos key key_setpos l x l' H).
  Qed.

  (* the popped element is also below everything that remains *)
  Theorem h_pop_le_rest : forall l x l',
      heap_ok l -> h_pop lt setpos l = Some (x, l') -> forall y, In y l' -> le x y = true.
  Proof using Ord.
    intros l x l' Hl H y Hy.
    destruct (h_pop_heap_min l x l' Hl H) as [_ Hmin].
    assert (Hks : forall p z, le x (setpos p z) = le x z) by (intros; apply le_setpos_r).
    pose proof (h_pop_perm lt setpos (le x) Hks l x l' H) as Hperm.
    assert (Hin : In (le x y) (map (le x) l)).
    { apply (Permutation_in _ Hperm). right. apply in_map. exact Hy. }
    apply in_map_iff in Hin. destruct Hin as (y0 & Heq & Hy0).
    rewrite <- Heq. apply Hmin. exact Hy0.
  Qed.

  (* the removed element is the old l[i], re-tagged by the Swap (if any) and by the user's Pop *)
  Lemma h_remove_heap : forall l i a,
      heap_ok l -> nth_error l i = Some a ->
      exists x l', h_remove lt setpos l i = Some (x, l') /\ heap_ok l' /\
                   (x = setpos (-1)%Z a \/
                    x = setpos (-1)%Z (setpos (Z.of_nat (length l - 1)) a)).
  Proof using Ord.
    intros l i a Hl Ha.
    assert (Hi : i < length l) by (apply nth_error_Some; congruence).
    rewrite h_remove_eq.
    destruct (length l) as [|n] eqn:Elen; [clia|].
    destruct (Nat.ltb_spec n i) as [Hlt|Hge]; [clia|].
    destruct (Nat.eqb_spec n i) as [e|ne].
    - subst i. exists (setpos (-1)%Z a), (firstn n l).
      split; [apply pop_last_some; assumption|].
      split; [|left; reflexivity].
      apply heap_on_firstn; [|clia].
      apply (heap_on_weaken l 0 (length l)); [apply heap_ok_iff; assumption|clia|clia].
    - assert (Hin : i < n) by clia.
      assert (Hil : i < length l) by clia.
      assert (Hnl : n < length l) by clia.
      pose proof (hole_after_swap l i n Hl Elen ltac:(clia)) as Hh.
      assert (Hn1 : n <= length (swap setpos l i n)) by (rewrite length_swap; clia).
      pose proof (fix_on_ok (S n) _ i n Hh Hin Hn1 ltac:(clia)) as Hheap.
      pose proof (fix_on_length lt setpos (S n) (swap setpos l i n) i n) as Hlen3.
      pose proof (fix_on_frame lt setpos (S n) (swap setpos l i n) i n n Hin (le_n _)) as Hfr.
      rewrite length_swap in Hlen3.
      rewrite nth_swap, sw_r, Ha in Hfr by assumption. cbn [option_map] in Hfr.
      rewrite tag_same in Hfr.
      remember (fix_on lt setpos (S n) (swap setpos l i n) i n) as l3 eqn:El3.
      exists (setpos (-1)%Z (setpos (Z.of_nat n) a)), (firstn n l3).
      split; [apply pop_last_some; [clia|assumption]|].
      split; [apply heap_on_firstn; [assumption|clia]|].
      right. replace (S n - 1) with n by clia. reflexivity.
  Qed.

  Theorem h_remove_ok : forall l i a,
      heap_ok l -> nth_error l i = Some a ->
      exists x l', h_remove lt setpos l i = Some (x, l') /\
                   heap_ok l' /\ key x = key a /\
                   Permutation (key x :: map key l') (map key l).
  Proof using Ord key_setpos.
    intros l i a Hl Ha.
    destruct (h_remove_heap l i a Hl Ha) as (x & l' & Hr & Hok & Hx). exists x, l'.
    split; [assumption|]. split; [assumption|]. split.
    - destruct Hx as [-> | ->]; rewrite !key_setpos; reflexivity.
    - exact (h_remove_perm lt setpos key key_setpos l i x l' Hr).
  Qed.

  Corollary h_remove_ok_lt : forall l i,
      heap_ok l -> i < length l ->
      exists a x l', nth_error l i = Some a /\
                     h_remove lt setpos l i = Some (x, l') /\
                     heap_ok l' /\ key x = key a /\
                     Permutation (key x :: map key l') (map key l).
  Proof using Ord key_setpos.
    intros l i Hl Hi.
    destruct (nth_error l i) as [a|] eqn:Ea; [|apply nth_error_None in Ea; clia].
    destruct (h_remove_ok l i a Hl Ea) as (x & l' & H). exists a, x, l'. split; [reflexivity|exact H].
  Qed.

  Lemma h_fix_heap : forall l i, hole_ok l i -> i < length l -> heap_ok (h_fix lt setpos l i).
  Proof using Ord.
    intros l i Hh Hi.
    apply heap_ok_iff. rewrite h_fix_length.
    change (h_fix lt setpos l i) with (fix_on lt setpos (length l) l i (length l)).
    apply fix_on_ok; try clia. apply hole_ok_iff. exact Hh.
  Qed.

  Theorem h_fix_ok : forall l i,
      hole_ok l i -> i < length l ->
      heap_ok (h_fix lt setpos l i) /\ Permutation (map key (h_fix lt setpos l i)) (map key l).
  Proof using Ord key_setpos.
    intros l i Hh Hi. split; [apply h_fix_heap; assumption|apply h_fix_perm; exact key_setpos].
  Qed.

  Lemma hole_ok_upd : forall l i x x',
      heap_ok l -> nth_error l i = Some x -> hole_ok (upd l i x') i.
  Proof using Ord.
    intros l i x x' Hl Hx.
    assert (Hi : i < length l) by (apply nth_error_Some; congruence).
    split.
    - intros c Hc0 Hcn Hci Hpc. rewrite length_upd in Hcn.
      apply (ordered_ext l); [apply nth_upd_other; assumption|apply nth_upd_other; assumption|].
      apply Hl; assumption.
    - intros c Hc0 Hcn Hpc Hi0. rewrite length_upd in Hcn.
      pose proof (parent_lt i Hi0) as Hp.
      assert (Hci : i < c) by (rewrite <- Hpc; apply parent_lt; assumption).
      apply (ordered_ext l); [apply nth_upd_other; clia|apply nth_upd_other; clia|].
      apply (ordered_trans l (parent i) i c); [assumption|apply Hl; clia|].
      rewrite <- Hpc. apply Hl; clia.
  Qed.

  Corollary h_fix_after_update : forall l i x x',
      heap_ok l -> nth_error l i = Some x -> heap_ok (h_fix lt setpos (upd l i x') i).
  Proof using Ord.
    intros l i x x' Hl Hx.
    assert (Hi : i < length l) by (apply nth_error_Some; congruence).
    apply h_fix_heap; [apply (hole_ok_upd l i x x' Hl Hx)|rewrite length_upd; exact Hi].
  Qed.

  (* a valid heap trivially has a hole anywhere *)
  Lemma heap_ok_hole_ok : forall l i, heap_ok l -> i < length l -> hole_ok l i.
  Proof using le_trans.
    intros l i Hl Hi. split.
    - intros c Hc0 Hcn _ _. apply Hl; assumption.
    - intros c Hc0 Hcn Hpc Hi0. pose proof (parent_lt i Hi0) as Hp.
      apply (ordered_trans l (parent i) i c); [assumption|apply Hl; clia|].
      rewrite <- Hpc. apply Hl; clia.
  Qed.
End Heap.

(* ------------------------------------------------------------------------------------------ *)
(* Recorded positions.  Kept apart from Section Heap: [pos_setpos] is unsatisfiable for the
   identity [setpos], so nothing above may depend on it. *)
Section Positions.
  Context {A : Type} (lt : A -> A -> bool) (setpos : Z -> A -> A) (pos : A -> Z).
  Hypothesis pos_setpos : forall p x, pos (setpos p x) = p.

  Definition positions_ok (l : list A) : Prop :=
    forall i x, nth_error l i = Some x -> pos x = Z.of_nat i.

  Lemma positions_ok_nil : positions_ok [].
  Proof. intros i x Hx. destruct i; discriminate. Qed.

  Lemma swap_pos : forall l i j, positions_ok l -> positions_ok (swap setpos l i j).
  Proof using pos_setpos.
    intros l i j Hl.
    destruct (Nat.lt_ge_cases i (length l)) as [Hi|Hi]; [|rewrite swap_oob by auto; exact Hl].
    destruct (Nat.lt_ge_cases j (length l)) as [Hj|Hj]; [|rewrite swap_oob by auto; exact Hl].
    intros k x Hx. rewrite nth_swap_plain in Hx by assumption.
    destruct (Nat.eqb_spec k j) as [ekj|nkj].
    - subst k. destruct (nth_error l i) as [y|]; [|discriminate].
      cbn [option_map] in Hx. injection Hx as <-. apply pos_setpos.
    - destruct (Nat.eqb_spec k i) as [eki|nki].
      + subst k. destruct (nth_error l j) as [y|]; [|discriminate].
        cbn [option_map] in Hx. injection Hx as <-. apply pos_setpos.
      + exact (Hl k x Hx).
  Qed.

  Lemma up_pos : forall f l j, positions_ok l -> positions_ok (up lt setpos f l j).
  Proof using pos_setpos.
    induction f as [|f IH]; intros l j Hl; [exact Hl|].
    rewrite up_S. destruct ((parent j =? j) || negb (less lt l j (parent j))); [exact Hl|].
    apply IH, swap_pos, Hl.
  Qed.

  Lemma down_pos : forall f l i n, positions_ok l -> positions_ok (fst (down lt setpos f l i n)).
  Proof using pos_setpos.
    induction f as [|f IH]; intros l i n Hl; [exact Hl|].
    rewrite down_S. destruct (n <=? 2 * i + 1); [exact Hl|].
    destruct (negb (less lt l (minchild lt l i n) i)); [exact Hl|].
    apply IH, swap_pos, Hl.
  Qed.

  Lemma init_loop_pos : forall k l n, positions_ok l -> positions_ok (init_loop lt setpos k l n).
  Proof using pos_setpos.
    induction k as [|k IH]; intros l n Hl; [exact Hl|].
    rewrite init_loop_S. apply IH, down_pos, Hl.
  Qed.

  Lemma fix_on_pos : forall f l i n, positions_ok l -> positions_ok (fix_on lt setpos f l i n).
  Proof using pos_setpos.
    intros f l i n Hl. unfold fix_on.
    pose proof (down_pos f l i n Hl) as Hd.
    destruct (down lt setpos f l i n) as [l' i']. cbn [fst] in Hd.
    destruct (i <? i'); [exact Hd|]. apply up_pos, Hd.
  Qed.

  Lemma firstn_pos : forall l n, positions_ok l -> positions_ok (firstn n l).
  Proof.
    intros l n Hl k x Hx.
    destruct (Nat.lt_ge_cases k n) as [Hk|Hk].
    - rewrite nth_firstn in Hx by assumption. exact (Hl k x Hx).
    - exfalso. assert (Hnone : nth_error (firstn n l) k = None).
      { apply nth_error_None. pose proof (firstn_le_length n l) as Hle. clia. }
      congruence.
  Qed.

  Lemma pop_last_pos : forall l x l',
      positions_ok l -> pop_last setpos l = Some (x, l') -> positions_ok l' /\ pos x = (-1)%Z.
  Proof using pos_setpos.
    intros l x l' Hl H. apply pop_last_spec in H.
    destruct H as (n & y & _ & _ & -> & -> & _).
    split; [apply firstn_pos, Hl|apply pos_setpos].
  Qed.

  Theorem h_init_pos : forall l, positions_ok l -> positions_ok (h_init lt setpos l).
  Proof using pos_setpos. intros l Hl. unfold h_init. apply init_loop_pos, Hl. Qed.

  Theorem h_push_pos : forall l x, positions_ok l -> positions_ok (h_push lt setpos l x).
  Proof using pos_setpos.
    intros l x Hl. unfold h_push. apply up_pos.
    intros k y Hy.
    destruct (Nat.lt_ge_cases k (length l)) as [Hk|Hk].
    - rewrite nth_error_app1 in Hy by assumption. exact (Hl k y Hy).
    - rewrite nth_error_app2 in Hy by assumption.
      destruct (k - length l) as [|d] eqn:Ed.
      + cbn in Hy. injection Hy as <-. rewrite pos_setpos. f_equal. clia.
      + destruct d; discriminate.
  Qed.

  Theorem h_pop_pos : forall l x l',
      positions_ok l -> h_pop lt setpos l = Some (x, l') -> positions_ok l' /\ pos x = (-1)%Z.
  Proof using pos_setpos.
    intros l x l' Hl H. unfold h_pop in H.
    destruct (length l) as [|n]; [discriminate|].
    apply pop_last_pos in H; [exact H|]. apply down_pos, swap_pos, Hl.
  Qed.

  Theorem h_fix_pos : forall l i, positions_ok l -> positions_ok (h_fix lt setpos l i).
  Proof using pos_setpos. intros l i Hl. apply (fix_on_pos (length l) l i (length l) Hl). Qed.

  Theorem h_remove_pos : forall l i x l',
      positions_ok l -> h_remove lt setpos l i = Some (x, l') -> positions_ok l' /\ pos x = (-1)%Z.
  Proof using pos_setpos.
    intros l i x l' Hl H. rewrite h_remove_eq in H.
    destruct (length l) as [|n]; [discriminate|].
    destruct (n <? i); [discriminate|].
    destruct (n =? i).
    - exact (pop_last_pos l x l' Hl H).
    - apply pop_last_pos in H; [exact H|]. apply fix_on_pos, swap_pos, Hl.
  Qed.
End Positions.

(* ------------------------------------------------------------------------------------------ *)
(* A closed instance: elements are (key, position) pairs ordered by key.  Shows that the
   hypotheses of the sections above are jointly satisfiable and the theorems are not vacuous. *)
Module GoHeapInstance.
  Definition zz_lt (x y : Z * Z) : bool := Z.ltb (fst x) (fst y).
  Definition zz_setpos (p : Z) (x : Z * Z) : Z * Z := (fst x, p).
  Definition zz_key (x : Z * Z) : Z := fst x.
  Definition zz_pos (x : Z * Z) : Z := snd x.

  Lemma zz_lt_setpos_l : forall p x y, zz_lt (zz_setpos p x) y = zz_lt x y.
  Proof. reflexivity. Qed.
  Lemma zz_lt_setpos_r : forall p x y, zz_lt x (zz_setpos p y) = zz_lt x y.
  Proof. reflexivity. Qed.
  Lemma zz_le_total : forall x y, le zz_lt x y = true \/ le zz_lt y x = true.
  Proof.
    intros x y. unfold le, zz_lt. rewrite !negb_true_iff, !Z.ltb_ge. lia.
  Qed.
  Lemma zz_le_trans : forall x y z,
      le zz_lt x y = true -> le zz_lt y z = true -> le zz_lt x z = true.
  Proof.
    intros x y z. unfold le, zz_lt. rewrite !negb_true_iff, !Z.ltb_ge. lia.
  Qed.
  Lemma zz_key_setpos : forall p x, zz_key (zz_setpos p x) = zz_key x.
  Proof. reflexivity. Qed.
  Lemma zz_pos_setpos : forall p x, zz_pos (zz_setpos p x) = p.
  Proof. reflexivity. Qed.

  Notation ok := (heap_ok zz_lt).
  Notation posok := (positions_ok zz_pos).

  Definition zz_h_init_ok : forall l, ok (h_init zz_lt zz_setpos l) :=
    h_init_ok zz_lt zz_setpos zz_lt_setpos_l zz_lt_setpos_r zz_le_total zz_le_trans.
  Definition zz_h_init_perm :
    forall l, Permutation (map zz_key (h_init zz_lt zz_setpos l)) (map zz_key l) :=
    h_init_perm zz_lt zz_setpos zz_key zz_key_setpos.
  Definition zz_h_push_ok : forall l x, ok l -> ok (h_push zz_lt zz_setpos l x) :=
    h_push_ok zz_lt zz_setpos zz_lt_setpos_l zz_lt_setpos_r zz_le_total zz_le_trans.
  Definition zz_h_push_perm :
    forall l x, Permutation (map zz_key (h_push zz_lt zz_setpos l x)) (zz_key x :: map zz_key l) :=
    h_push_perm zz_lt zz_setpos zz_key zz_key_setpos.
  Definition zz_h_pop_ok :
    forall l x l', ok l -> h_pop zz_lt zz_setpos l = Some (x, l') ->
      ok l' /\ Permutation (zz_key x :: map zz_key l') (map zz_key l) /\
      (forall y, In y l -> le zz_lt x y = true) :=
    h_pop_ok zz_lt zz_setpos zz_key zz_lt_setpos_l zz_lt_setpos_r zz_le_total zz_le_trans
             zz_key_setpos.
  Definition zz_h_remove_ok :
    forall l i a, ok l -> nth_error l i = Some a ->
      exists x l', h_remove zz_lt zz_setpos l i = Some (x, l') /\ ok l' /\
                   zz_key x = zz_key a /\ Permutation (zz_key x :: map zz_key l') (map zz_key l) :=
    h_remove_ok zz_lt zz_setpos zz_key zz_lt_setpos_l zz_lt_setpos_r zz_le_total zz_le_trans
                zz_key_setpos.
  Definition zz_h_fix_ok :
    forall l i, hole_ok zz_lt l i -> i < length l ->
      ok (h_fix zz_lt zz_setpos l i) /\
      Permutation (map zz_key (h_fix zz_lt zz_setpos l i)) (map zz_key l) :=
    h_fix_ok zz_lt zz_setpos zz_key zz_lt_setpos_l zz_lt_setpos_r zz_le_total zz_le_trans
             zz_key_setpos.
  Definition zz_h_fix_after_update :
    forall l i x x', ok l -> nth_error l i = Some x -> ok (h_fix zz_lt zz_setpos (upd l i x') i) :=
    h_fix_after_update zz_lt zz_setpos zz_lt_setpos_l zz_lt_setpos_r zz_le_total zz_le_trans.
  Definition zz_root_min :
    forall l r, ok l -> nth_error l 0 = Some r ->
      forall i x, nth_error l i = Some x -> le zz_lt r x = true :=
    root_min zz_lt zz_le_total zz_le_trans.
  Definition zz_h_push_pos : forall l x, posok l -> posok (h_push zz_lt zz_setpos l x) :=
    h_push_pos zz_lt zz_setpos zz_pos zz_pos_setpos.
  Definition zz_h_pop_pos :
    forall l x l', posok l -> h_pop zz_lt zz_setpos l = Some (x, l') ->
      posok l' /\ zz_pos x = (-1)%Z :=
    h_pop_pos zz_lt zz_setpos zz_pos zz_pos_setpos.
  Definition zz_h_remove_pos :
    forall l i x l', posok l -> h_remove zz_lt zz_setpos l i = Some (x, l') ->
      posok l' /\ zz_pos x = (-1)%Z :=
    h_remove_pos zz_lt zz_setpos zz_pos zz_pos_setpos.
  Definition zz_h_fix_pos : forall l i, posok l -> posok (h_fix zz_lt zz_setpos l i) :=
    h_fix_pos zz_lt zz_setpos zz_pos zz_pos_setpos.
  Definition zz_h_init_pos : forall l, posok l -> posok (h_init zz_lt zz_setpos l) :=
    h_init_pos zz_lt zz_setpos zz_pos zz_pos_setpos.

  (* the heap built by pushing 5, 3, 8, 1, 4 (new elements carry a junk position 99) *)
  Definition push_all (ks : list Z) : list (Z * Z) :=
    fold_left (fun l k => h_push zz_lt zz_setpos l (k, 99%Z)) ks [].
  Definition h5 : list (Z * Z) := push_all [5; 3; 8; 1; 4]%Z.

  Example h5_value : h5 = [(1, 0); (3, 1); (8, 2); (5, 3); (4, 4)]%Z.
  Proof. vm_compute. reflexivity. Qed.

  Example h5_pop :
    h_pop zz_lt zz_setpos h5 = Some ((1, -1)%Z, [(3, 0); (4, 1); (8, 2); (5, 3)]%Z).
  Proof. vm_compute. reflexivity. Qed.

  Example h5_remove_1 :
    h_remove zz_lt zz_setpos h5 1 = Some ((3, -1)%Z, [(1, 0); (4, 1); (8, 2); (5, 3)]%Z).
  Proof. vm_compute. reflexivity. Qed.

  Example h5_fix_0 :
    h_fix zz_lt zz_setpos (upd h5 0 (9, 0)%Z) 0 = [(3, 0); (4, 1); (8, 2); (5, 3); (9, 4)]%Z.
  Proof. vm_compute. reflexivity. Qed.

  Example init_6 :
    h_init zz_lt zz_setpos [(5, 0); (3, 1); (8, 2); (1, 3); (4, 4); (0, 5)]%Z
    = [(0, 0); (1, 1); (5, 2); (3, 3); (4, 4); (8, 5)]%Z.
  Proof. vm_compute. reflexivity. Qed.

  (* the theorems apply: h5 is a heap with correct positions, by five uses of the Push theorems *)
  Example h5_ok : ok h5 /\ posok h5.
  Proof.
    unfold h5, push_all. cbn [fold_left]. split.
    - repeat apply zz_h_push_ok. apply heap_ok_nil.
    - repeat apply zz_h_push_pos. apply positions_ok_nil.
  Qed.

  (* ... hence so is what Pop leaves, and the popped key is minimal *)
  Example h5_pop_ok :
    ok [(3, 0); (4, 1); (8, 2); (5, 3)]%Z /\ posok [(3, 0); (4, 1); (8, 2); (5, 3)]%Z.
  Proof.
    destruct h5_ok as [Hok Hpos]. split.
    - exact (proj1 (zz_h_pop_ok _ _ _ Hok h5_pop)).
    - exact (proj1 (zz_h_pop_pos _ _ _ Hpos h5_pop)).
  Qed.
End GoHeapInstance.
