(* Small list lemmas missing from the Coq 8.16 standard library. *)
From Coq Require Import List Arith Lia.
Import ListNotations.

Lemma skipn_skipn {A} (n m : nat) (l : list A) : skipn n (skipn m l) = skipn (m + n) l.
Proof.
  revert l; induction m as [|m IH]; intros l; [reflexivity|].
  destruct l as [|x t]; cbn [skipn plus]; [destruct n; reflexivity|apply IH].
Qed.

Lemma filter_length_le {A} (f : A -> bool) (l : list A) : length (filter f l) <= length l.
Proof. induction l as [|x t IH]; simpl; [lia|]. destruct (f x); simpl; lia. Qed.

Lemma NoDup_app_intro {A} (l1 l2 : list A) :
  NoDup l1 -> NoDup l2 -> (forall x, In x l1 -> In x l2 -> False) -> NoDup (l1 ++ l2).
Proof.
  induction l1 as [|a t IH]; intros H1 H2 Hd; simpl; [exact H2|].
  inversion H1 as [|? ? Hn Ht]; subst. constructor.
  - rewrite in_app_iff. intros [H|H]; [exact (Hn H)|]. apply (Hd a); [left; reflexivity|exact H].
  - apply IH; auto. intros x Hx1 Hx2. apply (Hd x); [right; exact Hx1|exact Hx2].
Qed.

Lemma nth_error_skipn {A} (d i : nat) (l : list A) : nth_error (skipn d l) i = nth_error l (d + i).
Proof.
  revert l; induction d as [|d IH]; intros l; [reflexivity|].
  destruct l as [|x t]; [destruct i; reflexivity|]. cbn [skipn plus nth_error]. apply IH.
Qed.

Lemma NoDup_app_remove_l {A} (l1 l2 : list A) : NoDup (l1 ++ l2) -> NoDup l2.
Proof. induction l1 as [|a t IH]; simpl; [auto|]. intros H. inversion H; auto. Qed.

Lemma NoDup_app_remove_r {A} (l1 l2 : list A) : NoDup (l1 ++ l2) -> NoDup l1.
Proof.
  induction l1 as [|a t IH]; simpl; intros H; [constructor|].
  inversion H as [|? ? Hn Ht]; subst. constructor; [|auto].
  intros Hin. apply Hn. apply in_or_app. left. exact Hin.
Qed.

Lemma firstn_seq (d lo n : nat) : firstn d (seq lo n) = seq lo (Nat.min d n).
Proof.
  revert lo n; induction d as [|d IH]; intros lo n; [reflexivity|].
  destruct n as [|n]; [reflexivity|]. cbn [seq firstn Nat.min]. f_equal. apply IH.
Qed.
