(* Small list lemmas missing from the Coq 8.16 standard library. *)
From Coq Require Import List Arith Lia.
Import ListNotations.

Lemma skipn_skipn {A} (n m : nat) (l : list A) : skipn n (skipn m l) = skipn (m + n) l.
Proof.
  revert l; induction m as [|m IH]; intros l; [reflexivity|].
  destruct l as [|x t]; cbn [skipn plus]; [destruct n; reflexivity|apply IH].
Qed.

Lemma filter_length_le {A} (f : A -> bool) (l : list A) : length (filter f l) <= length l.
Proof. induction l as [|x t IH]; simpl; [lia|]. destruct (f x); simpl; lia. Qed.

Lemma NoDup_app_intro {A} (l1 l2 : list A) :
  NoDup l1 -> NoDup l2 -> (forall x, In x l1 -> In x l2 -> False) -> NoDup (l1 ++ l2).
Proof.
  induction l1 as [|a t IH]; intros H1 H2 Hd; simpl; [exact H2|].
  inversion H1 as [|? ? Hn Ht]; subst. constructor.
  - rewrite in_app_iff. intros [H|H]; [exact (Hn H)|]. apply (Hd a); [left; reflexivity|exact H].
  - apply IH; auto. intros x Hx1 Hx2. apply (Hd x); [right; exact Hx1|exact Hx2].
Qed.
