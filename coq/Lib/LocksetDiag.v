(* Lib/LocksetDiag.v — diagnosis of a lock skeleton (Lib/Conc.v, Part 3): WHICH pairs of methods conflict on
   WHICH location when [lockset_check] is false.

   [offending_all sk] lists (writer method, other method, location) for every pair of sections of the skeleton
   and every pair of accesses to the same location of which the first is a write that is NOT protected (no
   lock held in write mode by the writer's section and in any mode by the other section); a pair involving an
   [Unknown] section is listed with location "?".  [offending_complete]: if the list is empty the skeleton
   passes [lockset_check] (and is therefore race free by [lockset_sound]) — so the list is a complete account of
   what stands between a skeleton and race freedom. *)
From Coq Require Import List Bool String.
From TC.Lib Require Import Conc.
Import ListNotations.
Local Open Scope string_scope.

Definition named_sections (sk : skeleton) : list (string * section) :=
  flat_map (fun ms => map (pair (fst ms)) (snd ms)) sk.

Definition triple := (string * string * string)%type.

Definition bad_pairs (x y : string * section) : list triple :=
  match snd x, snd y with
  | Sec h1 a1, Sec h2 a2 =>
      flat_map (fun p => flat_map (fun q =>
        if String.eqb (loc p) (loc q) && wr p && negb (protected h1 h2)
        then [(fst x, fst y, loc p)] else []) a2) a1
  | _, _ => [(fst x, fst y, "?")]
  end.

Definition offending_all (sk : skeleton) : list triple :=
  let ns := named_sections sk in flat_map (fun x => flat_map (bad_pairs x) ns) ns.

Definition triple_eqb (a b : triple) : bool :=
  String.eqb (fst (fst a)) (fst (fst b)) && String.eqb (snd (fst a)) (snd (fst b)) && String.eqb (snd a) (snd b).

Fixpoint dedup (l : list triple) : list triple :=
  match l with
  | [] => []
  | x :: t => if existsb (triple_eqb x) t then dedup t else x :: dedup t
  end.

(* the display form: every offending (writer, other, location) once *)
Definition offending (sk : skeleton) : list triple := dedup (offending_all sk).

(* skeleton without some methods *)
Definition without (names : list string) (sk : skeleton) : skeleton :=
  filter (fun ms => negb (existsb (String.eqb (fst ms)) names)) sk.

Lemma flat_map_nil {A B} (f : A -> list B) l : flat_map f l = [] -> forall x, In x l -> f x = [].
Proof.
  induction l as [|a t IH]; simpl; [contradiction|]. intros H x [<-|Hx].
  - now apply app_eq_nil in H.
  - apply IH; [now apply app_eq_nil in H|exact Hx].
Qed.

Lemma all_sections_named sk : all_sections sk = map snd (named_sections sk).
Proof.
  unfold all_sections, named_sections. induction sk as [|[n secs] t IH]; simpl; [reflexivity|].
  rewrite map_app, <- IH. f_equal. rewrite map_map. simpl. now rewrite map_id.
Qed.

Lemma bad_pairs_nil x y : bad_pairs x y = [] -> bad_pairs y x = [] -> sec_ok (snd x) (snd y) = true.
Proof.
  unfold bad_pairs. destruct (snd x) as [h1 a1|], (snd y) as [h2 a2|]; try discriminate.
  intros H1 H2. simpl. apply forallb_forall. intros p Hp. apply forallb_forall. intros q Hq.
  pose proof (flat_map_nil _ _ (flat_map_nil _ _ H1 p Hp) q Hq) as E1.
  pose proof (flat_map_nil _ _ (flat_map_nil _ _ H2 q Hq) p Hp) as E2.
  cbv beta in E1, E2. unfold acc_ok. rewrite (String.eqb_sym (loc q) (loc p)) in E2.
  destruct (String.eqb (loc p) (loc q)); [|reflexivity]. simpl in E1, E2.
  destruct (wr p); simpl in E1; [destruct (protected h1 h2); [|discriminate]|];
    (destruct (wr q); simpl in E2; [destruct (protected h2 h1); [|discriminate]|]); reflexivity.
Qed.

Theorem offending_complete sk : offending_all sk = [] -> lockset_check sk = true.
Proof.
  intros H. unfold lockset_check. rewrite all_sections_named.
  apply forallb_forall. intros s1 H1. apply forallb_forall. intros s2 H2.
  apply in_map_iff in H1 as (x & <- & Hx). apply in_map_iff in H2 as (y & <- & Hy).
  unfold offending_all in H.
  apply bad_pairs_nil.
  - exact (flat_map_nil _ _ (flat_map_nil _ _ H x Hx) y Hy).
  - exact (flat_map_nil _ _ (flat_map_nil _ _ H y Hy) x Hx).
Qed.

Lemma dedup_In t l : In t (dedup l) -> In t l.
Proof.
  induction l as [|x r IH]; simpl; [auto|]. destruct (existsb (triple_eqb x) r); simpl; [auto|]. intros [->|H]; auto.
Qed.

(* every offending pair involves one of the methods [names] (as writer or as the other party) *)
Definition all_involve (names : list string) (l : list triple) : bool :=
  forallb (fun t => existsb (String.eqb (fst (fst t))) names || existsb (String.eqb (snd (fst t))) names) l.

Lemma all_involve_spec names l : all_involve names l = true ->
  forall w o f, In (w, o, f) l -> In w names \/ In o names.
Proof.
  unfold all_involve. rewrite forallb_forall. intros H w o f Hin. specialize (H _ Hin). simpl in H.
  apply orb_prop in H as [H|H]; apply existsb_exists in H as (n & Hn & He); apply String.eqb_eq in He; subst; auto.
Qed.

(* every unprotected WRITER is one of the methods [names] *)
Definition all_writers (names : list string) (l : list triple) : bool :=
  forallb (fun t => existsb (String.eqb (fst (fst t))) names) l.

Lemma all_writers_spec names l : all_writers names l = true -> forall w o f, In (w, o, f) l -> In w names.
Proof.
  unfold all_writers. rewrite forallb_forall. intros H w o f Hin. specialize (H _ Hin). cbn [fst] in H.
  apply existsb_exists in H as (n & Hn & He). apply String.eqb_eq in He. now subst.
Qed.

(* writer, other party and location of every offending triple are among the given lists *)
Definition all_within (ws os fs : list string) (l : list triple) : bool :=
  forallb (fun t => existsb (String.eqb (fst (fst t))) ws && existsb (String.eqb (snd (fst t))) os
                    && existsb (String.eqb (snd t)) fs) l.

Lemma all_within_spec ws os fs l : all_within ws os fs l = true ->
  forall w o f, In (w, o, f) l -> In w ws /\ In o os /\ In f fs.
Proof.
  unfold all_within. rewrite forallb_forall. intros H w o f Hin. specialize (H _ Hin). cbn [fst snd] in H.
  apply andb_prop in H as [H H3]. apply andb_prop in H as [H1 H2].
  apply existsb_exists in H1 as (n1 & I1 & E1). apply existsb_exists in H2 as (n2 & I2 & E2).
  apply existsb_exists in H3 as (n3 & I3 & E3).
  apply String.eqb_eq in E1, E2, E3. subst. auto.
Qed.

(* non-vacuity on the examples of Lib/Conc.v *)
Example diag_unlocked : offending ex_unlocked = [("W", "W", "x")]. Proof. reflexivity. Qed.
Example diag_locked : offending ex_locked = []. Proof. reflexivity. Qed.
Example diag_rlock_write : offending ex_rlock_write = [("W", "W", "x")]. Proof. reflexivity. Qed.
