(* Lib/LocksetMore.v — two further decidable obligations on lock skeletons (Lib/Conc.v, Part 3), with their meaning:

   [no_reacquire sk]   no section holds the same lock twice, i.e. on no path of any method is a lock acquired while it
                       is already held (the translator lists such a lock twice when asked to).  For sync.RWMutex this is
                       the static form of "no recursive read-locking": RLock under RLock deadlocks as soon as a writer
                       queues in between; Lock under (R)Lock deadlocks at once.  Also: no [Unknown] section.
   [guarded_by l locs sk]  every access to one of the locations [locs] happens with lock [l] held, and every WRITE with
                       [l] held in write mode. *)
From Coq Require Import List Bool String.
From TC.Lib Require Import Conc.
Import ListNotations.
Local Open Scope string_scope.

Fixpoint nodupb (l : list string) : bool :=
  match l with
  | [] => true
  | x :: t => negb (existsb (String.eqb x) t) && nodupb t
  end.

Lemma nodupb_NoDup l : nodupb l = true -> NoDup l.
Proof.
  induction l as [|x t IH]; simpl; [constructor|]. intros H. apply andb_prop in H as [Hx Ht].
  constructor; [|auto]. intros Hin. apply negb_true_iff in Hx.
  assert (existsb (String.eqb x) t = true) by (apply existsb_exists; exists x; split; [exact Hin|apply String.eqb_refl]).
  congruence.
Qed.

Definition no_reacquire (sk : skeleton) : bool :=
  forallb (fun s => match s with Sec h _ => nodupb (map fst h) | Unknown => false end) (all_sections sk).

Lemma no_reacquire_spec sk : no_reacquire sk = true ->
  forall name secs s, In (name, secs) sk -> In s secs -> exists h accs, s = Sec h accs /\ NoDup (map fst h).
Proof.
  unfold no_reacquire. rewrite forallb_forall. intros H name secs s Hm Hs.
  assert (Hin : In s (all_sections sk)) by (unfold all_sections; apply in_flat_map; exists (name, secs); auto).
  specialize (H _ Hin). destruct s as [h accs|]; [|discriminate]. exists h, accs. split; [reflexivity|now apply nodupb_NoDup].
Qed.

Definition guarded_by (l : string) (locs : list string) (sk : skeleton) : bool :=
  forallb (fun s => match s with
                    | Sec h accs =>
                        forallb (fun a => if existsb (String.eqb (loc a)) locs
                                          then (if wr a then holds_w l h else holds l h) else true) accs
                    | Unknown => false
                    end) (all_sections sk).

Lemma guarded_by_spec l locs sk : guarded_by l locs sk = true ->
  forall name secs h accs a, In (name, secs) sk -> In (Sec h accs) secs -> In a accs -> In (loc a) locs ->
    (wr a = true -> In (l, Wr) h) /\ (exists md, In (l, md) h).
Proof.
  unfold guarded_by. rewrite forallb_forall. intros H name secs h accs a Hm Hs Ha Hl.
  assert (Hin : In (Sec h accs) (all_sections sk)) by (unfold all_sections; apply in_flat_map; exists (name, secs); auto).
  specialize (H _ Hin). simpl in H. rewrite forallb_forall in H. specialize (H _ Ha).
  assert (E : existsb (String.eqb (loc a)) locs = true)
    by (apply existsb_exists; exists (loc a); split; [exact Hl|apply String.eqb_refl]).
  rewrite E in H. destruct (wr a).
  - split; [intros _; now apply holds_w_In|]. exists Wr. now apply holds_w_In.
  - split; [discriminate|]. now apply holds_In.
Qed.

(* some section of the skeleton contains such an access under such a lock mode (non-vacuity of the two above) *)
Definition has_access (l : string) (md : mode) (lc : string) (w : bool) (sk : skeleton) : bool :=
  existsb (fun s => match s with
                    | Sec h accs => existsb (fun lm => String.eqb (fst lm) l && mode_eqb (snd lm) md) h
                                    && existsb (fun a => String.eqb (loc a) lc && Bool.eqb (wr a) w) accs
                    | Unknown => false
                    end) (all_sections sk).

Example no_reacquire_ex1 : no_reacquire ex_locked = true. Proof. reflexivity. Qed.
Example no_reacquire_ex2 :
  no_reacquire [("M", [Sec [("mu", Rd); ("mu", Rd)] [{| loc := "x"; wr := false |}]])] = false.
Proof. reflexivity. Qed.
Example guarded_by_ex1 : guarded_by "mu" ["x"] ex_locked = true. Proof. reflexivity. Qed.
Example guarded_by_ex2 : guarded_by "mu" ["x"] ex_rlock_write = false. Proof. reflexivity. Qed.
