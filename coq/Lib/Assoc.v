(* Association lists as Go maps: at most one binding per key (maintained by [upsert]). *)
From Coq Require Import List Bool Arith Lia.
Import ListNotations.

Section Assoc.
  Context {K A : Type}.
  Variable keqb : K -> K -> bool.

  Fixpoint lookup (k : K) (m : list (K * A)) : option A :=
    match m with
    | [] => None
    | (k', a) :: t => if keqb k k' then Some a else lookup k t
    end.

  (* m[k] = a : replace in place if present, else add *)
  Fixpoint upsert (k : K) (a : A) (m : list (K * A)) : list (K * A) :=
    match m with
    | [] => [(k, a)]
    | (k', a') :: t => if keqb k k' then (k', a) :: t else (k', a') :: upsert k a t
    end.

  (* delete(m, k) *)
  Fixpoint remove (k : K) (m : list (K * A)) : list (K * A) :=
    match m with
    | [] => []
    | (k', a') :: t => if keqb k k' then t else (k', a') :: remove k t
    end.

  Definition has (k : K) (m : list (K * A)) : bool :=
    match lookup k m with Some _ => true | None => false end.

  Definition keys (m : list (K * A)) : list K := map fst m.
End Assoc.
