From Coq Require Import List Bool Arith Lia.
From TC.Lib Require Import ListAux Assoc.
Import ListNotations.

Section AssocProofs.
  Context {K A : Type}.
  Variable keqb : K -> K -> bool.
  Hypothesis keqb_spec : forall x y, reflect (x = y) (keqb x y).

  Notation lookup := (lookup keqb).
  Notation upsert := (upsert keqb).
  Notation remove := (remove keqb).
  Notation has := (has keqb).

  Lemma keqb_refl k : keqb k k = true.
  Proof. destruct (keqb_spec k k); congruence. Qed.

  Lemma lookup_In k (m : list (K * A)) a : lookup k m = Some a -> In (k, a) m.
  Proof.
    induction m as [|[k' a'] t IH]; simpl; [discriminate|].
    destruct (keqb_spec k k') as [->|Hne]; [intros [= ->]; auto|auto].
  Qed.

  Lemma lookup_In_keys k (m : list (K * A)) a : lookup k m = Some a -> In k (keys m).
  Proof. intros H. apply lookup_In in H. apply (in_map fst) in H. exact H. Qed.

  Lemma lookup_None k (m : list (K * A)) : lookup k m = None <-> ~ In k (keys m).
  Proof.
    induction m as [|[k' a'] t IH]; simpl; [tauto|].
    destruct (keqb_spec k k') as [->|Hne]; [split; [discriminate|tauto]|].
    rewrite IH. split; [intros H [E|E]; [congruence|tauto]|tauto].
  Qed.

  Lemma has_In k (m : list (K * A)) : has k m = true <-> In k (keys m).
  Proof.
    unfold Assoc.has. destruct (lookup k m) as [a|] eqn:E.
    - split; [intros _; eapply lookup_In_keys; eauto|reflexivity].
    - apply lookup_None in E. split; [discriminate|tauto].
  Qed.

  Lemma has_false k (m : list (K * A)) : has k m = false <-> ~ In k (keys m).
  Proof. rewrite <- has_In. destruct (has k m); split; congruence. Qed.

  Lemma In_lookup k a (m : list (K * A)) : NoDup (keys m) -> In (k, a) m -> lookup k m = Some a.
  Proof.
    induction m as [|[k' a'] t IH]; simpl; intros Hnd Hin; [tauto|].
    inversion Hnd as [|? ? Hn Hnd']; subst.
    destruct Hin as [[= -> ->]|Hin]; [rewrite keqb_refl; reflexivity|].
    destruct (keqb_spec k k') as [->|Hne]; [|auto].
    exfalso. apply Hn. apply (in_map fst) in Hin. exact Hin.
  Qed.

  Lemma lookup_upsert_eq k a (m : list (K * A)) : lookup k (upsert k a m) = Some a.
  Proof.
    induction m as [|[k' a'] t IH]; simpl; [rewrite keqb_refl; reflexivity|].
    destruct (keqb_spec k k') as [->|Hne]; simpl.
    - rewrite keqb_refl. reflexivity.
    - destruct (keqb_spec k k'); [congruence|exact IH].
  Qed.

  Lemma lookup_upsert_neq k k' a (m : list (K * A)) : k' <> k -> lookup k' (upsert k a m) = lookup k' m.
  Proof.
    intros Hne. induction m as [|[k2 a2] t IH]; simpl.
    - destruct (keqb_spec k' k); [congruence|reflexivity].
    - destruct (keqb_spec k k2) as [->|Hne2]; simpl.
      + destruct (keqb_spec k' k2); [congruence|reflexivity].
      + destruct (keqb_spec k' k2); [reflexivity|exact IH].
  Qed.

  Lemma keys_upsert k a (m : list (K * A)) :
    keys (upsert k a m) = if has k m then keys m else keys m ++ [k].
  Proof.
    induction m as [|[k' a'] t IH]; simpl; [reflexivity|].
    unfold Assoc.has in *. simpl. destruct (keqb_spec k k') as [->|Hne]; simpl; [reflexivity|].
    unfold keys in *. rewrite IH. destruct (lookup k t); reflexivity.
  Qed.

  Lemma keys_upsert_in k a (m : list (K * A)) k' :
    In k' (keys (upsert k a m)) <-> k' = k \/ In k' (keys m).
  Proof.
    rewrite keys_upsert. destruct (has k m) eqn:E.
    - apply has_In in E. split; [tauto|]. intros [->|H]; auto.
    - rewrite in_app_iff. simpl. split; [intros [H|[H|[]]]; auto|intros [H|H]; auto].
  Qed.

  Lemma NoDup_upsert k a (m : list (K * A)) : NoDup (keys m) -> NoDup (keys (upsert k a m)).
  Proof.
    intros Hnd. rewrite keys_upsert. destruct (has k m) eqn:E; [exact Hnd|].
    apply has_false in E. apply NoDup_app_intro; auto.
    - constructor; [intros []|constructor].
    - intros x Hx [<-|[]]. tauto.
  Qed.

  Lemma length_upsert k a (m : list (K * A)) :
    length (upsert k a m) = if has k m then length m else S (length m).
  Proof.
    pose proof (f_equal (@length K) (keys_upsert k a m)) as H.
    unfold keys in H. rewrite map_length in H. rewrite H.
    destruct (has k m); rewrite ?app_length, map_length; simpl; lia.
  Qed.

  Lemma lookup_remove_eq k (m : list (K * A)) : NoDup (keys m) -> lookup k (remove k m) = None.
  Proof.
    induction m as [|[k' a'] t IH]; simpl; intros Hnd; [reflexivity|].
    inversion Hnd as [|? ? Hn Hnd']; subst.
    destruct (keqb_spec k k') as [->|Hne]; simpl.
    - apply lookup_None. exact Hn.
    - destruct (keqb_spec k k'); [congruence|auto].
  Qed.

  Lemma lookup_remove_neq k k' (m : list (K * A)) : k' <> k -> lookup k' (remove k m) = lookup k' m.
  Proof.
    intros Hne. induction m as [|[k2 a2] t IH]; simpl; [reflexivity|].
    destruct (keqb_spec k k2) as [->|Hne2]; simpl.
    - destruct (keqb_spec k' k2); [congruence|reflexivity].
    - destruct (keqb_spec k' k2); [reflexivity|exact IH].
  Qed.

  Lemma keys_remove_in k (m : list (K * A)) k' :
    NoDup (keys m) -> (In k' (keys (remove k m)) <-> k' <> k /\ In k' (keys m)).
  Proof.
    intros Hnd. destruct (keqb_spec k' k) as [->|Hne].
    - split; [|tauto]. intros Hin. exfalso.
      pose proof (lookup_remove_eq k m Hnd) as H. apply lookup_None in H. auto.
    - rewrite <- !has_In. unfold Assoc.has. rewrite lookup_remove_neq by exact Hne. tauto.
  Qed.

  Lemma remove_sub k (m : list (K * A)) x : In x (remove k m) -> In x m.
  Proof.
    induction m as [|[k' a'] t IH]; simpl; [tauto|].
    destruct (keqb k k'); simpl; [auto|]. intros [H|H]; auto.
  Qed.

  Lemma NoDup_remove k (m : list (K * A)) : NoDup (keys m) -> NoDup (keys (remove k m)).
  Proof.
    induction m as [|[k' a'] t IH]; simpl; intros Hnd; [constructor|].
    inversion Hnd as [|? ? Hn Hnd']; subst.
    destruct (keqb k k'); simpl; [exact Hnd'|]. constructor; [|auto].
    intros Hin. apply Hn. apply in_map_iff in Hin. destruct Hin as ([k2 a2] & <- & Hin).
    apply remove_sub in Hin. apply (in_map fst) in Hin. exact Hin.
  Qed.

  Lemma length_remove k (m : list (K * A)) : length (remove k m) <= length m.
  Proof. induction m as [|[k' a'] t IH]; simpl; [lia|]. destruct (keqb k k'); simpl; lia. Qed.

  Lemma upsert_In_other k a (m : list (K * A)) k' a' :
    k' <> k -> (In (k', a') (upsert k a m) <-> In (k', a') m).
  Proof.
    intros Hne. induction m as [|[k2 a2] t IH]; simpl.
    - split; [intros [[= -> ->]|[]]; congruence|tauto].
    - destruct (keqb_spec k k2) as [->|Hne2]; simpl.
      + split; intros [[= -> ->]|H]; auto; congruence.
      + rewrite IH. tauto.
  Qed.
End AssocProofs.
