(* Lib/Conc.v — generic concurrency layer (DESIGN.md Appendix G and Appendix E).

   Part 1  objects, thread pools, schedules, events            ([object], [cstep], [run])
   Part 2  linearisability as trace inclusion in the canonical atomic automaton Lin(spec)
           ([lin_step], [lin_trace], [linearizable]) and the fixed-linearisation-point
           simulation theorem [fixed_lp_linearizable]
   Part 3  lock skeletons, the decidable [lockset_check], a fine-grained RWMutex semantics
           (locks taken one by one, accesses performed one at a time) and the soundness theorem
           [lockset_sound : lockset_check sk = true -> race_free sk].

   Nothing here is specific to one Go type; SafeMap/SyncMap (C07) and GenericStack (C11) instantiate it. *)
From Coq Require Import List Bool Arith String Lia.
Import ListNotations.

Definition tid := nat.

(* ------------------------------------------------------------------------------------------ *)
(* Part 1: objects and schedules                                                               *)
(* ------------------------------------------------------------------------------------------ *)

(* An object: shared state St, per-invocation local state Loc (a program counter with the values
   read so far), operations and results.  [ostep s l] performs ONE atomic step of an invocation:
   it either continues with a new local state or returns. *)
Record object := {
  St : Type; Loc : Type; Op : Type; Ret : Type;
  obegin : Op -> Loc;
  ostep : St -> Loc -> St * (Loc + Ret)
}.

Section Pool.
  Context {X : Type}.
  Fixpoint plookup (t : tid) (p : list (tid * X)) : option X :=
    match p with
    | [] => None
    | (t', x) :: q => if Nat.eqb t t' then Some x else plookup t q
    end.
  Fixpoint pupdate (t : tid) (x : X) (p : list (tid * X)) : list (tid * X) :=
    match p with
    | [] => []
    | (t', y) :: q => if Nat.eqb t t' then (t, x) :: q else (t', y) :: pupdate t x q
    end.
  Fixpoint premove (t : tid) (p : list (tid * X)) : list (tid * X) :=
    match p with
    | [] => []
    | (t', y) :: q => if Nat.eqb t t' then q else (t', y) :: premove t q
    end.
End Pool.

Section PoolMap.
  Context {X Y : Type} (g : X -> Y).
  Definition pmap (p : list (tid * X)) : list (tid * Y) := map (fun e => (fst e, g (snd e))) p.
  Lemma plookup_pmap t p : plookup t (pmap p) = option_map g (plookup t p).
  Proof. induction p as [|[t' x] q IH]; simpl; [reflexivity|]. destruct (Nat.eqb t t'); [reflexivity|exact IH]. Qed.
  Lemma pupdate_pmap t x p : pupdate t (g x) (pmap p) = pmap (pupdate t x p).
  Proof. induction p as [|[t' y] q IH]; simpl; [reflexivity|]. destruct (Nat.eqb t t'); simpl; [reflexivity|now rewrite IH]. Qed.
  Lemma premove_pmap t p : premove t (pmap p) = pmap (premove t p).
  Proof. induction p as [|[t' y] q IH]; simpl; [reflexivity|]. destruct (Nat.eqb t t'); simpl; [reflexivity|now rewrite IH]. Qed.
End PoolMap.

Lemma plookup_In {X} t (x : X) p : plookup t p = Some x -> In (t, x) p.
Proof.
  induction p as [|[t' y] q IH]; simpl; [discriminate|].
  destruct (Nat.eqb_spec t t') as [->|_]; [intros [= ->]; now left|intros H; right; auto].
Qed.
Lemma Forall_pupdate {X} (P : tid * X -> Prop) t x p : Forall P p -> P (t, x) -> Forall P (pupdate t x p).
Proof.
  induction 1 as [|[t' y] q Hy Hq IH]; intros Hx; simpl; [constructor|].
  destruct (Nat.eqb t t'); constructor; auto.
Qed.
Lemma Forall_premove {X} (P : tid * X -> Prop) t p : Forall P p -> Forall P (premove t p).
Proof.
  induction 1 as [|[t' y] q Hy Hq IH]; simpl; [constructor|].
  destruct (Nat.eqb t t'); [exact Hq|constructor; auto].
Qed.

Lemma plookup_pupdate_same {X} t (x y : X) p : plookup t p = Some y -> plookup t (pupdate t x p) = Some x.
Proof.
  induction p as [|[t' z] q IH]; simpl; [discriminate|].
  destruct (Nat.eqb_spec t t') as [->|Hn]; simpl.
  - now rewrite Nat.eqb_refl.
  - destruct (Nat.eqb_spec t t'); [contradiction|exact IH].
Qed.
Lemma pupdate_id {X} t (x : X) p : plookup t p = Some x -> pupdate t x p = p.
Proof.
  induction p as [|[t' z] q IH]; simpl; [reflexivity|].
  destruct (Nat.eqb_spec t t') as [->|Hn]; [intros [= ->]; reflexivity|intros H; now rewrite IH].
Qed.
Lemma premove_pupdate {X} t (x : X) p : premove t (pupdate t x p) = premove t p.
Proof.
  induction p as [|[t' z] q IH]; simpl; [reflexivity|].
  destruct (Nat.eqb_spec t t') as [->|Hn]; simpl.
  - now rewrite Nat.eqb_refl.
  - destruct (Nat.eqb_spec t t'); [contradiction|now rewrite IH].
Qed.

(* What an outside observer sees: invocations and responses.  (A response repeats the operation it
   answers; this is redundant with the matching invocation and only makes statements about
   "the result of operation o" shorter.) *)
Inductive event (O R : Type) :=
| Inv (t : tid) (o : O)
| Res (t : tid) (o : O) (r : R).
Arguments Inv {O R}. Arguments Res {O R}.

Section Exec.
  Variable obj : object.
  Definition conf : Type := St obj * list (tid * (Op obj * Loc obj)).

  (* a schedule is a list of labels: the environment calls an operation on an idle thread, or the
     scheduler lets a running thread perform its next atomic step *)
  Inductive label := Call (t : tid) (o : Op obj) | Step (t : tid).

  Definition ev := event (Op obj) (Ret obj).

  Definition cstep (c : conf) (lab : label) : option (conf * list ev) :=
    let (s, pool) := c in
    match lab with
    | Call t o =>
        match plookup t pool with
        | None => Some ((s, (t, (o, obegin obj o)) :: pool), [Inv t o])
        | Some _ => None
        end
    | Step t =>
        match plookup t pool with
        | None => None
        | Some (o, l) =>
            match ostep obj s l with
            | (s', inl l') => Some ((s', pupdate t (o, l') pool), [])
            | (s', inr r) => Some ((s', premove t pool), [Res t o r])
            end
        end
    end.

  (* inversion of one step (convenient in invariant proofs about concrete objects) *)
  Lemma cstep_call_inv s pool t o c' e :
    cstep (s, pool) (Call t o) = Some (c', e) ->
    plookup t pool = None /\ c' = (s, (t, (o, obegin obj o)) :: pool) /\ e = [Inv t o].
  Proof. simpl. destruct (plookup t pool); [discriminate|]. intros [= <- <-]. auto. Qed.

  Lemma cstep_step_inv s pool t c' e :
    cstep (s, pool) (Step t) = Some (c', e) ->
    exists o l, plookup t pool = Some (o, l) /\
      ((exists l', ostep obj s l = (fst c', inl l') /\ c' = (fst c', pupdate t (o, l') pool) /\ e = []) \/
       (exists r, ostep obj s l = (fst c', inr r) /\ c' = (fst c', premove t pool) /\ e = [Res t o r])).
  Proof.
    simpl. destruct (plookup t pool) as [[o l]|]; [|discriminate]. intros H. exists o, l. split; [reflexivity|].
    revert H. destruct (ostep obj s l) as [s' [l'|r]]; intros [= <- <-]; simpl; [left|right]; eauto.
  Qed.

  (* [run c labels = Some (c', evs)]: the schedule is executable from c, ends in c' and shows evs;
     None: the schedule is not a schedule of the object (calls a busy thread / steps an idle one) *)
  Fixpoint run (c : conf) (labels : list label) : option (conf * list ev) :=
    match labels with
    | [] => Some (c, [])
    | lab :: rest =>
        match cstep c lab with
        | None => None
        | Some (c1, e1) =>
            match run c1 rest with
            | None => None
            | Some (c2, e2) => Some (c2, e1 ++ e2)
            end
        end
    end.

  Lemma run_app c l1 l2 :
    run c (l1 ++ l2) =
      match run c l1 with
      | None => None
      | Some (c1, e1) => match run c1 l2 with None => None | Some (c2, e2) => Some (c2, e1 ++ e2) end
      end.
  Proof.
    revert c; induction l1 as [|lab l1 IH]; intros c; simpl.
    - destruct (run c l2) as [[c2 e2]|]; reflexivity.
    - destruct (cstep c lab) as [[c1 e1]|]; [|reflexivity]. rewrite IH.
      destruct (run c1 l1) as [[c2 e2]|]; [|reflexivity].
      destruct (run c2 l2) as [[c3 e3]|]; [|reflexivity]. now rewrite app_assoc.
  Qed.

  (* an invariant of configurations that every step preserves holds after every schedule *)
  Lemma run_invariant (P : conf -> list ev -> Prop) :
    (forall c evs lab c' e, P c evs -> cstep c lab = Some (c', e) -> P c' (evs ++ e)) ->
    forall labels c evs c' e, P c evs -> run c labels = Some (c', e) -> P c' (evs ++ e).
  Proof.
    intros Hstep. induction labels as [|lab rest IH]; intros c evs c' e HP; simpl.
    - intros [= <- <-]. now rewrite app_nil_r.
    - destruct (cstep c lab) as [[c1 e1]|] eqn:E1; [|discriminate].
      destruct (run c1 rest) as [[c2 e2]|] eqn:E2; [|discriminate]. intros [= <- <-].
      rewrite app_assoc. eapply IH; [|exact E2]. eapply Hstep; eauto.
  Qed.

  (* ---------------------------------------------------------------------------------------- *)
  (* Part 2: linearisability                                                                  *)
  (* ---------------------------------------------------------------------------------------- *)
  Section Lin.
    Variable A : Type.                                   (* abstract (specification) state *)
    Variable spec : A -> Op obj -> A * Ret obj.          (* sequential specification *)

    (* Lin(spec): the canonical atomic object.  Each invocation is pending until it takes effect in
       one atomic [spec] step (its linearisation point) and then returns the result fixed there. *)
    Inductive status := Pend (o : Op obj) | Done (o : Op obj) (r : Ret obj).
    Definition lconf : Type := A * list (tid * status).

    Inductive lin_step : lconf -> list ev -> lconf -> Prop :=
    | lin_inv a p t o : plookup t p = None -> lin_step (a, p) [Inv t o] (a, (t, Pend o) :: p)
    | lin_lp a p t o a' r : plookup t p = Some (Pend o) -> spec a o = (a', r) ->
                            lin_step (a, p) [] (a', pupdate t (Done o r) p)
    | lin_res a p t o r : plookup t p = Some (Done o r) -> lin_step (a, p) [Res t o r] (a, premove t p).

    Inductive lin_trace : lconf -> list ev -> lconf -> Prop :=
    | lt_nil c : lin_trace c [] c
    | lt_step c1 e1 c2 e2 c3 : lin_step c1 e1 c2 -> lin_trace c2 e2 c3 -> lin_trace c1 (e1 ++ e2) c3.

    Lemma lin_trace_one c1 e c2 : lin_step c1 e c2 -> lin_trace c1 e c2.
    Proof. intros H. rewrite <- (app_nil_r e). econstructor; [exact H|constructor]. Qed.

    Lemma lin_trace_app c1 e1 c2 e2 c3 : lin_trace c1 e1 c2 -> lin_trace c2 e2 c3 -> lin_trace c1 (e1 ++ e2) c3.
    Proof.
      induction 1 as [c|c1 e1 c2 e1' c2' Hs Ht IH]; intros H2; [exact H2|].
      rewrite <- app_assoc. econstructor; [exact Hs|auto].
    Qed.

    (* the object started in s0 is linearisable w.r.t. spec started in a0: every history the object can
       show under ANY schedule (including histories with calls still running) is a history of Lin(spec) *)
    Definition linearizable (s0 : St obj) (a0 : A) : Prop :=
      forall labels c evs, run (s0, []) labels = Some (c, evs) ->
        exists lc, lin_trace (a0, []) evs lc.

    (* --- fixed linearisation points --- *)
    Variable abs : St obj -> A.
    Variable lpdone : Op obj -> Loc obj -> option (Ret obj).
         (* Some r: this invocation has passed its linearisation point and will return r *)
    Variable I : St obj -> Prop.                         (* invariant of the shared state *)
    Variable LI : Op obj -> Loc obj -> Prop.             (* invariant of local states of an invocation of o *)

    Definition step_ok (s : St obj) (o : Op obj) (l : Loc obj) : Prop :=
      let (s', x) := ostep obj s l in
      I s' /\
      match lpdone o l with
      | None =>
          match x with
          | inl l' => LI o l' /\
                      ((abs s' = abs s /\ lpdone o l' = None) \/
                       (exists r, spec (abs s) o = (abs s', r) /\ lpdone o l' = Some r))
          | inr r => spec (abs s) o = (abs s', r)
          end
      | Some r =>
          abs s' = abs s /\
          match x with
          | inl l' => LI o l' /\ lpdone o l' = Some r
          | inr r' => r' = r
          end
      end.

    Hypothesis H_begin : forall o, LI o (obegin obj o) /\ lpdone o (obegin obj o) = None.
    Hypothesis H_step : forall s o l, I s -> LI o l -> step_ok s o l.

    Definition st_of (e : Op obj * Loc obj) : status :=
      match lpdone (fst e) (snd e) with None => Pend (fst e) | Some r => Done (fst e) r end.

    Definition sim (c : conf) (lc : lconf) : Prop :=
      I (fst c) /\ fst lc = abs (fst c) /\ snd lc = pmap st_of (snd c)
      /\ Forall (fun e => LI (fst (snd e)) (snd (snd e))) (snd c).

    Lemma sim_step c lab c' e lc :
      sim c lc -> cstep c lab = Some (c', e) -> exists lc', lin_trace lc e lc' /\ sim c' lc'.
    Proof.
      destruct c as [s pool], lc as [a lp]. intros (HI & Ha & Hp & HF). simpl in *. subst a lp.
      destruct lab as [t o|t]; simpl.
      - destruct (plookup t pool) eqn:El; [discriminate|]. intros [= <- <-].
        destruct (H_begin o) as [HL Hn].
        exists (abs s, (t, Pend o) :: pmap st_of pool). split.
        + apply lin_trace_one. constructor. rewrite plookup_pmap, El. reflexivity.
        + unfold sim; simpl. repeat split; auto. unfold st_of; simpl. now rewrite Hn.
      - destruct (plookup t pool) as [[o l]|] eqn:El; [|discriminate].
        assert (HLI : LI o l).
        { apply plookup_In in El. rewrite Forall_forall in HF. exact (HF _ El). }
        pose proof (H_step s o l HI HLI) as Hok. unfold step_ok in Hok.
        destruct (ostep obj s l) as [s' x]. destruct Hok as [HI' Hok].
        assert (Hst : plookup t (pmap st_of pool) = Some (st_of (o, l))).
        { rewrite plookup_pmap, El. reflexivity. }
        unfold st_of in Hst; simpl in Hst.
        destruct (lpdone o l) as [r0|] eqn:Elp.
        + (* already linearised: nothing happens in Lin, or the recorded result is returned *)
          destruct Hok as [Habs Hx]. destruct x as [l'|r'].
          * intros [= <- <-]. destruct Hx as [HL' Hlp'].
            exists (abs s, pmap st_of pool). split; [constructor|].
            repeat split; simpl; auto.
            -- rewrite <- pupdate_pmap. unfold st_of at 2; simpl. rewrite Hlp'.
               symmetry. now apply pupdate_id.
            -- apply Forall_pupdate; auto.
          * intros [= <- <-]. subst r'.
            exists (abs s, premove t (pmap st_of pool)). split.
            -- apply lin_trace_one. constructor. exact Hst.
            -- repeat split; simpl; auto; [apply premove_pmap|apply Forall_premove; auto].
        + destruct x as [l'|r].
          * intros [= <- <-]. destruct Hok as [HL' [[Habs Hlp']|(r & Hspec & Hlp')]].
            -- exists (abs s, pmap st_of pool). split; [constructor|].
               repeat split; simpl; auto.
               ++ rewrite <- pupdate_pmap. unfold st_of at 2; simpl. rewrite Hlp'.
                  symmetry. now apply pupdate_id.
               ++ apply Forall_pupdate; auto.
            -- exists (abs s', pupdate t (Done o r) (pmap st_of pool)). split.
               ++ apply lin_trace_one. econstructor; eauto.
               ++ repeat split; simpl; auto.
                  ** rewrite <- pupdate_pmap. unfold st_of at 2; simpl. now rewrite Hlp'.
                  ** apply Forall_pupdate; auto.
          * (* returns at its linearisation point: LP step, then response *)
            intros [= <- <-].
            exists (abs s', premove t (pupdate t (Done o r) (pmap st_of pool))). split.
            -- change [Res t o r] with ([] ++ [Res t o r]).
               econstructor; [econstructor; eauto|]. apply lin_trace_one. constructor.
               eapply plookup_pupdate_same; eauto.
            -- repeat split; simpl; auto.
               ++ rewrite premove_pupdate. apply premove_pmap.
               ++ apply Forall_premove; auto.
    Qed.

    Lemma sim_run labels : forall c c' e lc,
      sim c lc -> run c labels = Some (c', e) -> exists lc', lin_trace lc e lc' /\ sim c' lc'.
    Proof.
      induction labels as [|lab rest IH]; intros c c' e lc Hs; simpl.
      - intros [= <- <-]. exists lc. split; [constructor|exact Hs].
      - destruct (cstep c lab) as [[c1 e1]|] eqn:E1; [|discriminate].
        destruct (run c1 rest) as [[c2 e2]|] eqn:E2; [|discriminate]. intros [= <- <-].
        destruct (sim_step _ _ _ _ _ Hs E1) as (lc1 & Ht1 & Hs1).
        destruct (IH _ _ _ _ Hs1 E2) as (lc2 & Ht2 & Hs2).
        exists lc2. split; [eapply lin_trace_app; eauto|exact Hs2].
    Qed.

    (* Appendix G: an object whose every invocation has a FIXED linearisation point — a step that
       performs exactly [spec] on the abstraction of the state and fixes the return value, every other
       step leaving the abstraction alone — is linearisable. *)
    Theorem fixed_lp_linearizable s0 : I s0 -> linearizable s0 (abs s0).
    Proof.
      intros HI labels c evs Hr.
      destruct (sim_run labels (s0, []) c evs (abs s0, [])) as (lc & Ht & _); auto.
      - repeat split; simpl; auto.
      - eauto.
    Qed.
  End Lin.
End Exec.

Arguments Call {obj}. Arguments Step {obj}.
Arguments Pend {obj}. Arguments Done {obj}.

(* ------------------------------------------------------------------------------------------ *)
(* Part 3: lock skeletons and the lockset theorem (Appendix E)                                 *)
(* ------------------------------------------------------------------------------------------ *)

Inductive mode := Rd | Wr.
Record access := { loc : string; wr : bool }.
(* A section: a stretch of a method during which the set of held locks is constant, with the accesses
   to guarded locations that may happen in it.  held = [] : no lock held.  [Unknown]: the translator met a
   construct it does not understand (fail closed). *)
Inductive section := Sec (held : list (string * mode)) (accs : list access) | Unknown.
Definition skeleton := list (string * list section).          (* method -> its sections in program order *)

Definition is_wr (m : mode) : bool := match m with Wr => true | Rd => false end.
Definition mode_eqb (a b : mode) : bool := Bool.eqb (is_wr a) (is_wr b).

(* lock m is held (in any mode / in write mode) according to the list h *)
Definition holds (m : string) (h : list (string * mode)) : bool :=
  existsb (fun lm => String.eqb (fst lm) m) h.
Definition holds_w (m : string) (h : list (string * mode)) : bool :=
  existsb (fun lm => String.eqb (fst lm) m && is_wr (snd lm)) h.

(* a write performed while holding hw is protected against any access performed while holding ho:
   some lock is held in WRITE mode by the writer and (in any mode) by the other party *)
Definition protected (hw ho : list (string * mode)) : bool :=
  existsb (fun lm => is_wr (snd lm) && holds (fst lm) ho) hw.

Definition acc_ok (h1 : list (string * mode)) (a1 : access) (h2 : list (string * mode)) (a2 : access) : bool :=
  if String.eqb (loc a1) (loc a2)
  then (if wr a1 then protected h1 h2 else true) && (if wr a2 then protected h2 h1 else true)
  else true.

Definition sec_ok (s1 s2 : section) : bool :=
  match s1, s2 with
  | Sec h1 a1, Sec h2 a2 => forallb (fun x => forallb (fun y => acc_ok h1 x h2 y) a2) a1
  | _, _ => false
  end.

Definition all_sections (sk : skeleton) : list section := flat_map snd sk.

(* every pair of sections of any two method instances (also two instances of the same method) *)
Definition lockset_check (sk : skeleton) : bool :=
  let ss := all_sections sk in forallb (fun s1 => forallb (fun s2 => sec_ok s1 s2) ss) ss.

(* --- fine-grained semantics, for this theorem only ---
   A thread executes a method instance section by section.  Inside a section it first acquires the
   section's locks one by one, then performs its accesses one at a time, then releases the locks one
   by one.  RWMutex: Lock(m) is enabled iff nobody holds m; RLock(m) iff nobody holds m in write mode
   (a writer excludes everyone, readers exclude writers).  Go's writer preference only removes
   schedules, so ignoring it is sound for a safety statement. *)
Record tstate := mkT {
  todo : list (string * mode);     (* locks of the current section still to acquire *)
  have : list (string * mode);     (* locks held *)
  pend : list access;              (* accesses of the current section still to perform *)
  rest : list section              (* sections after the current one *)
}.
Definition idle : tstate := mkT [] [] [] [].
Definition tpool := tid -> tstate.
Definition tupd (p : tpool) (t : tid) (x : tstate) : tpool := fun t' => if Nat.eqb t' t then x else p t'.

Inductive fstep (sk : skeleton) : tpool -> tpool -> Prop :=
| f_start p t name secs :                                   (* an idle thread calls a method *)
    p t = idle -> In (name, secs) sk -> fstep sk p (tupd p t (mkT [] [] [] secs))
| f_enter p t h a r :                                       (* begin the next section *)
    p t = mkT [] [] [] (Sec h a :: r) -> fstep sk p (tupd p t (mkT h [] a r))
| f_lock p t m td h a r :                                   (* mux.Lock() *)
    p t = mkT ((m, Wr) :: td) h a r -> (forall t', holds m (have (p t')) = false) ->
    fstep sk p (tupd p t (mkT td ((m, Wr) :: h) a r))
| f_rlock p t m td h a r :                                  (* mux.RLock() *)
    p t = mkT ((m, Rd) :: td) h a r -> (forall t', holds_w m (have (p t')) = false) ->
    fstep sk p (tupd p t (mkT td ((m, Rd) :: h) a r))
| f_access p t h a0 a r :                                   (* one read or write of a guarded location *)
    p t = mkT [] h (a0 :: a) r -> fstep sk p (tupd p t (mkT [] h a r))
| f_unlock p t lm h r :                                     (* Unlock / RUnlock *)
    p t = mkT [] (lm :: h) [] r -> fstep sk p (tupd p t (mkT [] h [] r)).

Inductive reach (sk : skeleton) : tpool -> Prop :=
| reach_init : reach sk (fun _ => idle)
| reach_step p p' : reach sk p -> fstep sk p p' -> reach sk p'.

(* the access a thread is about to perform, with the locks it holds *)
Definition next_access (ts : tstate) : option (list (string * mode) * access) :=
  match todo ts, pend ts with
  | [], a :: _ => Some (have ts, a)
  | _, _ => None
  end.

Definition conflict (a1 a2 : access) : Prop := loc a1 = loc a2 /\ (wr a1 = true \/ wr a2 = true).

(* a data race: two different threads are both about to access the same location, one of them writing;
   or a thread is about to execute code the translator could not analyse *)
Definition race (p : tpool) : Prop :=
  (exists t r, p t = mkT [] [] [] (Unknown :: r)) \/
  (exists t1 t2 h1 a1 h2 a2, t1 <> t2 /\ next_access (p t1) = Some (h1, a1)
      /\ next_access (p t2) = Some (h2, a2) /\ conflict a1 a2).

Definition race_free (sk : skeleton) : Prop := forall p, reach sk p -> ~ race p.

Lemma holds_In m h : holds m h = true <-> exists md, In (m, md) h.
Proof.
  unfold holds. rewrite existsb_exists. split.
  - intros ([m' md] & Hin & He). simpl in He. apply String.eqb_eq in He. subst. eauto.
  - intros (md & Hin). exists (m, md). split; [exact Hin|apply String.eqb_refl].
Qed.
Lemma holds_w_In m h : holds_w m h = true <-> In (m, Wr) h.
Proof.
  unfold holds_w. rewrite existsb_exists. split.
  - intros ([m' md] & Hin & He). simpl in He. apply andb_prop in He as [He Hw].
    apply String.eqb_eq in He. subst. destruct md; [discriminate|exact Hin].
  - intros Hin. exists (m, Wr). split; [exact Hin|]. simpl. now rewrite String.eqb_refl.
Qed.
Lemma holds_w_holds m h : holds_w m h = true -> holds m h = true.
Proof. rewrite holds_w_In, holds_In. eauto. Qed.

Lemma tupd_same p t x : tupd p t x t = x.
Proof. unfold tupd. now rewrite Nat.eqb_refl. Qed.
Lemma tupd_other p t x t' : t' <> t -> tupd p t x t' = p t'.
Proof. unfold tupd. intros H. destruct (Nat.eqb_spec t' t); [contradiction|reflexivity]. Qed.

Section LocksetSound.
  Variable sk : skeleton.

  (* mutual exclusion: a lock held in write mode by one thread is held by nobody else *)
  Definition excl (p : tpool) : Prop :=
    forall t1 t2 m, holds_w m (have (p t1)) = true -> holds m (have (p t2)) = true -> t1 = t2.

  Definition in_sk (s : section) : Prop := In s (all_sections sk).

  (* every thread is inside (a suffix of) a section of the skeleton and holds or is about to take its locks *)
  Definition wf_t (ts : tstate) : Prop :=
    Forall in_sk (rest ts) /\
    (pend ts = [] \/
     exists H A, in_sk (Sec H A) /\ incl (pend ts) A /\ (forall x, In x H -> In x (todo ts) \/ In x (have ts))).

  (* if the stepping thread's new lock list only contains locks it held before, exclusion is kept *)
  Lemma excl_shrink p t x :
    excl p -> (forall lm, In lm (have x) -> In lm (have (p t))) -> excl (tupd p t x).
  Proof.
    intros He Hsub t1 t2 m H1 H2.
    assert (H1' : holds_w m (have (p t1)) = true).
    { destruct (Nat.eq_dec t1 t) as [->|Hn]; [|now rewrite tupd_other in H1].
      rewrite tupd_same in H1. apply holds_w_In. apply Hsub. now apply holds_w_In. }
    assert (H2' : holds m (have (p t2)) = true).
    { destruct (Nat.eq_dec t2 t) as [->|Hn]; [|now rewrite tupd_other in H2].
      rewrite tupd_same in H2. apply holds_In in H2 as [md H2]. apply holds_In. exists md. now apply Hsub. }
    exact (He _ _ _ H1' H2').
  Qed.

  Lemma excl_step p p' : excl p -> fstep sk p p' -> excl p'.
  Proof.
    intros He Hs. destruct Hs as [p t name secs Hp Hin|p t h a r Hp|p t m td h a r Hp Hen|p t m td h a r Hp Hen|p t h a0 a r Hp|p t lm h r Hp].
    - apply excl_shrink; [exact He|]. simpl. contradiction.
    - apply excl_shrink; [exact He|]. simpl. contradiction.
    - (* Lock *)
      intros t1 t2 m' H1 H2.
      destruct (Nat.eq_dec t1 t) as [E1|N1]; destruct (Nat.eq_dec t2 t) as [E2|N2]; try congruence.
      + subst t1. rewrite tupd_same in H1. rewrite tupd_other in H2 by exact N2. cbn [have] in H1.
        apply holds_w_In in H1 as [H1|H1].
        * injection H1 as <-. rewrite Hen in H2. discriminate.
        * apply (He t t2 m'); [|exact H2]. rewrite Hp. simpl. now apply holds_w_In.
      + subst t2. rewrite tupd_other in H1 by exact N1. rewrite tupd_same in H2. cbn [have] in H2.
        apply holds_In in H2 as [md [H2|H2]].
        * injection H2 as <- <-. apply holds_w_holds in H1. rewrite Hen in H1. discriminate.
        * apply (He t1 t m'); [exact H1|]. rewrite Hp. simpl. apply holds_In. eauto.
      + rewrite tupd_other in H1 by exact N1. rewrite tupd_other in H2 by exact N2. eauto.
    - (* RLock *)
      intros t1 t2 m' H1 H2.
      destruct (Nat.eq_dec t1 t) as [E1|N1]; destruct (Nat.eq_dec t2 t) as [E2|N2]; try congruence.
      + subst t1. rewrite tupd_same in H1. rewrite tupd_other in H2 by exact N2. cbn [have] in H1.
        apply holds_w_In in H1 as [H1|H1]; [discriminate|].
        apply (He t t2 m'); [|exact H2]. rewrite Hp. simpl. now apply holds_w_In.
      + subst t2. rewrite tupd_other in H1 by exact N1. rewrite tupd_same in H2. cbn [have] in H2.
        apply holds_In in H2 as [md [H2|H2]].
        * injection H2 as <- <-. rewrite Hen in H1. discriminate.
        * apply (He t1 t m'); [exact H1|]. rewrite Hp. simpl. apply holds_In. eauto.
      + rewrite tupd_other in H1 by exact N1. rewrite tupd_other in H2 by exact N2. eauto.
    - apply excl_shrink; [exact He|]. rewrite Hp. simpl. auto.
    - apply excl_shrink; [exact He|]. rewrite Hp. simpl. auto.
  Qed.

  Lemma in_sk_method name secs : In (name, secs) sk -> Forall in_sk secs.
  Proof.
    intros Hin. apply Forall_forall. intros s Hs. unfold in_sk, all_sections.
    apply in_flat_map. exists (name, secs). auto.
  Qed.

  Lemma wf_step p p' : (forall t, wf_t (p t)) -> fstep sk p p' -> forall t, wf_t (p' t).
  Proof.
    intros Hw Hs t0.
    destruct Hs as [p t name secs Hp Hin|p t h a r Hp|p t m td h a r Hp Hen|p t m td h a r Hp Hen|p t h a0 a r Hp|p t lm h r Hp];
      (destruct (Nat.eq_dec t0 t) as [->|Hn]; [rewrite tupd_same|rewrite tupd_other by exact Hn; apply Hw]);
      pose proof (Hw t) as [Hr Hc]; rewrite Hp in Hr, Hc; simpl in Hr, Hc; split; simpl; auto.
    - eapply in_sk_method; eauto.
    - now inversion Hr.
    - inversion Hr as [|? ? Hs0 Hr']; subst. right. exists h, a. split; [exact Hs0|]. split; [apply incl_refl|auto].
    - destruct Hc as [Hc|(H & A & Hi & Hinc & Hl)]; [now left|]. right. exists H, A. split; [exact Hi|]. split; [exact Hinc|].
      intros x Hx. destruct (Hl x Hx) as [[<-|Hx']|Hx']; simpl; auto.
    - destruct Hc as [Hc|(H & A & Hi & Hinc & Hl)]; [now left|]. right. exists H, A. split; [exact Hi|]. split; [exact Hinc|].
      intros x Hx. destruct (Hl x Hx) as [[<-|Hx']|Hx']; simpl; auto.
    - destruct Hc as [Hc|(H & A & Hi & Hinc & Hl)]; [discriminate|]. right. exists H, A. split; [exact Hi|]. split; [|exact Hl].
      intros x Hx. apply Hinc. now right.
  Qed.

  Lemma reach_inv p : reach sk p -> excl p /\ forall t, wf_t (p t).
  Proof.
    induction 1 as [|p p' Hr [He Hw] Hs].
    - split.
      + intros t1 t2 m H1. simpl in H1. discriminate.
      + intros t. split; simpl; auto.
    - split; [eapply excl_step; eauto|eapply wf_step; eauto].
  Qed.

  Lemma forallb_In {X} (f : X -> bool) l x : forallb f l = true -> In x l -> f x = true.
  Proof. rewrite forallb_forall. auto. Qed.

  Lemma protected_excl hw ho h1 h2 :
    protected hw ho = true -> (forall x, In x hw -> In x h1) -> (forall x, In x ho -> In x h2) ->
    exists m, holds_w m h1 = true /\ holds m h2 = true.
  Proof.
    unfold protected. rewrite existsb_exists. intros ([m md] & Hin & Hb) S1 S2. simpl in Hb.
    apply andb_prop in Hb as [Hw Hh]. destruct md; [discriminate|]. exists m. split.
    - apply holds_w_In. auto.
    - apply holds_In in Hh as [md Hh]. apply holds_In. eauto.
  Qed.

  (* Appendix E: the decidable check on the skeleton implies that NO schedule of the fine-grained
     semantics reaches a race *)
  Theorem lockset_sound : lockset_check sk = true -> race_free sk.
  Proof.
    intros Hc p Hr Hrace. destruct (reach_inv p Hr) as [He Hw].
    unfold lockset_check in Hc.
    assert (Hpair : forall s1 s2, in_sk s1 -> in_sk s2 -> sec_ok s1 s2 = true).
    { intros s1 s2 H1 H2. eapply forallb_In in Hc; [|exact H1]. eapply forallb_In in Hc; [|exact H2]. exact Hc. }
    destruct Hrace as [(t & r & Hp)|(t1 & t2 & h1 & a1 & h2 & a2 & Hne & N1 & N2 & Hloc & Hwr)].
    - destruct (Hw t) as [Hrest _]. rewrite Hp in Hrest. simpl in Hrest. inversion Hrest as [|? ? Hu _]; subst.
      specialize (Hpair _ _ Hu Hu). discriminate.
    - unfold next_access in N1, N2.
      destruct (Hw t1) as [_ C1]. destruct (Hw t2) as [_ C2].
      destruct (p t1) as [td1 hv1 pd1 rs1] eqn:E1. destruct (p t2) as [td2 hv2 pd2 rs2] eqn:E2. simpl in *.
      destruct td1; [|discriminate]. destruct pd1 as [|x1 pd1]; [discriminate|]. injection N1 as <- <-.
      destruct td2; [|discriminate]. destruct pd2 as [|x2 pd2]; [discriminate|]. injection N2 as <- <-.
      destruct C1 as [C1|(H1 & A1 & I1 & Inc1 & L1)]; [discriminate|].
      destruct C2 as [C2|(H2 & A2 & I2 & Inc2 & L2)]; [discriminate|].
      assert (S1 : forall x, In x H1 -> In x hv1) by (intros x Hx; destruct (L1 x Hx) as [[]|]; auto).
      assert (S2 : forall x, In x H2 -> In x hv2) by (intros x Hx; destruct (L2 x Hx) as [[]|]; auto).
      pose proof (Hpair _ _ I1 I2) as Hok. simpl in Hok.
      eapply forallb_In in Hok; [|apply Inc1; left; reflexivity].
      eapply forallb_In in Hok; [|apply Inc2; left; reflexivity].
      unfold acc_ok in Hok. rewrite Hloc, String.eqb_refl in Hok. apply andb_prop in Hok as [O1 O2].
      destruct Hwr as [W|W]; rewrite W in *.
      + destruct (protected_excl _ _ _ _ O1 S1 S2) as (m & M1 & M2).
        apply Hne. apply (He t1 t2 m); [now rewrite E1|now rewrite E2].
      + destruct (protected_excl _ _ _ _ O2 S2 S1) as (m & M1 & M2).
        apply Hne. symmetry. apply (He t2 t1 m); [now rewrite E2|now rewrite E1].
  Qed.
End LocksetSound.

(* --- non-vacuity: the semantics does exhibit races, and the check does accept locked code --- *)
Definition ex_unlocked : skeleton := [("W"%string, [Sec [] [{| loc := "x"; wr := true |}]])].
Definition ex_locked : skeleton :=
  [("W"%string, [Sec [("mu"%string, Wr)] [{| loc := "x"; wr := true |}]]);
   ("R"%string, [Sec [("mu"%string, Rd)] [{| loc := "x"; wr := false |}]])].
(* reader that takes only the read lock but writes: rejected *)
Definition ex_rlock_write : skeleton :=
  [("W"%string, [Sec [("mu"%string, Rd)] [{| loc := "x"; wr := true |}]])].

Example ex_unlocked_check : lockset_check ex_unlocked = false. Proof. reflexivity. Qed.
Example ex_locked_check : lockset_check ex_locked = true. Proof. reflexivity. Qed.
Example ex_rlock_write_check : lockset_check ex_rlock_write = false. Proof. reflexivity. Qed.
Example ex_unknown_check : lockset_check [("M"%string, [Unknown])] = false. Proof. reflexivity. Qed.

Example ex_unlocked_races : ~ race_free ex_unlocked.
Proof.
  intros H.
  set (ax := {| loc := "x"; wr := true |}).
  set (p0 := fun _ : tid => idle).
  set (p1 := tupd p0 0 (mkT [] [] [] [Sec [] [ax]])).
  set (p2 := tupd p1 1 (mkT [] [] [] [Sec [] [ax]])).
  set (p3 := tupd p2 0 (mkT [] [] [ax] [])).
  set (p4 := tupd p3 1 (mkT [] [] [ax] [])).
  apply (H p4).
  - assert (R1 : reach ex_unlocked p1).
    { eapply reach_step; [apply reach_init|]. eapply f_start with (name := "W"%string); [reflexivity|now left]. }
    assert (R2 : reach ex_unlocked p2).
    { eapply reach_step; [exact R1|]. eapply f_start with (name := "W"%string); [reflexivity|now left]. }
    assert (R3 : reach ex_unlocked p3).
    { eapply reach_step; [exact R2|]. apply (f_enter _ p2 0 [] [ax] []). reflexivity. }
    eapply reach_step; [exact R3|]. apply (f_enter _ p3 1 [] [ax] []). reflexivity.
  - right. exists 0, 1, [], ax, [], ax. repeat split; auto; try (left; reflexivity).
Qed.

(* with the read lock only, two "readers" that write race as well *)
Example ex_rlock_write_races : ~ race_free ex_rlock_write.
Proof.
  intros H.
  set (ax := {| loc := "x"; wr := true |}).
  set (mu := ("mu"%string, Rd)).
  set (p0 := fun _ : tid => idle).
  set (p1 := tupd p0 0 (mkT [] [] [] [Sec [mu] [ax]])).
  set (p2 := tupd p1 1 (mkT [] [] [] [Sec [mu] [ax]])).
  set (p3 := tupd p2 0 (mkT [mu] [] [ax] [])).
  set (p4 := tupd p3 1 (mkT [mu] [] [ax] [])).
  set (p5 := tupd p4 0 (mkT [] [mu] [ax] [])).
  set (p6 := tupd p5 1 (mkT [] [mu] [ax] [])).
  apply (H p6).
  - assert (R1 : reach ex_rlock_write p1).
    { eapply reach_step; [apply reach_init|]. eapply f_start with (name := "W"%string); [reflexivity|now left]. }
    assert (R2 : reach ex_rlock_write p2).
    { eapply reach_step; [exact R1|]. eapply f_start with (name := "W"%string); [reflexivity|now left]. }
    assert (R3 : reach ex_rlock_write p3).
    { eapply reach_step; [exact R2|]. apply (f_enter _ p2 0 [mu] [ax] []). reflexivity. }
    assert (R4 : reach ex_rlock_write p4).
    { eapply reach_step; [exact R3|]. apply (f_enter _ p3 1 [mu] [ax] []). reflexivity. }
    assert (R5 : reach ex_rlock_write p5).
    { eapply reach_step; [exact R4|]. apply (f_rlock _ p4 0 "mu"%string [] [] [ax] []); [reflexivity|].
      intros t'. destruct t' as [|[|t']]; reflexivity. }
    eapply reach_step; [exact R5|]. apply (f_rlock _ p5 1 "mu"%string [] [] [ax] []); [reflexivity|].
    intros t'. destruct t' as [|[|t']]; reflexivity.
  - right. exists 0, 1, [mu], ax, [mu], ax. repeat split; auto; try (left; reflexivity).
Qed.
