(* Correspondence for X04: each case = one history of operations on two OrderedBTree values (slot
   false / slot true; Clone copies the receiver into the other slot) executed on the real code, with
   everything each call returned / every (key, value) the iteration callback was invoked on.
   Values are *cell pointers, identified by the cell's number (nil = 0); a missing item is (0, nil).
   The model (Props/X04.v: refines the finite-map specification for every history) is run on the same
   history and every observation must coincide. *)
From Coq Require Import List ZArith Bool.
From TC.Model Require Export OrderedMap.
From TC.Run Require Import RunLib.
Import ListNotations.

(* the same operations with Z-only arguments, as the harness prints them *)
Inductive zop :=
| ZSet (k v : Z) | ZGet (k : Z) | ZDelete (k : Z) | ZHas (k : Z) | ZLen
| ZMin | ZMax | ZDeleteMin | ZDeleteMax
| ZIter (it : iter) (a b : Z) (stop_after : Z) (stop_keys : list Z)
| ZClone.

Inductive obs :=
| XUnit | XOpt (present : bool) (v : Z) | XBool (b : bool) | XInt (n : Z) | XKV (k v : Z)
| XVisit (l : list (Z * Z)) | XPanic.

Inductive case := CHist (ops : list (bool * zop)) (observed : list obs).

Definition to_op (z : zop) : @op Z :=
  match z with
  | ZSet k v => OSet k v | ZGet k => OGet k | ZDelete k => ODelete k | ZHas k => OHas k | ZLen => OLen
  | ZMin => OMin | ZMax => OMax | ZDeleteMin => ODeleteMin | ZDeleteMax => ODeleteMax
  | ZIter it a b n ks => OIter it a b {| stop_after := Z.to_nat n; stop_keys := ks |}
  | ZClone => OClone
  end.

Definition to_obs (r : @res Z) : obs :=
  match r with
  | RUnit => XUnit
  | ROpt (Some v) => XOpt true v
  | ROpt None => XOpt false 0
  | RBool b => XBool b
  | RNat n => XInt (Z.of_nat n)
  | RKV k v => XKV k v
  | RVisit l => XVisit l
  end.

Definition pair_eqb (a b : Z * Z) : bool := Z.eqb (fst a) (fst b) && Z.eqb (snd a) (snd b).

Definition obs_eqb (a b : obs) : bool :=
  match a, b with
  | XUnit, XUnit => true
  | XOpt p v, XOpt p' v' => Bool.eqb p p' && Z.eqb v v'
  | XBool x, XBool y => Bool.eqb x y
  | XInt x, XInt y => Z.eqb x y
  | XKV k v, XKV k' v' => Z.eqb k k' && Z.eqb v v'
  | XVisit l, XVisit l' => list_eqb pair_eqb l l'
  | _, _ => false
  end.

Definition verdict (c : case) : nat :=
  match c with
  | CHist ops observed =>
      let model := map to_obs (snd (run 0%Z init (map (fun o => (fst o, to_op (snd o))) ops))) in
      if list_eqb obs_eqb observed model then 0 else 1
  end.

Definition mismatches (cs : list case) : list (nat * nat) := collect verdict 0 cs.
