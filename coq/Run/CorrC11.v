(* Correspondence + monitor for C11: sequential GenericStack vs model/spec; container/heap vs Lib/GoHeap. *)
From Coq Require Import List ZArith Bool Arith.
From TC.Lib Require Import GoHeap.
From TC.Model Require Export GStack.
From TC.Run Require Import RunLib.
Import ListNotations.

Inductive hop := HInit | HPush (k : Z) | HPop | HRemove (i : Z) | HFix (i k : Z).

Inductive case :=
| CSeq (ops : list (@op Z)) (outs : list (@out Z))
| CHeap (start : list (Z * Z)) (ops : list hop) (obs : list (list (Z * Z) * Z)).
   (* obs: after each op the array as (key, position) pairs and the key returned by Pop/Remove (0 otherwise) *)

Definition optz_eqb (a b : option Z) : bool :=
  match a, b with Some x, Some y => Z.eqb x y | None, None => true | _, _ => false end.

Definition out_eqb (a b : @out Z) : bool :=
  match a, b with
  | OId x, OId y => Z.eqb x y
  | OVal x, OVal y => Z.eqb x y
  | OPeek x, OPeek y => optz_eqb x y
  | OLen x, OLen y => Nat.eqb x y
  | OValues x, OValues y => zlist_eqb x y
  | OPanic, OPanic => true
  | _, _ => false
  end.

(* heap elements: (key, position); Less = key order; Swap/Push/Pop record positions *)
Definition hlt (a b : Z * Z) : bool := (fst a <? fst b)%Z.
Definition hsetpos (p : Z) (a : Z * Z) : Z * Z := (fst a, p).
Definition pair_eqb (a b : Z * Z) : bool := Z.eqb (fst a) (fst b) && Z.eqb (snd a) (snd b).

Definition hstep (l : list (Z * Z)) (o : hop) : option (list (Z * Z) * Z) :=
  match o with
  | HInit => Some (h_init hlt hsetpos l, 0%Z)
  | HPush k => Some (h_push hlt hsetpos l (k, (-5)%Z), 0%Z)
  | HPop => match h_pop hlt hsetpos l with Some (x, l') => Some (l', fst x) | None => None end
  | HRemove i => match h_remove hlt hsetpos l (n i) with Some (x, l') => Some (l', fst x) | None => None end
  | HFix i k => Some (h_fix hlt hsetpos (upd l (n i) (k, i)) (n i), 0%Z)
  end.

Fixpoint hrun (l : list (Z * Z)) (ops : list hop) (obs : list (list (Z * Z) * Z)) : bool :=
  match ops, obs with
  | [], [] => true
  | o :: ops', (a, r) :: obs' =>
      match hstep l o with
      | Some (l', r') => list_eqb pair_eqb a l' && Z.eqb r r' && hrun l' ops' obs'
      | None => false
      end
  | _, _ => false
  end.

Definition verdict (c : case) : nat :=
  match c with
  | CSeq ops outs =>
      if list_eqb out_eqb outs (snd (qrun 0%Z qinit ops)) then
        (if list_eqb out_eqb outs (snd (run 0%Z init ops)) then 0 else 2)
      else 1
  | CHeap start ops obs => if hrun start ops obs then 0 else 2
  end.

Definition mismatches (cs : list case) : list (nat * nat) := collect verdict 0 cs.
