(* Correspondence evaluator for the scripted work-queue harness (harness/cmd/wqscript), shared by
   C04, C05, C09, C14, C16 (and the no-crash scripts of C19).

   A case is a configuration (W, L) and a script: a list of (stimulus, observation).  Stimuli are the
   environment labels of Model/WQ.v; the harness gives ONE stimulus at a time to the real queue, waits for
   quiescence (every goroutine blocked, two equal snapshots) and records the projected observation:
     - ids whose work function started since the previous stimulus        (sorted)
     - ids whose Enqueue call returned since the previous stimulus         (sorted)
     - WorkItems() as a list of (name, priority, state) sorted by name     (absolute)
     - ids whose adjust function was consulted since the previous stimulus (sorted, with multiplicity)
     - the stimulus' own result (Dequeue/SetPriority: 0 nil, 1 error, 2 panic; ErrRecv: the error token
       received, -1 nothing to receive, -2 nil; otherwise 0)
   The model side: after the stimulus' label the model runs its internal steps to quiescence.  The order of
   internal steps is not observable, so ALL internal interleavings are explored (finite closure, with
   duplicate elimination; this is validation by execution, not proof) and the implementation's observation
   must be among the observations of the reachable quiescent model states; evaluation continues from the
   set of matching states. *)
From Coq Require Import List ZArith Bool Arith.
From TC.Lib Require Import GoHeap.
From TC.Model Require Import WQ.
From TC.Run Require Import RunLib.
Import ListNotations.

(* ---------- decidable equality on the parts of a state that matter for the future ---------- *)
Definition item_eqb (a b : item) : bool :=
  (iid a =? iid b) && (iname a =? iname b) && (iprio a =? iprio b)%Z && Bool.eqb (iadj a) (iadj b)
  && (iseq a =? iseq b) && (ipos a =? ipos b)%Z && Bool.eqb (ist a) (ist b).
Definition items_eqb := list_eqb item_eqb.
Definition nats_eqb := list_eqb Nat.eqb.
Definition onat_eqb (a b : option nat) : bool :=
  match a, b with Some x, Some y => x =? y | None, None => true | _, _ => false end.
Definition dphase_eqb (a b : dphase) : bool :=
  match a, b with
  | PhIdle, PhIdle => true
  | PhGot x, PhGot y => item_eqb x y
  | PhFullWait x, PhFullWait y => item_eqb x y
  | PhFullSend x w, PhFullSend y u => item_eqb x y && item_eqb w u
  | PhTokSend x, PhTokSend y => item_eqb x y
  | PhDrain r, PhDrain r' => items_eqb r r'
  | PhClosing k, PhClosing k' => k =? k'
  | PhExited, PhExited => true
  | _, _ => false
  end.
Definition mphase_eqb (a b : mphase) : bool :=
  match a, b with
  | MIdle, MIdle => true
  | MFan e r, MFan e' r' => onat_eqb e e' && nats_eqb r r'
  | MExited, MExited => true
  | _, _ => false
  end.
Definition err_eqb (a b : item * nat) : bool := item_eqb (fst a) (fst b) && (snd a =? snd b).

(* everything except the ghost fields [done] and [trace] *)
Definition core_eqb (a b : state) : bool :=
  (sW a =? sW b) && (sL a =? sL b) && (nextid a =? nextid b) && (nextseq a =? nextseq b)
  && items_eqb (producers a) (producers b) && dphase_eqb (disp a) (disp b)
  && items_eqb (heap a) (heap b) && items_eqb (buffer a) (buffer b) && (tokens a =? tokens b)
  && (idle a =? idle b) && items_eqb (running a) (running b) && list_eqb err_eqb (senderr a) (senderr b)
  && items_eqb (deleting a) (deleting b) && (posting a =? posting b) && (wexited a =? wexited b)
  && nats_eqb (workitems a) (workitems b) && items_eqb (removed a) (removed b)
  && items_eqb (dropped a) (dropped b) && mphase_eqb (mon a) (mon b) && nats_eqb (subs a) (subs b)
  && (nextsub a =? nextsub b)
  && Bool.eqb (stopped a) (stopped b) && Bool.eqb (breaked a) (breaked b) && Bool.eqb (cancelled a) (cancelled b)
  && Bool.eqb (sem_closed a) (sem_closed b) && Bool.eqb (wch_closed a) (wch_closed b)
  && Bool.eqb (err_closed a) (err_closed b) && Bool.eqb (work_closed a) (work_closed b)
  && Bool.eqb (panicked a) (panicked b).

(* ---------- observations ---------- *)
Record obs := Ob {
  o_started : list Z;
  o_returned : list Z;
  o_items : list (Z * Z * Z);
  o_consulted : list Z;
  o_res : Z
}.

Definition zn (k : nat) : Z := Z.of_nat k.

Fixpoint tr_started (t : list event) : list Z :=
  match t with [] => [] | EvStart id :: r => zn id :: tr_started r | _ :: r => tr_started r end.
Fixpoint tr_returned (t : list event) : list Z :=
  match t with [] => [] | EvReturned id :: r => zn id :: tr_returned r | _ :: r => tr_returned r end.
Fixpoint tr_consulted (t : list event) : list Z :=
  match t with
  | [] => []
  | EvDecide _ _ cs _ :: r => map zn cs ++ tr_consulted r
  | EvAdjust cs :: r => map zn cs ++ tr_consulted r
  | _ :: r => tr_consulted r
  end.
(* result of the stimulus itself; [dflt] when the trace has no result event *)
Fixpoint tr_res (t : list event) (dflt : Z) : Z :=
  match t with
  | [] => dflt
  | EvDeq _ b :: _ => if b then 0%Z else 1%Z
  | EvSetPrio _ b :: _ => if b then 0%Z else 1%Z
  | EvErr _ (Some e) :: _ => zn e
  | EvErr _ None :: _ => (-2)%Z
  | EvPanic PHeapRemove :: _ => 2%Z
  | _ :: r => tr_res r dflt
  end.
Fixpoint tr_panic (t : list event) : bool :=
  match t with [] => false | EvPanic _ :: _ => true | _ :: r => tr_panic r end.

Definition triple_le (a b : Z * Z * Z) : bool := (fst (fst a) <=? fst (fst b))%Z.
Fixpoint tinsert (x : Z * Z * Z) (l : list (Z * Z * Z)) :=
  match l with [] => [x] | y :: t => if triple_le x y then x :: l else y :: tinsert x t end.
Definition tsort (l : list (Z * Z * Z)) := fold_right tinsert [] l.
Definition triple_eqb (a b : Z * Z * Z) : bool :=
  (fst (fst a) =? fst (fst b))%Z && (snd (fst a) =? snd (fst b))%Z && (snd a =? snd b)%Z.

(* WorkItems(): every id in workItems with the name, priority and state of its record *)
Definition model_items (s : state) : list (Z * Z * Z) :=
  tsort (flat_map (fun id => match find_item id s with
                             | Some x => [(zn (iname x), iprio x, if ist x then 1%Z else 0%Z)]
                             | None => []
                             end) (workitems s)).

Definition model_obs (dflt : Z) (s : state) : obs :=
  Ob (zsort (tr_started (trace s))) (zsort (tr_returned (trace s))) (model_items s)
     (zsort (tr_consulted (trace s))) (tr_res (trace s) dflt).

Definition obs_eqb (a b : obs) : bool :=
  zlist_eqb (o_started a) (o_started b) && zlist_eqb (o_returned a) (o_returned b)
  && list_eqb triple_eqb (o_items a) (o_items b) && zlist_eqb (o_consulted a) (o_consulted b)
  && (o_res a =? o_res b)%Z.

(* two states are interchangeable for the evaluator *)
Definition same (a b : state) : bool := core_eqb a b && obs_eqb (model_obs 0 a) (model_obs 0 b).

Definition seen (s : state) (l : list state) : bool := existsb (same s) l.
Fixpoint add_new (new acc : list state) : list state :=
  match new with
  | [] => acc
  | s :: t => if seen s acc then add_new t acc else add_new t (acc ++ [s])
  end.

(* ---------- closure under internal steps ---------- *)
Definition succs (vals : avals) (s : state) : list state :=
  flat_map (fun l => match step fixed s l with Some s' => [s'] | None => [] end) (internal_labels vals s).

(* frontier / visited / quiescent states found so far; fuel bounds the number of rounds *)
Fixpoint explore (fuel : nat) (vals : avals) (frontier visited quiet : list state) : list state :=
  match fuel with
  | 0 => quiet
  | S f =>
      match frontier with
      | [] => quiet
      | _ =>
          let step1 := fold_left (fun (acc : list state * list state) s =>
                          let '(nxt, q) := acc in
                          match succs vals s with
                          | [] => (nxt, add_new [s] q)
                          | l => (add_new l nxt, q)
                          end) frontier ([], quiet) in
          let '(nxt, q) := step1 in
          let fresh := filter (fun s => negb (seen s visited)) nxt in
          explore f vals fresh (visited ++ fresh) q
      end
  end.
Definition closure (vals : avals) (s : state) : list state := explore 400 vals [s] [s] [].

(* every state reachable by internal steps (quiescent or not) *)
Fixpoint explore_all (fuel : nat) (vals : avals) (frontier visited : list state) : list state :=
  match fuel with
  | 0 => visited
  | S f =>
      match frontier with
      | [] => visited
      | _ =>
          let nxt := fold_left (fun acc s => add_new (succs vals s) acc) frontier [] in
          let fresh := filter (fun s => negb (seen s visited)) nxt in
          explore_all f vals fresh (visited ++ fresh)
      end
  end.
Definition reach_all (vals : avals) (s : state) : list state := explore_all 400 vals [s] [s].

(* ---------- stimuli ---------- *)
Inductive stim :=
| SEnq (p : Z) (adj : bool) (name : Z)
| SFinish (id : Z) (err : Z)               (* err < 0: the work function returns nil *)
| SDequeue (id : Z)
| SSetPrio (id p : Z)
| SErrSub
| SErrRecv (sub : Z)
| SResize (len : Z)
| SStop
| SBreak
| SAdj (id : Z) (val : Z)                  (* the adjust function of id returns val from now on *)
| SSib (len : Z)                           (* ResizeQueueLength(len) on ANOTHER queue that was built from the same option
                                              values: queues are independent instances of the model, so this is no
                                              label of this queue - nothing changes *)
| SBatch (subs : list stim).               (* stimuli given while the dispatcher is parked inside a held adjust function,
                                              then the release: ONE observation for all of them.  Model: the labels in
                                              order with ANY internal steps in between (a superset of what the hold
                                              allows), then internal steps to quiescence. *)

Definition set_val (id : nat) (z : Z) (vals : avals) : avals :=
  (id, z) :: filter (fun kv => negb (fst kv =? id)) vals.

Definition stim_label (vals : avals) (st : stim) : option label :=
  match st with
  | SEnq p adj name => Some (Enq p adj (n name))
  | SFinish id e => Some (Finish (n id) (if (e <? 0)%Z then None else Some (n e)))
  | SDequeue id => Some (Dequeue (n id) vals)
  | SSetPrio id p => Some (SetPrio (n id) p vals)
  | SErrSub => Some ErrSub
  | SErrRecv sub => Some (ErrRecv (n sub))
  | SResize len => Some (ResizeLen (n len))
  | SStop => Some Stop
  | SBreak => Some Break
  | SAdj _ _ => None
  | SSib _ => None
  | SBatch _ => None
  end.
Definition stim_vals1 (vals : avals) (st : stim) : avals :=
  match st with
  | SAdj id z => set_val (n id) z vals
  | SEnq p true name => set_val (n name) p vals   (* the harness' adjust functions start at the Enqueue priority;
                                                     the harness names item k "k", and k is its model id *)
  | _ => vals
  end.
Definition stim_vals (vals : avals) (st : stim) : avals :=
  match st with
  | SBatch subs => fold_left stim_vals1 subs vals
  | _ => stim_vals1 vals st
  end.
Definition stim_dflt (st : stim) : Z := match st with SErrRecv _ => (-1)%Z | _ => 0%Z end.

(* all quiescent model states after one stimulus from one candidate state *)
Fixpoint batch_states (vals : avals) (subs : list stim) (cur : list state) : list state :=
  match subs with
  | [] => cur
  | st :: r =>
      let nxt := fold_left (fun acc s =>
                    match stim_label vals st with
                    | Some l => match step fixed s l with
                                | Some s1 => add_new (reach_all vals s1) acc
                                | None => acc
                                end
                    | None => add_new [s] acc
                    end) cur [] in
      batch_states vals r nxt
  end.

Definition after (vals : avals) (st : stim) (s : state) : list state :=
  let s0 := set_trace [] s in
  match st with
  | SBatch subs => fold_left (fun acc s1 => add_new (closure vals s1) acc) (batch_states vals subs [s0]) []
  | _ =>
  match stim_label vals st with
  | None => closure vals s0
  | Some l =>
      match step fixed s0 l with
      | Some s1 => closure vals s1
      | None => match st with
                | SErrRecv _ => closure vals s0      (* nothing to receive: the harness reports -1 *)
                | _ => []
                end
      end
  end
  end.

Definition after_all (vals : avals) (st : stim) (cands : list state) : list state :=
  fold_left (fun acc s => add_new (after vals st s) acc) cands [].

Record wcase := WQCase {
  c_W : Z; c_L : Z;
  c_script : list (stim * obs)
}.

(* a case given by the option list passed to NewQueue (in argument order) and the machine's NumCPU: W and L are the
   model's effective configuration ([effective]: defaults, last option of each kind wins) *)
Inductive zopt := OWorkers (n : Z) | OLength (n : Z).
Definition qopt_of (o : zopt) : qopt := match o with OWorkers k => OptWorkers (n k) | OLength k => OptLength (n k) end.
Definition WQOpts (ncpu : Z) (opts : list zopt) (sc : list (stim * obs)) : wcase :=
  let cfg := effective (n ncpu) (map qopt_of opts) in
  WQCase (Z.of_nat (fst cfg)) (Z.of_nat (snd cfg)) sc.

(* result of a replay: 0 = every observation is among the model's; k+1 = first mismatch at stimulus k,
   together with the model's candidate states just before it and the model's predictions for it *)
Fixpoint replay_from (k : nat) (vals : avals) (cands : list state) (sc : list (stim * obs))
  : nat * list state * list state :=
  match sc with
  | [] => (0, cands, [])
  | (st, o) :: rest =>
      let vals' := stim_vals vals st in
      let q := after_all vals' st cands in
      if (o_res o =? 99)%Z then
        (* the process died while this stimulus was being processed: fine iff the model can panic here *)
        if existsb panicked q then (0, [], []) else (S k, cands, q)
      else
      let keep := filter (fun s => obs_eqb (model_obs (stim_dflt st) s) o) q in
      match keep with
      | [] => (S k, cands, q)
      | _ => replay_from (S k) vals' keep rest
      end
  end.
Definition replay (c : wcase) : nat * list state * list state :=
  replay_from 0 [] [init (n (c_W c)) (n (c_L c))] (c_script c).
Definition replay_ok (c : wcase) : bool :=
  match replay c with (0, _, _) => true | _ => false end.

(* the widest candidate set seen during a replay (reported by the confluence side-test) *)
Fixpoint replay_width (vals : avals) (cands : list state) (sc : list (stim * obs)) (w : nat) : nat :=
  match sc with
  | [] => w
  | (st, o) :: rest =>
      let vals' := stim_vals vals st in
      let q := after_all vals' st cands in
      let keep := filter (fun s => obs_eqb (model_obs (stim_dflt st) s) o) q in
      match keep with
      | [] => w
      | _ => replay_width vals' keep rest (Nat.max w (length q))
      end
  end.

(* "Callers never hang": result -9 of a stimulus (no other result is negative below -3; error tokens are >= 0) means that the API call it made (Errors, Dequeue, SetPriority,
   ResizeQueueLength, Stop, Break) had not returned at a quiescent moment, i.e. never returns.  No call of the model
   blocks (every environment label except Enqueue's hand-over is a single step), so this is a violation by itself, with
   the script up to that stimulus as the failing input. *)
Definition mon_nohang (c : wcase) : bool := forallb (fun so => negb (o_res (snd so) =? -9)%Z) (c_script c).

(* generic verdict (the per-property modules CorrC04 ... refine it with their monitors):
   0 = the implementation's observations are among the model's; 2 = they are not *)
Definition case := wcase.
Definition verdict (c : case) : nat := if negb (mon_nohang c) then 1 else if replay_ok c then 0 else 2.
Definition mismatches (cs : list case) : list (nat * nat) := collect verdict 0 cs.

(* Classification of a mismatch for a property whose observables are selected by [rel]:
   1 = no quiescent model state agrees with the implementation even on the property's own observables
       (the property's monitor, read relative to the model whose every run satisfies the property and whose
       decisions are the only ones the property allows after the agreed prefix, rejects the observed step);
   2 = some model state agrees on those observables but differs elsewhere. *)
Definition classify (rel : obs -> obs -> bool) (c : wcase) : nat :=
  match replay c with
  | (0, _, _) => 0
  | (S k, _, q) =>
      match nth_error (c_script c) k with
      | Some (st, o) => if existsb (fun s => rel (model_obs (stim_dflt st) s) o) q then 2 else 1
      | None => 2
      end
  end.
