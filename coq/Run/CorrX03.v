(* Correspondence for X03: each case = one history of AddAncestryChain calls on a fresh storage.Tree,
   with (a) what Walk reported before the first call and (b) for every call whether it returned an error
   and what Walk reported afterwards ((value, level) in callback order; a panic is the single pair
   (-1000, -1000)).  The model (Props/X03.v) is run on the same history; by X03_walk_determines_tree equal
   Walk reports mean equal trees. *)
From Coq Require Import List ZArith Bool.
From TC.Model Require Import Tree.
From TC.Run Require Import RunLib.
Import ListNotations.

Inductive case :=
| CTree (walk0 : list (Z * Z)) (calls : list (list Z * bool * list (Z * Z))).

Definition pair_eqb (a b : Z * Z) : bool := Z.eqb (fst a) (fst b) && Z.eqb (snd a) (snd b).
Definition walk_obs (t : tree Z) : list (Z * Z) := map (fun vl => (fst vl, Z.of_nat (snd vl))) (walk t).

Fixpoint check (t : tree Z) (calls : list (list Z * bool * list (Z * Z))) : bool :=
  match calls with
  | [] => true
  | (anc, err, w) :: rest =>
      match add_chain Z.eqb t anc with
      | Some t' => negb err && list_eqb pair_eqb w (walk_obs t') && check t' rest
      | None => err && list_eqb pair_eqb w (walk_obs t) && check t rest
      end
  end.

Definition verdict (c : case) : nat :=
  match c with
  | CTree walk0 calls =>
      if list_eqb pair_eqb walk0 (walk_obs None) && check None calls then 0 else 1
  end.

Definition mismatches (cs : list case) : list (nat * nat) := collect verdict 0 cs.
