(* Correspondence for X01: each case = one call of a propositions function on the real code (inputs as
   given by the harness, predicates as the set of values on which they answer true, maps as their entry
   list) and the boolean it returned (1 / 0; -1 = panic or the element-type instantiations disagreed).
   The model (proved equal to the specification in Props/X01.v) is evaluated on the same inputs. *)
From Coq Require Import List ZArith Bool String.
From TC.Model Require Import Propositions.
From TC.Run Require Import RunLib.
Import ListNotations.
Local Open Scope string_scope.

Inductive case :=
| CS1 (fn : string) (s : list Z) (v : Z) (ret : Z)
| CS2 (fn : string) (s v : list Z) (ret : Z)
| CSP (fn : string) (s trueset : list Z) (ret : Z)
| CM1 (fn : string) (m : list (Z * Z)) (x : Z) (ret : Z)
| CMP (fn : string) (m : list (Z * Z)) (trueset : list Z) (ret : Z).

Definition agrees (ret : Z) (model : option bool) : nat :=
  match model with
  | Some b => if Z.eqb ret (if b then 1 else 0)%Z then 0 else 1
  | None => 1
  end.

Definition s1 (fn : string) (s : list Z) (v : Z) : option bool :=
  if fn =? "contains" then Some (slice_contains Z.eqb s v)
  else if fn =? "all_lt" then Some (slice_all_lt Z.ltb s v)
  else if fn =? "all_le" then Some (slice_all_le Z.leb s v)
  else if fn =? "all_gt" then Some (slice_all_gt Z.ltb s v)
  else if fn =? "all_ge" then Some (slice_all_ge Z.leb s v)
  else if fn =? "any_lt" then Some (slice_any_lt Z.ltb s v)
  else if fn =? "any_le" then Some (slice_any_le Z.leb s v)
  else if fn =? "any_gt" then Some (slice_any_gt Z.ltb s v)
  else if fn =? "any_ge" then Some (slice_any_ge Z.leb s v)
  else None.

Definition s2 (fn : string) (s v : list Z) : option bool :=
  if fn =? "contains_all" then Some (slice_contains_all Z.eqb s v)
  else if fn =? "contains_any" then Some (slice_contains_any Z.eqb s v)
  else if fn =? "contains_none" then Some (slice_contains_none Z.eqb s v)
  else None.

Definition sp (fn : string) (s : list Z) (p : Z -> bool) : option bool :=
  if fn =? "prop_any" then Some (prop_any p s)
  else if fn =? "prop_all" then Some (prop_all p s)
  else if fn =? "prop_none" then Some (prop_none p s)
  else None.

Definition m1 (fn : string) (m : list (Z * Z)) (x : Z) : option bool :=
  if fn =? "map_contains_key" then Some (map_contains_key Z.eqb m x)
  else if fn =? "map_contains_value" then Some (map_contains_value Z.eqb m x)
  else None.

Definition mp (fn : string) (m : list (Z * Z)) (p : Z -> bool) : option bool :=
  if fn =? "map_key_any" then Some (map_key_any m p)
  else if fn =? "map_key_all" then Some (map_key_all m p)
  else if fn =? "map_key_none" then Some (map_key_none m p)
  else if fn =? "map_value_any" then Some (map_value_any m p)
  else if fn =? "map_value_all" then Some (map_value_all m p)
  else if fn =? "map_value_none" then Some (map_value_none m p)
  else None.

(* a map given by the harness must have distinct keys, otherwise the case is malformed *)
Definition wf_map (m : list (Z * Z)) : bool := znodup (map fst m).

Definition verdict (c : case) : nat :=
  match c with
  | CS1 fn s v ret => agrees ret (s1 fn s v)
  | CS2 fn s v ret => agrees ret (s2 fn s v)
  | CSP fn s ts ret => agrees ret (sp fn s (fun x => zmem x ts))
  | CM1 fn m x ret => if wf_map m then agrees ret (m1 fn m x) else 1
  | CMP fn m ts ret => if wf_map m then agrees ret (mp fn m (fun x => zmem x ts)) else 1
  end.

Definition mismatches (cs : list case) : list (nat * nat) := collect verdict 0 cs.
