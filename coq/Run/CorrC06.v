(* C06 correspondence: shared evaluator (Run/CorrPub.v) with the C06 monitor. *)
From TC.Run Require Export CorrPub.
Definition mismatches := mismatches06.
