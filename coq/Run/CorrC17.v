(* Correspondence + monitor for C17.  Each case is one real exchange against a started server.Server
   (HTTP or HTTPS listener, or one gRPC call) with everything needed to re-run it in the model:
   the AddRoute calls with their handler programs, the configured middleware list, the request,
   and what the client, the recording handlers/middleware and the logger observed.

   verdict 1 (monitor, the property itself, stated without the middleware model where possible):
     M1 routing   : the handler that ran is the one [expected] names (last AddRoute for the pair, HEAD on
                    GET), others are rejected with 405/404 and nothing runs;
     M2 order     : recording middleware enter in declaration order around the handler, exit in reverse;
     M3 transparent: client view and handler/middleware observations equal those of the run WITHOUT
                    LogRequest/LogResponse.
   verdict 2: the full event log (including the logger's two messages) differs from the model's. *)
From Coq Require Import List ZArith Bool Arith.
From TC.Model Require Import Middleware.
From TC.Run Require Import RunLib.
Import ListNotations.
Local Open Scope Z_scope.

Inductive hop :=
| OObs | ORead (k : Z) | OReadAll | OGetHdr
| OSet (k v : Z) | OStatus (c : Z) | OWrite (bs : list Z)
| OEcho                 (* read everything, write it back *)
| OEchoHdr (k : Z)      (* copy request header k into response header k when present *)
| OFlush                (* if f, ok := w.(http.Flusher); ok { f.Flush() } *)
| OBarrier.             (* overlapping requests: wait until all of them are inside their handlers; nothing to the model *)

Fixpoint compile (ops : list hop) : hprog :=
  match ops with
  | [] => HDone
  | OObs :: t => HObsReq (fun _ _ _ => compile t)
  | ORead k :: t => HRead (n k) (fun _ => compile t)
  | OReadAll :: t => HReadAll (fun _ => compile t)
  | OGetHdr :: t => HGetHdr (fun _ => compile t)
  | OSet k v :: t => HSetHdr k v (compile t)
  | OStatus c :: t => HStatus c (compile t)
  | OWrite bs :: t => HWrite bs (compile t)
  | OEcho :: t => HReadAll (fun b => HWrite b (compile t))
  | OFlush :: t => HFlush (compile t)
  | OBarrier :: t => compile t
  | OEchoHdr k :: t =>
      HObsReq (fun _ _ h => match get k h with Some v => HSetHdr k v (compile t) | None => compile t end)
  end.

Inductive mwc := MLogReq | MLogResp | MRec (i : Z) | MScr (pre post : list hop).
Definition mwd_of (m : mwc) : mwd :=
  match m with
  | MLogReq => DLogRequest
  | MLogResp => DLogResponse
  | MRec i => DRecord i
  | MScr pre post => DScript (compile pre) (compile post)
  end.

(* run-length encoded bodies (the harness uses it for bodies far larger than any buffer) *)
Fixpoint zrep (v : Z) (k : nat) : list Z := match k with O => [] | S k1 => v :: zrep v k1 end.
Definition zrle (runs : list (Z * Z)) : list Z := flat_map (fun r => zrep (fst r) (Z.to_nat (snd r))) runs.

Inductive cop :=
| KAdd (m p : Z) (h : list hop)                         (* AddRoute through the builder or the config object *)
| KGetRoutes | KGetMw                                   (* read accessors (KGetMw also stands for the TLS getters) *)
| KSetMw (l : list mwc) (direct : bool).                (* UsingMiddleWare / SetMiddleware *)

Inductive case :=
| CHttp (listener : Z)                                  (* 0 = HTTP, 1 = HTTPS *)
        (calls : list (Z * Z * list hop))               (* AddRoute(method, path, handler), in call order *)
        (mw : option (list mwc))                        (* None = UsingMiddleWare never called *)
        (direct : bool)                                 (* a single middleware configured without BundleMiddleware *)
        (rm rp : Z) (rh : list (Z * Z)) (rb : list Z)   (* request: method, path, X-V headers (sorted), body *)
        (st : Z) (oh : list (Z * Z)) (ob : list Z)      (* client: status, X-V headers (sorted), body *)
        (ev : list (list Z))                            (* recorder and logger events, in order *)
(* one of several OVERLAPPING exchanges (all handlers were entered before any of them read its body); [ev] holds
   this request's recorder events only, the logger's lines cannot be attributed to a request and are left out.
   The property is per request whatever the interleaving, so the expectation is that of the exchange alone. *)
| CHttpConc (listener : Z) (calls : list (Z * Z * list hop)) (mw : option (list mwc)) (direct : bool)
        (rm rp : Z) (rh : list (Z * Z)) (rb : list Z)
        (st : Z) (oh : list (Z * Z)) (ob : list Z) (ev : list (list Z))
(* the same exchange after a configuration SEQUENCE: AddRoute / SetMiddleware calls with read accessors
   (GetRoutes, GetMiddleware, ...) called in between, before the server was built *)
| CHttpSeq (listener : Z) (ops : list cop)
        (rm rp : Z) (rh : list (Z * Z)) (rb : list Z)
        (st : Z) (oh : list (Z * Z)) (ob : list Z) (ev : list (list Z))
(* the same exchange in which the client also received interim (1xx) responses before the final one:
   each entry = status code followed by the flattened sorted X-V headers of that interim response *)
| CInfo (oi : list (list Z)) (c : case)
(* two observations that the property requires to be EQUAL (relational oracles for behaviour the model does not
   describe): kind 0 = what a reference http.ServeMux, built by the harness from the same (method, path) list,
   answers vs what the running server answered (status, index of the handler that ran, Location) - pattern
   syntax beyond literals: subtrees, "/", {wildcards}, {$}, request paths that need cleaning; kind 1 = the same
   handler program (possibly ending in a panic) on two servers, one with the configured middleware list and one
   with LogRequest/LogResponse removed (completed or aborted, status, headers, body received, interim responses,
   recorder events incl. the panic value seen by outer middleware). *)
| CSame (kind : Z) (a b : list (list Z))
| CGrpc (regs : list (Z * Z)) (d res : Z)               (* RegisterImplementation calls; called service; answering impl or -1 *)
| CGrpcList (regs : list (Z * Z)) (listed : list Z).    (* services the reflection service lists (our descriptors only) *)

(* ---- encoding of model events as the harness writes them ---- *)
Fixpoint hins (x : Z * Z) (l : list (Z * Z)) : list (Z * Z) :=
  match l with
  | [] => [x]
  | y :: t => if fst x <=? fst y then x :: l else y :: hins x t
  end.
Definition hsort (l : list (Z * Z)) : list (Z * Z) := fold_right hins [] l.
Definition hflat (l : list (Z * Z)) : list Z := flat_map (fun kv => [fst kv; snd kv]) (hsort l).

Definition enc (e : event) : list Z :=
  match e with
  | EEnter i => [0; i]
  | EExit i => [1; i]
  | EObsReq m p h => 2 :: m :: p :: hflat h
  | EObsRead bs => 3 :: bs
  | EObsHdr h => 4 :: hflat h
  | ELogReq m p b => 5 :: m :: p :: b
  | ELogResp m p st b => 6 :: m :: p :: st :: b
  | EMark i => [7; i]
  end.

Definition hdr_eqb (a b : list (Z * Z)) : bool := zlist_eqb (hflat a) (hflat b).

(* handler programs announce the index of the AddRoute call that registered them *)
Fixpoint number_calls (i : Z) (calls : list (Z * Z * list hop)) : list (Z * Z * hprog) :=
  match calls with
  | [] => []
  | (m, p, ops) :: t => (m, p, HMark i (compile ops)) :: number_calls (i + 1) t
  end.
Definition hcalls (calls : list (Z * Z * list hop)) : list (Z * Z * handler) :=
  map (fun c => (fst (fst c), snd (fst c), run_h (snd c))) (number_calls 0 calls).
Definition icalls (calls : list (Z * Z * list hop)) : list (Z * Z * Z) :=
  map (fun c => (fst (fst c), snd (fst c), match snd c with HMark i _ => i | _ => -1 end)) (number_calls 0 calls).

Definition mw_of (mw : option (list mwc)) (direct : bool) : option middleware :=
  match mw with
  | None => None
  | Some l =>
      match direct, l with
      | true, [m] => Some (denote (mwd_of m))
      | _, _ => Some (bundle (map (fun m => denote (mwd_of m)) l))
      end
  end.
Definition strip_c (l : list mwc) : list mwc :=
  filter (fun m => match m with MLogReq | MLogResp => false | _ => true end) l.

Definition provider (listener : Z) (r : @routes Z handler) (mw : option middleware) :=
  if listener =? 0 then http_provider_handler r mw else https_provider_handler r mw.

Definition exchange (listener : Z) calls (mw : option middleware) (q : reqst) : world :=
  respond (serve_handler Z.eqb (provider listener (config_of Z.eqb (hcalls calls)) mw) (q_method q) (q_path q)) q.

Definition client_eqb (oi : list (list Z)) (rm : Z) (s : world) (st : Z) (oh : list (Z * Z)) (ob : list Z) : bool :=
  match p_sent (w_resp s) with
  | None => false
  | Some (c, h) =>
      Z.eqb c st && hdr_eqb h oh &&
      zzlist_eqb oi (map (fun ch => fst ch :: hflat (snd ch)) (p_info (w_resp s))) &&
      (if rm =? mHEAD then zlist_eqb ob [] else zlist_eqb ob (p_body (w_resp s)))   (* net/http: no body on HEAD *)
  end.

Definition is_rec_or_mark (e : list Z) : bool :=
  match e with 0 :: _ | 1 :: _ | 7 :: _ => true | _ => false end.
Definition is_logger (e : list Z) : bool :=
  match e with 5 :: _ | 6 :: _ => true | _ => false end.
Definition rec_ids (l : list mwc) : list Z :=
  flat_map (fun m => match m with MRec i => [i] | _ => [] end) l.

(* [full] = the exchange as the complete model predicts it *)
Definition verdict_http (oi : list (list Z)) (conc : bool) (listener : Z) (calls : list (Z * Z * list hop)) (mw : option (list mwc)) (direct : bool)
           (full : reqst -> world) (rm rp : Z) (rh : list (Z * Z)) (rb : list Z)
           (st : Z) (oh : list (Z * Z)) (ob : list Z) (ev : list (list Z)) : nat :=
      let q := {| q_method := rm; q_path := rp; q_hdr := rh; q_body := rb |} in
      let mws := match mw with Some l => l | None => [] end in
      (* M1: routing, straight from the specification on the call list *)
      let m1 :=
        match expected Z.eqb (icalls calls) None rm rp with
        | Served i => zzlist_eqb (filter (fun e => match e with 7 :: _ => true | _ => false end) ev) [[7; i]]
        | MethodNotAllowed => Z.eqb st 405 && zzlist_eqb ev []
        | NotFound => Z.eqb st 404 && zzlist_eqb ev []
        end in
      (* M2: order of recording middleware around the handler *)
      let m2 :=
        match expected Z.eqb (icalls calls) None rm rp with
        | Served i =>
            zzlist_eqb (filter is_rec_or_mark ev)
                       (map (fun i => [0; i]) (rec_ids mws) ++ [[7; i]] ++ map (fun i => [1; i]) (rev (rec_ids mws)))
        | _ => true
        end in
      (* M3: same as without the logging middleware *)
      let plain := exchange listener calls (mw_of (option_map strip_c mw) false) q in
      let served := match expected Z.eqb (icalls calls) None rm rp with Served _ => true | _ => false end in
      let m3 :=
        if served then
          client_eqb oi rm plain st oh ob &&
          zzlist_eqb (filter (fun e => negb (is_logger e)) ev) (map enc (visible_log plain))
        else true in
      if negb (m1 && m2 && m3) then 1%nat
      else
        let full := full q in
        if served then
          if client_eqb oi rm full st oh ob &&
             (if conc then zzlist_eqb ev (map enc (visible_log full)) else zzlist_eqb ev (map enc (w_log full)))
          then 0%nat else 2%nat
        else if Z.eqb (status_of full) st then 0%nat else 2%nat.

(* configuration sequences: what the property reads off them, and the model's configuration phase *)
Definition adds_c (ops : list cop) : list (Z * Z * list hop) :=
  flat_map (fun o => match o with KAdd m p h => [(m, p, h)] | _ => [] end) ops.
Definition last_mw (ops : list cop) : option (list mwc * bool) :=
  fold_left (fun acc o => match o with KSetMw l d => Some (l, d) | _ => acc end) ops None.
Fixpoint cfg_ops (i : Z) (ops : list cop) : list (@cfg_op Z handler) :=
  match ops with
  | [] => []
  | KAdd m p h :: t => OAdd m p (run_h (HMark i (compile h))) :: cfg_ops (i + 1) t
  | KGetRoutes :: t => OGetRoutes :: cfg_ops i t
  | KGetMw :: t => OGetMiddleware :: cfg_ops i t
  | KSetMw l d :: t =>
      match mw_of (Some l) d with
      | Some f => OSetMiddleware f :: cfg_ops i t
      | None => cfg_ops i t
      end
  end.
Definition exchange_seq (listener : Z) (ops : list cop) (q : reqst) : world :=
  let c := cfg_run Z.eqb (cfg_ops 0 ops) in
  respond (serve_handler Z.eqb (provider listener (c_routes c) (c_mw c)) (q_method q) (q_path q)) q.

Fixpoint verdict_i (oi : list (list Z)) (c : case) : nat :=
  match c with
  | CInfo oi' c' => verdict_i (oi ++ oi') c'
  | CSame _ a b => if zzlist_eqb a b then 0%nat else 1%nat
  | CHttp listener calls mw direct rm rp rh rb st oh ob ev =>
      verdict_http oi false listener calls mw direct (exchange listener calls (mw_of mw direct)) rm rp rh rb st oh ob ev
  | CHttpConc listener calls mw direct rm rp rh rb st oh ob ev =>
      verdict_http oi true listener calls mw direct (exchange listener calls (mw_of mw direct)) rm rp rh rb st oh ob ev
  | CHttpSeq listener ops rm rp rh rb st oh ob ev =>
      let mwd := last_mw ops in
      verdict_http oi false listener (adds_c ops) (option_map fst mwd) (match mwd with Some (_, d) => d | None => false end)
                   (exchange_seq listener ops) rm rp rh rb st oh ob ev
  | CGrpc regs d res =>
      let spec := match (fix last (l : list (Z * Z)) (acc : Z) : Z :=
                          match l with [] => acc | (d', i) :: t => last t (if Z.eqb d d' then i else acc) end) regs (-1) with
                  | r => r end in
      if negb (Z.eqb res spec) then 1%nat
      else match grpc_call (grpc_config_of regs) d with
           | Some i => if Z.eqb i res then 0%nat else 2%nat
           | None => if Z.eqb res (-1) then 0%nat else 2%nat
           end
  | CGrpcList regs listed =>
      if negb (znodup listed && zlist_eqb (zsort listed) (zsort (nodup Z.eq_dec (map fst regs)))) then 1%nat
      else if zlist_eqb (zsort listed) (zsort (map fst (grpc_config_of regs))) then 0%nat else 2%nat
  end.

Definition verdict (c : case) : nat := verdict_i [] c.

Definition mismatches (cs : list case) : list (nat * nat) := collect verdict 0 cs.

(* self-test of the evaluator on the witnesses of Findings/MiddlewareFindings.v *)
Example corr_selftest :
  (* fixed behaviour: echo through LogRequest *)
  verdict (CHttp 0 [(2, 1, [OEcho])] (Some [MLogReq]) false 2 1 [] [104; 105] 200 [] [104; 105]
                 [[5; 2; 1; 104; 105]; [7; 0]; [3; 104; 105]]) = 0%nat
  (* pinned LogRequest: handler read nothing *)
  /\ verdict (CHttp 0 [(2, 1, [OEcho])] (Some [MLogReq]) false 2 1 [] [104; 105] 200 [] []
                 [[5; 2; 1; 104; 105]; [7; 0]; [3]]) = 1%nat
  (* pinned HTTPS provider: 404 on a registered route *)
  /\ verdict (CHttp 1 [(0, 1, [OWrite [1]])] None false 0 1 [] [] 404 [] [] []) = 1%nat
  /\ verdict (CHttp 1 [(0, 1, [OWrite [1]])] None false 0 1 [] [] 200 [] [1] [[7; 0]]) = 0%nat
  (* GetRoutes between AddRoute calls: the late route is served, a replaced handler is the new one *)
  /\ verdict (CHttpSeq 0 [KAdd 0 0 [OWrite [1]]; KGetRoutes; KAdd 0 1 [OWrite [2]]; KAdd 0 0 [OWrite [3]]] 0 1 [] [] 200 [] [2] [[7; 1]]) = 0%nat
  /\ verdict (CHttpSeq 0 [KAdd 0 0 [OWrite [1]]; KGetRoutes; KAdd 0 1 [OWrite [2]]; KAdd 0 0 [OWrite [3]]] 0 0 [] [] 200 [] [3] [[7; 2]]) = 0%nat
  /\ verdict (CHttpSeq 1 [KAdd 0 0 [OWrite [1]]; KGetRoutes; KAdd 0 1 [OWrite [2]]] 0 1 [] [] 404 [] [] []) = 1%nat
  /\ verdict (CHttpSeq 1 [KAdd 0 0 [OWrite [1]]; KGetRoutes; KAdd 0 0 [OWrite [3]]] 0 0 [] [] 200 [] [1] [[7; 0]]) = 1%nat
  (* the middleware set last is the one applied *)
  /\ verdict (CHttpSeq 0 [KSetMw [MRec 9] false; KAdd 0 0 [OWrite [1]]; KGetMw; KSetMw [MRec 1; MLogReq] false] 0 0 [] [] 200 [] [1]
                       [[0; 1]; [5; 0; 0]; [7; 0]; [1; 1]]) = 0%nat
  (* overlapping requests: own bytes echoed = fine; another request's bytes = the monitor rejects *)
  /\ verdict (CHttpConc 0 [(2, 1, [OBarrier; OEcho])] (Some [MLogReq]) false 2 1 [] [11; 11; 11] 200 [] [11; 11; 11]
                        [[7; 0]; [3; 11; 11; 11]]) = 0%nat
  /\ verdict (CHttpConc 0 [(2, 1, [OBarrier; OEcho])] (Some [MLogReq]) false 2 1 [] [11; 11; 11] 200 [] [12; 12; 12]
                        [[7; 0]; [3; 12; 12; 12]]) = 1%nat
  (* 103 Early Hints then 404 through LogResponse: the client must get the hints and 404 ... *)
  /\ verdict (CInfo [[103; 1; 5]] (CHttp 0 [(0, 1, [OSet 1 5; OStatus 103; OStatus 404; OWrite [9]])] (Some [MLogResp]) false 0 1 [] []
                        404 [(1, 5)] [9] [[7; 0]; [6; 0; 1; 404; 9]])) = 0%nat
  (* ... a wrapper that swallows the final status (client gets 200) is rejected *)
  /\ verdict (CInfo [[103; 1; 5]] (CHttp 0 [(0, 1, [OSet 1 5; OStatus 103; OStatus 404; OWrite [9]])] (Some [MLogResp]) false 0 1 [] []
                        200 [(1, 5)] [9] [[7; 0]; [6; 0; 1; 103; 9]])) = 1%nat
  (* flush, then WriteHeader(404): 200 with and without LogResponse (F13d fixed); 404 behind the wrapper is rejected *)
  /\ verdict (CHttp 0 [(0, 1, [OFlush; OStatus 404; OWrite [9]])] (Some [MLogResp]) false 0 1 [] [] 200 [] [9] [[7; 0]; [6; 0; 1; 404; 9]]) = 0%nat
  /\ verdict (CHttp 0 [(0, 1, [OFlush; OStatus 404; OWrite [9]])] (Some [MLogResp]) false 0 1 [] [] 404 [] [9] [[7; 0]; [6; 0; 1; 404; 9]]) = 1%nat
  /\ verdict (CSame 0 [[301; -1; 47; 115; 47]] [[301; -1; 47; 115; 47]]) = 0%nat
  /\ verdict (CSame 0 [[301; -1; 47; 115; 47]] [[200; 2]]) = 1%nat
  /\ verdict (CGrpc [(1, 10); (2, 20); (1, 11)] 1 11) = 0%nat
  /\ verdict (CGrpc [(1, 10)] 3 (-1)) = 0%nat
  /\ verdict (CGrpc [(1, 10)] 1 (-1)) = 1%nat.
Proof. vm_compute. repeat split. Qed.
