(* Correspondence + monitors for the publication properties C06, C15, C10 (shared).

   A case is one script run by harness/cmd/pubscript on the real publisher package: the trace of what
   was done and observed, as a list of [xl] items.  Environment items (XSub, XPub, XRecv*, XTick,
   XCloseSub) are what the harness did / saw directly; internal items (XEnter, XDeliver, XTimeout,
   XDrop, XFinishClose) are placed by the harness from its observations (channel lengths at
   quiescence, receive order, callback invocations, see notes/C06.md).  [replay] runs the trace
   through the model's [step]: every item must be enabled ("what the implementation did is a
   behaviour of the model") and at every quiescence marker [XQuiet] the model must agree that nothing
   more can happen ("the implementation did everything the model says it must") and on the observed
   channel lengths and number of live delivery goroutines.

   verdict 0 = agrees; 1 = a property monitor (evaluated on the observations alone) rejects;
   2 = the model rejects the trace although the monitor accepts. *)
From Coq Require Import List ZArith Bool Arith.
From TC.Model Require Import Pub.
From TC.Run Require Import RunLib.
Import ListNotations.

Inductive fcode := FNil | FMod (k r : Z) | FNever.
Definition accepts (f : fcode) (m : Z) : bool :=
  match f with FNil => true | FMod k r => Z.eqb (Z.modulo m k) r | FNever => false end.

(* the options of one Subscribe call, in the order in which they were passed *)
Inductive xopt := XoFilter (f : fcode) | XoTimeout (t : Z) | XoOnFiltered | XoOnTimeout.
Definition to_sopt (o : xopt) : sopt Z :=
  match o with XoFilter f => OFilter (accepts f) | XoTimeout t => OTimeout t | XoOnFiltered => OOnFiltered | XoOnTimeout => OOnTimeout end.
(* the same fold on the harness-side description (filter code instead of function); [None] = no filter *)
Definition xcfg (opts : list xopt) : fcode * Z * bool * bool :=
  fold_left (fun c o => match c, o with
                        | (f, t, oF, oT), XoFilter f' => (f', t, oF, oT)
                        | (f, t, oF, oT), XoTimeout t' => (f, t', oF, oT)
                        | (f, t, oF, oT), XoOnFiltered => (f, t, true, oT)
                        | (f, t, oF, oT), XoOnTimeout => (f, t, oF, true)
                        end) opts (FNil, default_tmo, false, false).

Inductive xl :=
| XSub (cap : Z) (opts : list xopt)
| XPub (m : Z) (vis : list Z)
| XEnter (p s : Z) | XDeliver (p s : Z) | XTimeout (p s : Z) | XDrop (p s : Z)
| XRecvVal (s p m : Z) | XRecvEmpty (s : Z) | XRecvClosed (s : Z)
| XTick (k : Z)
| XCloseSub (s : Z) | XFinishClose (s : Z)
| XQuiet (lens : list Z) (gor : Z) (mode : Z).   (* 0 plain, 1 after a full Advance, 2 final settled *)

(* observations that are not part of the trace *)
Record obs := mkObs {
  o_cbF : list (Z * Z);       (* OnFiltered invocations (subscriber, call) *)
  o_blocked : bool;           (* some Publish call did not return within the watchdog *)
  o_panic : bool;             (* the process running the script panicked *)
  o_complete : bool           (* the script ran to its end (final drain done) *)
}.

Inductive case := CScript (tr : list xl) (o : obs).

Notation st := (state Z).

(* ---------- replay through the model ---------- *)
Definition pending_count (s0 : st) : nat :=
  length (filter (fun ps => is_pending (pair s0 (fst ps) (snd ps)))
                 (list_prod (seq 0 (npub s0)) (seq 0 (nsub s0)))).

Definition due (s0 : st) (x : pst) : bool :=
  match x with PInSel dl => dl <=? now s0 | _ => false end.

(* an internal step that the implementation must already have taken at a quiescent point *)
Definition pair_stuck (s0 : st) (p s : nat) : bool :=
  let x := subs s0 s in
  match pair s0 p s with
  | PSpawned => true
  | PInSel dl =>
      match s_phase x with
      | Open => (now s0 <? dl) && (length (s_buf x) <? s_cap x)
      | Closing => true
      | Closed => true
      end
  | _ => false
  end.
Definition sub_stuck (s0 : st) (s : nat) : bool :=
  match s_phase (subs s0 s) with Closing => no_insel s0 s | _ => false end.
Definition any_stuck (s0 : st) : bool :=
  existsb (fun ps => pair_stuck s0 (fst ps) (snd ps)) (list_prod (seq 0 (npub s0)) (seq 0 (nsub s0)))
  || existsb (sub_stuck s0) (seq 0 (nsub s0)).
Definition any_due (s0 : st) : bool :=
  existsb (fun ps => due s0 (pair s0 (fst ps) (snd ps))) (list_prod (seq 0 (npub s0)) (seq 0 (nsub s0))).
(* overdue by more than a tick: after an Advance (sleep past every short deadline + 40ms, then wait up to
   3s for the timers) such a delivery must be gone *)
Definition overdue (s0 : st) (x : pst) : bool :=
  match x with PInSel dl => S dl <? now s0 | _ => false end.
Definition any_overdue (s0 : st) : bool :=
  existsb (fun ps => overdue s0 (pair s0 (fst ps) (snd ps))) (list_prod (seq 0 (npub s0)) (seq 0 (nsub s0))).

(* a sender that a non-blocking receive on s must have met *)
Definition has_partner (s0 : st) (s : nat) : bool :=
  existsb (fun p => match pair s0 p s with PInSel dl => now s0 <? dl | _ => false end) (seq 0 (npub s0)).

Fixpoint lens_ok (s0 : st) (i : nat) (lens : list Z) : bool :=
  match lens with
  | [] => i =? nsub s0
  | l :: t => (length (s_buf (subs s0 i)) =? n l) && lens_ok s0 (S i) t
  end.

Fixpoint iter_tick (k : nat) (s0 : st) : option st :=
  match k with 0 => Some s0 | S k' => match step s0 Tick with Some s1 => iter_tick k' s1 | None => None end end.

Definition opt_bind {A B} (o : option A) (f : A -> option B) : option B :=
  match o with Some a => f a | None => None end.

Definition xstep (s0 : st) (x : xl) : option st :=
  match x with
  | XSub c opts => step s0 (SubscribeOpts (n c) (map to_sopt opts))
  | XPub m vis =>
      let p := npub s0 in
      opt_bind (step s0 (PubBegin m)) (fun s1 =>
      opt_bind (fold_left (fun acc s => opt_bind acc (fun s' => step s' (Visit p (n s)))) vis (Some s1))
               (fun s2 => step s2 (PubEnd p)))
  | XEnter p s => step s0 (Enter (n p) (n s))
  | XDeliver p s => step s0 (Deliver (n p) (n s))
  | XTimeout p s => step s0 (Timeout (n p) (n s))
  | XDrop p s => step s0 (Drop (n p) (n s))
  | XRecvVal s p m =>
      match s_buf (subs s0 (n s)) with
      | (p', m') :: _ => if (p' =? n p) && (m' =? m)%Z then step s0 (Recv (n s)) else None
      | [] => match pmsg s0 (n p) with
              | Some m' => if (m' =? m)%Z then step s0 (Rendezvous (n p) (n s)) else None
              | None => None
              end
      end
  | XRecvEmpty s =>
      let x := subs s0 (n s) in
      match s_buf x, s_phase x with
      | [], Closed => None
      | [], _ => if (n s <? nsub s0) && negb (has_partner s0 (n s)) then Some s0 else None
      | _, _ => None
      end
  | XRecvClosed s =>
      let x := subs s0 (n s) in
      match s_buf x, s_phase x with
      | [], Closed => step s0 (Recv (n s))
      | _, _ => None
      end
  | XTick k => iter_tick (n k) s0
  | XCloseSub s => step s0 (CloseSub (n s))
  | XFinishClose s => step s0 (FinishClose (n s))
  | XQuiet lens gor mode =>
      if lens_ok s0 0 lens && negb (any_stuck s0) && negb (panicked s0)
         && (if (mode =? 2)%Z then (pending_count s0 =? n gor) && negb (any_due s0)
             else (pending_count s0 <=? n gor) && implb (mode =? 1)%Z (negb (any_overdue s0)))
      then Some s0 else None
  end.

(* index of the first rejected item, or the final state *)
Fixpoint replay (s0 : st) (i : nat) (tr : list xl) : st + nat :=
  match tr with
  | [] => inl s0
  | x :: t => match xstep s0 x with Some s1 => replay s1 (S i) t | None => inr i end
  end.

Definition zz_le (a b : Z * Z) : bool :=
  (fst a <? fst b)%Z || ((fst a =? fst b)%Z && (snd a <=? snd b)%Z).
Fixpoint zzinsert (x : Z * Z) (l : list (Z * Z)) :=
  match l with [] => [x] | y :: t => if zz_le x y then x :: l else y :: zzinsert x t end.
Definition zzsort (l : list (Z * Z)) := fold_right zzinsert [] l.
Definition zz_eqb (a b : Z * Z) : bool := (fst a =? fst b)%Z && (snd a =? snd b)%Z.
Definition zzmem (x : Z * Z) (l : list (Z * Z)) : bool := existsb (zz_eqb x) l.

Definition model_ok (tr : list xl) (o : obs) : bool :=
  match replay init 0 tr with
  | inr _ => false
  | inl s1 =>
      negb (panicked s1) &&
      list_eqb zz_eqb (zzsort (map (fun x => (Z.of_nat (fst (fst x)), Z.of_nat (snd (fst x)))) (cbF s1)))
                      (zzsort (o_cbF o))
  end.

(* ---------- monitors: evaluated on the observations alone ---------- *)
Record summ := mkSumm {
  m_subs : list (Z * fcode * Z * bool * bool);   (* cap, filter, timeout, onF, onT *)
  m_pubs : list (Z * list Z * Z);                (* message, visited, logical time of the call *)
  m_recv : list (Z * Z);                         (* (subscriber, call) received, newest first *)
  m_tout : list (Z * Z);                         (* (subscriber, call) timed out *)
  m_closed : list Z;                             (* subscribers closed *)
  m_eof : list Z;                                (* subscribers that have seen "closed" *)
  m_time : Z;
  m_lastgor : Z;
  m_bad : bool                                   (* some local check failed *)
}.

Definition sub_at (sm : summ) (s : Z) := nth_error (m_subs sm) (n s).
Definition pub_at (sm : summ) (p : Z) := nth_error (m_pubs sm) (n p).
Definition zin (x : Z) (l : list Z) : bool := existsb (Z.eqb x) l.

Definition zrange (k : nat) : list Z := map Z.of_nat (seq 0 k).

Definition bad (sm : summ) : summ :=
  mkSumm (m_subs sm) (m_pubs sm) (m_recv sm) (m_tout sm) (m_closed sm) (m_eof sm) (m_time sm) (m_lastgor sm) true.

(* At a marker after a full Advance: for a subscriber with OnTimeout that is not closed, the accepted visited
   pairs that are overdue by more than a tick and neither received nor called back can only be sitting in
   its buffer; more of them than the channel holds = a timeout that did not come within the generous bound. *)
Definition unresolved_overdue (sm : summ) (s : Z) : nat :=
  match nth_error (m_subs sm) (n s) with
  | Some (_, f, t, _, oT) =>
      if oT && negb (existsb (Z.eqb s) (m_closed sm)) then
        length (filter (fun pp =>
                  match nth_error (m_pubs sm) pp with
                  | Some (m, vis, t0) =>
                      existsb (Z.eqb s) vis && accepts f m && (t0 + t + 1 <? m_time sm)%Z
                      && negb (existsb (fun x => (fst x =? s)%Z && (snd x =? Z.of_nat pp)%Z) (m_recv sm))
                      && negb (existsb (fun x => (fst x =? s)%Z && (snd x =? Z.of_nat pp)%Z) (m_tout sm))
                  | None => false
                  end) (seq 0 (length (m_pubs sm))))
      else 0
  | None => 0
  end.
Definition late_timeouts (sm : summ) (lens : list Z) : bool :=
  existsb (fun i => n (nth i lens 0%Z) <? unresolved_overdue sm (Z.of_nat i)) (seq 0 (length (m_subs sm))).

(* c06 part: a received value was published, visited this subscriber, is accepted by its filter, and is
   new; nothing is received after "closed" was seen.
   c15 part: a timeout is for an accepted visited pair, not earlier than its own deadline, once, and
   the pair was not delivered. *)
Definition summ_step (sm : summ) (x : xl) : summ :=
  match x with
  | XSub c opts =>
      mkSumm (m_subs sm ++ [match xcfg opts with (f, t, oF, oT) => (c, f, t, oF, oT) end]) (m_pubs sm) (m_recv sm) (m_tout sm) (m_closed sm) (m_eof sm)
             (m_time sm) (m_lastgor sm) (m_bad sm)
  | XPub m vis =>
      (* published while subscribed: the call visits every subscriber that exists and has not been closed
         (scripts are sequential, so "during the whole call" = "now"), no closed one, none twice *)
      let ok := forallb (fun s => zin s (m_closed sm) || zin s vis) (zrange (length (m_subs sm)))
                && forallb (fun s => negb (zin s (m_closed sm)) && (n s <? length (m_subs sm))) vis
                && znodup vis in
      mkSumm (m_subs sm) (m_pubs sm ++ [(m, vis, m_time sm)]) (m_recv sm) (m_tout sm) (m_closed sm) (m_eof sm)
             (m_time sm) (m_lastgor sm) (m_bad sm || negb ok)
  | XRecvVal s p m =>
      let ok := match sub_at sm s, pub_at sm p with
                | Some (_, f, _, _, _), Some (m', vis, _) =>
                    (m' =? m)%Z && zin s vis && accepts f m && negb (zzmem (s, p) (m_recv sm))
                    && negb (zin s (m_eof sm)) && negb (zzmem (s, p) (m_tout sm))
                | _, _ => false
                end in
      mkSumm (m_subs sm) (m_pubs sm) ((s, p) :: m_recv sm) (m_tout sm) (m_closed sm) (m_eof sm)
             (m_time sm) (m_lastgor sm) (m_bad sm || negb ok)
  | XTimeout p s =>
      let ok := match sub_at sm s, pub_at sm p with
                | Some (_, f, t, _, _), Some (m, vis, t0) =>
                    zin s vis && accepts f m && (t0 + t <=? m_time sm)%Z
                    && negb (zzmem (s, p) (m_tout sm)) && negb (zzmem (s, p) (m_recv sm))
                | _, _ => false
                end in
      mkSumm (m_subs sm) (m_pubs sm) (m_recv sm) ((s, p) :: m_tout sm) (m_closed sm) (m_eof sm)
             (m_time sm) (m_lastgor sm) (m_bad sm || negb ok)
  | XRecvClosed s =>
      mkSumm (m_subs sm) (m_pubs sm) (m_recv sm) (m_tout sm) (m_closed sm) (s :: m_eof sm)
             (m_time sm) (m_lastgor sm) (m_bad sm || negb (zin s (m_closed sm)))
  | XRecvEmpty s =>
      (* Close has returned for s: its channel must be closed, an empty one reports "closed" *)
      mkSumm (m_subs sm) (m_pubs sm) (m_recv sm) (m_tout sm) (m_closed sm) (m_eof sm)
             (m_time sm) (m_lastgor sm) (m_bad sm || zin s (m_closed sm))
  | XTick k =>
      mkSumm (m_subs sm) (m_pubs sm) (m_recv sm) (m_tout sm) (m_closed sm) (m_eof sm)
             (m_time sm + k)%Z (m_lastgor sm) (m_bad sm)
  | XCloseSub s =>
      mkSumm (m_subs sm) (m_pubs sm) (m_recv sm) (m_tout sm) (s :: m_closed sm) (m_eof sm)
             (m_time sm) (m_lastgor sm) (m_bad sm)
  | XQuiet lens g mode =>
      mkSumm (m_subs sm) (m_pubs sm) (m_recv sm) (m_tout sm) (m_closed sm) (m_eof sm)
             (m_time sm) g (m_bad sm || ((mode =? 1)%Z && late_timeouts sm lens))
  | _ => sm
  end.

Definition summarize (tr : list xl) : summ :=
  fold_left summ_step tr (mkSumm [] [] [] [] [] [] 0%Z 0%Z false).


(* every accepted visited pair of a subscriber that was never closed, and that has not timed out, has
   been received (the script ends with a drain) *)
Definition complete_recv (sm : summ) : bool :=
  forallb (fun p =>
    match pub_at sm p with
    | Some (m, vis, _) =>
        forallb (fun s =>
          match sub_at sm s with
          | Some (_, f, _, _, _) =>
              implb (accepts f m && negb (zin s (m_closed sm)) && negb (zzmem (s, p) (m_tout sm)))
                    (zzmem (s, p) (m_recv sm))
          | None => false
          end) vis
    | None => false
    end) (zrange (length (m_pubs sm))).

(* own timeout, counted from the start of the delivery: the harness places XEnter no later than the delivery
   goroutine can have started waiting (right after the Publish began, or - for a subscriber with a filter - when
   its filter was consulted); a timeout of that pair earlier than its own timeout after that moment means the
   budget was spent elsewhere (another subscriber's slow filter, ...) *)
Record ot := mkOt { t_now : Z; t_tmo : list Z; t_enter : list (Z * Z * Z); t_bad : bool }.
Definition ot_step (a : ot) (x : xl) : ot :=
  match x with
  | XSub _ opts => mkOt (t_now a) (t_tmo a ++ [match xcfg opts with (_, t, _, _) => t end]) (t_enter a) (t_bad a)
  | XTick k => mkOt (t_now a + k)%Z (t_tmo a) (t_enter a) (t_bad a)
  | XEnter p s => mkOt (t_now a) (t_tmo a) ((s, p, t_now a) :: t_enter a) (t_bad a)
  | XTimeout p s =>
      let ok := match find (fun e => (fst (fst e) =? s)%Z && (snd (fst e) =? p)%Z) (t_enter a), nth_error (t_tmo a) (n s) with
                | Some (_, _, e), Some t => (e + Z.max 0 t <=? t_now a)%Z
                | _, _ => false
                end in
      mkOt (t_now a) (t_tmo a) (t_enter a) (t_bad a || negb ok)
  | _ => a
  end.
Definition own_timeout_ok (tr : list xl) : bool := negb (t_bad (fold_left ot_step tr (mkOt 0%Z [] [] false))).

Definition mon06 (tr : list xl) (o : obs) : bool :=
  let sm := summarize tr in
  (* a call into the package (Publish, Subscribe, Close - also one made from inside a filter or callback) that does
     not return within 3s: whoever that Publish had not visited yet never gets the message *)
  negb (o_blocked o) &&
  negb (m_bad sm) && own_timeout_ok tr && implb (o_complete o) (complete_recv sm).

(* OnFiltered exactly once per rejected visited pair of a subscriber with the callback, never otherwise *)
Definition expected_cbF (sm : summ) : list (Z * Z) :=
  flat_map (fun p =>
    match pub_at sm p with
    | Some (m, vis, _) =>
        flat_map (fun s => match sub_at sm s with
                           | Some (_, f, _, oF, _) => if negb (accepts f m) && oF then [(s, p)] else []
                           | None => []
                           end) vis
    | None => []
    end) (zrange (length (m_pubs sm))).

(* a subscriber with OnTimeout whose pair's own deadline has passed long ago (the script's last marker
   is a settled one), was accepted, not received, and not closed, must have had its callback *)
Definition accounted (sm : summ) : bool :=
  forallb (fun p =>
    match pub_at sm p with
    | Some (m, vis, t0) =>
        forallb (fun s =>
          match sub_at sm s with
          | Some (_, f, t, _, oT) =>
              implb (accepts f m && oT && negb (zin s (m_closed sm)) && negb (zzmem (s, p) (m_recv sm))
                     && (t0 + t <? m_time sm)%Z)
                    (zzmem (s, p) (m_tout sm))
          | None => false
          end) vis
    | None => false
    end) (zrange (length (m_pubs sm))).

Definition mon15 (tr : list xl) (o : obs) : bool :=
  let sm := summarize tr in
  negb (m_bad sm) && negb (o_blocked o) && own_timeout_ok tr
  && implb (o_complete o)
       (list_eqb zz_eqb (zzsort (expected_cbF sm)) (zzsort (o_cbF o))
        && accounted sm && (m_lastgor sm =? 0)%Z && complete_recv sm).

(* buffer kept: what a subscriber receives between its close and the moment it sees "closed" is exactly
   as many values as its channel held at the last quiescent point before the close *)
Record bk := mkBk { b_lens : list Z (* subscriber ids, one per message that entered a buffer *);
                    b_recv : list Z; b_close : list (Z * Z * Z); b_bad : bool }.
Definition zcount (s : Z) (l : list Z) : Z := Z.of_nat (length (filter (Z.eqb s) l)).
Definition bk_step (b : bk) (x : xl) : bk :=
  match x with
  | XDeliver _ s => mkBk (s :: b_lens b) (b_recv b) (b_close b) (b_bad b)
  | XRecvVal s _ _ => mkBk (b_lens b) (s :: b_recv b) (b_close b) (b_bad b)
  | XCloseSub s =>
      if existsb (fun c => (fst (fst c) =? s)%Z) (b_close b) then b
      else mkBk (b_lens b) (b_recv b)
                ((s, Z.max 0 (zcount s (b_lens b) - zcount s (b_recv b)), zcount s (b_recv b)) :: b_close b) (b_bad b)
  | XRecvClosed s =>
      match find (fun c => (fst (fst c) =? s)%Z) (b_close b) with
      | Some (_, buffered, r) =>
          mkBk (b_lens b) (b_recv b) (b_close b) (b_bad b || negb (zcount s (b_recv b) - r =? buffered)%Z)
      | None => b
      end
  | _ => b
  end.
Definition buffer_kept_ok (tr : list xl) : bool := negb (b_bad (fold_left bk_step tr (mkBk [] [] [] false))).

Definition mon10 (tr : list xl) (o : obs) : bool :=
  let sm := summarize tr in
  negb (o_panic o) && negb (o_blocked o) && negb (m_bad sm) && buffer_kept_ok tr && own_timeout_ok tr && implb (o_complete o) (complete_recv sm && (m_lastgor sm =? 0)%Z).

Definition verdict_with (mon : list xl -> obs -> bool) (c : case) : nat :=
  match c with
  | CScript tr o =>
      if negb (mon tr o) then 1
      else if o_panic o || negb (o_complete o) then 2
      else if model_ok tr o then 0 else 2
  end.

Definition mismatches06 (cs : list case) := collect (verdict_with mon06) 0 cs.
Definition mismatches15 (cs : list case) := collect (verdict_with mon15) 0 cs.
Definition mismatches10 (cs : list case) := collect (verdict_with mon10) 0 cs.

(* debugging aid: index of the first trace item the model rejects *)
Definition explain (c : case) : option nat :=
  match c with CScript tr _ => match replay init 0 tr with inr i => Some i | inl _ => None end end.
