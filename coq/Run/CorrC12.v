(* Correspondence + monitor for C12: each case carries the inputs the harness gave to the real
   sliceOps function and what it observed; the model (proved equal to the specification in
   Props/C12.v) is evaluated on the same inputs. *)
From Coq Require Import List ZArith Bool Arith.
From TC.Model Require Import SliceOps.
From TC.Run Require Import RunLib.
Import ListNotations.

Inductive case :=
| CRemove (b : list Z) (len i j : Z) (vis b' : list Z) (len' : Z)
| CCut (b : list Z) (len i j : Z) (ret vis b' : list Z) (len' : Z)
| CInsert (s : list Z) (i : Z) (v ret : list Z)
| CFilter (keepset b : list Z) (len : Z) (vis b' : list Z) (len' : Z)
| CFilterSt (kind nn : Z) (set b : list Z) (len : Z) (offered vis b' : list Z) (len' : Z)
| CPush (s v ret : list Z) (old_backing_same : bool)
| CPop (b : list Z) (len : Z) (ret : Z) (vis b' : list Z) (len' : Z)
| CDistinct (s ret : list Z) (args_same : bool)
| CUnion (ss : list (list Z)) (ret : list Z) (args_same : bool)
| CInter (ss : list (list Z)) (ret : list Z) (args_same : bool)
| CDiff (s1 s2 ret : list Z) (args_same : bool)
| CDisjoin (ss : list (list Z)) (ret : list Z) (args_same : bool).

(* the stateful predicates of harness/cmd/c12 (doFilterSt), state = one integer starting at 0 *)
Definition spred (kind nn : Z) (set : list Z) (st e : Z) : bool * Z :=
  match kind with
  | 0%Z => (Z.even st, (st + 1)%Z)
  | 1%Z => if Z.eqb st 0 && zmem e set then (false, 1%Z) else (true, st)
  | 2%Z => if Z.ltb st nn && zmem e set then (false, (st + 1)%Z) else (true, st)
  | 3%Z => (Z.ltb st nn, (st + 1)%Z)
  | _ => (negb (Bool.eqb (zmem e set) (Z.odd st)), (st + 1)%Z)
  end.

Definition same_set (obs model : list Z) : bool :=
  znodup obs && zlist_eqb (zsort obs) (zsort model).

Definition ok (b : bool) : nat := if b then 0 else 1.

Definition verdict (c : case) : nat :=
  match c with
  | CRemove b len i j vis b' len' =>
      match remove 0%Z b (n len) (n i) (n j) with
      | Some (mb, ml) => ok (zlist_eqb b' mb && Z.eqb len' (Z.of_nat ml) && zlist_eqb vis (firstn ml mb))
      | None => 1
      end
  | CCut b len i j ret vis b' len' =>
      match cut 0%Z b (n len) (n i) (n j) with
      | Some (mr, mb, ml) => ok (zlist_eqb ret mr && zlist_eqb b' mb && Z.eqb len' (Z.of_nat ml) && zlist_eqb vis (firstn ml mb))
      | None => 1
      end
  | CInsert s i v ret =>
      match insert s (n i) v with
      | Some mr => ok (zlist_eqb ret mr)
      | None => 1
      end
  | CFilter keepset b len vis b' len' =>
      match filter_in_place 0%Z (fun x => zmem x keepset) b (n len) with
      | Some (mb, ml) => ok (zlist_eqb b' mb && Z.eqb len' (Z.of_nat ml) && zlist_eqb vis (firstn ml mb))
      | None => 1
      end
  | CFilterSt kind nn set b len offered vis b' len' =>
      (* the model result, and: the predicate was offered each visible element exactly once, in order *)
      match filter_in_place_st 0%Z (spred kind nn set) 0%Z b (n len) with
      | Some (mb, ml, _) => ok (zlist_eqb b' mb && Z.eqb len' (Z.of_nat ml) && zlist_eqb vis (firstn ml mb)
                                && zlist_eqb offered (firstn (n len) b))
      | None => 1
      end
  | CPush s v ret same => ok (zlist_eqb ret (push s v) && same)
  | CPop b len ret vis b' len' =>
      match pop 0%Z b (n len) with
      | Some (mr, mb, ml) => ok (Z.eqb ret mr && zlist_eqb b' mb && Z.eqb len' (Z.of_nat ml) && zlist_eqb vis (firstn ml mb))
      | None => 1
      end
  | CDistinct s ret same => ok (same_set ret (distinct Z.eqb s) && same)
  | CUnion ss ret same => ok (same_set ret (union Z.eqb ss) && same)
  | CInter ss ret same => ok (same_set ret (intersection Z.eqb ss) && same)
  | CDiff s1 s2 ret same => ok (same_set ret (difference Z.eqb s1 s2) && same)
  | CDisjoin ss ret same => ok (same_set ret (disjoin Z.eqb ss) && same)
  end.

Definition mismatches (cs : list case) : list (nat * nat) := collect verdict 0 cs.
