(* Correspondence + monitor for X05 (rankCalculation).
   A float64 observed by the harness is given EXACTLY as m * 2^e ([FD m e]; NaN and the infinities apart).
   It is compared with the model's exact rational percentile p by [approx]: equal when p is 0 or 100 (the
   code assigns / computes these without rounding), otherwise |x - p| <= |p| / 2^50 — at most four float64
   roundings (two int64 conversions, one division, one multiplication), each of relative size <= 2^-53, give
   a relative error < 5 * 2^-53 < 2^-50.  All arithmetic here is on integers (Z), evaluated by vm_compute.
   Positional ranking: sort.Sort is unstable, so the observed map is not compared with the model's own
   order; the keys are ordered by their observed percentile and that order must be admissible (X02 monitor)
   with the i-th percentile matching position i ([positional_ok], Props/X05.v X05_monitor_sound). *)
From Coq Require Import List ZArith QArith Bool.
From TC.Lib Require Import Assoc.
From TC.Model Require Export MapOps Rank.
From TC.Run Require Import RunLib.
Import ListNotations.
Local Open Scope Z_scope.

Inductive fl := FD (m e : Z) | FNaN | FInf (neg : bool).

Definition tol_bits : Z := 50.

(* x = mm * 2^e  vs  q = a / b *)
Definition approx_q (mm e : Z) (q : Q) : bool :=
  let a := Qnum q in let b := Zpos (Qden q) in
  let s := if e <? 0 then 2 ^ (- e) else 1 in      (* common scale: compare mm*t*b with a*s *)
  let t := if e <? 0 then 1 else 2 ^ e in
  if (a =? 0) || (a =? 100 * b) then mm * t * b =? a * s
  else Z.abs (mm * t * b - a * s) * 2 ^ tol_bits <=? Z.abs a * s.

Definition approx (x : fl) (p : pct) : bool :=
  match x, p with
  | FD mm e, PQ q => approx_q mm e q
  | FNaN, PNaN => true
  | FInf true, PNegInf => true
  | _, _ => false
  end.

(* order of observed floats (numbers only; anything else sorts first and is rejected by approx anyway) *)
Definition fl_lt (x y : fl) : bool :=
  match x, y with
  | FD m1 e1, FD m2 e2 => let e := Z.min e1 e2 in m1 * 2 ^ (e1 - e) <? m2 * 2 ^ (e2 - e)
  | FD _ _, _ => false
  | _, FD _ _ => true
  | _, _ => false
  end.
Definition by_observed (o : list (Z * fl)) : list (Z * fl) := isort (fun a b => fl_lt (snd a) (snd b)) o.

Definition obs_ok (positional : bool) (m : list (Z * Z)) (o : list (Z * fl)) : bool :=
  rank_ok Z.eqb approx positional m (if positional then by_observed o else o).

(* the model's own answer, rendered exactly, must pass its monitor (guards against editing one of the two) *)
Definition model_ok (positional : bool) (m : list (Z * Z)) : bool :=
  rank_ok Z.eqb exact_pct positional m (rank Z.eqb positional m).

(* options / events as the harness prints them *)
Inductive zranker := ZPercentile (positional : bool) | ZConst (c : Z).
Inductive zopt := ZWithRanker (r : zranker) | ZWithRankPositionally.
Inductive zev := ZAcc (k : Z) | ZReset | ZCalc.

Definition to_ranker (r : zranker) : @ranker Z :=
  match r with
  | ZPercentile p => Percentile p
  | ZConst c => Custom (fun it => map (fun e => (fst e, PQ (inject_Z c))) it)
  end.
Definition to_opt (o : zopt) : @copt Z :=
  match o with ZWithRanker r => WithRanker (to_ranker r) | ZWithRankPositionally => WithRankPositionally end.

Inductive case :=
| CRank (positional : bool) (m : list (Z * Z)) (obs : list (list (Z * fl)))
| CCalc (opts : list zopt) (evs : list zev) (obs : list (list (Z * fl))).

(* a custom ranker's result is a function of the counts: compare per key with what the model's ranker returns *)
Definition custom_ok (expected : list (Z * pct)) (o : list (Z * fl)) : bool :=
  Nat.eqb (length o) (length expected) && znodup (map fst o)
  && forallb (fun kx => match lookup Z.eqb (fst kx) expected with
                        | Some p => approx (snd kx) p
                        | None => false
                        end) o.

(* the ranker is the one the MODEL's constructor installed from the options *)
Definition calc_obs_ok (c : @calc Z) (o : list (Z * fl)) : bool :=
  match rk c with
  | Percentile p => obs_ok p (entries c) o
  | Custom f => custom_ok (f (entries c)) o
  end.

(* walk the events on the model state; every ZCalc consumes one observation *)
Fixpoint check_events (c : @calc Z) (evs : list zev) (obs : list (list (Z * fl))) : bool :=
  match evs with
  | [] => match obs with [] => true | _ => false end
  | ZAcc k :: t => check_events (accumulate Z.eqb k c) t obs
  | ZReset :: t => check_events (reset c) t obs
  | ZCalc :: t => match obs with
                  | o :: ot => calc_obs_ok c o && check_events c t ot
                  | [] => false
                  end
  end.

Definition verdict (c : case) : nat :=
  match c with
  | CRank positional m obs =>
      if negb (znodup (map fst m)) then 1
      else if negb (forallb (obs_ok positional m) obs) then 1
      else if negb (model_ok positional m) then 2
      else match obs with [] => 1 | _ => 0 end
  | CCalc opts evs obs =>
      if check_events (new_calc (map to_opt opts)) evs obs then 0 else 1
  end.

Definition mismatches (cs : list case) : list (nat * nat) := collect verdict 0 cs.
