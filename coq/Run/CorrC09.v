(* Correspondence + monitor for C09 (worker count, work conservation, back-pressure, ResizeQueueLength).
   Scripted cases from harness/cmd/wqscript -prop C09, evaluated by Run/CorrWQ.v.
   Black-box monitor on the implementation's log alone: after every stimulus the number of work functions that have
   started and not been released is at most W, and (scripts of this profile have no errors, no Dequeue, no Stop) it
   equals min(k, W) for k = Enqueue calls made - items released.
   Model-relative monitor: start sets and returned Enqueue calls must be among the model's predictions. *)
From Coq Require Import List ZArith Bool Arith.
From TC.Model Require Import WQ.
From TC.Run Require Import RunLib.
From TC.Run Require Export CorrWQ.
Import ListNotations.

Definition rel_C09 (m o : obs) : bool :=
  zlist_eqb (o_started m) (o_started o) && zlist_eqb (o_returned m) (o_returned o).

(* fold over the script: (#Enqueue calls, #started, #released, pure) ; pure = no error result / Dequeue / Stop so far *)
Fixpoint mon_run (W : nat) (sc : list (stim * obs)) (enq started fin : nat) (pure : bool) : bool :=
  match sc with
  | [] => true
  | (st, o) :: rest =>
      let enq' := match st with SEnq _ _ _ => S enq | _ => enq end in
      let fin' := match st with SFinish _ _ => S fin | _ => fin end in
      let pure' := pure && match st with
                           | SFinish _ e => (e <? 0)%Z
                           | SDequeue _ | SStop | SBreak | SErrSub | SErrRecv _ => false
                           | _ => true
                           end in
      let started' := started + length (o_started o) in
      let running := started' - fin' in
      (running <=? W) && (negb pure' || (running =? Nat.min (enq' - fin') W)) && mon_run W rest enq' started' fin' pure'
  end.
Definition mon_C09 (c : wcase) : bool := mon_run (n (c_W c)) (c_script c) 0 0 0 true.

Definition case := wcase.
Definition verdict (c : case) : nat := if mon_C09 c then classify rel_C09 c else 1.
Definition mismatches (cs : list case) : list (nat * nat) := collect verdict 0 cs.
