(* Correspondence + monitor for C09 (worker count, work conservation, back-pressure, ResizeQueueLength).
   Scripted cases from harness/cmd/wqscript -prop C09, evaluated by Run/CorrWQ.v.
   Black-box monitor on the implementation's log alone: after every stimulus the number of work functions that have
   started and not been released is at most W, and (scripts of this profile have no errors, no Dequeue, no Stop) it
   equals min(k, W) for k = Enqueue calls made - items released - also when work functions return errors (exactly
   when no error subscriber exists; with subscribers the fan-out may legitimately hold a worker, see mon_run).
   Model-relative monitor: start sets and returned Enqueue calls must be among the model's predictions. *)
From Coq Require Import List ZArith Bool Arith.
From TC.Model Require Import WQ.
From TC.Run Require Import RunLib.
From TC.Run Require Export CorrWQ.
Import ListNotations.

Definition rel_C09 (m o : obs) : bool :=
  zlist_eqb (o_started m) (o_started o) && zlist_eqb (o_returned m) (o_returned o).

(* fold over the script: (#Enqueue calls, ids started, #released, ids dequeued, pure, subs, errs);
   pure = no Stop / Break so far; subs = some Errors() subscription so far; errs = some work function returned an
   error so far.  A completion with an error counts as a completion: its worker hands its token back like any other
   (with no subscriber the monitor just drops the error).  Only when BOTH a subscriber and an error exist can a worker
   be held up at errChan by a fan-out that waits for a subscriber; then the equality is left to the model-relative
   comparison and only running <= W is asserted here.
   A Dequeue that returns nil for an accepted item that has not started takes that item out of the unfinished ones
   (C16: it never starts); any other Dequeue changes nothing.  So k = Enqueue calls - completions - such dequeues. *)
Fixpoint mon_run (W : nat) (sc : list (stim * obs)) (enq : nat) (started : list Z) (fin : nat) (deq : list Z)
         (pure subs errs : bool) : bool :=
  match sc with
  | [] => true
  | (st, o) :: rest =>
      let enq' := match st with
                  | SEnq _ _ _ => S enq
                  | SBatch subs => enq + length (filter (fun x => match x with SEnq _ _ _ => true | _ => false end) subs)
                  | _ => enq
                  end in
      let fin' := match st with
                  | SFinish _ _ => S fin
                  | SBatch subs => fin + length (filter (fun x => match x with SFinish _ _ => true | _ => false end) subs)
                  | _ => fin
                  end in
      let deq' := match st with
                  | SDequeue i =>
                      if (o_res o =? 0)%Z && (0 <=? i)%Z && (i <? Z.of_nat enq)%Z
                         && negb (zmem i started) && negb (zmem i deq)
                      then i :: deq else deq
                  | _ => deq
                  end in
      let pure' := pure && match st with SStop | SBreak | SBatch _ => false | _ => true end in
      let subs' := subs || match st with SErrSub => true | _ => false end in
      let errs' := errs || match st with SFinish _ e => negb (e <? 0)%Z | _ => false end in
      let exact := pure' && negb (subs' && errs') in
      let started' := started ++ o_started o in
      let running := length started' - fin' in
      (running <=? W) && (negb exact || (running =? Nat.min (enq' - fin' - length deq') W))
      && mon_run W rest enq' started' fin' deq' pure' subs' errs'
  end.
(* Back-pressure bounds on the log alone, while nothing has completed: the number of returned Enqueue calls never
   exceeds L + 2W + 1, and while some call is blocked at a quiescent moment at least W + L + 1 have returned.  L is the
   configured length, or the argument of a ResizeQueueLength issued before the first Enqueue; a later resize, a
   completion, Dequeue, Stop or Break ends the clause. *)
Fixpoint mon_bp (W L : nat) (sc : list (stim * obs)) (enq ret : nat) : bool :=
  match sc with
  | [] => true
  | (st, o) :: rest =>
      match st with
      | SEnq _ _ _ =>
          let enq' := S enq in
          let ret' := ret + length (o_returned o) in
          (ret' <=? L + 2 * W + 1) && ((enq' <=? ret') || (W + L + 1 <=? ret')) && mon_bp W L rest enq' ret'
      | SResize l => if enq =? 0 then mon_bp W (n l) rest enq ret else true
      | SAdj _ _ | SErrSub | SSib _ => mon_bp W L rest enq ret
      | _ => true
      end
  end.
Definition mon_C09 (c : wcase) : bool :=
  mon_run (n (c_W c)) (c_script c) 0 [] 0 [] true false false
  && mon_bp (n (c_W c)) (n (c_L c)) (c_script c) 0 0.

Definition case := wcase.
Definition verdict (c : case) : nat :=
  if negb (mon_nohang c) then 1 (* a caller hangs *) else if mon_C09 c then classify rel_C09 c else 1.
Definition mismatches (cs : list case) : list (nat * nat) := collect verdict 0 cs.
