(* Correspondence + monitors for the sequential cache properties C01, C02, C03, C13.
   A case is one history executed on the real FifoMapCache (sweeps held by the verif hook, so Sweep
   happens exactly where the history says) together with everything the harness observed.
   [verdict]: 2 when an observed output differs from the model's; 1 when the selected property's
   black-box monitor (computed from the OBSERVED outputs only) fails; 0 otherwise. *)
From Coq Require Import List ZArith Bool Arith.
From TC.Lib Require Import Assoc.
From TC.Model Require Import Cache CacheGhost.
From TC.Run Require Import RunLib.
Import ListNotations.

Inductive copt := ODefault | OBalanced (minimum : Z).

(* observed block: Get for keys 1..U (0 = zero value / absent), Contains for 1..U, Keys and Values sorted, Len, Capacity *)
Record oblock := { ogets : list Z; ocontains : list bool; okeys : list Z; ovalues : list Z; olen : Z; ocap : Z }.

Inductive hop :=
| HSet (k v : Z) (was_present : bool)      (* Contains(k) observed just before the Set *)
| HGet (k r : Z) | HContains (k : Z) (b : bool) | HDelete (k : Z)
| HSweep | HClear
| HResize (n root : Z) (order : list (list Z))   (* root = floor(n^(1/nRoot)) computed by the harness (ignored for ODefault) *)
| HObs (o : oblock).

Inductive case := CHist (mon : Z) (opt : copt) (cap root : Z) (ops : list hop).

Definition calc (opt : copt) (root n : Z) : nat * nat :=
  match opt with
  | ODefault => calc_default (Z.to_nat n)
  | OBalanced m => calc_balanced (Z.to_nat root) (Z.to_nat m) (Z.to_nat n)
  end.

Notation st := (@state Z Z).

Definition zget (s : st) (k : Z) : Z := match get Z.eqb s k with Some v => v | None => 0%Z end.
Fixpoint zrange (from : Z) (n : nat) : list Z := match n with 0 => [] | S m => from :: zrange (from + 1) m end.

Definition blist_eqb := list_eqb Bool.eqb.

Definition obs_of (s : st) (u : nat) : oblock :=
  let ks := zrange 1 u in
  {| ogets := map (zget s) ks; ocontains := map (contains Z.eqb s) ks;
     okeys := zsort (keys_of s); ovalues := zsort (values_of s);
     olen := Z.of_nat (len s); ocap := Z.of_nat (capacity s) |}.

Definition oblock_eqb (a b : oblock) : bool :=
  zlist_eqb (ogets a) (ogets b) && blist_eqb (ocontains a) (ocontains b)
  && zlist_eqb (okeys a) (okeys b) && zlist_eqb (ovalues a) (ovalues b)
  && Z.eqb (olen a) (olen b) && Z.eqb (ocap a) (ocap b).

(* ---- model execution against the observed outputs: true = all outputs agree ---- *)
Fixpoint agree (opt : copt) (s : st) (ops : list hop) : bool :=
  match ops with
  | [] => true
  | o :: t =>
      match o with
      | HSet k v wp => Bool.eqb wp (contains Z.eqb s k) && agree opt (set Z.eqb s k v) t
      | HGet k r => Z.eqb r (zget s k) && agree opt s t
      | HContains k b => Bool.eqb b (contains Z.eqb s k) && agree opt s t
      | HDelete k => agree opt (delete Z.eqb s k) t
      | HSweep => agree opt (sweep s) t
      | HClear => agree opt (clear s) t
      | HResize n root order =>
          valid_order Z.eqb (parts s) order && agree opt (resize Z.eqb s (calc opt root n) order) t
      | HObs ob => oblock_eqb ob (obs_of s (length (ogets ob))) && agree opt s t
      end
  end.

(* ---- black-box monitors over the observed history ---- *)
Definition zlookup {A} := @lookup Z A Z.eqb.
Fixpoint nth_z (l : list Z) (i : nat) : Z := match l, i with x :: _, 0 => x | _ :: t, S j => nth_z t j | [], _ => 0%Z end.
Fixpoint nth_b (l : list bool) (i : nat) : bool := match l, i with x :: _, 0 => x | _ :: t, S j => nth_b t j | [], _ => false end.

(* the views inside one observation block describe one set of entries *)
Definition views_ok (ob : oblock) : bool :=
  let u := length (ogets ob) in
  let ks := zrange 1 u in
  let present := filter (fun k => nth_b (ocontains ob) (Z.to_nat k - 1)) ks in
  znodup (okeys ob)
  && zlist_eqb (zsort present) (okeys ob)                                 (* Contains(k) <-> k in Keys *)
  && zlist_eqb (zsort (map (fun k => nth_z (ogets ob) (Z.to_nat k - 1)) (okeys ob))) (ovalues ob)  (* Values = Get of each key *)
  && Z.eqb (olen ob) (Z.of_nat (length (okeys ob)))
  && forallb (fun k => Bool.eqb (nth_b (ocontains ob) (Z.to_nat k - 1)) (negb (Z.eqb (nth_z (ogets ob) (Z.to_nat k - 1)) 0))) ks.

(* monitor state: ideal map (Set/Delete/Clear only), keys Set since the previous observation block,
   the previous block, ghost born/n_ins kept from the observed was_present flags *)
Record mstate := {
  m_ideal : list (Z * Z);
  m_touched : list Z;
  m_prev : option oblock;
  m_born : list (Z * nat);
  m_clock : nat;
  m_nins : nat;
  m_swept : bool;      (* the last state-changing label was a Sweep (quiescent point) *)
  m_noresize : bool;   (* no Resize since the start: the geometry is still the constructor's (Clear keeps the geometry of the last Resize, so it does not reset this) *)
  m_last : option (Z * Z * bool); (* the Set just executed: key, value, was the cache quiescent before it *)
  m_pswept : option oblock;       (* the last observation block taken at a quiescent (swept) point *)
  m_ins : nat;                    (* insertions since that block *)
  m_dirty : bool                  (* a Delete / Clear / Resize since that block *)
}.
Definition m0 : mstate :=
  {| m_ideal := []; m_touched := []; m_prev := None; m_born := []; m_clock := 0; m_nins := 0; m_swept := true; m_noresize := true; m_last := None; m_pswept := None; m_ins := 0; m_dirty := false |}.

Definition present_in (ob : oblock) (k : Z) : bool := negb (Z.eqb (nth_z (ogets ob) (Z.to_nat k - 1)) 0).

(* C01 at a block: every Get is the latest Set value or zero; views consistent; absent keys stay absent *)
Definition c01_block (m : mstate) (ob : oblock) : bool :=
  let ks := zrange 1 (length (ogets ob)) in
  views_ok ob
  && forallb (fun k => let r := nth_z (ogets ob) (Z.to_nat k - 1) in
                       Z.eqb r 0 || match zlookup k (m_ideal m) with Some v => Z.eqb r v | None => false end) ks
  && match m_prev m with
     | Some pb => forallb (fun k => present_in pb k || zmem k (m_touched m) || negb (present_in ob k)) ks
     | None => true
     end.

(* C02 at a block right after a Sweep: Len <= Capacity *)
Definition c02_block (m : mstate) (ob : oblock) : bool :=
  negb (m_swept m) || (olen ob <=? ocap ob)%Z.

(* C03 at a block after a Sweep, histories without Resize: FIFO by insertion, nothing early *)
Definition c03_block (m : mstate) (ob : oblock) : bool :=
  negb (m_swept m && m_noresize m)
  || (forallb (fun a => forallb (fun b =>
                 negb (Nat.ltb (snd a) (snd b)) || negb (present_in ob (fst a)) || present_in ob (fst b))
               (m_born m)) (m_born m)
      && (negb (Nat.leb (m_nins m) (Z.to_nat (ocap ob)))
          || forallb (fun a => present_in ob (fst a)) (m_born m))).

(* C03: with prompt sweeps each overflow evicts at most one partition's worth (Capacity / partitions):
   between two consecutive quiescent blocks separated by exactly one insertion and no Delete/Clear/Resize,
   Len drops by at most C - 1 *)
Definition c03_one_partition (nparts : Z) (m : mstate) (ob : oblock) : bool :=
  negb (m_swept m && m_noresize m) || m_dirty m || negb (Nat.eqb (m_ins m) 1)
  || match m_pswept m with
     | Some pb => (olen pb + 1 - (ocap ob / nparts) <=? olen ob)%Z
     | None => true
     end.

Definition block_ok (mon : Z) (m : mstate) (ob : oblock) : bool :=
  match mon with
  | 1%Z => c01_block m ob
  | 2%Z => c02_block m ob
  | 3%Z => c03_block m ob
  | 13%Z => c02_block m ob   (* "Clear = like new" and the Resize clauses imply the bound of C02 at every swept block *)
  | _ => true
  end.
Definition block_ok' (mon : Z) (nparts : Z) (m : mstate) (ob : oblock) : bool :=
  block_ok mon m ob && (negb (Z.eqb mon 3) || c03_one_partition nparts m ob).

(* C13 around a Resize is checked on the blocks immediately before and after it (see [monitor]) *)
Definition c13_resize (before after : oblock) (pc : nat * nat) (order : list (list Z)) : bool :=
  let ks := zrange 1 (length (ogets after)) in
  Z.eqb (ocap after) (Z.of_nat (fst pc * snd pc))
  && forallb (fun k => negb (present_in after k)
                       || Z.eqb (nth_z (ogets after) (Z.to_nat k - 1)) (nth_z (ogets before) (Z.to_nat k - 1))) ks
  && (olen after <=? ocap after)%Z
  && (negb (olen before <=? ocap after)%Z || forallb (fun k => negb (present_in before k) || present_in after k) ks)
  && (* survivors form a suffix of the replay order *)
     (fix suffix (l : list Z) (seen_survivor : bool) : bool :=
        match l with
        | [] => true
        | k :: t => let p := present_in after k in
                    (negb seen_survivor || p) && suffix t (seen_survivor || p)
        end) (concat order) false.

Fixpoint monitor (mon : Z) (opt : copt) (nparts : Z) (m : mstate) (ops : list hop) : bool :=
  match ops with
  | [] => true
  | o :: t =>
      match o with
      | HSet k v wp =>
          (* C01: Get right after Set is checked through the following HGet emitted by the harness *)
          let m' := {| m_ideal := upsert Z.eqb k v (m_ideal m); m_touched := k :: m_touched m; m_prev := m_prev m;
                       m_born := if wp then m_born m else upsert Z.eqb k (m_clock m) (m_born m);
                       m_clock := S (m_clock m); m_nins := if wp then m_nins m else S (m_nins m);
                       m_swept := false; m_noresize := m_noresize m; m_last := Some (k, v, m_swept m);
                       m_pswept := m_pswept m; m_ins := if wp then m_ins m else S (m_ins m); m_dirty := m_dirty m |} in
          monitor mon opt nparts m' t
      | HGet k r =>
          (negb (Z.eqb mon 1)
           || match m_last m with
              | Some (k', v', _) => if Z.eqb k k' then Z.eqb r v' else true   (* Get right after Set returns v *)
              | None => true
              end
              && (Z.eqb r 0 || match zlookup k (m_ideal m) with Some v => Z.eqb r v | None => false end))
          && monitor mon opt nparts m t
      | HContains _ _ => monitor mon opt nparts m t
      | HDelete k =>
          monitor mon opt nparts {| m_ideal := remove Z.eqb k (m_ideal m); m_touched := m_touched m; m_prev := m_prev m;
                             m_born := remove Z.eqb k (m_born m); m_clock := S (m_clock m); m_nins := m_nins m;
                             m_swept := m_swept m; m_noresize := m_noresize m; m_last := None;
                             m_pswept := m_pswept m; m_ins := m_ins m; m_dirty := true |} t
      | HSweep =>
          monitor mon opt nparts {| m_ideal := m_ideal m; m_touched := m_touched m; m_prev := m_prev m; m_born := m_born m;
                             m_clock := m_clock m; m_nins := m_nins m; m_swept := true; m_noresize := m_noresize m;
                             m_last := match m_last m with Some (k, v, true) => Some (k, v, true) | _ => None end;
                             m_pswept := m_pswept m; m_ins := m_ins m; m_dirty := m_dirty m |} t
      | HClear =>
          (* C13: Clear leaves an empty cache of unchanged capacity (block right after it vs the last block before) *)
          (match mon, m_prev m, t with
           | 13%Z, Some before, HObs after :: _ =>
               Z.eqb (ocap after) (ocap before) && Z.eqb (olen after) 0
               && forallb (Z.eqb 0) (ogets after) && Nat.eqb (length (okeys after)) 0 && Nat.eqb (length (ovalues after)) 0
           | _, _, _ => true
           end)
          && monitor mon opt nparts {| m_ideal := []; m_touched := m_touched m; m_prev := m_prev m; m_born := [];
                             m_clock := S (m_clock m); m_nins := 0; m_swept := true; m_noresize := m_noresize m; m_last := None;
                             m_pswept := m_pswept m; m_ins := m_ins m; m_dirty := true |} t
      | HResize n root order =>
          (match mon, m_prev m, t with
           | 13%Z, Some before, HObs after :: _ =>
               (* a Resize that keeps the geometry is a no-op: nothing to check beyond capacity *)
               if Z.eqb (ocap before) (Z.of_nat (fst (calc opt root n) * snd (calc opt root n)))
               then Z.eqb (ocap after) (ocap before)
               else c13_resize before after (calc opt root n) order
           | _, _, _ => true
           end)
          && monitor mon opt nparts {| m_ideal := m_ideal m; m_touched := m_touched m; m_prev := m_prev m; m_born := m_born m;
                                m_clock := m_clock m; m_nins := m_nins m; m_swept := m_swept m; m_noresize := false; m_last := None;
                                m_pswept := m_pswept m; m_ins := m_ins m; m_dirty := true |} t
      | HObs ob =>
          block_ok' mon nparts m ob
          && monitor mon opt nparts {| m_ideal := m_ideal m; m_touched := []; m_prev := Some ob; m_born := m_born m;
                                m_clock := m_clock m; m_nins := m_nins m; m_swept := m_swept m; m_noresize := m_noresize m;
                                m_last := m_last m;
                                m_pswept := if m_swept m then Some ob else m_pswept m;
                                m_ins := if m_swept m then 0 else m_ins m;
                                m_dirty := if m_swept m then false else m_dirty m |} t
      end
  end.

(* C02 rounding: Capacity() of a new cache <= requested < Capacity() + partitions *)
Definition rounding_ok (opt : copt) (cap root : Z) (ops : list hop) : bool :=
  match ops with
  | HObs ob :: _ =>
      let p := Z.of_nat (fst (calc opt root cap)) in
      (ocap ob <=? cap)%Z && (cap <? ocap ob + p)%Z
  | _ => true
  end.

Definition verdict (c : case) : nat :=
  match c with
  | CHist mon opt cap root ops =>
      let pc := calc opt root cap in
      let ok_mon := monitor mon opt (Z.of_nat (fst pc)) m0 ops && (negb (Z.eqb mon 2) || rounding_ok opt cap root ops) in
      if negb ok_mon then 1
      else if agree opt (init (fst pc) (snd pc)) ops then 0 else 2
  end.

Definition mismatches (cs : list case) : list (nat * nat) := collect verdict 0 cs.

(* index of the first label whose observed output differs from the model (debugging / replay files) *)
Fixpoint first_bad (opt : copt) (s : st) (ops : list hop) (i : nat) : option nat :=
  match ops with
  | [] => None
  | o :: t =>
      match o with
      | HSet k v wp => if Bool.eqb wp (contains Z.eqb s k) then first_bad opt (set Z.eqb s k v) t (S i) else Some i
      | HGet k r => if Z.eqb r (zget s k) then first_bad opt s t (S i) else Some i
      | HContains k b => if Bool.eqb b (contains Z.eqb s k) then first_bad opt s t (S i) else Some i
      | HDelete k => first_bad opt (delete Z.eqb s k) t (S i)
      | HSweep => first_bad opt (sweep s) t (S i)
      | HClear => first_bad opt (clear s) t (S i)
      | HResize n root order =>
          if valid_order Z.eqb (parts s) order then first_bad opt (resize Z.eqb s (calc opt root n) order) t (S i) else Some i
      | HObs ob => if oblock_eqb ob (obs_of s (length (ogets ob))) then first_bad opt s t (S i) else Some i
      end
  end.
Definition first_bad_case (c : case) : option nat :=
  match c with CHist _ opt cap root ops => let pc := calc opt root cap in first_bad opt (init (fst pc) (snd pc)) ops 0 end.
