(* Correspondence + monitor for C14 (every work error reaches every error subscriber exactly once).
   Scripted cases from harness/cmd/wqscript -prop C14 (subscribers receive only when the script says so, by a
   non-blocking receive at a quiescent moment; error values are distinct pointers compared by identity), evaluated
   by Run/CorrWQ.v.
   Black-box monitor on the log alone: no subscriber receives nil or a foreign value, no subscriber receives the same
   error twice, and only errors that a released work function returned are received.
   Model-relative monitor: the result of every receive (which error, or nothing to receive) and the start sets must be
   among the model's predictions. *)
From Coq Require Import List ZArith Bool Arith.
From TC.Model Require Import WQ.
From TC.Run Require Import RunLib.
From TC.Run Require Export CorrWQ.
Import ListNotations.

Definition rel_C14 (m o : obs) : bool :=
  zlist_eqb (o_started m) (o_started o) && (o_res m =? o_res o)%Z.

(* fold: errors returned so far; per (subscriber, error) pairs received so far *)
Fixpoint mon_run (sc : list (stim * obs)) (errs : list Z) (got : list (Z * Z)) : bool :=
  match sc with
  | [] => true
  | (SFinish _ e, _) :: rest => mon_run rest (if (e <? 0)%Z then errs else e :: errs) got
  | (SErrRecv sub, o) :: rest =>
      let r := o_res o in
      if (r =? -1)%Z then mon_run rest errs got
      else zmem r errs                                                   (* a value some work function returned *)
           && negb (existsb (fun p => (fst p =? sub)%Z && (snd p =? r)%Z) got)   (* not delivered to sub before *)
           && mon_run rest errs ((sub, r) :: got)
  | _ :: rest => mon_run rest errs got
  end.
Definition mon_C14 (c : wcase) : bool := mon_run (c_script c) [] [].

Definition case := wcase.
Definition verdict (c : case) : nat :=
  if negb (mon_nohang c) then 1 (* a caller hangs *) else if mon_C14 c then classify rel_C14 c else 1.
Definition mismatches (cs : list case) : list (nat * nat) := collect verdict 0 cs.
