(* C10 correspondence: shared evaluator (Run/CorrPub.v) with the C10 monitor. *)
From TC.Run Require Export CorrPub.
Definition mismatches := mismatches10.
