(* Correspondence + monitor for C05 (dispatch by priority, FIFO among equals, adjust functions consulted for
   every decision).  Cases come from harness/cmd/wqscript -prop C05; evaluation is Run/CorrWQ.v.
   The property's observables are: which work functions start (and when), and which adjust functions are
   consulted how often between two stimuli. *)
From Coq Require Import List ZArith Bool Arith.
From TC.Model Require Import WQ.
From TC.Run Require Import RunLib.
From TC.Run Require Export CorrWQ.
Import ListNotations.

Definition rel_C05 (m o : obs) : bool :=
  zlist_eqb (o_started m) (o_started o) && zlist_eqb (o_consulted m) (o_consulted o).

(* black-box clause, on the log alone: "an item's priority is the value given at Enqueue": right after Enqueue(p)
   WorkItems() lists the new item (name = its index) with priority p - whatever p is (0 and negative values
   included).  The item is listed from the moment Enqueue has stored it, even while its producer is blocked. *)
Fixpoint mon_prio (sc : list (stim * obs)) (k : Z) : bool :=
  match sc with
  | [] => true
  | (SEnq p _ _, o) :: r =>
      forallb (fun t => negb (fst (fst t) =? k)%Z || (snd (fst t) =? p)%Z) (o_items o) && mon_prio r (k + 1)%Z
  | (SBatch subs, _) :: r =>
      mon_prio r (k + Z.of_nat (length (filter (fun s => match s with SEnq _ _ _ => true | _ => false end) subs)))%Z
  | _ :: r => mon_prio r k
  end.

Definition case := wcase.
Definition verdict (c : case) : nat :=
  if negb (mon_nohang c) then 1 (* a caller hangs *)
  else if negb (mon_prio (c_script c) 0%Z) then 1 (* listed priority differs from the Enqueue value *)
  else classify rel_C05 c.
Definition mismatches (cs : list case) : list (nat * nat) := collect verdict 0 cs.
