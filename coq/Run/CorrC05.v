(* Correspondence + monitor for C05 (dispatch by priority, FIFO among equals, adjust functions consulted for
   every decision).  Cases come from harness/cmd/wqscript -prop C05; evaluation is Run/CorrWQ.v.
   The property's observables are: which work functions start (and when), and which adjust functions are
   consulted how often between two stimuli. *)
From Coq Require Import List ZArith Bool Arith.
From TC.Model Require Import WQ.
From TC.Run Require Import RunLib.
From TC.Run Require Export CorrWQ.
Import ListNotations.

Definition rel_C05 (m o : obs) : bool :=
  zlist_eqb (o_started m) (o_started o) && zlist_eqb (o_consulted m) (o_consulted o).

Definition case := wcase.
Definition verdict (c : case) : nat :=
  if negb (mon_nohang c) then 1 (* a caller hangs *) else classify rel_C05 c.
Definition mismatches (cs : list case) : list (nat * nat) := collect verdict 0 cs.
