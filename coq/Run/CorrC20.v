(* Correspondence + monitor for C20.  Each case carries what the harness did with the real
   errors.ValidationError code (which constructors it called on which maps, which reads, which arguments of
   AddErrorToValidation) and what it observed through the public API only.

   MONITOR (verdict 1) = the property itself, evaluated on the observations and on the snapshot of the tree
   taken through the getters before the reads; it does not use the model of the code:
     no panic; every flat map has exactly the pairs [pairs w snapshot]; Error() has one line per message and
     every message occurs in enough lines; top-level reads return the snapshot's maps; the snapshot after the
     reads equals the snapshot before; the result of AddErrorToValidation contains (as a multiset of
     (key,message) pairs, errors and warnings apart) the messages of both arguments.
   CORRESPONDENCE (verdict 2) = the model of Model/VErr.v, run on the same construction and the same
   operations, predicts the observations (including nil-ness of maps and of the result, key sets with
   empty message lists, the exact line format of Error()). *)
From Coq Require Import String Ascii List Bool Arith ZArith.
From TC.Model Require Export VErr.
From TC.Run Require Import RunLib.
Import ListNotations.

(* how the harness built a tree: [bexp] / [build] of Model/VErr.v (nested constructor calls) *)
(* [earg] / [build_earg] (arguments of AddErrorToValidation) and [hop] / [run_history] (interleaved reads and
   AddErrorToValidation calls on one running object) are in Model/VErr.v *)

(* what the harness saw at one step of a history; snapshots are taken through the getters *)
Inductive hobs :=
| OSkip                                                       (* not applicable: running object nil / no such child *)
| ORead (before after : vt) (v : read_val)                    (* snapshots of the object that was read *)
| OAdd (before arg : option vt) (nilres : bool) (after : option vt)
                                (* running object before, ValidationError inside the argument, result *)
| OAddChild (before : vt) (arg : option vt) (after : vt)      (* the PARENT (running object) before / after *)
| OPanic.

Inductive case :=
| CRead (h0 : list amap) (b : bexp) (ops : list read_op) (snap0 snap1 : vt)
        (obs : list read_val) (panicked : bool)
| CAdd (h0 : list amap) (a1 a2 : earg) (same : bool) (s1 s2 : option vt)
       (panicked nilres : bool) (r0 r1 : option vt) (ops : list read_op) (obs : list read_val)
(* a history on one running object (Model/VErr.v [hop]): start = nil or a constructed tree, s0 = its snapshot *)
| CHist (h0 : list amap) (start : option bexp) (s0 : option vt) (ops : list hop) (obs : list hobs).

(* ---------- equality / multiset helpers ---------- *)
Definition slist_eqb := list_eqb String.eqb.
Definition entry_eqb (a b : string * list string) : bool := String.eqb (fst a) (fst b) && slist_eqb (snd a) (snd b).
Definition amap_eqb := list_eqb entry_eqb.
Definition oamap_eqb (a b : option amap) : bool :=
  match a, b with None, None => true | Some x, Some y => amap_eqb x y | _, _ => false end.

Fixpoint vt_eqb (a b : vt) {struct a} : bool :=
  match a, b with
  | Node e1 w1 k1, Node e2 w2 k2 =>
      oamap_eqb e1 e2 && oamap_eqb w1 w2 &&
      match k1, k2 with
      | None, None => true
      | Some l1, Some l2 =>
          (fix go (l1 : list (string * vt)) (l2 : list (string * vt)) : bool :=
             match l1, l2 with
             | [], [] => true
             | (c1, t1) :: r1, (c2, t2) :: r2 => String.eqb c1 c2 && vt_eqb t1 t2 && go r1 r2
             | _, _ => false
             end) l1 l2
      | _, _ => false
      end
  end.
Definition ovt_eqb (a b : option vt) : bool :=
  match a, b with None, None => true | Some x, Some y => vt_eqb x y | _, _ => false end.

Section MS.
  Context {A : Type} (eqb : A -> A -> bool).
  Fixpoint rm1 (x : A) (l : list A) : option (list A) :=
    match l with
    | [] => None
    | y :: r => if eqb x y then Some r
                else match rm1 x r with Some r' => Some (y :: r') | None => None end
    end.
  (* a is a sub-multiset of b *)
  Fixpoint msub (a b : list A) : bool :=
    match a with
    | [] => true
    | x :: r => match rm1 x b with Some b' => msub r b' | None => false end
    end.
  Definition mseq (a b : list A) : bool := Nat.eqb (length a) (length b) && msub a b.
End MS.

Definition pair_eqb (a b : string * string) : bool := String.eqb (fst a) (fst b) && String.eqb (snd a) (snd b).
Definition pairs_eq := mseq pair_eqb.
Definition pairs_sub := msub pair_eqb.
Definition strs_eq := mseq String.eqb.

(* substring test *)
Fixpoint contains (m s : string) : bool :=
  String.prefix m s || match s with EmptyString => false | String _ s' => contains m s' end.

(* ---------- monitor ---------- *)
Definition top (w : bool) (t : vt) : option amap := match t with Node e wn _ => sel w e wn end.

(* strings the harness cannot write as a Coq literal (control characters, NUL, quotes, bytes >= 127, invalid
   UTF-8) arrive as their list of byte codes *)
Definition sc (l : list Z) : string :=
  fold_right (fun z acc => String (ascii_of_nat (Z.to_nat z)) acc) EmptyString l.

Definition is_nl (c : ascii) : bool := Ascii.eqb c (ascii_of_nat 10).
Fixpoint nl_count (s : string) : nat :=
  match s with EmptyString => 0 | String c r => (if is_nl c then 1 else 0) + nl_count r end.
(* number of (possibly overlapping) occurrences of m in s *)
Fixpoint occ (m s : string) : nat :=
  (if String.prefix m s then 1 else 0) + match s with EmptyString => 0 | String _ r => occ m r end.
Fixpoint sdrop (n : nat) (s : string) : string :=
  match n, s with 0, _ => s | S n', String _ r => sdrop n' r | _, EmptyString => EmptyString end.
(* the pieces of s that end in a newline, without it (a trailing piece without newline is kept) *)
Fixpoint split_lines (acc s : string) : list string :=
  match s with
  | EmptyString => match acc with EmptyString => [] | _ => [acc] end
  | String c r => if is_nl c then acc :: split_lines EmptyString r
                  else split_lines (acc +++ String c EmptyString) r
  end.

(* Error() renders each message exactly once (format independent part): as many lines as messages, and
   every message text occurs in at least as many lines as it has occurrences *)
Definition lines_ok (snap : vt) (ls : list string) : bool :=
  let ms := map snd (pairs false snap) ++ map snd (pairs true snap) in
  Nat.eqb (length ls) (length ms) &&
  forallb (fun m => length (filter (String.eqb m) ms) <=? length (filter (contains m) ls)) ms.

(* The harness reports Error() as the WHOLE string, cut at its newline bytes only for transport ([VLines pieces],
   s = pieces joined by newlines - lossless, and not a statement about lines: messages may contain newlines). *)
Definition join_nl (ps : list string) : string := String.concat nl ps.

(* The monitor for Error() on the whole string s.  Format independent part of "each message is
   rendered exactly once", valid for arbitrary message texts (newlines, format verbs, any bytes):
   the string has one newline per message beyond those inside the messages; every message text occurs in it at
   least as often as it was supplied; and, when no message contains a newline, [lines_ok] on its lines. *)
Definition error_ok (snap : vt) (s : string) : bool :=
  let ms := map snd (pairs false snap) ++ map snd (pairs true snap) in
  if existsb (fun m => negb (Nat.eqb (nl_count m) 0)) ms then
    Nat.eqb (nl_count s) (length ms + fold_right (fun m acc => nl_count m + acc) 0 ms) &&
    forallb (fun m => length (filter (String.eqb m) ms) <=? occ m s) ms
  else
    (* no newline inside a message: the pieces between newlines are the lines; [lines_ok] contains both
       conditions above (one line per message, every message in enough lines) *)
    lines_ok snap (split_lines EmptyString s).

Definition read_ok (snap : vt) (op : read_op) (v : read_val) : bool :=
  match op, v with
  | RError, VLines ps => error_ok snap (join_nl ps)
  | RFlatE, VMap m => pairs_eq (entries (omap m)) (pairs false snap)
  | RFlatW, VMap m => pairs_eq (entries (omap m)) (pairs true snap)
  | RTopE, VMap m => oamap_eqb m (top false snap)
  | RTopW, VMap m => oamap_eqb m (top true snap)
  | _, _ => false
  end.

Fixpoint reads_ok (snap : vt) (ops : list read_op) (obs : list read_val) : bool :=
  match ops, obs with
  | [], [] => true
  | op :: r, v :: r' => read_ok snap op v && reads_ok snap r r'
  | _, _ => false
  end.

Fixpoint arg_has_ve (a : earg) : bool :=
  match a with AVE _ => true | AWrap _ a' => arg_has_ve a' | _ => false end.
Definition arg_is_nil (a : earg) : bool := match a with ANil | ANilPtr => true | _ => false end.
Definition arg_text (a : earg) : string := match a with APlain s => s | AWrap s _ => s | _ => empty_str end.

(* the messages an argument of AddErrorToValidation carries *)
Definition arg_pairs (w : bool) (a : earg) (s : option vt) : list (string * string) :=
  if arg_is_nil a then [] else
  if arg_has_ve a then match s with Some snap => pairs w snap | None => [] end
  else if w then [] else [(empty_str, arg_text a)].

Definition first_map (want : read_op) (ops : list read_op) (obs : list read_val) : option amap :=
  (fix go ops obs :=
     match ops, obs with
     | op :: r, VMap m :: r' =>
         if (match op, want with RFlatE, RFlatE => true | RFlatW, RFlatW => true | _, _ => false end)
         then Some (omap m) else go r r'
     | _ :: r, _ :: r' => go r r'
     | _, _ => None
     end) ops obs.

(* ---- histories ---- *)
Definition join_path (p : list string) : string := fold_right (fun c acc => c +++ dot +++ acc) empty_str p.

Fixpoint vt_kid (l : list (string * vt)) (k : string) : option vt :=
  match l with [] => None | (k', c) :: r => if String.eqb k' k then Some c else vt_kid r k end.
Fixpoint vt_child_at (t : vt) (p : list string) : option vt :=
  match p with
  | [] => Some t
  | k :: r => match t with Node _ _ ks => match vt_kid (okids ks) k with Some c => vt_child_at c r | None => None end end
  end.

Definition opairs (w : bool) (s : option vt) : list (string * string) :=
  match s with Some a => pairs w a | None => [] end.

(* one step, given the snapshot [cs] of the running object the previous steps left; returns the new snapshot *)
Definition hstep_mon (cs : option vt) (o : hop) (x : hobs) : option (option vt) :=
  match o, x with
  | _, OSkip => Some cs
  | HRead op, ORead b a v =>
      if ovt_eqb cs (Some b) && vt_eqb b a && read_ok b op v then Some cs else None
  | HReadChild p op, ORead b a v =>
      if ovt_eqb (match cs with Some t => vt_child_at t p | None => None end) (Some b) && vt_eqb b a && read_ok b op v
      then Some cs else None
  | HAdd a, OAdd b s nilres r | HAddTo a, OAdd b s nilres r =>
      let need w := opairs w b ++ arg_pairs w a s in
      if ovt_eqb cs b &&
         (if nilres then match r, need false, need true with None, [], [] => true | _, _, _ => false end
          else match r with
               | Some sr => pairs_sub (need false) (pairs false sr) && pairs_sub (need true) (pairs true sr)
               | None => false
               end)
      then Some r else None
  | HAddChild p a, OAddChild b s r =>
      let need w := pairs w b ++ map (pfx_pair (join_path p)) (arg_pairs w a s) in
      if ovt_eqb cs (Some b) && pairs_sub (need false) (pairs false r) && pairs_sub (need true) (pairs true r)
      then Some (Some r) else None
  | _, _ => None
  end.

Fixpoint hist_mon (cs : option vt) (ops : list hop) (obs : list hobs) : bool :=
  match ops, obs with
  | [], [] => true
  | o :: r, x :: r' => match hstep_mon cs o x with Some cs' => hist_mon cs' r r' | None => false end
  | _, _ => false
  end.

Definition monitor (c : case) : bool :=
  match c with
  | CRead h0 b ops snap0 snap1 obs panicked =>
      negb panicked && vt_eqb snap0 snap1 && reads_ok snap0 ops obs
  | CAdd h0 a1 a2 same s1 s2 panicked nilres r0 r1 ops obs =>
      negb panicked &&
      let need w := arg_pairs w a1 s1 ++ arg_pairs w (if same then a1 else a2) (if same then s1 else s2) in
      if nilres then
        match need false, need true with [], [] => true | _, _ => false end
      else
        match r0 with
        | None => false
        | Some snap =>
            ovt_eqb r0 r1 && reads_ok snap ops obs &&
            match first_map RFlatE ops obs, first_map RFlatW ops obs with
            | Some fe, Some fw => pairs_sub (need false) (entries fe) && pairs_sub (need true) (entries fw)
            | _, _ => false
            end
        end
  | CHist h0 start s0 ops obs => hist_mon s0 ops obs
  end.

(* ---------- correspondence with the model ---------- *)
Definition keys_eq (a b : amap) : bool := strs_eq (map fst a) (map fst b).

Fixpoint sdedup (l : list string) : list string :=
  match l with [] => [] | x :: r => x :: filter (fun y => negb (String.eqb x y)) (sdedup r) end.

(* s is the concatenation of the strings ls in some order (backtracking over the distinct candidates).
   vm_compute is call-by-value: [&&], [||] and [existsb] would evaluate the recursive call even when the
   candidate is not a prefix, which is exponential - hence the explicit [if]s. *)
Fixpoint seg (fuel : nat) (s : string) (ls : list string) : bool :=
  match fuel with
  | 0 => false
  | S f =>
      match ls with
      | [] => String.eqb s EmptyString
      | _ =>
          (fix try (cands : list string) : bool :=
             match cands with
             | [] => false
             | l :: r =>
                 if String.prefix l s then
                   match rm1 String.eqb l ls with
                   | Some rest => if seg f (sdrop (String.length l) s) rest then true else try r
                   | None => try r
                   end
                 else try r
             end) (sdedup (filter (fun l => String.prefix l s) ls))
      end
  end.

Definition val_agrees (model obs : read_val) : bool :=
  match model, obs with
  | VLines a, VLines ps => seg (S (length a)) (join_nl ps) a   (* exact format: the model's lines, in any order *)
  | VMap None, VMap None => true
  | VMap (Some a), VMap (Some b) => pairs_eq (entries a) (entries b) && keys_eq a b
  | _, _ => false
  end.

Fixpoint vals_agree (ms os : list read_val) : bool :=
  match ms, os with
  | [], [] => true
  | m :: r, o :: r' => val_agrees m o && vals_agree r r'
  | _, _ => false
  end.

Definition vt_sim (a b : vt) : bool :=
  pairs_eq (pairs false a) (pairs false b) && pairs_eq (pairs true a) (pairs true b) &&
  pairs_eq (entries (omap (top false a))) (entries (omap (top false b))) &&
  pairs_eq (entries (omap (top true a))) (entries (omap (top true b))).

Definition corr (c : case) : bool :=
  match c with
  | CRead h0 b ops snap0 snap1 obs panicked =>
      let '(t, h) := build b h0 in
      wf h t && vt_eqb (abs h t) snap0 &&
      match run_reads ops t h with
      | Result (vals, h') => negb panicked && vals_agree vals obs && vt_eqb (abs h' t) snap1
      | Panic => panicked
      end
  | CAdd h0 a1 a2 same s1 s2 panicked nilres r0 r1 ops obs =>
      let '(e1, h1) := build_earg a1 h0 in
      let '(e2, h2) := if same then (e1, h1) else build_earg a2 h1 in
      match add_error_to_validation e1 e2 h2 with
      | Panic => panicked
      | Result (None, _) => negb panicked && nilres
      | Result (Some r, h3) =>
          negb panicked && negb nilres &&
          match r0 with
          | None => false
          | Some snap =>
              vt_sim (abs h3 r) snap &&
              match run_reads ops r h3 with
              | Result (vals, _) => vals_agree vals obs
              | Panic => false
              end
          end
      end
  | CHist h0 start s0 ops obs => false
  end.

Definition hres_agrees (m : hres) (x : hobs) : bool :=
  match m, x with
  | HSkip, OSkip => true
  | HVal v, ORead _ _ v' => val_agrees v v'
  | HAbs None, OAdd _ _ nilres None => nilres
  | HAbs (Some a), OAdd _ _ nilres (Some r) => negb nilres && vt_sim a r
  | HAbs (Some a), OAddChild _ _ r => vt_sim a r
  | _, _ => false
  end.
Fixpoint hres_agree (ms : list hres) (xs : list hobs) : bool :=
  match ms, xs with
  | [], [] => true
  | m :: r, x :: r' => hres_agrees m x && hres_agree r r'
  | _, _ => false
  end.
Definition has_panic (xs : list hobs) : bool := existsb (fun x => match x with OPanic => true | _ => false end) xs.

Definition corr_hist (h0 : list amap) (start : option bexp) (s0 : option vt) (ops : list hop) (obs : list hobs) : bool :=
  let '(cur, h) := match start with
                   | None => (None, h0)
                   | Some b => let '(t, h) := build b h0 in (Some t, h)
                   end in
  cur_wf h cur && forallb (hop_ok (length h0)) ops &&
  match cur, s0 with
  | None, None => true
  | Some t, Some s => vt_eqb (abs h t) s
  | _, _ => false
  end &&
  match run_history ops cur h with
  | Result (xs, _, _) => negb (has_panic obs) && hres_agree xs obs
  | Panic => has_panic obs
  end.

Definition verdict (c : case) : nat :=
  if monitor c then
    (if match c with CHist h0 start s0 ops obs => corr_hist h0 start s0 ops obs | _ => corr c end then 0 else 2)
  else 1.

Definition mismatches (cs : list case) : list (nat * nat) := collect verdict 0 cs.
