(* C15 correspondence: shared evaluator (Run/CorrPub.v) with the C15 monitor. *)
From TC.Run Require Export CorrPub.
Definition mismatches := mismatches15.
