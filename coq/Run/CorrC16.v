(* Correspondence + monitor for C16 (Dequeue and SetPriority act on exactly the identified item).
   Cases come from harness/cmd/wqscript -prop C16; evaluation is Run/CorrWQ.v.
   The property's observables are: the value returned by the call, which work functions start afterwards (and in
   which order), and the priorities and states WorkItems() reports. *)
From Coq Require Import List ZArith Bool Arith.
From TC.Model Require Import WQ.
From TC.Run Require Import RunLib.
From TC.Run Require Export CorrWQ.
Import ListNotations.

Definition rel_C16 (m o : obs) : bool :=
  zlist_eqb (o_started m) (o_started o) && (o_res m =? o_res o)%Z
  && list_eqb triple_eqb (o_items m) (o_items o).

(* ---- black-box monitor: C16's own clauses, evaluated on the observed history alone (no model) ----
   - if Dequeue(i) returns nil for an accepted item that has not started, i never starts afterwards and disappears
     from WorkItems(); every other listed item stays listed (priorities of items with an adjust function may be
     refreshed: AdjustPriorities runs);
   - if Dequeue(i) / SetPriority(i, p) returns an error, WorkItems() is unchanged and i is unaffected (it still runs:
     end clause);
   - for an executing item both calls return an error; for an unknown or finished id they return nil and change nothing;
   - SetPriority(i, p) = nil on a waiting item without adjust function lists it with priority p and leaves every other
     item's priority alone;
   - no work function starts twice, and when the script has run to completion (its drain finished everything; scripts
     of this profile have no errors, subscribers, Stop) every accepted item that was not dequeued has started. *)
Record mst := Mst {
  m_nenq : Z; m_adjs : list Z; m_started : list Z; m_released : list Z; m_deqnil : list Z;
  m_prev : list (Z * Z * Z); m_pure : bool }.

Definition norm (adjs : list Z) (l : list (Z * Z * Z)) : list (Z * Z * Z) :=
  map (fun t => let '(nm, p, s) := t in if zmem nm adjs then (nm, 0%Z, s) else t) l.
Definition items_eq (adjs : list Z) (a b : list (Z * Z * Z)) : bool :=
  list_eqb triple_eqb (norm adjs a) (norm adjs b).
Definition name_of (t : Z * Z * Z) : Z := fst (fst t).

Definition step_ok (m : mst) (st : stim) (o : obs) : bool :=
  let disjoint := forallb (fun i => negb (zmem i (m_deqnil m))) (o_started o) in
  let fresh := forallb (fun i => negb (zmem i (m_started m))) (o_started o) && znodup (o_started o) in
  let known i := (0 <=? i)%Z && (i <? m_nenq m)%Z in
  let executing i := zmem i (m_started m) && negb (zmem i (m_released m)) in
  let gone i := negb (known i) || zmem i (m_released m) in
  let unchanged := items_eq (m_adjs m) (o_items o) (m_prev m) in
  disjoint && fresh &&
  match st with
  | SDequeue i =>
      if (o_res o =? 2)%Z then false
      else if executing i then (o_res o =? 1)%Z && unchanged
      else if gone i then negb (m_pure m) || ((o_res o =? 0)%Z && unchanged)
      else if (o_res o =? 0)%Z
           then items_eq (m_adjs m) (o_items o) (filter (fun t => negb (name_of t =? i)%Z) (m_prev m))
           else unchanged
  | SSetPrio i p =>
      if (o_res o =? 2)%Z then false
      else if executing i then (o_res o =? 1)%Z && unchanged
      else if gone i then negb (m_pure m) || ((o_res o =? 0)%Z && unchanged)
      else if (o_res o =? 0)%Z
           then items_eq (m_adjs m) (o_items o)
                  (map (fun t => let '(nm, q, s) := t in if (nm =? i)%Z then (nm, p, s) else t) (m_prev m))
           else unchanged
  | _ => true
  end.

Definition step_upd (m : mst) (st : stim) (o : obs) : mst :=
  let known i := (0 <=? i)%Z && (i <? m_nenq m)%Z in
  Mst (match st with SEnq _ _ _ => (m_nenq m + 1)%Z | _ => m_nenq m end)
      (match st with SEnq _ true _ => m_nenq m :: m_adjs m | _ => m_adjs m end)
      (m_started m ++ o_started o)
      (match st with SFinish i _ => i :: m_released m | _ => m_released m end)
      (match st with
       | SDequeue i => if (o_res o =? 0)%Z && known i && negb (zmem i (m_started m)) then i :: m_deqnil m else m_deqnil m
       | _ => m_deqnil m
       end)
      (o_items o)
      (m_pure m && match st with
                   | SFinish _ e => (e <? 0)%Z
                   | SErrSub | SErrRecv _ | SStop | SBreak => false
                   | _ => true
                   end).

Fixpoint mon_steps (m : mst) (sc : list (stim * obs)) : bool * mst :=
  match sc with
  | [] => (true, m)
  | (st, o) :: rest => if step_ok m st o then mon_steps (step_upd m st o) rest else (false, m)
  end.

(* the script ran to completion: its last observation lists no item IN_PROGRESS and everything started was released *)
Definition mon_C16 (c : wcase) : bool :=
  let '(ok, m) := mon_steps (Mst 0 [] [] [] [] [] true) (c_script c) in
  ok &&
  (negb (m_pure m)
   || negb (forallb (fun i => zmem i (m_released m)) (m_started m))      (* not drained: no end clause *)
   || forallb (fun i => zmem i (m_deqnil m) || zmem i (m_started m))
        (map Z.of_nat (seq 0 (Z.to_nat (m_nenq m))))).

Definition case := wcase.
Definition verdict (c : case) : nat :=
  if negb (mon_nohang c) then 1 (* a caller hangs *) else if mon_C16 c then classify rel_C16 c else 1.
Definition mismatches (cs : list case) : list (nat * nat) := collect verdict 0 cs.
