(* Correspondence + monitor for C16 (Dequeue and SetPriority act on exactly the identified item).
   Cases come from harness/cmd/wqscript -prop C16; evaluation is Run/CorrWQ.v.
   The property's observables are: the value returned by the call, which work functions start afterwards (and in
   which order), and the priorities and states WorkItems() reports. *)
From Coq Require Import List ZArith Bool Arith.
From TC.Model Require Import WQ.
From TC.Run Require Import RunLib.
From TC.Run Require Export CorrWQ.
Import ListNotations.

Definition rel_C16 (m o : obs) : bool :=
  zlist_eqb (o_started m) (o_started o) && (o_res m =? o_res o)%Z
  && list_eqb triple_eqb (o_items m) (o_items o).

Definition case := wcase.
Definition verdict (c : case) : nat := classify rel_C16 c.
Definition mismatches (cs : list case) : list (nat * nat) := collect verdict 0 cs.
