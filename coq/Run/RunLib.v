(* Helpers for the correspondence evaluators (executed by vm_compute on harness output). *)
From Coq Require Import List ZArith Bool Arith.
Import ListNotations.

Fixpoint zinsert (x : Z) (l : list Z) : list Z :=
  match l with
  | [] => [x]
  | y :: t => if (x <=? y)%Z then x :: l else y :: zinsert x t
  end.
Definition zsort (l : list Z) : list Z := fold_right zinsert [] l.

Fixpoint list_eqb {A} (eqb : A -> A -> bool) (a b : list A) : bool :=
  match a, b with
  | [], [] => true
  | x :: a', y :: b' => eqb x y && list_eqb eqb a' b'
  | _, _ => false
  end.
Definition zlist_eqb := list_eqb Z.eqb.
Definition zzlist_eqb := list_eqb zlist_eqb.

Fixpoint zmem (x : Z) (l : list Z) : bool :=
  match l with [] => false | y :: t => Z.eqb x y || zmem x t end.
Fixpoint znodup (l : list Z) : bool :=
  match l with [] => true | x :: t => negb (zmem x t) && znodup t end.

Definition n (z : Z) : nat := Z.to_nat z.

(* verdicts: 0 = agrees; 1 = the property's monitor rejects the observed behaviour;
             2 = implementation and model differ although the monitor accepts *)
Fixpoint collect {C} (f : C -> nat) (i : nat) (cs : list C) : list (nat * nat) :=
  match cs with
  | [] => []
  | c :: t => match f c with
              | 0 => collect f (S i) t
              | v => (i, v) :: collect f (S i) t
              end
  end.
