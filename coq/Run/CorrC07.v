(* Correspondence + monitor for C07 (sequential part): each case is an operation sequence the harness ran
   on the real SafeMap / SyncMap (fresh map per case) together with what every call returned, decoded to
   integers (0 = the zero value of the Go type; keys/values/maps sorted, because Go's iteration order is
   unspecified).  The MONITOR is an independent executable reference map (a function Z -> option Z plus the
   key universe of the case); the MODEL is Model/SafeMap.v / Model/SyncMap.v (proved equal to the reference
   map in Props/C07.v).  verdict 1: monitor rejects (or a call panicked, or a snapshot aliased the map, or the
   Go-side instantiations / plain-map differential disagreed); 2: model differs although the monitor accepts. *)
From Coq Require Import List ZArith Bool Arith.
From TC.Model Require Export SafeMap SyncMap.
From TC.Run Require Import RunLib.
Import ListNotations.
Local Open Scope Z_scope.

Definition sop := SafeMap.op Z Z Z.
Definition yop := SyncMap.op Z Z.

Inductive sobs :=
| SUnit | SBool (b : bool) | SVal (v : Z) | SInt (n : Z)
| SKeys (sorted : list Z) (noalias : bool)
| SVals (sorted : list Z) (noalias : bool)
| SMap (keys vals : list Z) (noalias : bool)          (* sorted by key *)
| SPanic.

Inductive yobs :=
| YUnit | YValOk (v : Z) (ok : bool) | YBool (b : bool)
| YPairs (keys vals : list Z)                          (* visited pairs, sorted by key *)
| YPanic.

(* operation sequences with their observations, as monomorphic lists (no implicit arguments to infer, so
   that coqc elaborates tens of thousands of generated cases quickly) *)
Inductive sseq := SNil | SC (o : sop) (b : sobs) (t : sseq).
Inductive yseq := YNil | YC (o : yop) (b : yobs) (t : yseq).
Fixpoint slist (s : sseq) : list (sop * sobs) := match s with SNil => [] | SC o b t => (o, b) :: slist t end.
Fixpoint ylist (s : yseq) : list (yop * yobs) := match s with YNil => [] | YC o b t => (o, b) :: ylist t end.

Inductive case :=
| CSafeL (aux_ok : bool) (ops : list (sop * sobs))
| CSyncL (aux_ok : bool) (nilable : bool) (ops : list (yop * yobs))
| CSafe (aux_ok : bool) (ops : sseq)
| CSync (aux_ok : bool) (nilable : bool) (ops : yseq).

(* monomorphic constructors for the generated cases (no implicit arguments to infer: cases.v elaborates fast) *)
Definition aContains (k : Z) : sop := OContains k.
Definition aGet (k : Z) : sop := OGet k.
Definition aGetOrAdd (k v : Z) : sop := OGetOrAdd k v.
Definition aSet (k v : Z) : sop := OSet k v.
Definition aDelete (k : Z) : sop := SafeMap.ODelete k.
Definition aClear : sop := OClear.
Definition aClearAndResize (n : Z) : sop := OClearAndResize (Z.to_nat n).
Definition aHas (k : Z) : sop := OHas k.
Definition aLen : sop := OLen.
Definition aKeys : sop := OKeys.
Definition aValues : sop := OValues.
Definition aCopy : sop := OCopy.
Definition aTranslate (mul : Z) : sop := OTranslate (fun v => v * mul + 1).   (* the harness's translator *)
Definition bLoad (k : Z) : yop := OLoad k.
Definition bStore (k v : Z) : yop := OStore k v.
Definition bSwap (k v : Z) : yop := OSwap k v.
Definition bDelete (k : Z) : yop := SyncMap.ODelete k.
Definition bLoadOrStore (k v : Z) : yop := OLoadOrStore k v.
Definition bLoadAndDelete (k : Z) : yop := OLoadAndDelete k.
Definition bCAD (k old : Z) : yop := OCompareAndDelete k old.
Definition bCAS (k old new : Z) : yop := OCompareAndSwap k old new.
Definition bRange (n : Z) : yop := ORange (Z.to_nat n).
Definition bIterate (n : Z) : yop := OIterate (Z.to_nat n).

(* ---- helpers ---- *)
Fixpoint kvinsert (x : Z * Z) (l : list (Z * Z)) : list (Z * Z) :=
  match l with
  | [] => [x]
  | y :: t => if (fst x <=? fst y) then x :: l else y :: kvinsert x t
  end.
Definition kvsort (l : list (Z * Z)) : list (Z * Z) := fold_right kvinsert [] l.

Fixpoint zdedup (l : list Z) : list Z :=
  match l with [] => [] | x :: t => if zmem x t then zdedup t else x :: zdedup t end.

Definition fref := Z -> option Z.
Definition fset (f : fref) (k : Z) (x : option Z) : fref := fun k' => if Z.eqb k' k then x else f k'.
Definition fdom (f : fref) (univ : list Z) : list Z :=
  zsort (filter (fun k => match f k with Some _ => true | None => false end) (zdedup univ)).
Definition fget (f : fref) (k : Z) : Z := match f k with Some v => v | None => 0 end.
Definition fhas (f : fref) (k : Z) : bool := match f k with Some _ => true | None => false end.

(* ---- SafeMap ---- *)
Definition skeys_of (o : sop) : list Z :=
  match o with
  | OContains k | OGet k | OGetOrAdd k _ | OSet k _ | SafeMap.ODelete k | OHas k => [k]
  | _ => []
  end.

Definition smon (f : fref) (univ : list Z) (o : sop) (b : sobs) : bool * fref :=
  match o, b with
  | OContains k, SBool x | OHas k, SBool x => (Bool.eqb x (fhas f k), f)
  | OGet k, SVal v => (Z.eqb v (fget f k), f)
  | OGetOrAdd k v, SVal r =>
      match f k with Some x => (Z.eqb r x, f) | None => (Z.eqb r v, fset f k (Some v)) end
  | OSet k v, SUnit => (true, fset f k (Some v))
  | SafeMap.ODelete k, SUnit => (true, fset f k None)
  | OClear, SUnit | OClearAndResize _, SUnit => (true, fun _ => None)
  | OLen, SInt n => (Z.eqb n (Z.of_nat (length (fdom f univ))), f)
  | OKeys, SKeys l na => (na && zlist_eqb l (fdom f univ), f)
  | OValues, SVals l na => (na && zlist_eqb l (zsort (map (fget f) (fdom f univ))), f)
  | OCopy, SMap ks vs na => (na && zlist_eqb ks (fdom f univ) && zlist_eqb vs (map (fget f) ks), f)
  | OTranslate g, SMap ks vs na =>
      (na && zlist_eqb ks (fdom f univ) && zlist_eqb vs (map (fun k => g (fget f k)) ks), f)
  | _, _ => (false, f)
  end.

Definition smatch (r : SafeMap.ret Z Z Z) (b : sobs) : bool :=
  match r, b with
  | SafeMap.RUnit, SUnit => true
  | SafeMap.RBool x, SBool y => Bool.eqb x y
  | RVal x, SVal y => Z.eqb x y
  | RInt n, SInt y => Z.eqb (Z.of_nat n) y
  | RKeys l, SKeys l' _ => zlist_eqb (zsort l) l'
  | RVals l, SVals l' _ => zlist_eqb (zsort l) l'
  | RMap kvs, SMap ks vs _ | RMapD kvs, SMap ks vs _ =>
      let s := kvsort kvs in zlist_eqb (map fst s) ks && zlist_eqb (map snd s) vs
  | _, _ => false
  end.

(* returns (monitor accepts everything, model agrees everywhere) *)
Fixpoint srun (f : fref) (univ : list Z) (m : @SafeMap.smap Z Z) (ops : list (sop * sobs)) : bool * bool :=
  match ops with
  | [] => (true, true)
  | (o, b) :: t =>
      let (mok, f') := smon f univ o b in
      let (m', r) := SafeMap.step Z.eqb 0 m o in
      let (a, c) := srun f' univ m' t in
      (mok && a, smatch r b && c)
  end.

(* ---- SyncMap ---- *)
Definition ykeys_of (o : yop) : list Z :=
  match o with
  | OLoad k | OStore k _ | OSwap k _ | SyncMap.ODelete k | OLoadOrStore k _ | OLoadAndDelete k
  | OCompareAndDelete k _ | OCompareAndSwap k _ _ => [k]
  | _ => []
  end.

Definition fis (f : fref) (k v : Z) : bool := match f k with Some x => Z.eqb x v | None => false end.

Definition visit_mon (f : fref) (univ : list Z) (n : nat) (ks vs : list Z) : bool :=
  znodup ks && Nat.eqb (length ks) (length vs)
  && forallb (fun kv => fis f (fst kv) (snd kv)) (combine ks vs)
  && Nat.eqb (length ks) (Nat.min (S n) (length (fdom f univ))).

Definition ymon (f : fref) (univ : list Z) (o : yop) (b : yobs) : bool * fref :=
  match o, b with
  | OLoad k, YValOk v ok => (Z.eqb v (fget f k) && Bool.eqb ok (fhas f k), f)
  | OStore k v, YUnit => (true, fset f k (Some v))
  | OSwap k v, YValOk p ok => (Z.eqb p (fget f k) && Bool.eqb ok (fhas f k), fset f k (Some v))
  | SyncMap.ODelete k, YUnit => (true, fset f k None)
  | OLoadOrStore k v, YValOk a ok =>
      match f k with
      | Some x => (Z.eqb a x && ok, f)
      | None => (Z.eqb a v && negb ok, fset f k (Some v))
      end
  | OLoadAndDelete k, YValOk v ok => (Z.eqb v (fget f k) && Bool.eqb ok (fhas f k), fset f k None)
  | OCompareAndDelete k old, YBool x =>
      if fis f k old then (x, fset f k None) else (negb x, f)
  | OCompareAndSwap k old new, YBool x =>
      if fis f k old then (x, fset f k (Some new)) else (negb x, f)
  | ORange n, YPairs ks vs | OIterate n, YPairs ks vs => (visit_mon f univ n ks vs, f)
  | _, _ => (false, f)
  end.

Definition ymatch (full : bool) (r : SyncMap.ret Z Z) (b : yobs) : bool :=
  match r, b with
  | SyncMap.RUnit, YUnit => true
  | RValOk v ok, YValOk v' ok' => Z.eqb v v' && Bool.eqb ok ok'
  | SyncMap.RBool x, YBool y => Bool.eqb x y
  | RPairs kvs, YPairs ks vs =>
      if full then let s := kvsort kvs in zlist_eqb (map fst s) ks && zlist_eqb (map snd s) vs
      else Nat.eqb (length kvs) (length ks)            (* which keys a partial Range visits is unspecified *)
  | _, _ => false
  end.

(* V = int / string / pointer: the conversion to `any` never yields nil; V = an interface type: 0 is nil *)
Definition inj_of (nilable : bool) (v : Z) : option Z := if nilable && Z.eqb v 0 then None else Some v.
Definition zproj (d : Z) : Z := d.

Definition range_full (m : list (Z * option Z)) (o : yop) : bool :=
  match o with ORange n | OIterate n => Nat.leb (length m) (S n) | _ => true end.

Fixpoint yrun (nilable : bool) (f : fref) (univ : list Z) (m : list (Z * option Z)) (ops : list (yop * yobs))
  : bool * bool :=
  match ops with
  | [] => (true, true)
  | (o, b) :: t =>
      let (mok, f') := ymon f univ o b in
      match SyncMap.step Z.eqb Z.eqb 0 (inj_of nilable) zproj m o with
      | Some (m', r) =>
          let (a, c) := yrun nilable f' univ m' t in
          (mok && a, ymatch (range_full m o) r b && c)
      | None => (false, false)
      end
  end.

Definition verdict (c : case) : nat :=
  match match c with CSafe a s => CSafeL a (slist s) | CSync a n s => CSyncL a n (ylist s) | c' => c' end with
  | CSafe _ _ | CSync _ _ _ => 0%nat
  | CSafeL aux ops =>
      let univ := flat_map (fun ob => skeys_of (fst ob)) ops in
      let (mon, mod_) := srun (fun _ => None) univ [] ops in
      if negb (aux && mon) then 1%nat else if mod_ then 0%nat else 2%nat
  | CSyncL aux nilable ops =>
      let univ := flat_map (fun ob => ykeys_of (fst ob)) ops in
      let (mon, mod_) := yrun nilable (fun _ => None) univ [] ops in
      if negb (aux && mon) then 1%nat else if mod_ then 0%nat else 2%nat
  end.

Definition mismatches (cs : list case) : list (nat * nat) := collect verdict 0 cs.

(* sanity: the Findings witnesses are rejected / accepted as expected *)
Example corr_f8_panic_rejected :
  verdict (CSyncL true true [(OStore 1 0, YUnit); (OLoad 1, YPanic)]) = 1%nat.
Proof. reflexivity. Qed.
Example corr_f8_fixed_accepted :
  verdict (CSyncL true true [(OStore 1 0, YUnit); (OLoad 1, YValOk 0 true); (OLoad 2, YValOk 0 false)]) = 0%nat.
Proof. reflexivity. Qed.
Example corr_safe_accepted :
  verdict (CSafeL true [(OGetOrAdd 1 5, SVal 5); (OGetOrAdd 1 6, SVal 5); (OSet 2 7, SUnit); (OKeys, SKeys [1; 2] true);
                       (OValues, SVals [5; 7] true); (OCopy, SMap [1; 2] [5; 7] true); (SafeMap.ODelete 1, SUnit);
                       (OGet 1, SVal 0); (OLen, SInt 1); (OTranslate (fun v => v * 2), SMap [2] [14] true)]) = 0%nat.
Proof. reflexivity. Qed.
Example corr_safe_rejected :
  verdict (CSafeL true [(OSet 1 5, SUnit); (SafeMap.ODelete 1, SUnit); (OGet 1, SVal 5)]) = 1%nat.
Proof. reflexivity. Qed.
