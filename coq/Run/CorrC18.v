(* Correspondence + monitor for C18.  Each case is one life of a real server.Server on loopback:
   which providers, how many requests were blocked inside handlers when Stop was called, what kind of
   context Stop got, whether Stop followed Start immediately, and what was observed.

   verdict 1 (monitor = the property's clauses on the observations):
     Start returned; every listener became reachable (unless Stop followed immediately); Stop returned;
     with an ample context Stop did NOT return while requests were still blocked in their handlers, all of
     them then completed successfully and Stop reported no error; with an expired / expiring context Stop
     returned although the requests never finished; afterwards the caller's WaitGroup was released, every
     port refused connections and could be bound again.
   verdict 2: the observations differ from what the model (Model/Lifecycle.v with the exact library
     behaviour, run on the scenario's canonical schedule) predicts: can Stop return while requests are
     blocked, does Stop report an error, in which order were the providers stopped. *)
From Coq Require Import List ZArith Bool Arith.
From TC.Model Require Import Lifecycle.
From TC.Run Require Import RunLib.
Import ListNotations.
Local Open Scope Z_scope.

Inductive case :=
| CLife (kinds : list Z)            (* providers in server order: 0 = HTTP, 1 = HTTPS, 2 = gRPC *)
        (inflight : list Z)         (* per provider: requests blocked in a handler when Stop is called *)
        (ctxk : Z)                  (* 0 = ample, 1 = already expired, 2 = expires while Stop waits *)
        (immediate : bool)          (* Stop called right after Start returned *)
        (hard : bool)               (* the blocked gRPC handlers ignore the cancellation of their call *)
        (start_ok : bool) (reach : list bool)
        (stop_ok : bool) (stop_early : bool) (stop_err : bool)
        (req_ok : list Z)           (* per provider: blocked requests that completed successfully after release *)
        (wg_ok : bool) (down rebind : list bool)
        (stopped_order : list Z)    (* kinds in the order their "Stopped ..." log lines appeared *)
(* scripted schedule: the goroutines of the HTTP / HTTPS providers listed in [held] are held between
   startWg.Done() and ListenAndServe[TLS] until Stop (ample context) has had time to return *)
| CHeld (kinds held : list Z) (start_while_held start_ok stop_while_held stop_ok stop_err wg_ok : bool) (down rebind : list bool)
        (stopped_order : list Z).

Definition kind_of (k : Z) : kind := if k =? 2 then KGrpc else KHttp.

Definition lstep (l : label) (s : st) : st :=
  match step lib_serve_ret lib_drain_ret l s with Some s' => s' | None => s end.
Fixpoint repeat_step (l : label) (k : nat) (s : st) : st :=
  match k with O => s | S k' => repeat_step l k' (lstep l s) end.
Fixpoint for_provs (f : nat -> Z -> st -> st) (i : nat) (l : list Z) (s : st) : st :=
  match l with [] => s | x :: t => for_provs f (S i) t (f i x s) end.

Definition is_stopped (s : st) : bool := match s_stop s with CStopped => true | _ => false end.
Definition is_running (s : st) : bool := match s_start s with CRunning => true | _ => false end.

(* while Start runs and right after it: everything except entering the serve loops (immediate Stop) *)
Definition labels_no_serve (n : nat) : list label :=
  [LAddStop; LAddStart; LGo; LStartReturn] ++ flat_map (fun i => [LListen i; LSignal i]) (seq 0 n).

Definition fuel : nat := 400.

Record prediction := { pr_started : bool; pr_early : bool; pr_final_stopped : bool; pr_wg : Z;
                       pr_all_done : bool; pr_none_bound : bool }.

Definition not_force (l : label) : bool := match l with LForce => false | _ => true end.

Definition predict (kinds inflight : list Z) (ctxk : Z) (immediate hard : bool) : prediction :=
  let n := length kinds in
  (* a forced grpc.Server.Stop aborts the calls; handlers that ignore it keep GracefulStop waiting: no LForce *)
  let all := if hard then filter not_force (internal_labels n) else internal_labels n in
  let s0 := lstep LCallStart (init (map kind_of kinds) 0) in
  let s1 := if immediate then settle (labels_no_serve n) fuel s0 else settle all fuel s0 in
  let s2 := if immediate then s1 else for_provs (fun i k s => repeat_step (LReqBegin i) (Z.to_nat k) s) 0 inflight s1 in
  let s3 := lstep LCallStop s2 in
  let s3 := if ctxk =? 1 then lstep LCtxExpire s3 else s3 in
  let s4 := settle all fuel s3 in
  let s4 := if ctxk =? 2 then settle all fuel (lstep LCtxExpire s4) else s4 in
  (* the harness releases the handlers: every request still in flight finishes *)
  let s5 := for_provs (fun i k s => repeat_step (LReqEnd i) (Z.to_nat k) s) 0 inflight s4 in
  let s6 := settle all fuel s5 in
  {| pr_started := is_running s1; pr_early := is_stopped s4; pr_final_stopped := is_stopped s6;
     pr_wg := s_stopwg s6;
     pr_all_done := forallb (fun p => pc_eqb (p_pc p) GDone) (s_provs s6);
     pr_none_bound := forallb (fun p => negb (p_bound p)) (s_provs s6) |}.

Definition all_true (l : list bool) : bool := forallb (fun b => b) l.
Definition any_pos (l : list Z) : bool := existsb (fun k => 0 <? k) l.
Definition bool_eqb (a b : bool) : bool := if a then b else negb b.

Definition verdict (c : case) : nat :=
  match c with
  | CLife kinds inflight ctxk immediate hard start_ok reach stop_ok stop_early stop_err req_ok wg_ok down rebind stopped_order =>
      let n := length kinds in
      let waiting := any_pos inflight in
      let monitor :=
        start_ok && (immediate || (all_true reach && Nat.eqb (length reach) n)) && stop_ok &&
        wg_ok && all_true down && all_true rebind && Nat.eqb (length down) n && Nat.eqb (length rebind) n &&
        (if ctxk =? 0
         then negb stop_early && zlist_eqb req_ok inflight && negb stop_err
         else if waiting then stop_early else true) in
      if negb monitor then 1%nat
      else
        let pr := predict kinds inflight ctxk immediate hard in
        let err_pred := negb (ctxk =? 0) &&
                        existsb (fun ki => negb (fst ki =? 2) && (0 <? snd ki)) (combine kinds inflight) in
        if pr_started pr && pr_final_stopped pr && (pr_wg pr =? 0) && pr_all_done pr && pr_none_bound pr &&
           bool_eqb (pr_early pr && waiting) stop_early &&
           bool_eqb err_pred stop_err &&
           zlist_eqb stopped_order kinds
        then 0%nat else 2%nat
  | CHeld _ _ _ _ _ _ _ _ _ _ _ => 0%nat   (* evaluated by verdict_held through verdict' *)
  end.

Definition serve_of_held (kinds held : list Z) (l : label) : bool :=
  match l with
  | LServe i => match nth_error kinds i with Some k => negb (k =? 2) && zmem k held | None => false end
  (* a held gRPC goroutine has not even listened: Start itself is still in progress *)
  | LListen i => match nth_error kinds i with Some k => (k =? 2) && zmem k held | None => false end
  | _ => false
  end.

Definition verdict_held kinds held (start_while_held start_ok stop_while_held stop_ok stop_err wg_ok : bool) (down rebind : list bool)
           (stopped_order : list Z) : nat :=
  let n := length kinds in
  let monitor := start_ok && negb stop_while_held && stop_ok && wg_ok && all_true down && all_true rebind &&
                 Nat.eqb (length down) n && Nat.eqb (length rebind) n in
  if negb monitor then 1%nat
  else
    let all := internal_labels n in
    let free := filter (fun l => negb (serve_of_held kinds held l)) all in
    let s1 := settle free fuel (lstep LCallStart (init (map kind_of kinds) 0)) in      (* Start with the goroutines held *)
    let s2 := settle free fuel (lstep LCallStop s1) in                                  (* Stop while they are held *)
    let s3 := settle all fuel s2 in                                                     (* released *)
    if bool_eqb (is_running s1) start_while_held && negb (is_stopped s2) && is_stopped s3 && is_running s3 && (s_stopwg s3 =? 0) &&
       forallb (fun p => negb (p_bound p)) (s_provs s3) && negb stop_err && zlist_eqb stopped_order kinds
    then 0%nat else 2%nat.

Definition verdict' (c : case) : nat :=
  match c with
  | CHeld kinds held a0 a b c0 d e f g h => verdict_held kinds held a0 a b c0 d e f g h
  | _ => verdict c
  end.

Definition mismatches (cs : list case) : list (nat * nat) := collect verdict' 0 cs.

Example corr18_selftest :
  (* all three providers, 2/0/1 requests blocked, ample context: Stop waits, everything completes *)
  verdict (CLife [0; 1; 2] [2; 0; 1] 0 false false true [true; true; true] true false false [2; 0; 1] true
                 [true; true; true] [true; true; true] [0; 1; 2]) = 0%nat
  (* the same with an expired context: Stop returns early with an error (HTTP had requests in flight) *)
  /\ verdict (CLife [0; 1; 2] [2; 0; 1] 1 false false true [true; true; true] true true true [2; 0; 0] true
                 [true; true; true] [true; true; true] [0; 1; 2]) = 0%nat
  (* gRPC only, expired context: forced stop, no error *)
  /\ verdict (CLife [2] [1] 1 false false true [true] true true false [0] true [true] [true] [2]) = 0%nat
  (* immediate Stop *)
  /\ verdict (CLife [0; 2] [0; 0] 0 true false true [] true false false [0; 0] true [true; true] [true; true] [0; 2]) = 0%nat
  (* Stop returned while requests were blocked although the context was ample: violation *)
  /\ verdict (CLife [0] [1] 0 false false true [true] true true false [1] true [true] [true] [0]) = 1%nat
  (* Stop hung *)
  /\ verdict (CLife [0] [0] 0 false false true [true] false false false [0] false [false] [false] []) = 1%nat
  (* port not released *)
  /\ verdict (CLife [2] [0] 0 false false true [true] true false false [0] true [true] [false] [2]) = 1%nat
  (* gRPC handler ignoring cancellation, context over, Stop hung until release: the property's monitor rejects *)
  /\ verdict (CLife [2] [1] 1 false true true [true] true false false [0] true [true] [true] [2]) = 1%nat
  (* held goroutines: Stop waits for them *)
  /\ verdict' (CHeld [0; 1; 2] [0; 1] true true false true false true [true; true; true] [true; true; true] [0; 1; 2]) = 0%nat
  (* ... a Stop that returns while a provider goroutine is still held violates the property *)
  /\ verdict' (CHeld [0] [0] true true true true false true [true] [true] [0]) = 1%nat
  (* Stop issued while Start is in progress (gRPC goroutine held before it listens): Stop waits, then all ends *)
  /\ verdict' (CHeld [0; 2] [2] false true false true false true [true; true] [true; true] [0; 2]) = 0%nat
  /\ verdict' (CHeld [0; 1; 2] [1; 2] false true false true false true [true; true; true] [true; true; true] [0; 1; 2]) = 0%nat
  (* ... a Stop that returns at once and leaves the listeners up is rejected *)
  /\ verdict' (CHeld [0; 2] [2] false true true true false false [false; false] [false; false] []) = 1%nat
  (* model mismatch only: an error reported although nothing was in flight *)
  /\ verdict (CLife [0] [0] 1 false false true [true] true false true [0] true [true] [true] [0]) = 2%nat.
Proof. vm_compute. repeat split. Qed.
