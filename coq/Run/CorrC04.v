(* Correspondence + monitor for C04 (every accepted item runs exactly once; WorkItems() faithful).
   Scripted cases from harness/cmd/wqscript -prop C04, evaluated by Run/CorrWQ.v.
   Black-box monitor on the implementation's log alone (independent of the model): no work function starts twice;
   model-relative monitor: start sets, returned Enqueue calls and WorkItems() must be among the model's predictions. *)
From Coq Require Import List ZArith Bool Arith.
From TC.Model Require Import WQ.
From TC.Run Require Import RunLib.
From TC.Run Require Export CorrWQ.
From TC.Run Require CorrC16.
Import ListNotations.

Definition rel_C04 (m o : obs) : bool :=
  zlist_eqb (o_started m) (o_started o) && zlist_eqb (o_returned m) (o_returned o)
  && list_eqb triple_eqb (o_items m) (o_items o).

(* every id appears in at most one [started] list, and at most once in it *)
Definition all_started (c : wcase) : list Z := flat_map (fun so => o_started (snd so)) (c_script c).
Definition mon_once (c : wcase) : bool := znodup (all_started c).

(* Scripts with Dequeue / SetPriority: the clauses of C16's black-box monitor (Run/CorrC16.v mon_C16, on the log alone)
   are exactly what C04 needs there - an item dequeued with nil never starts, every other call changes nothing, and when
   a script without errors/subscribers/Stop has run to completion every accepted item that was not dequeued has
   started (none dropped), no item twice. *)
Definition case := wcase.
Definition verdict (c : case) : nat :=
  if negb (mon_nohang c) then 1 (* a caller hangs *)
  else if negb (mon_once c) then 1
  else if negb (CorrC16.mon_C16 c) then 1 (* an accepted, never dequeued item did not run / a dequeued one ran *)
  else classify rel_C04 c.
Definition mismatches (cs : list case) : list (nat * nat) := collect verdict 0 cs.
