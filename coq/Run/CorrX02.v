(* Correspondence + monitor for X02: each case = one map (entry list, distinct keys) and the outputs the
   real SortAscKeys / SortDescKeys returned for it (several calls: different key/value types, different
   iteration orders).  The order among equal values is unspecified, so the observed outputs are NOT
   compared with the model's particular order: each must be accepted by the monitor [asc_ok]/[desc_ok]
   (= "is an admissible result", Props/X02.v X02_monitor_asc/desc).  The model's own output is also run
   through the monitor (it must be admissible as well: verdict 2 if not, which would be a model bug). *)
From Coq Require Import List ZArith Bool.
From TC.Model Require Import MapOps.
From TC.Run Require Import RunLib.
Import ListNotations.

Inductive case :=
| CSort (desc : bool) (m : list (Z * Z)) (outs : list (list Z)).

Definition verdict (c : case) : nat :=
  match c with
  | CSort desc m outs =>
      let mon := if desc then desc_ok Z.eqb Z.ltb m else asc_ok Z.eqb Z.ltb m in
      let model := if desc then sort_desc_keys Z.ltb m else sort_asc_keys Z.ltb m in
      if negb (znodup (map fst m)) then 1
      else if negb (forallb mon outs) then 1
      else if negb (mon model) then 2
      else match outs with [] => 1 | _ => 0 end
  end.

Definition mismatches (cs : list case) : list (nat * nat) := collect verdict 0 cs.
