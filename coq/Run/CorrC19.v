(* Correspondence + monitor for C19 (Stop and Break never crash, lose or resurrect work; PARTIAL, known finding K5).
   Cases come from child processes of harness/cmd/wqscript -prop C19: a workload with Stop or Break injected at one
   position, the remaining Enqueue calls, and an adaptive drain.  A child that crashes is classified by the runner from
   its panic message and frames (K5 = send on / close of a closed channel out of doWork|Enqueue|start); the steps a
   child completed (all of them if it did not crash) are replayed here against Model/WQ.v, whose shutdown path is the
   code's.
   Black-box monitor on the log alone: no work function starts twice, and an item whose Enqueue was issued after the
   Stop/Break never starts, and its Enqueue call has returned when its step ends (callers never hang).  Model-relative: start sets and call results must be among the model's predictions. *)
From Coq Require Import List ZArith Bool Arith.
From TC.Model Require Import WQ.
From TC.Run Require Import RunLib.
From TC.Run Require Export CorrWQ.
Import ListNotations.

Definition rel_C19 (m o : obs) : bool :=
  zlist_eqb (o_started m) (o_started o) && (o_res m =? o_res o)%Z.

(* ids enqueued after the first Stop/Break; [k] = number of Enqueue calls so far *)
Fixpoint late_ids (sc : list (stim * obs)) (k : Z) (stopped : bool) : list Z :=
  match sc with
  | [] => []
  | (SEnq _ _ _, _) :: r => (if stopped then [k] else []) ++ late_ids r (k + 1)%Z stopped
  | (SStop, _) :: r | (SBreak, _) :: r => late_ids r k true
  | _ :: r => late_ids r k stopped
  end.
Definition all_started (c : wcase) : list Z := flat_map (fun so => o_started (snd so)) (c_script c).
(* an Enqueue issued after Stop/Break returns normally: at the quiescent moment that ends its own step its call has
   returned (a caller still blocked then stays blocked for ever: nothing else can move).  [k] as in late_ids.
   A step whose result is 99 ("the process died here") carries no observation. *)
Fixpoint late_enq_return (sc : list (stim * obs)) (k : Z) (stopped : bool) : bool :=
  match sc with
  | [] => true
  | (SEnq _ _ _, o) :: r =>
      (negb stopped || (o_res o =? 99)%Z || zmem k (o_returned o)) && late_enq_return r (k + 1)%Z stopped
  | (SStop, _) :: r | (SBreak, _) :: r => late_enq_return r k true
  | _ :: r => late_enq_return r k stopped
  end.
Definition mon_C19 (c : wcase) : bool :=
  znodup (all_started c) && forallb (fun id => negb (zmem id (all_started c))) (late_ids (c_script c) 0%Z false)
  && late_enq_return (c_script c) 0%Z false.

Definition case := wcase.
Definition verdict (c : case) : nat :=
  if negb (mon_nohang c) then 1 (* a caller hangs *) else if mon_C19 c then classify rel_C19 c else 1.
Definition mismatches (cs : list case) : list (nat * nat) := collect verdict 0 cs.
