(* Pinned variant of getCurrentPartition (before fix F15): the slow path does not look at the current partition
   again after it has taken the write lock.  It is the model of Model/CacheConc.v run with [recheck := false].

   Witness (the harness scenario A-witness replays this shape on the real code): capacity 2 = one partition of
   two entries.  Two goroutines Set two DIFFERENT new keys.  Both find no current partition in the RLock section,
   both take the write lock in turn and both open a partition; the sweeper then drops the older one: key 1 is
   gone although only 2 <= Capacity() distinct keys were ever inserted and none was deleted. *)
From Coq Require Import List Arith Bool.
From TC.Model Require Import CacheConc.
Import ListNotations.

Definition pinned_cfg (P C : nat) : config := {| maxP := P; capC := C; recheck := false; delidx := false |}.

(* threads: 0 = ticker, 1 = Set 1 11, 2 = Set 2 22, 3 and 4 = the two `go f.Sweep()` *)
Definition lost_insert_witness : list (@label nat nat) :=
  [LSpawn (OSet 1 11); LSpawn (OSet 2 22);
   LStep 1; LStep 2;            (* index lookups: both keys are new *)
   LStep 1; LStep 2;            (* RLock sections: there is no current partition *)
   LStep 1;                     (* Lock section of goroutine 1: opens partition id 1 *)
   LStep 2;                     (* Lock section of goroutine 2: no re-check, opens partition id 2 *)
   LStep 1; LStep 2;            (* partition.Set *)
   LStep 1; LStep 2;            (* index.Set *)
   LStep 3; LStep 3; LStep 3;   (* first sweeper: 2 partitions > 1, pops the oldest (id 1), unlocks *)
   LStep 4; LStep 4].           (* second sweeper: nothing to do *)

Theorem lost_insert_refuted :
  exists ls s,
    run Nat.eqb 0 (pinned_cfg 1 2) init ls = Some s
    /\ map fst (setlog s) = [2; 1]                       (* two Sets, of distinct keys: 2 <= 1*2 = Capacity() *)
    /\ quiescent s = true /\ panicked s = false          (* every call has returned *)
    /\ In (OSet 1 11, PDone RUnit) (threads s)           (* Set 1 11 completed *)
    /\ get_now Nat.eqb 0 s 1 = 0 /\ keys_now s = [2].    (* ... and key 1 is missing *)
Proof.
  exists lost_insert_witness. eexists. split; [vm_compute; reflexivity|].
  repeat split; try reflexivity. right; left; reflexivity.
Qed.

(* the same schedule prefix on the fixed code: the second writer reuses the partition the first one opened *)
Example lost_insert_witness_fixed :
  exists s, run Nat.eqb 0 {| maxP := 1; capC := 2; recheck := true; delidx := false |} init
                (firstn 12 lost_insert_witness ++ [LStep 3; LStep 3]) = Some s
            /\ quiescent s = true /\ get_now Nat.eqb 0 s 1 = 11 /\ get_now Nat.eqb 0 s 2 = 22 /\ keys_now s = [1; 2].
Proof. eexists. split; [vm_compute; reflexivity|]. repeat split; reflexivity. Qed.
