(* Pinned variants (the code before the F13 fixes) with machine-checked witnesses.
   The same histories are the first corpus entries of harness/cmd/c17. *)
From Coq Require Import List ZArith Bool Arith.
From TC.Model Require Import Middleware.
Import ListNotations.
Local Open Scope Z_scope.

(* F13a: NewHttpsProvider builds routerMux and never assigns it to srvr.Handler: the HTTPS server
   runs with a nil handler = http.DefaultServeMux, on which nothing is registered. *)
Definition https_provider_handler_pinned {P H} (r : @routes P H) (mw : option (H -> H))
  : option (list ((Z * P) * H)) := None.

Lemma https_handler_pinned_refuted :
  exists (calls : list (Z * Z * Z)) (m p : Z),
    expected Z.eqb calls None m p = Served 7
    /\ serve_handler Z.eqb (https_provider_handler_pinned (config_of Z.eqb calls) None) m p = NotFound
    /\ serve_handler Z.eqb (https_provider_handler (config_of Z.eqb calls) None) m p = Served 7.
Proof. exists [(mGET, 1, 7)], mGET, 1. vm_compute. repeat split. Qed.

(* F13b: LogRequest reads r.Body to EOF and closes it; the handler then reads an empty body. *)
Definition log_request_fx_pinned (s : world) : world :=
  let body := q_body (w_req s) in
  let s1 := set_body [] s in
  logev (ELogReq (q_method (w_req s1)) (q_path (w_req s1)) body) s1.
Definition log_request_pinned : middleware := fun next w s => next w (log_request_fx_pinned s).

(* a POST with body [104;105] to an echo handler: without the middleware the handler reads [104;105]
   and the client gets it back; with the pinned LogRequest the handler reads nothing. *)
Definition echo : hprog := HReadAll (fun b => HWrite b HDone).
Definition q_post : reqst := {| q_method := 2; q_path := 1; q_hdr := []; q_body := [104; 105] |}.

Lemma log_request_pinned_refuted :
  exists (p : hprog) (q : reqst),
    let a := finish (log_request_pinned (run_h p) base (init_world q)) in
    let b := finish (run_h p base (init_world q)) in
    visible_log a <> visible_log b /\ client_view a <> client_view b.
Proof. exists echo, q_post. vm_compute. split; intros E; discriminate E. Qed.

(* the fixed middleware on the same history *)
Lemma log_request_fixed_on_witness :
  let a := finish (log_request (run_h echo) base (init_world q_post)) in
  let b := finish (run_h echo base (init_world q_post)) in
  visible_log a = visible_log b /\ client_view a = client_view b.
Proof. vm_compute. split; reflexivity. Qed.

(* F13c: HttpsServerConfigBuilder has no UsingMiddleWare, the embedded config is unexported and
   NewHttpsProvider reads cfg.GetMiddleware(): whatever middleware the user wants on the HTTPS
   listener, the provider sees nil. *)
Definition https_configured_mw_pinned {H} (wanted : option (H -> H)) : option (H -> H) := None.
Definition https_configured_mw {H} (wanted : option (H -> H)) : option (H -> H) := wanted.

Lemma https_middleware_pinned_refuted :
  exists (calls : list (Z * Z * Z)) (f : Z -> Z) (m p : Z),
    serve Z.eqb (build_table (config_of Z.eqb calls) (https_configured_mw_pinned (Some f))) m p
    <> expected Z.eqb calls (Some f) m p.
Proof. exists [(mGET, 1, 7)], (fun h => h + 100), mGET, 1. vm_compute. intros E; discriminate E. Qed.

(* F13d: ResponseWriterWrapper (LogResponse) does not implement http.Flusher, so a handler that flushes when its
   writer can - `if f, ok := w.(http.Flusher); ok { f.Flush() }` - flushes without the middleware and does not
   flush behind it.  Flush commits the header (implicit 200): "flush; WriteHeader(404)" gives the client 200
   without LogResponse and 404 with it. *)
Definition wrap_writer_pinned (id : nat) (w : writer) : writer :=
  {| wr_set := wr_set (wrap_writer id w); wr_hdr := wr_hdr (wrap_writer id w);
     wr_status := wr_status (wrap_writer id w); wr_write := wr_write (wrap_writer id w);
     wr_flush := fun s => s |}.                                  (* the type assertion fails: nothing happens *)
Definition log_response_pinned : middleware := fun next w s =>
  let id := length (w_cells s) in
  let s1 := set_cells (w_cells s ++ [(200%Z, [])]) s in
  let s2 := next (wrap_writer_pinned id w) s1 in
  let '(st, b) := cell_get id s2 in
  logev (ELogResp (q_method (w_req s2)) (q_path (w_req s2)) st b) s2.

Definition flush_then_404 : hprog := HFlush (HStatus 404 (HWrite [120] HDone)).
Definition q_get : reqst := {| q_method := 0; q_path := 1; q_hdr := []; q_body := [] |}.

Lemma log_response_pinned_refuted :
  exists (p : hprog) (q : reqst),
    client_view (finish (log_response_pinned (run_h p) base (init_world q)))
    <> client_view (finish (run_h p base (init_world q))).
Proof. exists flush_then_404, q_get. vm_compute. intros E; discriminate E. Qed.

Lemma log_response_fixed_on_witness :
  client_view (finish (log_response (run_h flush_then_404) base (init_world q_get)))
  = client_view (finish (run_h flush_then_404 base (init_world q_get)))
  /\ client_view (finish (run_h flush_then_404 base (init_world q_get))) = (Some (200, []), [120], []).
Proof. vm_compute. split; reflexivity. Qed.
