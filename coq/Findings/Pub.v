(* Pinned variants of the publication model: the code as it was before the fixes, each with a
   machine-checked witness history on which the property fails.  The same histories, replayed by the
   harness on the unfixed Go code, justify the fix: commits (see notes/C15.md, notes/C10.md).

   F11 (C15): OnFiltered / OnTimeout are stored and never invoked. *)
From Coq Require Import List Arith Bool ZArith.
From TC.Model Require Import Pub.
Import ListNotations.

Section PinnedF11.
  Context {M : Type}.
  Notation state := (state M).
  Notation label := (label M).

  (* publication.go before the fix: the filter branch has no else, the time.After arm is empty *)
  Definition step_f11 (st : state) (l : label) : option state :=
    match l with
    | Visit p s =>
        match pmsg st p with
        | Some m =>
            if popen st p && (s <? nsub st) && negb (pgone st p s) && is_none (pair st p s) then
              if s_filt (subs st s) m then Some (with_pair st p s PSpawned)
              else Some (with_pair st p s PFiltered)
            else None
        | None => None
        end
    | Timeout p s =>
        match pair st p s with
        | PInSel dl => if dl <=? now st then Some (with_pair st p s PTimedOut) else None
        | _ => None
        end
    | _ => step st l
    end.

  Fixpoint run_f11 (st : state) (ls : list label) : option state :=
    match ls with
    | [] => Some st
    | l :: t => match step_f11 st l with Some st' => run_f11 st' t | None => None end
    end.
End PinnedF11.

(* Subscribe(0, WithFilter(even), OnFiltered(cb)); Publish(1): the pair is filtered, the callback is
   set, and it has not been invoked (C15_callbacks fails). *)
Definition f11_filtered_history : list (label nat) :=
  [Subscribe 0 Nat.even 100%Z true true; PubBegin 1; Visit 0 0; PubEnd 0].

Theorem f11_onfiltered_refuted :
  exists (ls : list (label nat)) (st : state nat) (s p m : nat),
    run_f11 init ls = Some st /\ pair st p s = PFiltered /\ s_onF (subs st s) = true /\
    pmsg st p = Some m /\ ~ In (s, p, m) (cbF st).
Proof.
  exists f11_filtered_history.
  destruct (run_f11 init f11_filtered_history) as [st|] eqn:E; [|vm_compute in E; discriminate].
  exists st, 0, 0, 1. vm_compute in E. inversion E; subst; clear E.
  repeat split; try reflexivity. simpl. tauto.
Qed.

(* Subscribe(0, WithTimeout(2 ticks), OnTimeout(cb)); Publish(1); nobody receives; two ticks; the
   delivery times out: the pair is timed out, the callback is set, and it has not been invoked. *)
Definition f11_timeout_history : list (label nat) :=
  [Subscribe 0 (fun _ => true) 2%Z true true; PubBegin 1; Visit 0 0; PubEnd 0; Enter 0 0; Tick; Tick; Timeout 0 0].

Theorem f11_ontimeout_refuted :
  exists (ls : list (label nat)) (st : state nat) (s p m : nat),
    run_f11 init ls = Some st /\ pair st p s = PTimedOut /\ s_onT (subs st s) = true /\
    pmsg st p = Some m /\ ~ In (s, p, m) (cbT st).
Proof.
  exists f11_timeout_history.
  destruct (run_f11 init f11_timeout_history) as [st|] eqn:E; [|vm_compute in E; discriminate].
  exists st, 0, 0, 1. vm_compute in E. inversion E; subst; clear E.
  repeat split; try reflexivity. simpl. tauto.
Qed.

(* F16 (C10): the pinned Close.  [unsubscribe] is Load; close(receiveCh); Delete - three separate actions -
   and the delivery goroutine takes no lock and has no done channel: it enters its select unconditionally
   and a send on (or a parked sender woken by the close of) a closed channel panics.
   Publication.Close does the same close(receiveCh) for every subscriber its Range yields. *)
Section PinnedF16.
  Context {M : Type}.
  Notation state := (state M).

  Inductive plabel :=
  | PL (l : label M)        (* Subscribe, PubBegin, Visit, PubEnd, Enter, Deliver, Rendezvous, Timeout, Recv, Tick as in the model *)
  | CLoad (s : nat)         (* a closer finds s in the map (Load / Range yields it) *)
  | CClose (s : nat)        (* that closer executes close(s.receiveCh) *)
  | CDelete (s : nat).      (* ... and Delete(id) / Clear *)

  Fixpoint remove_one (x : nat) (l : list nat) : option (list nat) :=
    match l with
    | [] => None
    | y :: t => if y =? x then Some t else option_map (cons y) (remove_one x t)
    end.

  (* state + the closers that hold a subscriber they loaded and have not closed yet *)
  Definition step_f16 (sl : state * list nat) (l : plabel) : option (state * list nat) :=
    let (st, loaded) := sl in
    match l with
    | PL (Enter p s) =>
        match pair st p s with
        | PSpawned => Some (with_pair st p s (PInSel (now st + s_tmo (subs st s))), loaded)
        | _ => None
        end
    | PL (CloseSub _) | PL (FinishClose _) | PL (Drop _ _) => None
    | PL l' => option_map (fun st' => (st', loaded)) (step st l')
    | CLoad s =>
        if (s <? nsub st) && s_inmap (subs st s) then Some (st, s :: loaded) else Some (st, loaded)
    | CClose s =>
        match remove_one s loaded with
        | Some rest =>
            let x := subs st s in
            match s_phase x with
            | Closed => Some (with_panic st, rest)                 (* close of closed channel *)
            | _ => Some (with_sub st s (set_closed x), rest)
            end
        | None => None
        end
    | CDelete s => Some (with_sub st s (set_unmapped (subs st s)), loaded)
    end.

  Fixpoint run_f16 (sl : state * list nat) (ls : list plabel) : option (state * list nat) :=
    match ls with
    | [] => Some sl
    | l :: t => match step_f16 sl l with Some sl' => run_f16 sl' t | None => None end
    end.
End PinnedF16.

(* Subscribe(0); Publish(1); Close(): the delivery goroutine is parked in its select (nobody receives),
   the channel is closed under it, the send panics ("send on closed channel"). *)
Definition f16_close_pending_history : list (@plabel nat) :=
  [PL (Subscribe 0 (fun _ => true) 100%Z false false); PL (PubBegin 1); PL (Visit 0 0); PL (PubEnd 0);
   PL (Enter 0 0); CLoad 0; CClose 0; PL (Deliver 0 0)].

Theorem close_pending_refuted :
  exists (ls : list (@plabel nat)) (sl : state nat * list nat),
    run_f16 (init, []) ls = Some sl /\ panicked (fst sl) = true.
Proof.
  exists f16_close_pending_history.
  destruct (run_f16 (init, []) f16_close_pending_history) as [sl|] eqn:E; [|vm_compute in E; discriminate].
  exists sl. split; auto. vm_compute in E. inversion E; subst. reflexivity.
Qed.

(* two closers (two s.Close(), or s.Close() and p.Close()) both find s in the map before either deletes
   it; both close the channel: "close of closed channel". *)
Definition f16_double_close_history : list (@plabel nat) :=
  [PL (Subscribe 1 (fun _ => true) 100%Z false false); CLoad 0; CLoad 0; CClose 0; CClose 0].

Theorem double_close_refuted :
  exists (ls : list (@plabel nat)) (sl : state nat * list nat),
    run_f16 (init, []) ls = Some sl /\ panicked (fst sl) = true /\ s_ncl (subs (fst sl) 0) = 1.
Proof.
  exists f16_double_close_history.
  destruct (run_f16 (init, []) f16_double_close_history) as [sl|] eqn:E; [|vm_compute in E; discriminate].
  exists sl. split; auto. vm_compute in E. inversion E; subst. split; reflexivity.
Qed.
