(* Pinned variants of the publication model: the code as it was before the fixes, each with a
   machine-checked witness history on which the property fails.  The same histories, replayed by the
   harness on the unfixed Go code, justify the fix: commits (see notes/C15.md, notes/C10.md).

   F11 (C15): OnFiltered / OnTimeout are stored and never invoked. *)
From Coq Require Import List Arith Bool.
From TC.Model Require Import Pub.
Import ListNotations.

Section PinnedF11.
  Context {M : Type}.
  Notation state := (state M).
  Notation label := (label M).

  (* publication.go before the fix: the filter branch has no else, the time.After arm is empty *)
  Definition step_f11 (st : state) (l : label) : option state :=
    match l with
    | Visit p s =>
        match pmsg st p with
        | Some m =>
            if popen st p && (s <? nsub st) && negb (pgone st p s) && is_none (pair st p s) then
              if s_filt (subs st s) m then Some (with_pair st p s PSpawned)
              else Some (with_pair st p s PFiltered)
            else None
        | None => None
        end
    | Timeout p s =>
        match pair st p s with
        | PInSel dl => if dl <=? now st then Some (with_pair st p s PTimedOut) else None
        | _ => None
        end
    | _ => step st l
    end.

  Fixpoint run_f11 (st : state) (ls : list label) : option state :=
    match ls with
    | [] => Some st
    | l :: t => match step_f11 st l with Some st' => run_f11 st' t | None => None end
    end.
End PinnedF11.

(* Subscribe(0, WithFilter(even), OnFiltered(cb)); Publish(1): the pair is filtered, the callback is
   set, and it has not been invoked (C15_callbacks fails). *)
Definition f11_filtered_history : list (label nat) :=
  [Subscribe 0 Nat.even 100 true true; PubBegin 1; Visit 0 0; PubEnd 0].

Theorem f11_onfiltered_refuted :
  exists (ls : list (label nat)) (st : state nat) (s p m : nat),
    run_f11 init ls = Some st /\ pair st p s = PFiltered /\ s_onF (subs st s) = true /\
    pmsg st p = Some m /\ ~ In (s, p, m) (cbF st).
Proof.
  exists f11_filtered_history.
  destruct (run_f11 init f11_filtered_history) as [st|] eqn:E; [|vm_compute in E; discriminate].
  exists st, 0, 0, 1. vm_compute in E. inversion E; subst; clear E.
  repeat split; try reflexivity. simpl. tauto.
Qed.

(* Subscribe(0, WithTimeout(2 ticks), OnTimeout(cb)); Publish(1); nobody receives; two ticks; the
   delivery times out: the pair is timed out, the callback is set, and it has not been invoked. *)
Definition f11_timeout_history : list (label nat) :=
  [Subscribe 0 (fun _ => true) 2 true true; PubBegin 1; Visit 0 0; PubEnd 0; Enter 0 0; Tick; Tick; Timeout 0 0].

Theorem f11_ontimeout_refuted :
  exists (ls : list (label nat)) (st : state nat) (s p m : nat),
    run_f11 init ls = Some st /\ pair st p s = PTimedOut /\ s_onT (subs st s) = true /\
    pmsg st p = Some m /\ ~ In (s, p, m) (cbT st).
Proof.
  exists f11_timeout_history.
  destruct (run_f11 init f11_timeout_history) as [st|] eqn:E; [|vm_compute in E; discriminate].
  exists st, 0, 0, 1. vm_compute in E. inversion E; subst; clear E.
  repeat split; try reflexivity. simpl. tauto.
Qed.
