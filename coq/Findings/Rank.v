(* Findings in /repo/rankCalculation (pinned code) and their witnesses; the harness replays the same inputs on
   the unfixed code (cmd/x05 corpus cases; cmd/x05race for F3).

   X05-F1 (fixed): NewRankCalculator(options ...) never applied its options: WithRanker and WithRankPositionally
           had no effect, every calculator used the value-based percentile ranker.
   X05-F2 (reported, not changed): Rank on a map without a positive count divides by maxV = 0: NaN / -Inf
           (Props/X05.v X05_value_degenerate states it; only reachable through the public Ranker API, a
           RankCalculator never holds such counts: X05_counts).
   X05-F3 (fixed): Accumulate read the field r.entries without r.mux while Reset replaces it under r.mux.Lock:
           a data race on the field (lockset table below; demonstrated by the Go race detector). *)
From Coq Require Import List Bool ZArith QArith String.
From TC.Model Require Import MapOps Rank.
Import ListNotations.
Local Open Scope Z_scope.

(* ---- X05-F1: the pinned constructor ---- *)
Definition new_calc_pinned {K} (opts : list (@copt K)) : @calc K :=
  {| entries := []; rk := Percentile false |}.

(* NewRankCalculator(WithRankPositionally()); Accumulate 1, 2, 2, 3, 3, 3, 4 x 4; Calculate:
   positional ranking must give 0, 40, 60, 100; the pinned code answers value-based 25, 50, 75, 100 *)
Definition f1_events : list (@event Z) :=
  map EAccumulate [1; 2; 2; 3; 3; 3; 4; 4; 4; 4] ++ [ECalculate].

Theorem X05_options_refuted :
  exists (opts : list (@copt Z)) (evs : list (@event Z)),
    snd (run Z.eqb (new_calc opts) evs) = [[(1, PQ 0); (2, PQ (Qmake 200 5)); (3, PQ (Qmake 300 5)); (4, PQ 100)]]
    /\ snd (run Z.eqb (new_calc_pinned opts) evs)
       = [[(1, PQ (Qmake 100 4)); (2, PQ (Qmake 200 4)); (3, PQ (Qmake 300 4)); (4, PQ (Qmake 400 4))]].
Proof. exists [WithRankPositionally], f1_events. vm_compute. split; reflexivity. Qed.

(* a custom ranker is ignored as well: the constant-42 ranker vs what the pinned calculator answers *)
Theorem X05_with_ranker_refuted :
  exists (r : @ranker Z) (evs : list (@event Z)),
    snd (run Z.eqb (new_calc [WithRanker r]) evs) = [[(1, PQ 42); (2, PQ 42)]]
    /\ snd (run Z.eqb (new_calc_pinned [WithRanker r]) evs) = [[(1, PQ (Qmake 100 2)); (2, PQ (Qmake 200 2))]].
Proof.
  exists (Custom (fun it => map (fun e => (fst e, PQ 42)) it)), [EAccumulate 1; EAccumulate 2; EAccumulate 2; ECalculate].
  vm_compute. split; reflexivity.
Qed.

(* ---- X05-F3: lockset discipline for the field RankCalculator.entries (hand-transcribed access table: the record of the
   PINNED code.  The statement about the CURRENT source is Props/X05Lock.v, over the skeleton regenerated from
   rankCalculation/rankCalculator.go on every run) ---- *)
Inductive lockmode := NoLock | RLock | WLock.
Record access := { meth : string; is_write : bool; held : lockmode }.

(* two accesses are ordered by r.mux iff both hold it and at least one holds it exclusively *)
Definition ordered (a b : access) : bool :=
  match held a, held b with
  | WLock, RLock | WLock, WLock | RLock, WLock => true
  | _, _ => false
  end.
Definition races (a b : access) : bool := (is_write a || is_write b) && negb (ordered a b).

Open Scope string_scope.
Definition accesses_pinned : list access :=
  [ {| meth := "Accumulate"; is_write := false; held := NoLock |};   (* r.entries.GetOrAdd(...) *)
    {| meth := "Reset"; is_write := true; held := WLock |};          (* r.entries = NewSafeMap(...) *)
    {| meth := "Calculate"; is_write := false; held := RLock |} ].   (* TranslateToMapOf(r.entries, ...) *)
Definition accesses_fixed : list access :=
  [ {| meth := "Accumulate"; is_write := false; held := RLock |};
    {| meth := "Reset"; is_write := true; held := WLock |};
    {| meth := "Calculate"; is_write := false; held := RLock |} ].

Theorem X05_entries_field_race_refuted :
  exists a b, In a accesses_pinned /\ In b accesses_pinned /\ meth a = "Accumulate" /\ meth b = "Reset"
              /\ races a b = true.
Proof.
  exists {| meth := "Accumulate"; is_write := false; held := NoLock |},
         {| meth := "Reset"; is_write := true; held := WLock |}.
  simpl. repeat split; auto.
Qed.

Lemma X05_entries_field_fixed_race_free :
  forallb (fun a => forallb (fun b => negb (races a b)) accesses_fixed) accesses_fixed = true.
Proof. reflexivity. Qed.
