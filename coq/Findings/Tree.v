(* X03-F1 (storage/tree.go, pinned code): Tree.Walk calls t.walk(t.root, 0, f) unconditionally and walk
   starts with node.Get(); on a tree whose root is nil (a new tree, or one on which only empty chains were
   added) this is a method call on a nil interface: Walk panics instead of visiting nothing.
   Pinned variant of the model's [walk] (None = panic) and the refutation witnesses, replayed by the
   harness (cmd/extras -comp x03, corpus cases) on the unfixed code. *)
From Coq Require Import List ZArith.
From TC.Model Require Import Tree.
Import ListNotations.

Definition walk_pinned {A} (t : tree A) : option (list (A * nat)) :=
  match t with
  | None => None                       (* nil.Get(): runtime panic *)
  | Some r => Some (walk_from 0 r)
  end.

(* "Walk reports each node exactly once" fails on the pinned code for the history of no calls at all and
   for the history consisting of one call with an empty chain (which succeeds and leaves the tree empty) *)
Theorem X03_walk_empty_refuted :
  exists chains : list (list Z),
    snd (run Z.eqb None chains) = map (fun _ => false) chains    (* every call returned nil *)
    /\ walk_pinned (fst (run Z.eqb None chains)) = None.          (* ... and Walk panics *)
Proof. exists [[]]. vm_compute. split; reflexivity. Qed.

Theorem X03_walk_new_tree_refuted : walk_pinned (None : tree Z) = None.
Proof. reflexivity. Qed.

(* on non-empty trees the pinned Walk and the fixed one agree *)
Lemma walk_pinned_nonempty {A} (r : rtree A) : walk_pinned (Some r) = Some (walk (Some r)).
Proof. reflexivity. Qed.
