(* The work queue as it was on the pinned tree: each defect is the SAME transition function of Model/WQ.v with
   one [variant] flag switched on, together with a concrete label sequence (a schedule and a workload) on which
   the property fails, checked by vm_compute.  The same histories, as scripts of stimuli, are the first corpus
   entries of harness/cmd/wqscript and reproduced the defects on the unfixed Go code (notes/C05.md, notes/C16.md).

   The label sequences are computed: environment labels are given, and after each of them the internal steps
   are run to quiescence taking always the first enabled candidate of [internal_labels]; the resulting explicit
   label list is what the theorems quantify existentially. *)
From Coq Require Import List Arith ZArith Bool Lia.
From TC.Lib Require Import GoHeap.
From TC.Model Require Import WQ.
From TC.Proofs Require Import WQHeap WQInv WQC05.
Import ListNotations.
Local Open Scope Z_scope.

Fixpoint first_enabled (v : variant) (s : state) (ls : list label) : option (label * state) :=
  match ls with
  | [] => None
  | l :: t => match step v s l with Some s' => Some (l, s') | None => first_enabled v s t end
  end.
Fixpoint settle (v : variant) (fuel : nat) (vals : avals) (s : state) : list label * state :=
  match fuel with
  | O => ([], s)
  | S f => match first_enabled v s (internal_labels vals s) with
           | Some (l, s') => let '(ls, s'') := settle v f vals s' in (l :: ls, s'')
           | None => ([], s)
           end
  end.
(* environment labels, each followed by the internal steps up to quiescence *)
Fixpoint schedule (v : variant) (vals : avals) (s : state) (env : list label) : list label :=
  match env with
  | [] => []
  | l :: t => match step v s l with
              | Some s1 => let '(ls, s2) := settle v 100 vals s1 in l :: ls ++ schedule v vals s2 t
              | None => []
              end
  end.

(* ---- the properties, as decidable checks on a trace ---- *)
Definition lexleb (p : Z) (q : nat) (p' : Z) (q' : nat) : bool := (p <? p') || ((p =? p') && (q <=? q')%nat).
Lemma lexleb_spec p q p' q' : lexleb p q p' q' = true <-> lexle p q p' q'.
Proof.
  unfold lexleb, lexle. rewrite orb_true_iff, andb_true_iff, Z.ltb_lt, Z.eqb_eq, Nat.leb_le. tauto.
Qed.

(* some decision handed out x although a waiting y was strictly before it, or handed out x with a priority that
   is not the one it competes with (its adjust function's current value) *)
Definition bad_decision (tr : list event) : bool :=
  existsb (fun e => match e with
                    | EvDecide b v _ x =>
                        existsb (fun y => negb (lexleb (iprio x) (iseq x) (eff v y) (iseq y))) b
                        || negb (existsb (fun y => (iid y =? iid x)%nat && (iprio x =? eff v y)) b)
                    | _ => false
                    end) tr.
(* some decision did not consult exactly the waiting items that have an adjust function *)
Definition bad_consult (tr : list event) : bool :=
  existsb (fun e => match e with
                    | EvDecide b _ c _ => negb (if list_eq_dec Nat.eq_dec c (consults b) then true else false)
                    | _ => false
                    end) tr.

Lemma bad_decision_spec tr : bad_decision tr = true -> ~ decisions_ok tr.
Proof.
  unfold bad_decision. rewrite existsb_exists. intros (e & He & Hb) Hok.
  destruct e; try discriminate. destruct (Hok _ _ _ _ He) as (_ & (y0 & Hy0 & Hk) & Hmin).
  apply orb_true_iff in Hb. destruct Hb as [Hb|Hb].
  - rewrite existsb_exists in Hb. destruct Hb as (y & Hy & Hn). specialize (Hmin y Hy).
    apply lexleb_spec in Hmin. rewrite Hmin in Hn. discriminate.
  - apply negb_true_iff in Hb. assert (Ht : existsb (fun y => (iid y =? iid x)%nat && (iprio x =? eff vals y)) before = true).
    { apply existsb_exists. exists y0. split; [exact Hy0|].
      pose proof (f_equal iid Hk) as E1. pose proof (f_equal iprio Hk) as E2. cbn in E1, E2.
      rewrite E1, E2, Nat.eqb_refl, Z.eqb_refl. reflexivity. }
    rewrite Ht in Hb. discriminate.
Qed.
Lemma bad_consult_spec tr : bad_consult tr = true -> ~ decisions_ok tr.
Proof.
  unfold bad_consult. rewrite existsb_exists. intros (e & He & Hb) Hok.
  destruct e; try discriminate. destruct (Hok _ _ _ _ He) as (Hc & _).
  destruct (list_eq_dec Nat.eq_dec consulted (consults before)); [discriminate|contradiction].
Qed.

Definition started (id : nat) (tr : list event) : bool :=
  existsb (fun e => match e with EvStart k => (k =? id)%nat | _ => false end) tr.
Definition deq_nil (id : nat) (tr : list event) : bool :=
  existsb (fun e => match e with EvDeq k true => (k =? id)%nat | _ => false end) tr.
Definition has_panic (tr : list event) : bool :=
  existsb (fun e => match e with EvPanic _ => true | _ => false end) tr.

(* ---- F3: the full-queue branch appends with the bare workQueue.Push ----
   (visible as long as AdjustPriorities does not rebuild the heap, i.e. together with the pinned F5 loop, which
   is a no-op when no item has an adjust function) *)
Definition v_F3 : variant := mkVariant true false true false.
Definition env_F3 : list label :=
  [Enq 5 false 0; Enq 5 false 1; Enq 9 false 2; Enq 8 false 3; Enq 1 false 4; Enq 7 false 5; Enq 0 false 6;
   Finish 0 None; Finish 1 None].
Definition labels_F3 : list label := Eval vm_compute in schedule v_F3 [] (init 1 2) env_F3.

Theorem F3_bare_push_refuted :
  exists ls s, run v_F3 (init 1 2) ls = Some s /\ bad_decision (trace s) = true.
Proof.
  exists labels_F3. destruct (run v_F3 (init 1 2) labels_F3) as [s|] eqn:E; [|vm_compute in E; discriminate].
  exists s. split; [reflexivity|]. vm_compute in E. injection E as <-. vm_compute. reflexivity.
Qed.
(* the same history on the fixed code has no bad decision *)
Definition labels_F3_fixed : list label := Eval vm_compute in schedule fixed [] (init 1 2) env_F3.
Example F3_history_fixed :
  match run fixed (init 1 2) (schedule fixed [] (init 1 2) env_F3) with
  | Some s => bad_decision (trace s) = false /\ bad_consult (trace s) = false
  | None => False
  end.
Proof. vm_compute. split; reflexivity. Qed.

(* ---- F4: Less compares the priority only: equal priorities are not first come, first served ---- *)
Definition v_F4 : variant := mkVariant false true false false.
Definition env_F4 : list label :=
  [Enq 1 false 0; Enq 1 false 1; Enq 1 false 2; Enq 1 false 3; Enq 1 false 4; Enq 1 false 5;
   Finish 0 None; Finish 1 None; Finish 2 None].
Definition labels_F4 : list label := Eval vm_compute in schedule v_F4 [] (init 1 6) env_F4.

Theorem F4_priority_only_refuted :
  exists ls s, run v_F4 (init 1 6) ls = Some s /\ bad_decision (trace s) = true.
Proof.
  exists labels_F4. destruct (run v_F4 (init 1 6) labels_F4) as [s|] eqn:E; [|vm_compute in E; discriminate].
  exists s. split; [reflexivity|]. vm_compute in E. injection E as <-. vm_compute. reflexivity.
Qed.
Example F4_history_fixed :
  match run fixed (init 1 6) (schedule fixed [] (init 1 6) env_F4) with
  | Some s => bad_decision (trace s) = false
  | None => False
  end.
Proof. vm_compute. reflexivity. Qed.

(* ---- F5: AdjustPriorities calls heap.Fix while ranging over the slice it re-orders ----
   heap [2 6 4] (items 2, 3, 4, all with adjust functions); the functions of items 2 and 4 now return 9 and 8:
   item 2 sinks below item 4, which moves to the already visited index 0 and is never asked; it is dispatched with
   its stale priority 4 although item 3 (priority 6 < 8) is waiting, and item 2 is consulted twice. *)
Definition v_F5 : variant := mkVariant false false true false.
Definition env_F5 : list label :=
  [Enq 1 false 0; Enq 1 false 1; Enq 2 true 2; Enq 6 true 3; Enq 4 true 4; Finish 0 None].
Definition vals_F5 : avals := [(2%nat, 9); (3%nat, 6); (4%nat, 8)].
Definition labels_F5 : list label := Eval vm_compute in schedule v_F5 vals_F5 (init 1 6) env_F5.

Theorem F5_fix_while_ranging_refuted :
  exists ls s, run v_F5 (init 1 6) ls = Some s /\ bad_consult (trace s) = true /\ bad_decision (trace s) = true.
Proof.
  exists labels_F5. destruct (run v_F5 (init 1 6) labels_F5) as [s|] eqn:E; [|vm_compute in E; discriminate].
  exists s. split; [reflexivity|]. vm_compute in E. injection E as <-. vm_compute. split; reflexivity.
Qed.
Example F5_history_fixed :
  match run fixed (init 1 6) (schedule fixed vals_F5 (init 1 6) env_F5) with
  | Some s => bad_decision (trace s) = false /\ bad_consult (trace s) = false
  | None => False
  end.
Proof. vm_compute. split; reflexivity. Qed.

(* ---- F6: position defaults to 0 and state to IN_QUEUE ----
   (a) Dequeue of item 1, which was handed to the worker pool and has not started: returns nil, item 1 starts
       anyway, and item 2 - a different, waiting item - is removed from the heap and never runs although it stays
       listed by WorkItems(). *)
Definition v_F6 : variant := mkVariant false false false true.
Definition env_F6a : list label :=
  [Enq 1 false 0; Enq 1 false 1; Enq 1 false 2; Enq 1 false 3; Dequeue 1 [];
   Finish 0 None; Finish 1 None; Finish 3 None].
Definition labels_F6a : list label := Eval vm_compute in schedule v_F6 [] (init 1 3) env_F6a.

Theorem F6_dequeue_handed_off_refuted :
  exists ls s, run v_F6 (init 1 3) ls = Some s /\
    deq_nil 1 (trace s) = true /\ started 1 (trace s) = true /\          (* nil returned, yet the item ran *)
    started 2 (trace s) = false /\ memn 2 (workitems s) = true /\         (* a different item never runs ... *)
    quiescentb v_F6 s = true /\ running s = [] /\ heap s = [] /\ buffer s = [].   (* ... nothing is left to run it *)
Proof.
  exists labels_F6a. destruct (run v_F6 (init 1 3) labels_F6a) as [s|] eqn:E; [|vm_compute in E; discriminate].
  exists s. split; [reflexivity|]. vm_compute in E. injection E as <-. vm_compute. repeat split; reflexivity.
Qed.

(* (b) the same call when nothing is waiting in the heap panics (heap.Remove on an empty heap) *)
Definition env_F6b : list label := [Enq 1 false 0; Enq 1 false 1; Dequeue 1 []].
Definition labels_F6b : list label := Eval vm_compute in schedule v_F6 [] (init 1 3) env_F6b.
Theorem F6_dequeue_panics_refuted :
  exists ls s, run v_F6 (init 1 3) ls = Some s /\ has_panic (trace s) = true.
Proof.
  exists labels_F6b. destruct (run v_F6 (init 1 3) labels_F6b) as [s|] eqn:E; [|vm_compute in E; discriminate].
  exists s. split; [reflexivity|]. vm_compute in E. injection E as <-. vm_compute. reflexivity.
Qed.

(* (c) SetPriority overwrites the number without re-ordering the heap (with the pinned AdjustPriorities, which
       only moves items whose adjust function returned something new): item 4 gets priority 0 and is still
       dispatched after items 2 and 3. *)
Definition v_F6c : variant := mkVariant false false true true.
Definition env_F6c : list label :=
  [Enq 1 false 0; Enq 1 false 1; Enq 2 false 2; Enq 3 false 3; Enq 4 false 4; SetPrio 4 0 []; Finish 0 None].
Definition labels_F6c : list label := Eval vm_compute in schedule v_F6c [] (init 1 6) env_F6c.
Theorem F6_setpriority_refuted :
  exists ls s, run v_F6c (init 1 6) ls = Some s /\ bad_decision (trace s) = true.
Proof.
  exists labels_F6c. destruct (run v_F6c (init 1 6) labels_F6c) as [s|] eqn:E; [|vm_compute in E; discriminate].
  exists s. split; [reflexivity|]. vm_compute in E. injection E as <-. vm_compute. reflexivity.
Qed.

Example F6_histories_fixed :
  match run fixed (init 1 3) (schedule fixed [] (init 1 3) env_F6a),
        run fixed (init 1 6) (schedule fixed [] (init 1 6) env_F6c) with
  | Some s, Some s' => deq_nil 1 (trace s) = false /\ started 2 (trace s) = true /\ has_panic (trace s) = false
                       /\ bad_decision (trace s') = false
  | _, _ => False
  end.
Proof. vm_compute. repeat split; reflexivity. Qed.

(* a reachable state of the fixed model used by Props/C16.v as its non-vacuity example *)
Definition labels_C16_example : list label :=
  Eval vm_compute in schedule fixed [] (init 1 3) [Enq 1 false 0; Enq 1 false 1; Enq 1 false 2; Enq 1 false 3].

(* a complete run of the fixed model used by Props/C04.v / C09.v as non-vacuity example: W=1, L=2, seven items (full
   queue, two blocked producers), everything finished *)
Definition labels_C04_example : list label :=
  Eval vm_compute in schedule fixed [] (init 1 2)
    (env_F3 ++ [Finish 3 None; Finish 4 None; Finish 5 None; Finish 6 None; Finish 2 None]).
(* the same workload before anything completes: the back-pressure state *)
Definition labels_C09_example : list label :=
  Eval vm_compute in schedule fixed [] (init 1 2)
    [Enq 5 false 0; Enq 5 false 1; Enq 9 false 2; Enq 8 false 3; Enq 1 false 4; Enq 7 false 5; Enq 0 false 6].

(* a run with two subscribers registered before the work, one registered after the error was handed to the monitor *)
Definition labels_C14_example : list label :=
  Eval vm_compute in schedule fixed [] (init 1 2)
    [ErrSub; ErrSub; Enq 1 false 0; Enq 1 false 1; Finish 0 (Some 7%nat); ErrSub; ErrRecv 0; ErrRecv 1; Finish 1 None].

(* K5: Stop with one item executing: the dispatcher exits and closes workerSemaphore; the work function then returns
   and its worker's token send panics *)
Definition labels_K5_inflight : list label :=
  Eval vm_compute in schedule fixed [] (init 1 1) [Enq 1 false 0; Stop; Finish 0 None].
(* an idle Stop followed by further Enqueue calls (Props/C19.v non-vacuity example) *)
Definition labels_C19_example : list label :=
  Eval vm_compute in schedule fixed [] (init 2 2)
    [Enq 1 false 0; Enq 2 false 1; Enq 3 false 2; Finish 0 None; Finish 1 None; Finish 2 None; Stop;
     Enq 1 false 3; Enq 1 false 4].

(* ---- outside the six properties' scope, recorded because the harness met it: Dequeue while the dispatcher is NOT
   idle (it waits for a token in the full-queue branch) can empty the heap, and the dispatcher then pops an empty
   heap: a crash of the FIXED code too.  C16 restricts the calls to an idle dispatcher; this shows why. ---- *)
Definition env_deq_fullwait : list label :=
  [Enq 1 false 0; Enq 1 false 1; Enq 1 false 2; Enq 1 false 3; Dequeue 2 []; Finish 0 None].
Definition labels_deq_fullwait : list label := Eval vm_compute in schedule fixed [] (init 1 1) env_deq_fullwait.
Theorem dequeue_while_dispatcher_waits_crashes :
  exists ls s, run fixed (init 1 1) ls = Some s /\ panicked s = true.
Proof.
  exists labels_deq_fullwait.
  destruct (run fixed (init 1 1) labels_deq_fullwait) as [s|] eqn:E; [|vm_compute in E; discriminate].
  exists s. split; [reflexivity|]. vm_compute in E. injection E as <-. reflexivity.
Qed.

Print Assumptions F3_bare_push_refuted.
Print Assumptions F5_fix_while_ranging_refuted.
Print Assumptions F6_dequeue_handed_off_refuted.
