(* Finding F7 (pinned storage/safeMap.go): GetOrAdd is

       if s.Has(key) { return s.Get(key) }      // TWO critical sections (RLock each)
       s.mux.Lock(); ... re-check, insert ...

   A Delete that runs between Has and Get makes GetOrAdd return the ZERO value although the key was never
   mapped to zero: neither the existing nor the offered value.  The pinned object below differs from
   Model/SafeMap.v only in GetOrAdd's local states; the witness schedule is executed by vm_compute, and
   [safemap_pinned_not_linearizable] proves that its history is not a history of Lin(sequential SafeMap). *)
From Coq Require Import List ZArith Bool Arith Lia.
From TC.Lib Require Import Conc.
From TC.Model Require Import SafeMap.
From TC.Proofs Require Import SafeMapProofs.
Import ListNotations.

Section Pinned.
  Context {K V D : Type}.
  Variable keqb : K -> K -> bool.
  Variable zero : V.

  Inductive plocal :=
  | PStart (o : op K V D)
  | PGoaGet (k : K) (v : V)        (* Has(key) answered true; about to call Get(key) *)
  | PGoaWrite (k : K) (v : V).     (* Has(key) answered false; about to take the write lock *)

  Definition pinned_cstep (m : @smap K V) (l : plocal) : @smap K V * (plocal + ret K V D) :=
    match l with
    | PStart (OGetOrAdd k v) =>
        match lookup keqb k m with                         (* s.Has(key) *)
        | Some _ => (m, inl (PGoaGet k v))
        | None => (m, inl (PGoaWrite k v))
        end
    | PStart o => let (m', r) := step keqb zero m o in (m', inr r)
    | PGoaGet k v => (m, inr (RVal (orzero zero (lookup keqb k m))))      (* s.Get(key): zero value on a miss *)
    | PGoaWrite k v =>
        match lookup keqb k m with
        | Some x => (m, inr (RVal x))
        | None => (set keqb k v m, inr (RVal v))
        end
    end.

  Definition safemap_pinned_obj : object :=
    {| St := @smap K V; Loc := plocal; Op := op K V D; Ret := ret K V D; obegin := PStart; ostep := pinned_cstep |}.
End Pinned.

(* --- Lin(sequential SafeMap) never returns the zero value from GetOrAdd when zero is never stored --- *)
Section LinNonzero.
  Context {K V D : Type}.
  Variable keqb : K -> K -> bool.
  Hypothesis keqb_spec : forall x y, reflect (x = y) (keqb x y).
  Variable zero : V.
  Notation pobj := (@safemap_pinned_obj K V D keqb zero).
  Notation smap := (@smap K V).
  Definition seq_spec : smap -> op K V D -> smap * ret K V D := fun m o => step keqb zero m o.

  (* histories that only use GetOrAdd/Set with non-zero values, and Delete *)
  Definition allowed (o : op K V D) : Prop :=
    match o with
    | OGetOrAdd _ v | OSet _ v => v <> zero
    | ODelete _ => True
    | _ => False
    end.
  Definition st_ok (st : status pobj) : Prop :=
    match st with
    | Pend o => allowed o
    | Done (OGetOrAdd _ _) r => exists w, r = RVal w /\ w <> zero
    | Done _ _ => True
    end.
  Definition J (lc : lconf pobj smap) : Prop :=
    (forall k w, lookup keqb k (fst lc) = Some w -> w <> zero) /\ (forall t st, In (t, st) (snd lc) -> st_ok st).
  Definition evs_allowed (e : list (ev pobj)) : Prop := forall t o, In (Inv t o) e -> allowed o.
  Definition res_nonzero (e : list (ev pobj)) : Prop :=
    forall t k v r, In (Res t (OGetOrAdd k v) r) e -> exists w, r = RVal w /\ w <> zero.

  Lemma J_step c1 e c2 : lin_step pobj smap seq_spec c1 e c2 -> J c1 -> evs_allowed e -> J c2 /\ res_nonzero e.
  Proof.
    intros Hs [Hm Hp] Ha. inversion Hs as [a p t o Hl|a p t o a' r Hl Hsp|a p t o r Hl]; subst; simpl in *.
    - split; [split; simpl|].
      + exact Hm.
      + intros t' st [[= <- <-]|Hin]; [|eauto]. simpl. apply (Ha t). now left.
      + intros t' k v r [Hin|[]]. discriminate.
    - split; [|intros t' k v r' []].
      apply plookup_In in Hl. pose proof (Hp _ _ Hl) as Hal. simpl in Hal.
      unfold seq_spec in Hsp. destruct o; simpl in Hal; try contradiction; simpl in Hsp.
      + (* GetOrAdd *)
        destruct (lookup keqb k a) as [x|] eqn:E; injection Hsp as <- <-; split; simpl.
        * exact Hm.
        * intros t' st Hin. apply In_pupdate in Hin as [[= -> ->]|Hin]; [|eauto]. simpl. exists x. split; [reflexivity|eauto].
        * intros k' w. destruct (keqb k' k) eqn:Ek; [intros [= <-]; exact Hal|]. rewrite (lookup_remove keqb keqb_spec), Ek. eauto.
        * intros t' st Hin. apply In_pupdate in Hin as [[= -> ->]|Hin]; [|eauto]. simpl. exists v. auto.
      + (* Set *)
        injection Hsp as <- <-. split; simpl.
        * intros k' w. destruct (keqb k' k) eqn:Ek; [intros [= <-]; exact Hal|]. rewrite (lookup_remove keqb keqb_spec), Ek. eauto.
        * intros t' st Hin. apply In_pupdate in Hin as [[= -> ->]|Hin]; [exact I|eauto].
      + (* Delete *)
        injection Hsp as <- <-. split; simpl.
        * intros k' w. rewrite (lookup_remove keqb keqb_spec). destruct (keqb k' k); [discriminate|eauto].
        * intros t' st Hin. apply In_pupdate in Hin as [[= -> ->]|Hin]; [exact I|eauto].
    - split; [split; simpl|].
      + exact Hm.
      + intros t' st Hin. apply In_premove in Hin. eauto.
      + intros t' k v r' [[= -> -> ->]|[]]. apply plookup_In in Hl. exact (Hp _ _ Hl).
  Qed.

  Lemma J_trace c1 e c2 : lin_trace pobj smap seq_spec c1 e c2 -> J c1 -> evs_allowed e -> res_nonzero e.
  Proof.
    induction 1 as [c|c1 e1 c2 e2 c3 Hs Ht IH]; intros HJ Ha.
    - intros t k v r [].
    - assert (Ha1 : evs_allowed e1) by (intros t o Hin; apply (Ha t); apply in_or_app; now left).
      assert (Ha2 : evs_allowed e2) by (intros t o Hin; apply (Ha t); apply in_or_app; now right).
      destruct (J_step _ _ _ Hs HJ Ha1) as [HJ2 Hr1].
      intros t k v r Hin. apply in_app_or in Hin as [Hin|Hin]; [eapply Hr1; eauto|eapply IH; eauto].
  Qed.
End LinNonzero.

(* --- the witness: K = V = Z, zero value 0 --- *)
Definition zobj := @safemap_pinned_obj Z Z Z Z.eqb 0%Z.
Definition zfixed := @safemap_obj Z Z Z Z.eqb 0%Z.

(* thread 1 stores 7 under key 1; thread 0 starts GetOrAdd(1,5) and sees Has = true; thread 2 deletes key 1;
   thread 0 continues with Get and returns 0 *)
Definition f7_schedule : list (label zobj) :=
  [@Call zobj 1%nat (OSet 1 7); @Step zobj 1%nat;
   @Call zobj 0%nat (OGetOrAdd 1 5); @Step zobj 0%nat;
   @Call zobj 2%nat (ODelete 1); @Step zobj 2%nat;
   @Step zobj 0%nat]%Z.

Definition f7_history : list (ev zobj) :=
  [Inv 1%nat (OSet 1 7); Res 1%nat (OSet 1 7) RUnit;
   Inv 0%nat (OGetOrAdd 1 5);
   Inv 2%nat (ODelete 1); Res 2%nat (ODelete 1) RUnit;
   Res 0%nat (OGetOrAdd 1 5) (RVal 0)]%Z.

Lemma f7_run : Conc.run zobj ([], []) f7_schedule = Some (([], []), f7_history).
Proof. vm_compute. reflexivity. Qed.

(* GetOrAdd(1,5) returned 0 although only 7 and 5 were ever stored under any key *)
Theorem safemap_getoradd_refuted :
  exists labels c evs, Conc.run zobj ([], []) labels = Some (c, evs)
    /\ In (Res 0%nat (OGetOrAdd 1 5) (RVal 0))%Z evs
    /\ (forall t o, In (Inv t o) evs -> o = OSet 1 7 \/ o = OGetOrAdd 1 5 \/ o = ODelete 1)%Z.
Proof.
  exists f7_schedule, ([], []), f7_history. split; [exact f7_run|]. split.
  - vm_compute. tauto.
  - intros t o H. simpl in H.
    repeat (destruct H as [H|H]; [try discriminate H; injection H as _ <-; auto|]). contradiction.
Qed.

(* ... and therefore the pinned object is NOT linearisable w.r.t. the sequential SafeMap *)
Theorem safemap_pinned_not_linearizable :
  ~ linearizable zobj (@smap Z Z) (@seq_spec Z Z Z Z.eqb 0%Z) [] [].
Proof.
  intros Hlin. destruct (Hlin f7_schedule _ _ f7_run) as [lc Ht].
  assert (HJ : @J Z Z Z Z.eqb 0%Z ([], [])) by (split; simpl; [discriminate|contradiction]).
  assert (Ha : @evs_allowed Z Z Z Z.eqb 0%Z f7_history).
  { intros t o H. simpl in H.
    repeat (destruct H as [H|H]; [try discriminate H; injection H as _ <-; simpl; first [exact I|discriminate]|]).
    contradiction. }
  destruct (J_trace Z.eqb Z.eqb_spec 0%Z _ _ _ Ht HJ Ha 0%nat 1%Z 5%Z (RVal 0%Z)) as (w & [= <-] & Hw).
  - vm_compute. tauto.
  - now apply Hw.
Qed.

(* the fixed model on the corresponding schedule (GetOrAdd's read section, the Delete, then the write
   section): the caller inserts and returns its own value *)
Example f7_fixed_run :
  exists c, Conc.run zfixed ([], [])
    [@Call zfixed 1%nat (OSet 1 7); @Step zfixed 1%nat; @Call zfixed 0%nat (OGetOrAdd 1 5); @Call zfixed 2%nat (ODelete 1); @Step zfixed 2%nat; @Step zfixed 0%nat; @Step zfixed 0%nat]%Z
  = Some (c, [Inv 1%nat (OSet 1 7); Res 1%nat (OSet 1 7) RUnit; Inv 0%nat (OGetOrAdd 1 5);
              Inv 2%nat (ODelete 1); Res 2%nat (ODelete 1) RUnit; Res 0%nat (OGetOrAdd 1 5) (RVal 5)]%Z).
Proof. eexists. vm_compute. reflexivity. Qed.
