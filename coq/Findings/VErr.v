(* Pinned variants of errors/validationError.go (the code BEFORE the F12 fixes) in the heap model of
   Model/VErr.v, with machine-checked witnesses that the pinned code violates C20.  The same histories are
   the first corpus entries of harness/cmd/c20 (replayed on the real code on every run).

   F12a  GetFlatErrorMap/GetFlatWarningMap: `flatMap := e.errorMap` aliases the receiver's own map, so the
         children's messages are appended INTO the receiver (second read returns more, top-level map is
         polluted), and when that map is nil the first write panics.
   F12b  AddErrorToValidation: direct type assertions / .Error() on nil, writes to nil maps, children of the
         second argument replace children of the first. *)
From Coq Require Import String Ascii List Bool Arith Permutation.
From TC.Model Require Import VErr.
Import ListNotations.

(* GetFlatErrorMap / GetFlatWarningMap as pinned: the destination of the merge IS the receiver's map *)
Definition get_flat_pinned (w : bool) (t : ve) (h : heap) : outcome (mref * heap) :=
  match t with
  | Node e wn ks =>
      let dst := sel w e wn in
      bind (match ks with
            | None => Result h
            | Some l => merge_kids (get_flattened w) dst empty_str l h
            end) (fun h2 => Result (dst, h2))
  end.

Definition error_lines_pinned (t : ve) (h : heap) : outcome (list string * heap) :=
  bind (get_flat_pinned false t h) (fun '(fe, h1) =>
  bind (read_map h1 fe) (fun me =>
  bind (get_flat_pinned true t h1) (fun '(fw, h2) =>
  bind (read_map h2 fw) (fun mw =>
  Result (map err_line (all_msgs me) ++ map warn_line (all_msgs mw), h2))))).

(* errors.As(e, &target) as the pinned code uses it: it also succeeds with a nil *ValidationError *)
Inductive as_res := NoMatch | MatchNil | Match (t : ve).
Fixpoint as_pinned (e : err) : as_res :=
  match e with
  | EVE t => Match t
  | ENilPtr => MatchNil            (* a nil *ValidationError inside the interface *)
  | EWrap _ e' => as_pinned e'
  | _ => NoMatch
  end.
Definition matches (e : err) : bool := match as_pinned e with NoMatch => false | _ => true end.

(* the direct assertion e.( *ValidationError ): panics unless the dynamic type is *ValidationError *)
Definition assert_ve (e : err) : outcome (option ve) :=
  match e with EVE t => Result (Some t) | ENilPtr => Result None | _ => Panic end.

(* e.Error() for the fallback paths: panics on the nil interface and on a nil *ValidationError *)
Definition text_pinned (e : err) : outcome string :=
  match e with EPlain s => Result s | EWrap s _ => Result s | _ => Panic end.

(* childErrs[key] = child  on an association list *)
Fixpoint kid_set (l : list (string * ve)) (k : string) (c : ve) : list (string * ve) :=
  match l with
  | [] => [(k, c)]
  | (k', c') :: r => if String.eqb k' k then (k', c) :: r else (k', c') :: kid_set r k c
  end.
Definition kids_assign (dst : option (list (string * ve))) (src : option (list (string * ve)))
  : outcome (option (list (string * ve))) :=
  match okids src, dst with
  | [], _ => Result dst
  | _ :: _, None => Panic                                  (* assignment to entry in nil map *)
  | l, Some d => Result (Some (fold_left (fun acc kc => kid_set acc (fst kc) (snd kc)) l d))
  end.

Definition add_pinned (e1 e2 : err) (h : heap) : outcome (option ve * heap) :=
  if is_nil e1 && negb (match e2 with ENil => true | _ => false end) then
    if matches e2 then bind (assert_ve e2) (fun r => Result (r, h))
    else bind (text_pinned e2) (fun s => let '(t, h1) := new_validation_error empty_str s false h in Result (Some t, h1))
  else
    bind (if matches e1 then bind (assert_ve e1) (fun r => Result (r, h))
          else bind (text_pinned e1) (fun s => let '(t, h1) := new_validation_error empty_str s false h in Result (Some t, h1)))
    (fun '(ov, h1) =>
    match ov with
    | None => Panic                                        (* ve is a nil pointer: ve.errorMap dereferences it *)
    | Some (Node e w ks) =>
        if matches e2 then
          bind (assert_ve e2) (fun o2 =>
          match o2 with
          | None => Panic                                  (* nil receiver in GetFlatErrorMap *)
          | Some o =>
              bind (get_flat_pinned false o h1) (fun '(fe, h2) =>
              bind (read_map h2 fe) (fun me =>
              bind (h_add_all e me h2) (fun h3 =>
              bind (get_flat_pinned true o h3) (fun '(fw, h4) =>
              bind (read_map h4 fw) (fun mw =>
              bind (h_add_all w mw h4) (fun h5 =>
              bind (kids_assign ks (get_child_errors o)) (fun ks' =>
              Result (Some (Node e w ks'), h5))))))))
          end)
        else
          bind (text_pinned e2) (fun s =>
          bind (h_add_msgs e empty_str [s] h1) (fun h2 => Result (Some (Node e w ks), h2)))
    end).

(* ---------- witnesses ---------- *)
Local Open Scope string_scope.

(* multiset inclusion of (key,message) pairs, decidable, for the containment witnesses *)
Definition pair_eqb (a b : string * string) : bool := String.eqb (fst a) (fst b) && String.eqb (snd a) (snd b).
Fixpoint remove1 (x : string * string) (l : list (string * string)) : option (list (string * string)) :=
  match l with
  | [] => None
  | y :: r => if pair_eqb x y then Some r
              else match remove1 x r with Some r' => Some (y :: r') | None => None end
  end.
Fixpoint ms_sub (a b : list (string * string)) : bool :=
  match a with
  | [] => true
  | x :: r => match remove1 x b with Some b' => ms_sub r b' | None => false end
  end.

(* W1: parent {TestField:[Err1]} with child TestRef {ChildField:[ChildErr]}, built by NewValidationErrors.
   heap: 0 = parent's errors, 1 = child's errors. *)
Definition w1_heap : heap := [[("TestField", ["Err1"])]; [("ChildField", ["ChildErr"])]].
Definition w1_tree : ve := Node (Some 0) None (Some [("TestRef", Node (Some 1) None None)]).

(* reading the flat error map twice: the second result has the child's message twice, and the receiver's
   own top-level map now contains a key it was never given *)
Theorem flat_pinned_second_read_refuted :
  exists (h : heap) (t : ve), wf h t = true /\
    exists r1 h1 r2 h2,
      get_flat_pinned false t h = Result (r1, h1) /\
      get_flat_pinned false t h1 = Result (r2, h2) /\
      entries (omap (deref h1 r1)) = [("TestField", "Err1"); ("TestRef.ChildField", "ChildErr")] /\
      entries (omap (deref h2 r2)) =
        [("TestField", "Err1"); ("TestRef.ChildField", "ChildErr"); ("TestRef.ChildField", "ChildErr")] /\
      abs h1 t <> abs h t.
Proof.
  exists w1_heap, w1_tree. split; [reflexivity|].
  eexists _, _, _, _. split; [vm_compute; reflexivity|]. split; [vm_compute; reflexivity|].
  split; [reflexivity|]. split; [reflexivity|]. vm_compute. discriminate.
Qed.

(* Error() therefore renders the child's message twice the second time *)
Theorem error_pinned_not_once_refuted :
  exists (h : heap) (t : ve), wf h t = true /\
    exists l1 h1 l2 h2,
      error_lines_pinned t h = Result (l1, h1) /\ error_lines_pinned t h1 = Result (l2, h2) /\
      List.length l1 = 2 /\ List.length l2 = 3.
Proof.
  exists w1_heap, w1_tree. split; [reflexivity|].
  eexists _, _, _, _. split; [vm_compute; reflexivity|]. split; [vm_compute; reflexivity|].
  split; reflexivity.
Qed.

(* W2: NewValidationErrors(errs, children) leaves warningMap nil; a child carrying a warning makes
   GetFlatWarningMap (hence Error()) panic with "assignment to entry in nil map". *)
Definition w2_build : ve * heap :=
  let '(c, h1) := new_validation_error "Zip" "looks odd" true [[("Name", ["required"])]] in
  new_validation_errors (Some 0) (Some [("Address", c)]) h1.

Theorem flat_pinned_nil_map_panic_refuted :
  exists (h : heap) (t : ve), wf h t = true /\
    get_flat_pinned true t h = Panic /\ error_lines_pinned t h = Panic.
Proof. exists (snd w2_build), (fst w2_build). repeat split; vm_compute; reflexivity. Qed.

(* W3: AddErrorToValidation panics on (nil, nil), on a nil second argument, on a wrapped ValidationError,
   and when the first argument lacks a map the second has messages for. *)
Definition w3_ve : ve * heap := new_validation_error "Name" "required" false [].

Theorem add_pinned_panics_refuted :
  exists (h : heap) (t : ve), wf h t = true /\
    add_pinned ENil ENil h = Panic /\
    add_pinned (EPlain "boom") ENil h = Panic /\
    add_pinned (EVE t) ENil h = Panic /\
    add_pinned ENil (EWrap "ctx: ..." (EVE t)) h = Panic /\
    add_pinned (EWrap "ctx: ..." (EVE t)) (EPlain "boom") h = Panic.
Proof. exists (snd w3_ve), (fst w3_ve). repeat split; vm_compute; reflexivity. Qed.

(* first argument built by NewValidationErrors (nil warningMap, nil children); second has a warning / a child *)
Definition w4_build : (ve * ve * ve) * heap :=
  let '(t1, h1) := new_validation_errors None None [] in
  let '(t2, h2) := new_validation_error "Zip" "looks odd" true h1 in
  let '(c, h3) := new_validation_error "Street" "required" false h2 in
  let '(t3, h4) := new_validation_errors None (Some [("Address", c)]) h3 in
  ((t1, t2, t3), h4).

Theorem add_pinned_missing_maps_refuted :
  exists (h : heap) (t1 t2 t3 : ve), wf h t1 = true /\ wf h t2 = true /\ wf h t3 = true /\
    add_pinned (EVE t1) (EVE t2) h = Panic /\      (* warning into a nil warningMap *)
    add_pinned (EVE t2) (EVE t3) h = Panic.        (* child into a nil children map *)
Proof.
  exists (snd w4_build), (fst (fst (fst w4_build))), (snd (fst (fst w4_build))), (snd (fst w4_build)).
  repeat split; vm_compute; reflexivity.
Qed.

(* W5: no panic, but a message is LOST: both arguments have a child "Address"; the second's child replaces
   the first's, whose message "Street required" is in no map of the result. *)
Definition w5_build : (ve * ve) * heap :=
  (* maps 0..3 are empty caller-made maps: errors and warnings of the two arguments *)
  let '(c1, h1) := new_validation_error "Street" "required" false [[]; []; []; []] in
  let '(t1, h2) := new_validation_errors_with_warnings (Some 0) (Some 1) (Some [("Address", c1)]) h1 in
  let '(c2, h3) := new_validation_error "Zip" "invalid" false h2 in
  let '(t2, h4) := new_validation_errors_with_warnings (Some 2) (Some 3) (Some [("Address", c2)]) h3 in
  ((t1, t2), h4).

Theorem add_pinned_loses_message_refuted :
  exists (h : heap) (t1 t2 : ve), wf h t1 = true /\ wf h t2 = true /\
    exists r h', add_pinned (EVE t1) (EVE t2) h = Result (Some r, h') /\
      ms_sub (pairs false (abs h t1) ++ pairs false (abs h t2)) (pairs false (abs h' r)) = false /\
      In ("Address.Street", "required") (pairs false (abs h t1)) /\
      ~ In ("Address.Street", "required") (pairs false (abs h' r)).
Proof.
  exists (snd w5_build), (fst (fst w5_build)), (snd (fst w5_build)).
  split; [reflexivity|]. split; [reflexivity|].
  eexists _, _. split; [vm_compute; reflexivity|]. split; [vm_compute; reflexivity|].
  split; [vm_compute; auto|].
  vm_compute. intros H. repeat (destruct H as [H | H]; [discriminate H|]). exact H.
Qed.
