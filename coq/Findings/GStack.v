(* Pinned variant of GenericStack.Pop (before fix F9): the emptiness test is a separate, unlocked step.
   Two poppers and one element reach heap.Pop on an empty heap = index out of range panic. *)
From Coq Require Import List ZArith Bool.
From TC.Lib Require Import GoHeap.
From TC.Model Require Import GStack.
Import ListNotations.

Section Pinned.
  Context {V : Type}.
  Record pstate := { pc : @cstate V; checked : nat }.
  Inductive plabel := PBase (l : @clabel V) | PPopCheck | PPopLocked.

  Definition pstep (p : pstate) (l : plabel) : option pstate :=
    match l with
    | PBase LPop => None                       (* the pinned Pop is PPopCheck ; PPopLocked *)
    | PBase b => match cstep (pc p) b with
                 | Some c => Some {| pc := c; checked := checked p |}
                 | None => None
                 end
    | PPopCheck => match entries (st (pc p)) with
                   | [] => Some p              (* returns the zero value *)
                   | _ => Some {| pc := pc p; checked := S (checked p) |}
                   end
    | PPopLocked =>
        match checked p with
        | 0 => None
        | S k =>
            let c := pc p in
            match h_pop elt nopos (entries (st c)) with
            | Some (e, l') => Some {| pc := {| st := {| entries := l'; next := next (st c) |};
                                               issued := issued c; pending := pending c;
                                               inserted := inserted c; popped := e :: popped c;
                                               panicked := panicked c |};
                                      checked := k |}
            | None => Some {| pc := {| st := st c; issued := issued c; pending := pending c;
                                       inserted := inserted c; popped := popped c; panicked := true |};
                              checked := k |}
            end
        end
    end.

  Fixpoint prun (p : pstate) (ls : list plabel) : option pstate :=
    match ls with
    | [] => Some p
    | l :: t => match pstep p l with Some p' => prun p' t | None => None end
    end.
End Pinned.

Definition pop_panic_witness : list (@plabel Z) :=
  [PBase (LPushId 7%Z); PBase (LPushIns 0); PPopCheck; PPopCheck; PPopLocked; PPopLocked].

Theorem pop_panic_refuted :
  exists ls p, prun {| pc := @cinit Z; checked := 0 |} ls = Some p /\ panicked (pc p) = true.
Proof. exists pop_panic_witness. eexists. split; [vm_compute; reflexivity|reflexivity]. Qed.
