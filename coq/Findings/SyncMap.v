(* Finding F8 (pinned generic/syncmap.go): the wrapper asserts `v.(V)` on what sync.Map hands back.
   For an interface-typed V the nil V is stored as the nil `any`, and `x.(V)` PANICS on the nil interface
   value — so Store(k, nil); Load(k) panics, and so do Swap, LoadOrStore, LoadAndDelete, Range and Iterate.
   The pinned variant is the model's [step_gen] with the partial assertion [asV_pinned]. *)
From Coq Require Import List ZArith Bool.
From TC.Model Require Import SafeMap SyncMap.
Import ListNotations.

(* V = an interface type whose non-nil values are integers: V := option Z, nil = None, zero value = nil *)
Definition ifaceV := option Z.
Definition i_inj (v : ifaceV) : option Z := v.        (* nil V becomes the nil any *)
Definition i_proj (d : Z) : ifaceV := Some d.

Definition run_pinned := @run_gen Z ifaceV Z Z.eqb Z.eqb None i_inj (asV_pinned i_proj).
Definition run_fixed := @run_gen Z ifaceV Z Z.eqb Z.eqb None i_inj (asV_ok None i_proj).

(* None = the sequence panics *)
Theorem syncmap_nil_refuted : exists ops, run_pinned [] ops = None.
Proof. exists [OStore 1%Z None; OLoad 1%Z]. vm_compute. reflexivity. Qed.

(* every asserting method is affected *)
Example syncmap_nil_swap : run_pinned [] [OStore 1%Z None; OSwap 1%Z (Some 2%Z)] = None. Proof. reflexivity. Qed.
Example syncmap_nil_loadorstore_hit : run_pinned [] [OStore 1%Z None; OLoadOrStore 1%Z (Some 2%Z)] = None. Proof. reflexivity. Qed.
Example syncmap_nil_loadorstore_miss : run_pinned [] [OLoadOrStore 1%Z None] = None. Proof. reflexivity. Qed.
Example syncmap_nil_loadanddelete : run_pinned [] [OStore 1%Z None; OLoadAndDelete 1%Z] = None. Proof. reflexivity. Qed.
Example syncmap_nil_range : run_pinned [] [OStore 1%Z None; ORange 5] = None. Proof. reflexivity. Qed.
Example syncmap_nil_iterate : run_pinned [] [OStore 1%Z None; OIterate 5] = None. Proof. reflexivity. Qed.

(* the fixed wrapper on the same witnesses: the stored nil comes back as (nil, true) *)
Example syncmap_nil_fixed :
  run_fixed [] [OStore 1%Z None; OLoad 1%Z; OSwap 1%Z (Some 2%Z); OLoadAndDelete 1%Z; OLoadOrStore 1%Z None; ORange 5]
  = Some [RUnit; RValOk None true; RValOk None true; RValOk (Some 2%Z) true; RValOk None false; RPairs [(1%Z, None)]].
Proof. reflexivity. Qed.
