(* Pinned variants of the cache (before fixes F1 and F2) and machine-checked witnesses that they violate
   C02 / C03 / C13.  The same histories are the first corpus entries of harness/cmd/cache. *)
From Coq Require Import List Arith Bool.
From TC.Lib Require Import Assoc.
From TC.Model Require Import Cache.
Import ListNotations.

(* F1: Delete without removing the index entry *)
Definition delete_pinned (s : @state nat nat) (k : nat) : @state nat nat :=
  match lookup Nat.eqb k (index s) with
  | Some id => match peek id (parts s) with
               | Some m => if has Nat.eqb k m
                           then with_parts s (put id (remove Nat.eqb k m) (parts s))
                           else s
               | None => s
               end
  | None => s
  end.

Inductive plabel := PSet (k v : nat) | PDelete (k : nat) | PSweep.
Definition pexec (s : @state nat nat) (l : plabel) :=
  match l with PSet k v => set Nat.eqb s k v | PDelete k => delete_pinned s k | PSweep => sweep s end.

(* C02 refuted: capacity 4 (P = C = 2); Set a,b,c,d; Delete c; Set e; Set c; Sweep leaves Len = 5 *)
Theorem delete_reset_overflow_refuted :
  exists h, let s := fold_left pexec h (init 2 2) in
            last h PSweep = PSweep /\ capacity s < len s.
Proof.
  exists [PSet 1 10; PSet 2 20; PSet 3 30; PSet 4 40; PDelete 3; PSet 5 50; PSet 3 31; PSweep].
  vm_compute. split; [reflexivity|repeat constructor].
Qed.

(* C03 refuted: a deleted and re-inserted key is not renewed: it is evicted while an older key survives *)
Theorem reinsert_not_renewed_refuted :
  exists h, let s := fold_left pexec h (init 2 2) in
            get Nat.eqb s 1 = None /\ get Nat.eqb s 3 <> None.
  (* key 3 was inserted before the re-insertion of key 1, yet 1 is gone and 3 is present *)
Proof.
  exists [PSet 1 10; PSet 2 20; PSet 3 30; PDelete 1; PSet 1 11; PSet 4 40; PSet 5 50; PSweep].
  vm_compute. split; [reflexivity|discriminate].
Qed.

(* F2: Resize used the default calculator and compared the partition count only *)
Definition resize_pinned (s : @state nat nat) (n : nat) (order : list (list nat)) : @state nat nat :=
  let '(p, c) := calc_default n in
  if p =? P s then s else replay Nat.eqb (clear_with p c) (parts s) order.

(* C13 refuted: Resize(12) on a capacity-9 cache keeps capacity 9 (3 partitions before and after) *)
Theorem resize_same_count_refuted :
  capacity (resize_pinned (init 3 3) 12 []) = 9 /\ fst (calc_default 12) * snd (calc_default 12) = 12.
Proof. vm_compute. split; reflexivity. Qed.

(* C13 refuted: with WithBalancedPartitions(3, 2) a new cache of capacity 20 has 2 x 10, Resize(20) gave 4 x 5 *)
Theorem resize_ignores_option_refuted :
  calc_balanced 2 2 20 = (2, 10) /\ capacity (resize_pinned (init 2 8) 20 []) = 20
  /\ P (resize_pinned (init 2 8) 20 []) = 4.
Proof. vm_compute. repeat split. Qed.
