(* K6 (C18): a gRPC handler that ignores the cancellation of its call keeps GracefulStop waiting after the
   forced grpc.Server.Stop (grpc-go waits for handlersWG in GracefulStop, holding the server mutex), so
   GrpcProvider.Stop, and with it Server.Stop, outlives its context.  In the model this is the system
   WITHOUT the LForce step (forcing the stop does not end the requests in flight): L3 then fails for the
   gRPC provider, and the conclusion of C18_stop_returns is refuted by a reachable stuck state. *)
From Coq Require Import List ZArith Bool Arith.
From TC.Model Require Import Lifecycle.
Import ListNotations.

Definition step_noforce (l : label) (s : st) : option st :=
  match l with LForce => None | _ => step lib_serve_ret lib_drain_ret l s end.
Fixpoint run_noforce (ls : list label) (s : st) : option st :=
  match ls with
  | [] => Some s
  | l :: t => match step_noforce l s with Some s' => run_noforce t s' | None => None end
  end.

Definition stuck_schedule : list label :=
  [LCallStart; LAddStop; LAddStart; LGo; LListen 0; LSignal 0; LStartReturn; LServe 0;
   LReqBegin 0; LCallStop; LCtxExpire; LStopCall; LServeReturn 0; LDone 0].

Lemma grpc_stop_outlives_context_refuted :
  exists (ls : list label) (s : st),
    run_noforce ls (init [KGrpc] 0) = Some s
    /\ s_ctx s = true                                   (* the context given to Stop has ended *)
    /\ s_stop s = CStopDrain 0                        (* Stop has not returned *)
    /\ forallb (fun l => match step_noforce l s with None => true | Some _ => false end)
               (internal_labels 1) = true.              (* and no step of the server is enabled *)
Proof. exists stuck_schedule. eexists. split; [vm_compute; reflexivity|]. vm_compute. repeat split. Qed.

(* with the forced stop aborting the calls (handlers honour cancellation) the same history goes on to the end *)
Lemma grpc_stop_with_force_completes :
  match run lib_serve_ret lib_drain_ret (stuck_schedule ++ [LForce; LStopProvReturn; LStopReturn]) (init [KGrpc] 0) with
  | Some s => s_stop s = CStopped /\ s_stopwg s = 0%Z
  | None => False
  end.
Proof. vm_compute. split; reflexivity. Qed.
