(* C10 — locking obligations of publisher/publication.go, over the lock skeleton REGENERATED from the Go source on every
   run (Gen/PubSkeleton_gen.v, translator/lockskel: field mode, options foreign/nested/reentrant; notes/translator-round4.md).

   subscriber_skeleton: per exported function/method of the file ("Type.Method"; private methods such as send, shutdown and
   the methods of Publication are analysed in place; the delivery goroutine started by Publish is the entry
   "Publication.Publish.go1"), the sections = stretches under a constant set of held locks, with the accesses to
     closed          the Subscriber's bool
     receiveCh       its chan T (the field; a SEND on it is in addition a read, close() a write of "receiveCh.open")
     done            its chan struct{}
   and the mode in which the Subscriber's sync.RWMutex (role name "mu") is held.  Locks and fields are found by TYPE (also one
   level down in a nested private struct), so private renames and helper extractions do not change the skeleton.

   The statements are about the fine-grained RWMutex semantics of Lib/Conc.v (any number of instances of any entry, locks
   taken one by one, accesses one at a time) and, for the two decidable discipline checks, about every section of every
   entry.  Trusted: the translator (fail closed: what it does not understand is [Unknown], which falsifies every theorem
   here), go/types' resolution of the file, sync.RWMutex by contract, DRF-SC. *)
From Coq Require Import List String Bool.
From TC.Lib Require Import Conc LocksetDiag LocksetMore.
From TC.Gen Require Import PubSkeleton_gen.
Import ListNotations.
Local Open Scope string_scope.

(* For EVERY schedule: no two goroutines are ever about to access closed / receiveCh / done / the open-state of receiveCh
   conflictingly — in particular a send on receiveCh (delivery goroutine, read lock) never coincides with close(receiveCh)
   (write lock), and the translator understood every function of the file. *)
Theorem C10_subscriber_race_free : race_free subscriber_skeleton.
Proof. apply lockset_sound. vm_compute. reflexivity. Qed.

(* Lock discipline, for every section of every entry: every access to the closed flag and every send on / close of
   receiveCh happens with mu held; the WRITES — closed = true and close(receiveCh) — with mu held in WRITE mode. *)
Theorem C10_subscriber_lock_discipline :
  forall name secs h accs a,
    In (name, secs) subscriber_skeleton -> In (Sec h accs) secs -> In a accs ->
    In (loc a) ["closed"; "receiveCh.open"] ->
    (wr a = true -> In ("mu", Wr) h) /\ (exists md, In ("mu", md) h).
Proof. apply guarded_by_spec. vm_compute. reflexivity. Qed.

(* No lock is acquired while it is already held, on any path of any entry (a lock re-acquired by a helper that the
   caller calls under the lock is listed twice by the translator): the static form of "no recursive read-locking of mu"
   — send holding RLock and calling a helper that RLocks again deadlocks as soon as shutdown's Lock queues in between. *)
Theorem C10_no_lock_reacquired :
  forall name secs s, In (name, secs) subscriber_skeleton -> In s secs ->
    exists h accs, s = Sec h accs /\ NoDup (map fst h).
Proof. apply no_reacquire_spec. vm_compute. reflexivity. Qed.

(* Publication has no lock: the field holding the subscriber map is never written after construction (the map
   synchronises itself: generic.SyncMap, property C07) *)
Theorem C10_publication_map_race_free : race_free publication_skeleton.
Proof. apply lockset_sound. vm_compute. reflexivity. Qed.

(* ---- non-vacuity: the accesses the theorems talk about are really in the skeleton ---- *)
Example C10_send_under_read_lock : has_access "mu" Rd "receiveCh.open" false subscriber_skeleton = true.
Proof. vm_compute. reflexivity. Qed.
Example C10_close_under_write_lock : has_access "mu" Wr "receiveCh.open" true subscriber_skeleton = true.
Proof. vm_compute. reflexivity. Qed.
Example C10_closed_read_and_written :
  has_access "mu" Rd "closed" false subscriber_skeleton && has_access "mu" Wr "closed" true subscriber_skeleton = true.
Proof. vm_compute. reflexivity. Qed.
Example C10_offending_nil : offending subscriber_skeleton = []. Proof. vm_compute. reflexivity. Qed.
(* the delivery goroutine and the two Close methods are entries *)
Example C10_entries :
  forallb (fun n => existsb (fun ms => String.eqb (fst ms) n) subscriber_skeleton)
          ["Publication.Publish.go1"; "Publication.Close"; "Subscriber.Close"; "Subscriber.Receive"] = true.
Proof. vm_compute. reflexivity. Qed.

Print Assumptions C10_subscriber_race_free.
Print Assumptions C10_subscriber_lock_discipline.
Print Assumptions C10_no_lock_reacquired.
Print Assumptions C10_publication_map_race_free.
