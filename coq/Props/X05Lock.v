(* X05 — lockset obligation for rankCalculation/rankCalculator.go over the lock skeleton REGENERATED from the Go source on
   every run (Gen/RankSkeleton_gen.v, translator/lockskel; notes/translator-round4.md): the accesses to the field holding the
   *storage.SafeMap (role name "entries": Accumulate and Calculate read it, Reset replaces it) and the mode in which the
   calculator's sync.RWMutex (role name "mux") is held.  This replaces the hand-transcribed access table of Findings/Rank.v
   (X05-F3, kept there as the record of the pinned code) as the statement about the CURRENT source: with Accumulate reading
   the field without the lock (before /repo commit 272bc04) this file does not compile. *)
From Coq Require Import List String Bool.
From TC.Lib Require Import Conc LocksetDiag LocksetMore.
From TC.Gen Require Import RankSkeleton_gen.
Import ListNotations.
Local Open Scope string_scope.

(* for EVERY schedule of any number of Accumulate / Calculate / Reset calls, no two of them are ever about to access the
   field conflictingly, and the translator understood every method *)
Theorem X05_entries_race_free : race_free rank_skeleton.
Proof. apply lockset_sound. vm_compute. reflexivity. Qed.

(* every access to the field holds mux, the write (Reset) in write mode *)
Theorem X05_entries_lock_discipline :
  forall name secs h accs a,
    In (name, secs) rank_skeleton -> In (Sec h accs) secs -> In a accs -> In (loc a) ["entries"] ->
    (wr a = true -> In ("mux", Wr) h) /\ (exists md, In ("mux", md) h).
Proof. apply guarded_by_spec. vm_compute. reflexivity. Qed.

Theorem X05_no_lock_reacquired :
  forall name secs s, In (name, secs) rank_skeleton -> In s secs -> exists h accs, s = Sec h accs /\ NoDup (map fst h).
Proof. apply no_reacquire_spec. vm_compute. reflexivity. Qed.

(* non-vacuity: the three parties of the hand-written table are there *)
Example X05_parties :
  has_access "mux" Wr "entries" true rank_skeleton && has_access "mux" Rd "entries" false rank_skeleton
  && forallb (fun n => existsb (fun ms => String.eqb (fst ms) n) rank_skeleton) ["Accumulate"; "Reset"; "Calculate"] = true.
Proof. vm_compute. reflexivity. Qed.

Print Assumptions X05_entries_race_free.
Print Assumptions X05_entries_lock_discipline.
Print Assumptions X05_no_lock_reacquired.
