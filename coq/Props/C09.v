(* C09 — the work queue honours its worker count and its queue length.

   Model: Model/WQ.v, variant [fixed]; notation as in Props/C04.v.  [running s] = the work functions executing,
   W = configured workers, L = queue length ([sL s], changed by ResizeLen).  An Enqueue call has *returned* when the
   dispatcher has received its item ([EvReturned], [nreturned] counts them).  "While nothing completes" = the label list
   contains only Enqueue calls and internal steps ([bp_label]).  "At an internally-quiescent state" = no step of
   dispatcher, workers or monitor is enabled: what an observer sees after the goroutines have run as far as they can.
   Property theorems only; proofs in Proofs/WQLive.v, Proofs/WQCons.v. *)
From Coq Require Import List Arith ZArith Bool Lia.
From TC.Lib Require Import GoHeap GoHeapProofs.
From TC.Model Require Import WQ.
From TC.Proofs Require Import WQHeap WQInv WQCons WQLive WQOpts.
From TC.Findings Require WQ.
Import ListNotations.

Local Notation reachable W L ls s := (run fixed (init W L) ls = Some s).
Lemma rr W L ls s : reachable W L ls s -> reach fixed s.
Proof. intros H. eapply run_reach; [apply reach_init|exact H]. Qed.

(* At no instant are more work functions executing than workers (ALL label sequences); the worker goroutines are
   exactly W: idle + executing + reporting an error + deleting + posting a token + exited. *)
Theorem C09_workers : forall W L ls s,
  reachable W L ls s ->
  length (running s) <= W /\
  idle s + length (running s) + length (senderr s) + length (deleting s) + posting s + wexited s = W /\
  length (buffer s) <= W /\ tokens s <= W.
Proof.
  intros W L ls s Hr. destruct (winv_reach s (rr _ _ _ _ Hr)) as (H1 & H2 & H3).
  pose proof (sW_run ls _ _ Hr) as HW. cbn in HW. rewrite HW in *. repeat split; try assumption; lia.
Qed.

(* Work-conserving: on a running queue, at an internally-quiescent state, if anything is waiting (blocked producer,
   dispatcher's hand, heap, worker channel) no worker is idle: all W are inside a work function (or handing its error
   to the monitor, C14). *)
Theorem C09_work_conserving : forall W L ls s,
  1 <= W -> forallb no_stop ls = true -> reachable W L ls s -> panicked s = false -> quiescent fixed s ->
  0 < length (producers s) + length (held (disp s)) + length (heap s) + length (buffer s) ->
  idle s = 0 /\ posting s = 0 /\ deleting s = [] /\ length (running s) + length (senderr s) = W.
Proof.
  intros W L ls s HW Hl Hr Hnp Hq Hw. pose proof (sW_run ls _ _ Hr) as HsW. cbn in HsW. rewrite <- HsW.
  apply work_conserving; auto; [apply (rr _ _ _ _ Hr)|eapply live_reach; eauto|lia].
Qed.

(* so with k unfinished accepted items (waiting or executing) and no error pending, min(k, W) are executing *)
Corollary C09_min_k_W : forall W L ls s,
  1 <= W -> forallb no_stop ls = true -> reachable W L ls s -> panicked s = false -> quiescent fixed s ->
  senderr s = [] ->
  let k := length (producers s) + length (held (disp s)) + length (heap s) + length (buffer s) + length (running s) in
  length (running s) = Nat.min k W.
Proof.
  intros W L ls s HW Hl Hr Hnp Hq He k.
  destruct (C09_workers _ _ _ _ Hr) as (Hle & _).
  destruct (Nat.eq_dec (length (producers s) + length (held (disp s)) + length (heap s) + length (buffer s)) 0) as [H0|H0].
  - unfold k. rewrite H0. cbn. lia.
  - destruct (C09_work_conserving W L ls s HW Hl Hr Hnp Hq ltac:(lia)) as (_ & _ & _ & H).
    rewrite He in H. cbn in H. unfold k. lia.
Qed.

(* Back-pressure: while nothing completes, at most L + 2W + 1 Enqueue calls return ... *)
Theorem C09_backpressure_upper : forall W L ls s,
  forallb bp_label ls = true -> reachable W L ls s -> nreturned (trace s) <= L + 2 * W + 1.
Proof. intros W L ls s Hl Hr. pose proof (backpressure_upper W L ls s Hl Hr). lia. Qed.

(* ... and a producer is found blocked at an internally-quiescent state only when at least W + L + 1 calls have
   returned (W + L items outstanding besides the one in the dispatcher's hand). *)
Theorem C09_backpressure_lower : forall W L ls s,
  forallb bp_label ls = true -> reachable W L ls s -> panicked s = false -> quiescent fixed s ->
  producers s <> [] -> W + L + 1 <= nreturned (trace s).
Proof. exact backpressure_lower. Qed.

(* Blocked producers resume as work completes.  FULL STATEMENT (not proved in this generality): from every
   internally-quiescent state of a running queue with a blocked producer, after any completion every maximal internal
   run lets at least one more Enqueue call return.
   PROVED (C09_resume_partial): the two halves for the canonical queue-full state - (a) a completion with a nil
   result, from a state where no worker is between its work function and Delete (every quiescent state), runs
   Finish; WDelete; WPost and leaves one more token and one more idle worker, dispatcher untouched; (b) with a token,
   the dispatcher waiting in the full-queue branch (non-empty heap, room in the worker channel) runs
   DFullTok; DFullSend; DRecv p and producer p's Enqueue returns.
   MISSING: the same for a dispatcher blocked in a send on the full worker channel (PhFullSend/PhTokSend; one WTake
   first), completions that return an error while the monitor is busy, and the step from "this schedule exists" to
   "every fair schedule" (which is C04_terminates + the quiescent-state lemmas q_* of Proofs/WQLive.v). *)
Theorem C09_resume_partial :
  (forall s id x rest,
     panicked s = false -> sem_closed s = false -> deleting s = [] ->
     take_item id (running s) = Some (x, rest) -> tokens s < sW s ->
     exists s', run fixed s [Finish id None; WDelete id; WPost] = Some s' /\
                tokens s' = S (tokens s) /\ idle s' = S (idle s) /\ running s' = rest /\
                disp s' = disp s /\ heap s' = heap s /\ buffer s' = buffer s /\ producers s' = producers s /\
                panicked s' = false /\ nreturned (trace s') = nreturned (trace s) /\ sW s' = sW s) /\
  (forall s w t vals p,
     panicked s = false -> disp s = PhFullWait w -> tokens s = S t -> heap s <> [] -> buffer_room s = true ->
     In p (producers s) ->
     exists s' q, run fixed s [DFullTok vals; DFullSend; DRecv (iid p)] = Some s' /\
                  nreturned (trace s') = S (nreturned (trace s)) /\
                  length (producers s') < length (producers s) /\ disp s' = PhGot q /\ iid q = iid p /\
                  panicked s' = false).
Proof. split; [exact finish_yields_token|exact token_resumes_producer]. Qed.

(* ResizeQueueLength moves the threshold for subsequent arrivals: it only stores the new length, and an arriving
   item that cannot be handed off directly is pushed iff the heap is shorter than the length in force at that moment,
   otherwise the dispatcher enters the full-queue branch.  (The bounds of C09_backpressure_* are proved for a constant
   length; FULL STATEMENT with the length "in force when each item arrives" is not proved.) *)
Theorem C09_resize_partial : forall s n w,
  panicked s = false ->
  step fixed s (ResizeLen n) = Some (set_sL n s) /\
  (disp s = PhGot w -> no_handoff s = true ->
     (length (heap s) < sL s -> step fixed s DFull = None /\ exists s', step fixed s DPush = Some s') /\
     (sL s <= length (heap s) -> step fixed s DPush = None /\ step fixed s DFull = Some (set_disp (PhFullWait w) s))).
Proof.
  intros s n w Hnp. split; [unfold step; rewrite Hnp; reflexivity|].
  intros Hd Hn. unfold step. rewrite Hnp, Hd, Hn. cbn [andb].
  split; intros H.
  - apply Nat.ltb_lt in H. rewrite H. cbn. split; [reflexivity|eauto].
  - apply Nat.ltb_ge in H. rewrite H. cbn. split; reflexivity.
Qed.

(* "Every worker count and queue length" includes every way of giving them: NewQueue applies its options in argument
   order on top of the defaults (NumCPU workers, length 2*NumCPU); the effective configuration - the W and L all
   theorems above speak about - is the last WithWorkers value (or NumCPU) and the last WithQueueLength value (or
   2*NumCPU); in particular the two options may be given in either order, and WithWorkers alone leaves the length at
   its default. *)
Theorem C09_configuration : forall ncpu opts pre w l post,
  effective ncpu opts = (last_workers ncpu opts, last_length (2 * ncpu) opts) /\
  effective ncpu (pre ++ OptWorkers w :: OptLength l :: post) = effective ncpu (pre ++ OptLength l :: OptWorkers w :: post) /\
  effective ncpu [OptWorkers w; OptLength l] = (w, l) /\ effective ncpu [OptLength l; OptWorkers w] = (w, l) /\
  effective ncpu [OptWorkers w] = (w, 2 * ncpu) /\ effective ncpu [OptLength l] = (ncpu, l) /\
  effective ncpu [] = (ncpu, 2 * ncpu).
Proof.
  intros. split; [apply effective_spec|]. split; [apply effective_swap|]. repeat split; reflexivity.
Qed.

(* ---- non-vacuity: W=1, L=2, seven Enqueue calls and nothing completes: 5 = W+L+2 calls returned, two producers
   blocked, the state is internally quiescent and meets the hypotheses of the theorems above ---- *)
Example C09_nonvacuous :
  exists ls s, forallb bp_label ls = true /\ run fixed (init 1 2) ls = Some s /\ panicked s = false /\
    quiescentb fixed s = true /\ length (producers s) = 2 /\ nreturned (trace s) = 5 /\ length (running s) = 1 /\
    (exists w, disp s = PhFullWait w).
Proof.
  exists WQ.labels_C09_example.
  destruct (run fixed (init 1 2) WQ.labels_C09_example) as [s|] eqn:E; [|vm_compute in E; discriminate E].
  exists s. split; [vm_compute; reflexivity|]. split; [reflexivity|].
  vm_compute in E. injection E as <-. vm_compute. repeat split. eexists. reflexivity.
Qed.

Print Assumptions C09_workers.
Print Assumptions C09_work_conserving.
Print Assumptions C09_min_k_W.
Print Assumptions C09_backpressure_upper.
Print Assumptions C09_backpressure_lower.
Print Assumptions C09_resume_partial.
Print Assumptions C09_resize_partial.
Print Assumptions C09_configuration.
