(* C08 — FifoMapCache under concurrency (placeholder while the harness is being built; theorems follow). *)
