(* C08 — FifoMapCache is safe under concurrent use.  PARTIAL: property theorems for every schedule of the
   interleaving model Model/CacheConc.v, the full statement, and its two refutations (known findings K1, K3). *)
From Coq Require Import List Arith Bool.
From TC.Model Require Cache.
From TC.Model Require Import CacheConc CacheConcSeq.
From TC.Proofs Require Import CacheConcBase CacheConcSafe CacheConcTicker CacheConcCap CacheConcRace CacheConcSeq.
From TC.Lib Require Conc LocksetDiag.
From TC.Gen Require CacheSkeleton_gen.
From TC.Proofs Require CacheLockset CacheFootprints.
Import ListNotations.

Section C08.
  Context {K V : Type}.
  Variable keqb : K -> K -> bool.
  Variable zero : V.
  Hypothesis keqb_spec : forall a b, reflect (a = b) (keqb a b).     (* Go's == on keys is reflexive (no NaN) *)
  Notation run := (@run K V keqb zero).

  (* For EVERY configuration (with or without the fixes F15 / F1) and EVERY schedule — any number of goroutines
     calling Set/Get/Contains/Delete/Sweep/Clear, the ticker, cancellation, in any interleaving of their atomic
     sections — no step dereferences a reference that does not exist: the cache never panics. *)
  Theorem C08_partial_no_panic (c : config) (ls : list label) s :
    run c init ls = Some s -> panicked s = false.
  Proof. intros H. apply (cache_no_panic keqb zero c ls s H). Qed.

  (* For every schedule: every (k, v) in ANY partition object (live, evicted or cleared away) was the argument of
     some Set k v of the schedule; hence every value a completed Get k returned is the zero value or was Set for k. *)
  Theorem C08_partial_get_was_set (c : config) (ls : list label) s :
    run c init ls = Some s ->
    (forall m k v, In m (pmaps s) -> In (k, v) m -> In (LSpawn (OSet k v)) ls)
    /\ (forall k v, In (OGet k, PDone (RVal v)) (threads s) -> v = zero \/ In (LSpawn (OSet k v)) ls).
  Proof. exact (cache_get_was_set_sched keqb zero keqb_spec c ls s). Qed.
  (* Cancelling the construction context ends the background sweeper.  After cancel, for EVERY continuation of
     EVERY schedule: the context stays cancelled; whenever the ticker goroutine is at its select its exit step is
     enabled, and it is its ONLY step unless a tick is waiting in the ticker channel; as long as the timer delivers
     no further tick the goroutine begins at most one more sweep (the tick already buffered at that moment; none
     if the channel is empty) — [tk_begins] counts the sweeps begun by the ticker goroutine along the continuation;
     a sweep it is in the middle of ends after exactly n+1 of its own steps, each of which is always enabled; and
     once exited it never steps again.
     (Go's select picks at random among ready cases, so a tick that is ready together with ctx.Done() can delay
     the exit by one sweep per such tick; the model has exactly this freedom.) *)
  Theorem C08_partial_sweeper_stops (c : config) (ls1 : list label) s1 :
    run c init ls1 = Some s1 -> cancelled s1 = true ->
    forall ls2 s2, run c s1 ls2 = Some s2 ->
      cancelled s2 = true
      /\ (forallb (fun l => negb (is_tick l)) ls2 = true ->
          tk_begins keqb zero c s1 ls2 + b2n (tick s2) <= b2n (tick s1))
      /\ (forall i, nth_error (threads s2) i = Some (OTicker, PTkWait) ->
            step keqb zero c s2 (LExit i) = Some (set_pc s2 i OTicker (PDone RUnit))
            /\ (tick s2 = false -> step keqb zero c s2 (LStep i) = None))
      /\ (forall i n, nth_error (threads s2) i = Some (OTicker, PSwPop n) ->
            exists s3, step keqb zero c s2 (LStep i) = Some s3
                       /\ nth_error (threads s3) i = Some (OTicker, match n with 0 => PTkWait | S n' => PSwPop n' end))
      /\ (forall i, nth_error (threads s2) i = Some (OTicker, PDone RUnit) ->
            step keqb zero c s2 (LStep i) = None /\ step keqb zero c s2 (LExit i) = None).
  Proof. exact (cache_sweeper_stops keqb zero c ls1 s1). Qed.

  (* After fix F15 ([recheck c = true]): for EVERY schedule without Delete/Clear in which at most
     maxPartitions*partitionCapacity Sets are called — with any number of Get/Contains/Sweep calls, timer ticks,
     ticker steps and cancellation interleaved in any way —
       (1) no partition is ever evicted: the stack holds exactly the partitions with ids 1..ctr, i.e. all that
           were ever opened, and at most maxPartitions were opened
           (invariant: k partitions opened => the first k-1 are full and, when the k-th was opened, the opener's
            own pair was not yet stored, so more than (k-1)*C Sets had been called);
       (2) if moreover the keys of the Sets are pairwise distinct, every Set that has returned is present:
           Get k evaluated on that state returns its value and Keys() contains k. *)
  Theorem C08_partial_within_capacity (c : config) (ls : list label) s :
    recheck c = true ->
    run c init ls = Some s -> forallb (@wc_label K V) ls = true ->
    length (set_args ls) <= maxP c * capC c ->
    (exists st, stacks s = [st] /\ fparts s = 0 /\ map fst (ents st) = seq 1 (ctr st)
                /\ ctr st = length (pmaps s) /\ ctr st <= maxP c)
    /\ (NoDup (map fst (set_args ls)) ->
        forall i k v r, nth_error (threads s) i = Some (OSet k v, PDone r) ->
                        get_now keqb zero s k = v /\ In k (keys_now s)).
  Proof. intros Hre. exact (cache_within_capacity keqb zero keqb_spec c Hre ls s). Qed.

  (* Race freedom of the core: for EVERY schedule in which nobody calls Clear (Resize is not modelled; the part of
     it that matters here is Clear's), no reachable state has two different goroutines whose next steps are both
     enabled and contain conflicting accesses (same location, at least one write) not ordered by a common lock held
     exclusively by at least one side.  Locations and locks per step: Model/CacheConc.v [footprint].  With
     DRF-SC of the Go memory model this is what justifies the interleaving semantics for these schedules. *)
  Theorem C08_partial_race_free_core (c : config) (ls : list label) s :
    forallb (fun l => negb (@is_clear K V l)) ls = true -> run c init ls = Some s -> ~ race keqb zero c s.
  Proof. exact (cache_race_free keqb zero c ls s). Qed.
  (* Sequential projection (ties this model to Model/Cache.v, the model of C01/C02/C03/C13, whose correspondence
     with the Go code is checked by those properties' harness): on a state with no call in flight ([WF], locks
     free, current stack well-formed = [Q]), spawning ANY operation and letting its goroutine run alone to
     completion ([solo]: m consecutive steps of that goroutine) is exactly the step of the sequential cache model
     under the abstraction [absf], returns what the sequential model observes, and re-establishes [WF] and [Q]
     (a `go f.Sweep()` spawned on the way stays pending, as in Cache.v where Sweep is a label of its own).
     Configuration: after F15 and with Delete's fix F1, as in Cache.v. *)
  Theorem C08_seq_projection_call (c : config) (s : @CacheConc.state K V) o l :
    recheck c = true -> delidx c = true ->
    WF s -> Q s -> lab o = Some l ->
    exists m s' r, run c s (LSpawn o :: solo (length (threads s)) m) = Some s'
                   /\ nth_error (threads s') (length (threads s)) = Some (o, PDone r)
                   /\ absf c s' = fst (Cache.step keqb (absf c s) l)
                   /\ res_matches zero o r (snd (Cache.step keqb (absf c s) l))
                   /\ WF s' /\ Q s'.
  Proof. intros Hre Hdel. exact (seq_call keqb zero keqb_spec c Hre Hdel s o l). Qed.

  (* ... hence every sequential history of Set/Get/Contains/Delete/Sweep/Clear calls is a schedule of the concurrent
     model, ending in the state the sequential model computes *)
  Theorem C08_seq_projection_history (c : config) (ops : list op) (h : list (@Cache.label K V)) :
    recheck c = true -> delidx c = true ->
    Forall2 (fun o l => lab o = Some l) ops h ->
    exists ls s', run c init ls = Some s'
                  /\ absf c s' = Cache.run keqb (Cache.init (maxP c) (capC c)) h /\ WF s' /\ Q s'.
  Proof.
    intros Hre Hdel Hf.
    destruct (seq_history keqb zero keqb_spec c Hre Hdel h ops Hf init (WF_init) (Q_init)) as (ls & s' & H1 & H2 & H3).
    exists ls, s'. split; [exact H1|]. split; [exact H2|exact H3].
  Qed.
End C08.

(* ------------------------------------------------------------------------------------------------------------
   The FULL statement of C08 on the model (after fix F15): for all schedules no panic, no data race, and once
   all calls have returned the views are consistent (at least: Keys() has no duplicate).  It is FALSE for the
   code as it is; the two theorems below it are the machine-checked counterexamples (known findings K3 and K1;
   both need a re-design of the cache's locking and are therefore not fixed). *)
Definition C08_full_statement : Prop :=
  forall (c : config) (ls : list (@label nat nat)) s,
    recheck c = true -> run Nat.eqb 0 c init ls = Some s ->
    panicked s = false /\ ~ race Nat.eqb 0 c s /\ (quiescent s = true -> NoDup (keys_now s)).

Definition fixed_cfg (P C : nat) : config := {| maxP := P; capC := C; recheck := true; delidx := true |}.

(* K3: two goroutines Set the same new key 7.  Both miss the index; the first opens partition 1 (capacity 1) and
   fills it, the second then opens partition 2: the key is in two partitions, Keys() = [7; 7].
   threads: 0 ticker, 1 = Set 7 1, 2 = Set 7 2, 3 and 4 = spawned sweepers (2 partitions <= maxP: nothing to pop) *)
Definition duplicate_key_witness : list (@label nat nat) :=
  [LSpawn (OSet 7 1); LSpawn (OSet 7 2);
   LStep 1; LStep 2;                      (* index lookups: key 7 is new for both *)
   LStep 1; LStep 1; LStep 1;             (* goroutine 1: RLock section, Lock section (opens id 1), partition.Set *)
   LStep 2; LStep 2; LStep 2;             (* goroutine 2: partition 1 is full: opens id 2, partition.Set *)
   LStep 1; LStep 2;                      (* index.Set, twice *)
   LStep 3; LStep 3; LStep 4; LStep 4].

Theorem C08_duplicate_key_refuted :
  exists ls s, run Nat.eqb 0 (fixed_cfg 2 1) init ls = Some s
               /\ quiescent s = true /\ panicked s = false /\ keys_now s = [7; 7] /\ ~ NoDup (keys_now s).
Proof.
  exists duplicate_key_witness. eexists. split; [vm_compute; reflexivity|].
  repeat split; try reflexivity. intros H. inversion H as [|x l Hn _]; subst. apply Hn. left; reflexivity.
Qed.

(* the same defect through Delete once it removes the index entry (fix F1, [delidx := true]): Set 7 2 has already
   chosen partition 1 for its in-place write when Delete 7 removes the key and its index entry; the write puts the
   key back without an index entry, so the next Set 7 3 inserts it a second time (no two Sets overlap) *)
Example C08_duplicate_key_set_delete :
  match run Nat.eqb 0 (fixed_cfg 2 1) (@init nat nat)
          [LSpawn (OSet 7 1); LStep 1; LStep 1; LStep 1; LStep 1; LStep 1;
           LSpawn (OSet 7 2); LStep 3; LStep 3; LStep 3;
           LSpawn (ODelete 7); LStep 4; LStep 4; LStep 4; LStep 4; LStep 4; LStep 4;
           LStep 3;
           LSpawn (OSet 7 3); LStep 5; LStep 5; LStep 5; LStep 5; LStep 5;
           LStep 2; LStep 2; LStep 6; LStep 6] with
  | Some s => quiescent s && (length (keys_now s) =? 2) && forallb (Nat.eqb 7) (keys_now s)
  | None => false
  end = true.
Proof. vm_compute. reflexivity. Qed.

(* K1: a Get that is about to read the field f.partitions without any lock (thread 3) while Clear (thread 4) is
   about to take the write lock and overwrite that field: both steps are enabled in the same state and no common
   lock orders them.  After Clear's first step the same holds for f.valuePartitionIndex (written by Clear under the
   lock, read by the index lookup of a new Get, thread 5, under none). *)
Definition race_witness : list (@label nat nat) :=
  [LSpawn (OSet 1 11); LStep 1; LStep 1; LStep 1; LStep 1; LStep 1;     (* Set 1 11 runs to completion *)
   LSpawn (OGet 1); LStep 3;                                             (* Get 1: index lookup done *)
   LSpawn OClear].

Theorem C08_race_refuted :
  exists ls s, run Nat.eqb 0 (fixed_cfg 2 1) init ls = Some s /\ race Nat.eqb 0 (fixed_cfg 2 1) s
               /\ nth_error (threads s) 3 = Some (OGet 1, PRdParts 1) /\ nth_error (threads s) 4 = Some (OClear, PCl1).
Proof.
  exists race_witness. eexists. split; [vm_compute; reflexivity|]. split; [|split; reflexivity].
  exists 3, 4. vm_compute. reflexivity.
Qed.

Example C08_race_on_index :
  exists s, run Nat.eqb 0 (fixed_cfg 2 1) init (race_witness ++ [LStep 4; LSpawn (OGet 1)]) = Some s
            /\ race_at Nat.eqb 0 (fixed_cfg 2 1) s 5 4 = true
            /\ nth_error (threads s) 5 = Some (OGet 1, PIdx) /\ nth_error (threads s) 4 = Some (OClear, PCl2).
Proof. eexists. split; [vm_compute; reflexivity|]. repeat split; vm_compute; reflexivity. Qed.

Corollary C08_full_statement_refuted : ~ C08_full_statement.
Proof.
  intros H. destruct C08_duplicate_key_refuted as (ls & s & Hr & Hq & _ & _ & Hd).
  destruct (H (fixed_cfg 2 1) ls s eq_refl Hr) as (_ & _ & Hn). exact (Hd (Hn Hq)).
Qed.

(* non-vacuity: a schedule with every kind of operation *)
Example C08_ex_run :
  exists s, run Nat.eqb 0 (fixed_cfg 2 2) init
              [LSpawn (OSet 1 11); LStep 1; LStep 1; LStep 1; LStep 1; LStep 1; LSpawn (OGet 1); LStep 3; LStep 3; LStep 3; LStep 3;
               LTick; LStep 0; LStep 2; LStep 2; LStep 0; LStep 0; LCancel; LExit 0] = Some s
            /\ nth_error (threads s) 3 = Some (OGet 1, PDone (RVal 11)) /\ nth_error (threads s) 0 = Some (OTicker, PDone RUnit).
Proof. eexists. split; [vm_compute; reflexivity|]. split; reflexivity. Qed.

(* non-vacuity of C08_partial_within_capacity: the schedule of lost_insert_refuted (Findings/CacheConc.v) on the FIXED
   code: 2 distinct keys, capacity 1*2; both present, one partition *)
Definition within_capacity_example : list (@label nat nat) :=
  [LSpawn (OSet 1 11); LSpawn (OSet 2 22); LStep 1; LStep 2; LStep 1; LStep 2; LStep 1; LStep 2;
   LStep 1; LStep 2; LStep 1; LStep 2; LStep 3; LStep 3].
Example C08_ex_within_capacity_hyps :
  forallb (@wc_label nat nat) within_capacity_example = true
  /\ length (set_args within_capacity_example) <= 1 * 2
  /\ NoDup (map fst (set_args within_capacity_example)).
Proof.
  split; [reflexivity|]. split; [vm_compute; auto|].
  vm_compute. constructor; [intros [H|[]]; discriminate|constructor; [intros []|constructor]].
Qed.
Example C08_ex_within_capacity_run :
  match run Nat.eqb 0 (fixed_cfg 1 2) init within_capacity_example with
  | Some s => quiescent s && (get_now Nat.eqb 0 s 1 =? 11) && (get_now Nat.eqb 0 s 2 =? 22) && (length (pmaps s) =? 1)
  | None => false
  end = true.
Proof. vm_compute. reflexivity. Qed.

(* non-vacuity of C08_partial_sweeper_stops: cancel while a tick is buffered: the ticker may still sweep once
   (3 steps), is back at its select with an empty channel, and then can only exit *)
Example C08_ex_sweeper :
  match run Nat.eqb 0 (fixed_cfg 2 2) (@init nat nat) [LTick; LCancel] with
  | Some s1 =>
      cancelled s1 && tick s1 && (tk_begins Nat.eqb 0 (fixed_cfg 2 2) s1 [LStep 0; LStep 0; LStep 0] =? 1)
      && match run Nat.eqb 0 (fixed_cfg 2 2) s1 [LStep 0; LStep 0; LStep 0] with
         | Some s2 => negb (tick s2)
                      && match step Nat.eqb 0 (fixed_cfg 2 2) s2 (LStep 0) with None => true | Some _ => false end
                      && match step Nat.eqb 0 (fixed_cfg 2 2) s2 (LExit 0) with Some _ => true | None => false end
         | None => false
         end
  | None => false
  end = true.
Proof. vm_compute. reflexivity. Qed.

(* ------------------------------------------------------------------------------------------------------------
   Race freedom re-checked against the GO SOURCE on every run.  Gen/CacheSkeleton_gen.v is regenerated from
   storage/fifoMapCache.go by translator/lockskel before every Coq build: per method, under which mode of
   currentPartitionMux / sweepingMux each of the fields partitions, valuePartitionIndex, currentPartitionId,
   maxPartitions, partitionCapacity, config is read or written (a call into GenericStack / SafeMap is a read of
   the field holding the pointer; `go f.Sweep()` is another instance of Sweep).  The statements below are about
   the fine-grained RWMutex semantics of Lib/Conc.v ([Conc.race_free]: for EVERY schedule of any number of
   instances of the methods, no two of them are ever about to access the same field conflictingly, and no method
   contains code the translator could not analyse).
   ------------------------------------------------------------------------------------------------------------ *)

(* the generated counterpart of C08_partial_race_free_core: without Clear and Resize the cache's own fields are
   race free — as the source says, not as hand-written footprints say *)
Theorem C08_partial_race_free_core_generated :
  Conc.race_free (LocksetDiag.without CacheLockset.k1_methods CacheSkeleton_gen.cache_skeleton).
      (* CacheLockset.k1_methods = ["Clear"; "Resize"] *)
Proof. exact CacheLockset.cache_core_race_free. Qed.

(* known finding K1, DERIVED from the source: the full skeleton fails the lockset check, and in every offending
   (writer method, other method, field) triple the unprotected WRITER is Clear or Resize, the other party is one
   of the methods that read without any lock (CacheLockset.k1_unlocked_readers = Capacity, Contains, Get, Set,
   Delete, Len, Keys, Values, Resize — never Sweep or the ticker goroutine, which take currentPartitionMux) and the
   field is one of partitions, valuePartitionIndex, maxPartitions, partitionCapacity (CacheLockset.k1_fields).
   So K1 is the only lockset failure of the cache; a new one (the RLock dropped in Sweep or in
   getCurrentPartition's fast path, a new unlocked write) makes this theorem or the previous one stop compiling. *)
Theorem C08_known_races_are_clear_resize_only :
  Conc.lockset_check CacheSkeleton_gen.cache_skeleton = false
  /\ forall w o f, In (w, o, f) (LocksetDiag.offending_all CacheSkeleton_gen.cache_skeleton) ->
       In w CacheLockset.k1_methods /\ In o CacheLockset.k1_unlocked_readers /\ In f CacheLockset.k1_fields.
Proof. split; [exact CacheLockset.cache_full_lockset_false|exact CacheLockset.cache_k1_exact]. Qed.

(* the list of offending triples is a complete account: a skeleton without any is race free *)
Theorem C08_offending_complete (sk : Conc.skeleton) : LocksetDiag.offending_all sk = [] -> Conc.race_free sk.
Proof. intros H. apply Conc.lockset_sound. now apply LocksetDiag.offending_complete. Qed.

(* the hand-written footprints of Model/CacheConc.v (used by C08_partial_race_free_core and C08_race_refuted) agree with
   the source at the level of the cache's fields and its two mutexes: every field access a pc declares — in ANY
   state — occurs in the generated skeleton with the same read/write flag and the same set of held locks; and
   every field access the translator found in Get/Contains/Set (incl. the private getCurrentPartition)/Delete/Sweep/Clear is declared
   by some pc with the same locks (a declared write also accounts for a read) *)
Theorem C08_footprints_match_source :
  (forall K V (s : @CacheConc.state K V) (p : @CacheConc.pc V) a,
      In a (CacheFootprints.field_part (footprint s p)) ->
      CacheFootprints.in_skeleton CacheSkeleton_gen.cache_skeleton a = true)
  /\ forallb CacheFootprints.covered_by_model CacheFootprints.source_faccs = true.
Proof. split; [intros K V s p a; exact (CacheFootprints.footprints_in_source s p a)|exact CacheFootprints.source_in_footprints]. Qed.

Print Assumptions C08_partial_no_panic.
Print Assumptions C08_partial_get_was_set.
Print Assumptions C08_partial_sweeper_stops.
Print Assumptions C08_partial_within_capacity.
Print Assumptions C08_partial_race_free_core.
Print Assumptions C08_seq_projection_call.
Print Assumptions C08_seq_projection_history.
Print Assumptions C08_duplicate_key_refuted.
Print Assumptions C08_race_refuted.
Print Assumptions C08_full_statement_refuted.
Print Assumptions C08_partial_race_free_core_generated.
Print Assumptions C08_known_races_are_clear_resize_only.
Print Assumptions C08_offending_complete.
Print Assumptions C08_footprints_match_source.
