(* C08 — FifoMapCache is safe under concurrent use.  PARTIAL: property theorems for every schedule of the
   interleaving model Model/CacheConc.v, the full statement, and its two refutations (known findings K1, K3). *)
From Coq Require Import List Arith Bool.
From TC.Model Require Import CacheConc.
From TC.Proofs Require Import CacheConcBase CacheConcSafe.
Import ListNotations.

Section C08.
  Context {K V : Type}.
  Variable keqb : K -> K -> bool.
  Variable zero : V.
  Hypothesis keqb_spec : forall a b, reflect (a = b) (keqb a b).     (* Go's == on keys is reflexive (no NaN) *)
  Notation run := (@run K V keqb zero).

  (* For EVERY configuration (with or without the fixes F15 / F1) and EVERY schedule — any number of goroutines
     calling Set/Get/Contains/Delete/Sweep/Clear, the ticker, cancellation, in any interleaving of their atomic
     sections — no step dereferences a reference that does not exist: the cache never panics. *)
  Theorem C08_partial_no_panic (c : config) (ls : list label) s :
    run c init ls = Some s -> panicked s = false.
  Proof. intros H. apply (cache_no_panic keqb zero c ls s H). Qed.

  (* For every schedule: every (k, v) in ANY partition object (live, evicted or cleared away) was the argument of
     some Set k v of the schedule; hence every value a completed Get k returned is the zero value or was Set for k. *)
  Theorem C08_partial_get_was_set (c : config) (ls : list label) s :
    run c init ls = Some s ->
    (forall m k v, In m (pmaps s) -> In (k, v) m -> In (LSpawn (OSet k v)) ls)
    /\ (forall k v, In (OGet k, PDone (RVal v)) (threads s) -> v = zero \/ In (LSpawn (OSet k v)) ls).
  Proof. exact (cache_get_was_set_sched keqb zero keqb_spec c ls s). Qed.
End C08.

(* ------------------------------------------------------------------------------------------------------------
   The FULL statement of C08 on the model (after fix F15): for all schedules no panic, no data race, and once
   all calls have returned the views are consistent (at least: Keys() has no duplicate).  It is FALSE for the
   code as it is; the two theorems below it are the machine-checked counterexamples (known findings K3 and K1;
   both need a re-design of the cache's locking and are therefore not fixed). *)
Definition C08_full_statement : Prop :=
  forall (c : config) (ls : list (@label nat nat)) s,
    recheck c = true -> run Nat.eqb 0 c init ls = Some s ->
    panicked s = false /\ ~ race Nat.eqb 0 c s /\ (quiescent s = true -> NoDup (keys_now s)).

Definition fixed_cfg (P C : nat) : config := {| maxP := P; capC := C; recheck := true; delidx := true |}.

(* K3: two goroutines Set the same new key 7.  Both miss the index; the first opens partition 1 (capacity 1) and
   fills it, the second then opens partition 2: the key is in two partitions, Keys() = [7; 7].
   threads: 0 ticker, 1 = Set 7 1, 2 = Set 7 2, 3 and 4 = spawned sweepers (2 partitions <= maxP: nothing to pop) *)
Definition duplicate_key_witness : list (@label nat nat) :=
  [LSpawn (OSet 7 1); LSpawn (OSet 7 2);
   LStep 1; LStep 2;                      (* index lookups: key 7 is new for both *)
   LStep 1; LStep 1; LStep 1;             (* goroutine 1: RLock section, Lock section (opens id 1), partition.Set *)
   LStep 2; LStep 2; LStep 2;             (* goroutine 2: partition 1 is full: opens id 2, partition.Set *)
   LStep 1; LStep 2;                      (* index.Set, twice *)
   LStep 3; LStep 3; LStep 4; LStep 4].

Theorem C08_duplicate_key_refuted :
  exists ls s, run Nat.eqb 0 (fixed_cfg 2 1) init ls = Some s
               /\ quiescent s = true /\ panicked s = false /\ keys_now s = [7; 7] /\ ~ NoDup (keys_now s).
Proof.
  exists duplicate_key_witness. eexists. split; [vm_compute; reflexivity|].
  repeat split; try reflexivity. intros H. inversion H as [|x l Hn _]; subst. apply Hn. left; reflexivity.
Qed.

(* K1: a Get that is about to read the field f.partitions without any lock (thread 3) while Clear (thread 4) is
   about to take the write lock and overwrite that field: both steps are enabled in the same state and no common
   lock orders them.  After Clear's first step the same holds for f.valuePartitionIndex (written by Clear under the
   lock, read by the index lookup of a new Get, thread 5, under none). *)
Definition race_witness : list (@label nat nat) :=
  [LSpawn (OSet 1 11); LStep 1; LStep 1; LStep 1; LStep 1; LStep 1;     (* Set 1 11 runs to completion *)
   LSpawn (OGet 1); LStep 3;                                             (* Get 1: index lookup done *)
   LSpawn OClear].

Theorem C08_race_refuted :
  exists ls s, run Nat.eqb 0 (fixed_cfg 2 1) init ls = Some s /\ race Nat.eqb 0 (fixed_cfg 2 1) s
               /\ nth_error (threads s) 3 = Some (OGet 1, PRdParts 1) /\ nth_error (threads s) 4 = Some (OClear, PCl1).
Proof.
  exists race_witness. eexists. split; [vm_compute; reflexivity|]. split; [|split; reflexivity].
  exists 3, 4. vm_compute. reflexivity.
Qed.

Example C08_race_on_index :
  exists s, run Nat.eqb 0 (fixed_cfg 2 1) init (race_witness ++ [LStep 4; LSpawn (OGet 1)]) = Some s
            /\ race_at Nat.eqb 0 (fixed_cfg 2 1) s 5 4 = true
            /\ nth_error (threads s) 5 = Some (OGet 1, PIdx) /\ nth_error (threads s) 4 = Some (OClear, PCl2).
Proof. eexists. split; [vm_compute; reflexivity|]. repeat split; vm_compute; reflexivity. Qed.

Corollary C08_full_statement_refuted : ~ C08_full_statement.
Proof.
  intros H. destruct C08_duplicate_key_refuted as (ls & s & Hr & Hq & _ & _ & Hd).
  destruct (H (fixed_cfg 2 1) ls s eq_refl Hr) as (_ & _ & Hn). exact (Hd (Hn Hq)).
Qed.

(* non-vacuity: a schedule with every kind of operation *)
Example C08_ex_run :
  exists s, run Nat.eqb 0 (fixed_cfg 2 2) init
              [LSpawn (OSet 1 11); LStep 1; LStep 1; LStep 1; LStep 1; LStep 1; LSpawn (OGet 1); LStep 3; LStep 3; LStep 3; LStep 3;
               LTick; LStep 0; LStep 2; LStep 2; LStep 0; LStep 0; LCancel; LExit 0] = Some s
            /\ nth_error (threads s) 3 = Some (OGet 1, PDone (RVal 11)) /\ nth_error (threads s) 0 = Some (OTicker, PDone RUnit).
Proof. eexists. split; [vm_compute; reflexivity|]. split; reflexivity. Qed.

Print Assumptions C08_partial_no_panic.
Print Assumptions C08_partial_get_was_set.
Print Assumptions C08_duplicate_key_refuted.
Print Assumptions C08_race_refuted.
Print Assumptions C08_full_statement_refuted.
