(* C11 — GenericStack is a FIFO queue with stable ids, safe under concurrency.  Property theorems only. *)
From Coq Require Import List ZArith Bool Permutation.
From TC.Lib Require Import GoHeap.
From TC.Model Require Import GStack.
From TC.Proofs Require Import GStackProofs.
From TC.Lib Require Conc.
From TC.Gen Require LockSkeleton_gen.
From TC.Proofs Require GStackLockset.
Import ListNotations.

Section C11.
  Context {V : Type} (zero : V).

  (* Sequential: for EVERY sequence of Push/Pop/Peek/Len/Values the outputs of the heap-based
     implementation model equal those of the FIFO queue specification [qstep] (GStack.v):
     Push returns next+1; Pop returns the oldest remaining value or zero; Peek id = the value pushed
     under id exactly while it remains; Len/Values = what remains, in id (= push) order. *)
  Theorem C11_refines_queue (ops : list (@op V)) :
    snd (run zero init ops) = snd (qrun zero qinit ops).
  Proof. exact (gstack_refines_queue zero ops). Qed.

  (* the ids returned by the successive Push calls are exactly 1, 2, 3, ... *)
  Theorem C11_ids (ops : list (@op V)) :
    let outs := snd (run zero init ops) in
    push_ids outs = zseq 1 (length (push_ids outs)).
  Proof. exact (gstack_ids zero ops). Qed.

  (* Concurrent: for EVERY interleaving of any number of Push (two steps: fetch-add, locked insert),
     Pop, Peek, Len, Values calls: no panic; issued ids pairwise distinct; and every (id, value) ever
     issued is in exactly one place: still pending insertion, popped, or on the stack
     (nothing lost, duplicated or invented). *)
  Theorem C11_conc_safe (ls : list (@clabel V)) c :
    crun cinit ls = Some c ->
    panicked c = false
    /\ NoDup (map fst (issued c))
    /\ Permutation (issued c) (pending c ++ popped c ++ entries (st c)).
  Proof. exact (gstack_conc_safe ls c). Qed.

  (* ... and a Pop that finds the stack non-empty removes the smallest id present at that moment *)
  Theorem C11_conc_pop_min (ls : list (@clabel V)) c c' :
    crun cinit ls = Some c -> cstep c LPop = Some c' -> entries (st c) <> [] ->
    exists e, popped c' = e :: popped c /\ In e (entries (st c))
              /\ (forall y, In y (entries (st c)) -> (fst e <= fst y)%Z)
              /\ Permutation (e :: entries (st c')) (entries (st c)).
  Proof. exact (gstack_conc_pop_min ls c c'). Qed.

  (* ... and a Peek at any moment of any interleaving returns v for id exactly when (id, v) was issued by a Push
     whose insertion has happened and which no Pop has removed: in particular a Push that has returned is found
     until it is popped, whatever gaps concurrent pushers have left among the ids on the heap (seeded C11-r6m2) *)
  Theorem C11_conc_peek (ls : list (@clabel V)) c id v :
    crun cinit ls = Some c ->
    (scan id (entries (st c)) = Some v
     <-> In (id, v) (issued c) /\ ~ In (id, v) (pending c) /\ ~ In (id, v) (popped c)).
  Proof. exact (gstack_conc_peek ls c id v). Qed.
End C11.

(* Race freedom: the lock skeleton REGENERATED from storage/genericStack.go on every run (which access to
   stack.entries happens under which mode of mux) passes the lockset check, hence for every schedule of any
   number of goroutines no two accesses to the heap array conflict (fine-grained RWMutex semantics of
   Lib/Conc.v).  This is what justifies treating each critical section as one atomic step above. *)
Theorem C11_race_free : Conc.race_free LockSkeleton_gen.gstack_skeleton.
Proof. exact (GStackLockset.gstack_race_free (eq_refl : GStackLockset.gstack_lockset_ok = true)). Qed.

(* non-vacuity *)
Example C11_ex_run :
  snd (run 0%Z init [Push 10; Push 20; Push 30; Peek 2; Pop; Peek 1; Values; Pop; Pop; Pop; Len; Push 5]%Z)
  = [OId 1; OId 2; OId 3; OPeek (Some 20); OVal 10; OPeek None; OValues [20; 30]; OVal 20; OVal 30; OVal 0; OLen 0; OId 4]%Z.
Proof. reflexivity. Qed.
Example C11_ex_conc :
  exists c, crun (@cinit Z) [LPushId 1; LPushId 2; LPushIns 1; LPop; LPushIns 0; LPop; LPop]%Z = Some c
            /\ map fst (popped c) = [1; 2]%Z /\ entries (st c) = [].
Proof. eexists. split; [vm_compute; reflexivity|split; reflexivity]. Qed.

(* a gap among the ids on the heap: the Push holding id 1 has not inserted yet, id 2 is on the stack and is found *)
Example C11_ex_conc_peek_gap :
  match crun (@cinit Z) [LPushId 10; LPushId 20; LPushIns 1]%Z with
  | Some c => match scan 2%Z (entries (st c)), scan 1%Z (entries (st c)), pending c with
              | Some 20%Z, None, [(1, 10)]%Z => true | _, _, _ => false end
  | None => false
  end = true.
Proof. vm_compute. reflexivity. Qed.

Print Assumptions C11_refines_queue.
Print Assumptions C11_ids.
Print Assumptions C11_conc_safe.
Print Assumptions C11_conc_pop_min.
Print Assumptions C11_conc_peek.
Print Assumptions C11_race_free.
