(* X01 — propositions/slicePropositions.go and mapPropositions.go: every function equals its list / map
   specification for all inputs.  Property theorems only. *)
From Coq Require Import List Bool Permutation ZArith Lia.
From TC.Model Require Import Propositions.
From TC.Proofs Require Import PropositionsProofs.
Import ListNotations.

Section X01_slices.
  Context {A : Type}.

  (* the three quantifiers, for every predicate and every slice (empty included) *)
  Theorem X01_proposition_any (p : A -> bool) s :
    prop_any p s = existsb p s /\ (prop_any p s = true <-> exists e, In e s /\ p e = true).
  Proof. split; [apply prop_any_existsb | apply prop_any_spec]. Qed.

  Theorem X01_proposition_all (p : A -> bool) s :
    prop_all p s = forallb p s /\ (prop_all p s = true <-> forall e, In e s -> p e = true).
  Proof. split; [apply prop_all_forallb | apply prop_all_spec]. Qed.

  Theorem X01_proposition_none (p : A -> bool) s :
    prop_none p s = negb (existsb p s) /\ (prop_none p s = true <-> forall e, In e s -> p e = false).
  Proof. split; [apply prop_none_existsb | apply prop_none_spec]. Qed.

  (* quantifier laws: duality, the empty slice, concatenation *)
  Theorem X01_quantifier_laws (p : A -> bool) s s2 :
    prop_none p s = negb (prop_any p s)
    /\ prop_all p s = negb (prop_any (fun e => negb (p e)) s)
    /\ prop_all p s = prop_none (fun e => negb (p e)) s
    /\ prop_any p [] = false /\ prop_all p [] = true /\ prop_none p [] = true
    /\ prop_any p (s ++ s2) = prop_any p s || prop_any p s2
    /\ prop_all p (s ++ s2) = prop_all p s && prop_all p s2.
  Proof.
    repeat split; [apply prop_none_any | apply prop_all_any | apply prop_all_none
                  | apply prop_any_app | apply prop_all_app].
  Qed.

  Variable eqb ltb leb : A -> A -> bool.
  Hypothesis eqb_spec : forall x y, reflect (x = y) (eqb x y).

  Theorem X01_contains s v : slice_contains eqb s v = true <-> In v s.
  Proof. exact (contains_spec eqb eqb_spec s v). Qed.

  (* SliceContainsAll = forallb mem: every element of v occurs in s (true for empty v) *)
  Theorem X01_contains_all s v :
    slice_contains_all eqb s v = forallb (fun e => slice_contains eqb s e) v
    /\ (slice_contains_all eqb s v = true <-> forall e, In e v -> In e s).
  Proof. split; [apply contains_all_forallb | exact (contains_all_spec eqb eqb_spec s v)]. Qed.

  Theorem X01_contains_any s v :
    slice_contains_any eqb s v = existsb (fun e => slice_contains eqb s e) v
    /\ (slice_contains_any eqb s v = true <-> exists e, In e v /\ In e s).
  Proof. split; [apply contains_any_existsb | exact (contains_any_spec eqb eqb_spec s v)]. Qed.

  Theorem X01_contains_none s v :
    slice_contains_none eqb s v = negb (slice_contains_any eqb s v)
    /\ (slice_contains_none eqb s v = true <-> forall e, In e v -> ~ In e s).
  Proof. split; [apply contains_none_any | exact (contains_none_spec eqb eqb_spec s v)]. Qed.

  (* the eight order comparisons, for any < and <= (e > v is v < e, e >= v is v <= e) *)
  Theorem X01_order_all s v :
    (slice_all_lt ltb s v = true <-> Forall (fun e => ltb e v = true) s)
    /\ (slice_all_le leb s v = true <-> Forall (fun e => leb e v = true) s)
    /\ (slice_all_gt ltb s v = true <-> Forall (fun e => ltb v e = true) s)
    /\ (slice_all_ge leb s v = true <-> Forall (fun e => leb v e = true) s).
  Proof. repeat split; apply all_Forall. Qed.

  Theorem X01_order_any s v :
    (slice_any_lt ltb s v = true <-> Exists (fun e => ltb e v = true) s)
    /\ (slice_any_le leb s v = true <-> Exists (fun e => leb e v = true) s)
    /\ (slice_any_gt ltb s v = true <-> Exists (fun e => ltb v e = true) s)
    /\ (slice_any_ge leb s v = true <-> Exists (fun e => leb v e = true) s).
  Proof. repeat split; apply any_Exists. Qed.
End X01_slices.

(* the same at the integers, with the mathematical order *)
Theorem X01_order_Z (s : list Z) (v : Z) :
  (slice_all_lt Z.ltb s v = true <-> Forall (fun e => e < v)%Z s)
  /\ (slice_all_le Z.leb s v = true <-> Forall (fun e => e <= v)%Z s)
  /\ (slice_all_gt Z.ltb s v = true <-> Forall (fun e => e > v)%Z s)
  /\ (slice_all_ge Z.leb s v = true <-> Forall (fun e => e >= v)%Z s)
  /\ (slice_any_lt Z.ltb s v = true <-> Exists (fun e => e < v)%Z s)
  /\ (slice_any_le Z.leb s v = true <-> Exists (fun e => e <= v)%Z s)
  /\ (slice_any_gt Z.ltb s v = true <-> Exists (fun e => e > v)%Z s)
  /\ (slice_any_ge Z.leb s v = true <-> Exists (fun e => e >= v)%Z s).
Proof.
  repeat match goal with |- _ /\ _ => split end;
    first [ unfold slice_all_lt, slice_all_le, slice_all_gt, slice_all_ge; rewrite (all_Forall _ s); apply Forall_iff
          | unfold slice_any_lt, slice_any_le, slice_any_gt, slice_any_ge; rewrite (any_Exists _ s); apply Exists_iff ];
    intros x; first [rewrite Z.ltb_lt | rewrite Z.leb_le]; lia.
Qed.

Section X01_maps.
  Context {K V : Type}.
  Variable keqb : K -> K -> bool.
  Variable veqb : V -> V -> bool.
  Hypothesis keqb_spec : forall x y, reflect (x = y) (keqb x y).
  Hypothesis veqb_spec : forall x y, reflect (x = y) (veqb x y).

  (* m: the map's entries; it: the order in which `range` delivers them this time (any permutation).
     Every result is the order-free statement about m. *)
  Theorem X01_map_contains (m it : list (K * V)) k v :
    Permutation m it ->
    (map_contains_key keqb it k = true <-> exists v', In (k, v') m)
    /\ (map_contains_value veqb it v = true <-> exists k', In (k', v) m).
  Proof.
    intros P. rewrite (map_contains_key_spec keqb keqb_spec), (map_contains_value_spec veqb veqb_spec).
    split; split; intros [x H]; exists x; apply (perm_in m it P); assumption.
  Qed.

  Theorem X01_map_keys (m it : list (K * V)) (p : K -> bool) :
    Permutation m it ->
    (map_key_any it p = true <-> exists k v, In (k, v) m /\ p k = true)
    /\ (map_key_all it p = true <-> forall k v, In (k, v) m -> p k = true)
    /\ (map_key_none it p = true <-> forall k v, In (k, v) m -> p k = false).
  Proof.
    intros P. rewrite map_key_any_spec, map_key_all_spec, map_key_none_spec.
    pose proof (perm_in m it P) as E.
    repeat split.
    - intros [k [v [H Hp]]]. exists k, v. split; [apply E|]; assumption.
    - intros [k [v [H Hp]]]. exists k, v. split; [apply E|]; assumption.
    - intros H k v Hin. apply (H k v), E, Hin.
    - intros H k v Hin. apply (H k v), E, Hin.
    - intros H k v Hin. apply (H k v), E, Hin.
    - intros H k v Hin. apply (H k v), E, Hin.
  Qed.

  Theorem X01_map_values (m it : list (K * V)) (p : V -> bool) :
    Permutation m it ->
    (map_value_any it p = true <-> exists k v, In (k, v) m /\ p v = true)
    /\ (map_value_all it p = true <-> forall k v, In (k, v) m -> p v = true)
    /\ (map_value_none it p = true <-> forall k v, In (k, v) m -> p v = false).
  Proof.
    intros P. rewrite map_value_any_spec, map_value_all_spec, map_value_none_spec.
    pose proof (perm_in m it P) as E.
    repeat split.
    - intros [k [v [H Hp]]]. exists k, v. split; [apply E|]; assumption.
    - intros [k [v [H Hp]]]. exists k, v. split; [apply E|]; assumption.
    - intros H k v Hin. apply (H k v), E, Hin.
    - intros H k v Hin. apply (H k v), E, Hin.
    - intros H k v Hin. apply (H k v), E, Hin.
    - intros H k v Hin. apply (H k v), E, Hin.
  Qed.

  (* hence two iteration orders of the same map can never give different answers *)
  Theorem X01_map_iteration_order_irrelevant (it1 it2 : list (K * V)) k v pk pv :
    Permutation it1 it2 ->
    map_contains_key keqb it1 k = map_contains_key keqb it2 k
    /\ map_contains_value veqb it1 v = map_contains_value veqb it2 v
    /\ map_key_any it1 pk = map_key_any it2 pk
    /\ map_key_all it1 pk = map_key_all it2 pk
    /\ map_key_none it1 pk = map_key_none it2 pk
    /\ map_value_any it1 pv = map_value_any it2 pv
    /\ map_value_all it1 pv = map_value_all it2 pv
    /\ map_value_none it1 pv = map_value_none it2 pv.
  Proof.
    intros P.
    destruct (X01_map_contains it1 it1 k v (Permutation_refl _)) as [a1 a2].
    destruct (X01_map_contains it1 it2 k v P) as [b1 b2].
    destruct (X01_map_keys it1 it1 pk (Permutation_refl _)) as [c1 [c2 c3]].
    destruct (X01_map_keys it1 it2 pk P) as [d1 [d2 d3]].
    destruct (X01_map_values it1 it1 pv (Permutation_refl _)) as [e1 [e2 e3]].
    destruct (X01_map_values it1 it2 pv P) as [f1 [f2 f3]].
    repeat split; eapply bool_iff_eq; eassumption.
  Qed.

  (* quantifier laws on maps, incl. the empty map *)
  Theorem X01_map_laws (it : list (K * V)) pk pv :
    map_key_none it pk = negb (map_key_any it pk)
    /\ map_key_all it pk = negb (map_key_any it (fun k => negb (pk k)))
    /\ map_value_none it pv = negb (map_value_any it pv)
    /\ map_value_all it pv = negb (map_value_any it (fun v => negb (pv v)))
    /\ map_key_any ([] : list (K * V)) pk = false /\ map_key_all ([] : list (K * V)) pk = true
    /\ map_key_none ([] : list (K * V)) pk = true
    /\ map_value_any ([] : list (K * V)) pv = false /\ map_value_all ([] : list (K * V)) pv = true
    /\ map_value_none ([] : list (K * V)) pv = true.
  Proof.
    rewrite map_key_none_eq, map_key_all_eq, map_value_none_eq, map_value_all_eq, !map_key_any_eq, !map_value_any_eq.
    repeat split; first [apply prop_none_any | apply prop_all_any].
  Qed.
End X01_maps.

(* non-vacuity *)
Example X01_ex_slices :
  slice_contains_all Z.eqb [3;1;2;1]%Z [1;1;3]%Z = true
  /\ slice_contains_all Z.eqb [3;1;2]%Z [1;4]%Z = false
  /\ slice_contains_all Z.eqb []%Z []%Z = true
  /\ slice_contains_any Z.eqb [3;1]%Z [4;5;1]%Z = true
  /\ slice_contains_none Z.eqb [3;1]%Z [4;5]%Z = true
  /\ slice_all_lt Z.ltb [1;2;3]%Z 3%Z = false
  /\ slice_all_le Z.leb [1;2;3]%Z 3%Z = true
  /\ slice_any_gt Z.ltb [1;2;3]%Z 2%Z = true
  /\ slice_any_ge Z.leb [1;2]%Z 3%Z = false.
Proof. repeat split. Qed.
Example X01_ex_maps :
  map_contains_key Z.eqb [(1,10);(2,20)]%Z 2%Z = true
  /\ map_contains_value Z.eqb [(1,10);(2,20)]%Z 2%Z = false
  /\ map_key_all [(1,10);(2,20)]%Z (fun k => Z.ltb k 3) = true
  /\ map_value_none [(1,10);(2,20)]%Z (fun v => Z.ltb v 15) = false
  /\ Permutation [(1,10);(2,20)]%Z [(2,20);(1,10)]%Z.
Proof. repeat split. apply perm_swap. Qed.

Print Assumptions X01_proposition_any.
Print Assumptions X01_proposition_all.
Print Assumptions X01_proposition_none.
Print Assumptions X01_quantifier_laws.
Print Assumptions X01_contains.
Print Assumptions X01_contains_all.
Print Assumptions X01_contains_any.
Print Assumptions X01_contains_none.
Print Assumptions X01_order_all.
Print Assumptions X01_order_any.
Print Assumptions X01_order_Z.
Print Assumptions X01_map_contains.
Print Assumptions X01_map_keys.
Print Assumptions X01_map_values.
Print Assumptions X01_map_iteration_order_irrelevant.
Print Assumptions X01_map_laws.
