(* C18 — Start returns, Stop is graceful and complete (PARTIAL by design: whether a socket really
   accepts connections, connection draining and port release are runtime behaviour observed by the
   harness; here: the WaitGroup / goroutine lifecycle of server.go and the two providers as an interleaving
   system, for EVERY schedule, with the library servers constrained only by the contracts L1-L3).
   Property theorems only; proofs are in Proofs/LifecycleProofs.v. *)
From Coq Require Import List ZArith Bool Arith Lia.
From TC.Model Require Import Lifecycle.
From TC.Proofs Require Import LifecycleProofs.
Import ListNotations.

Section C18.
  (* what the library servers may do: ANY behaviour (including listen failures = spurious returns) unless a
     theorem names a contract *)
  Variable serve_ret : prov -> bool.
  Variable drain_ret : prov -> bool -> bool.
  Local Notation step := (step serve_ret drain_ret).
  Local Notation run := (run serve_ret drain_ret).
  Local Notation reachable := (reachable serve_ret drain_ret).

  (* contracts (used only where stated) *)
  Definition L1 := forall p, p_shut p = true -> serve_ret p = true.
  Definition L3 := forall p c, p_inflight p = 0 \/ (c = true /\ p_kind p = KHttp) -> drain_ret p c = true.
  Definition L1c := forall p, serve_ret p = true -> p_shut p = true.
  Definition L3c := forall p c, drain_ret p c = true -> p_inflight p = 0 \/ c = true.

  (* Neither WaitGroup counter is ever negative, and the caller's never drops below its value before Start:
     every provider list, every initial value w0 >= 0, every schedule. *)
  Theorem C18_waitgroups_never_negative kinds w0 s :
    (0 <= w0)%Z -> reachable kinds w0 s -> (0 <= s_startwg s)%Z /\ (w0 <= s_stopwg s)%Z.
  Proof. exact (counters_safe serve_ret drain_ret kinds w0 s). Qed.

  (* Start returns after exactly one startWg.Done per provider (safety half): whenever Start has returned, in
     every schedule, the start counter is 0 and every provider has signalled exactly once. *)
  Theorem C18_start_returns_after_one_done_each kinds w0 s :
    (0 <= w0)%Z -> reachable kinds w0 s -> after_start (s_start s) = true ->
    s_startwg s = 0%Z /\
    forall j p, nth_error (s_provs s) j = Some p -> p_sdone p = 1 /\ pre_signal (p_pc p) = false.
  Proof. exact (start_returned_safe serve_ret drain_ret kinds w0 s). Qed.

  (* Start returns (liveness half), with NO assumption on the library: from every reachable state inside
     Start, every run of the server's own steps is no longer than the measure, and once no such step is
     enabled Start has returned.  (Termination + stuck-freedom = every maximal run returns.) *)
  Theorem C18_start_returns kinds w0 s ls s' :
    (0 <= w0)%Z -> reachable kinds w0 s -> in_start (s_start s) = true ->
    progress_run ls -> run ls s = Some s' ->
    length ls <= measure s /\ (~ enabled serve_ret drain_ret s' -> s_start s' = CRunning).
  Proof. exact (start_terminates serve_ret drain_ret kinds w0 s ls s'). Qed.

  (* Stop is complete (safety half): whenever Stop has returned, in every schedule (Stop called at any moment
     once Start has launched every provider - while Start still waits for their signals, or after it returned, e.g. before a provider goroutine entered its serve loop; any number of requests;
     context expired or not): every provider goroutine has returned, no listening socket is open, every
     library server was shut down, and the caller's WaitGroup counter is back to its value before Start. *)
  Theorem C18_stop_complete kinds w0 s :
    (0 <= w0)%Z -> reachable kinds w0 s -> s_stop s = CStopped ->
    s_stopwg s = w0 /\
    forall j p, nth_error (s_provs s) j = Some p ->
      p_pc p = GDone /\ p_bound p = false /\ p_shut p = true /\ p_sdone p = 1.
  Proof. exact (stop_returned_safe serve_ret drain_ret kinds w0 s). Qed.

  (* Stop never hangs on the server's side (under L1, L3; caller's WaitGroup not used by anybody else):
     in every reachable state inside Stop either some step of the server is enabled, or Stop is waiting
     for a request in flight while its context has not ended. *)
  Theorem C18_stop_progress kinds s :
    L1 -> L3 -> reachable kinds 0%Z s -> in_stop (s_stop s) = true ->
    enabled serve_ret drain_ret s \/ blocked_on_inflight s.
  Proof.
    intros H1 H3 Hr Hc. apply (stop_not_stuck serve_ret drain_ret H1 H3 kinds s); [|exact Hc].
    apply reachable_inv with (serve_ret := serve_ret) (drain_ret := drain_ret); [lia|exact Hr].
  Qed.

  (* Stop returns (liveness half, under L1, L3): from every reachable state inside Stop, every run made of
     the server's own steps and of requests finishing is no longer than the measure, and when nothing of
     that is enabled any more (or the context has ended) Stop has returned. *)
  Theorem C18_stop_returns kinds s ls s' :
    L1 -> L3 -> reachable kinds 0%Z s -> in_stop (s_stop s) = true ->
    progress_run ls -> run ls s = Some s' ->
    length ls <= measure s /\
    (~ enabled serve_ret drain_ret s' ->
     (forall i, step (LReqEnd i) s' = None) \/ s_ctx s' = true -> s_stop s' = CStopped).
  Proof. intros H1 H3. exact (stop_terminates serve_ret drain_ret H1 H3 kinds s ls s'). Qed.

  (* Stop waits for requests in flight (under L3c: Shutdown / GracefulStop return only when drained or the
     context ended): if Stop returned and its context had not ended, no request is in flight anywhere. *)
  Theorem C18_stop_waits_for_inflight kinds w0 s :
    L1c -> L3c -> (0 <= w0)%Z -> reachable kinds w0 s -> s_stop s = CStopped -> s_ctx s = false ->
    forall j p, nth_error (s_provs s) j = Some p -> p_inflight p = 0.
  Proof. intros H1 H3. exact (stop_waited_for_inflight serve_ret drain_ret H1 H3 kinds w0 s). Qed.

  (* Every listener comes up (under L1c: no listen failure): Start returned, Stop not called, nothing left to
     do => every provider is inside its serve loop with its socket open. *)
  Theorem C18_listeners_up kinds w0 s :
    L1c -> L3c -> (0 <= w0)%Z -> reachable kinds w0 s -> s_start s = CRunning -> s_stop s = TIdle ->
    (forall l, is_env l = false -> step l s = None) ->
    forall j p, nth_error (s_provs s) j = Some p -> p_pc p = GServing /\ p_bound p = true.
  Proof. intros H1 H3. exact (listeners_up serve_ret drain_ret H1 H3 kinds w0 s). Qed.

  (* A provider's port is bound only between its listen and the return of its serve loop, never after the
     library server was shut down while serving. *)
  Theorem C18_port_bound_only_while_running kinds w0 s j p :
    (0 <= w0)%Z -> reachable kinds w0 s -> nth_error (s_provs s) j = Some p -> p_bound p = true ->
    (p_pc p = GServing /\ p_shut p = false) \/ (p_kind p = KGrpc /\ (p_pc p = GListened \/ p_pc p = GSignalled)).
  Proof. exact (bound_safe serve_ret drain_ret kinds w0 s j p). Qed.
End C18.

(* ---------- non-vacuity: the contracts have an instance, and complete runs exist ---------- *)
Example C18_contracts_instance :
  L1 lib_serve_ret /\ L3 lib_drain_ret /\ L1c lib_serve_ret /\ L3c lib_drain_ret.
Proof. exact (conj lib_L1 (conj lib_L3 (conj lib_L1c lib_L3c))). Qed.

(* Start immediately followed by Stop: Stop is called while both goroutines have only signalled; HTTP's
   ListenAndServe and gRPC's Serve are entered AFTER Shutdown / GracefulStop and return at once *)
Definition immediate_stop_schedule : list label :=
  [LCallStart; LAddStop; LAddStart; LGo; LAddStop; LAddStart; LGo; LSignal 0; LListen 1; LSignal 1; LStartReturn;
   LCallStop; LStopCall; LStopProvReturn; LStopCall; LStopProvReturn;
   LServe 0; LServe 1; LDone 0; LDone 1; LStopReturn].
Example C18_ex_immediate_stop :
  match run lib_serve_ret lib_drain_ret immediate_stop_schedule (init [KHttp; KGrpc] 0) with
  | Some s => s_stop s = CStopped /\ s_stopwg s = 0%Z /\ map p_pc (s_provs s) = [GDone; GDone]
              /\ map p_bound (s_provs s) = [false; false]
  | None => False
  end.
Proof. vm_compute. repeat split. Qed.

(* Stop issued while Start is still in progress: both goroutines are launched, the gRPC provider has not even
   listened yet (Start waits at startWg.Wait()); Stop shuts both library servers down and waits; the gRPC
   goroutine then listens, signals (Start returns), enters Serve after GracefulStop, closes its listener *)
Definition stop_during_start_schedule : list label :=
  [LCallStart; LAddStop; LAddStart; LGo; LAddStop; LAddStart; LGo; LSignal 0; LServe 0;
   LCallStop; LStopCall; LServeReturn 0; LStopProvReturn; LStopCall; LStopProvReturn; LDone 0;
   LListen 1; LSignal 1; LStartReturn; LServe 1; LDone 1; LStopReturn].
Example C18_ex_stop_during_start :
  match run lib_serve_ret lib_drain_ret stop_during_start_schedule (init [KHttp; KGrpc] 0) with
  | Some s => s_start s = CRunning /\ s_stop s = CStopped /\ s_stopwg s = 0%Z
              /\ map p_pc (s_provs s) = [GDone; GDone] /\ map p_bound (s_provs s) = [false; false]
  | None => False
  end.
Proof. vm_compute. repeat split. Qed.
(* ... and Stop cannot return before that: with the gRPC goroutine not yet run, Stop is at Wait() and stuck *)
Example C18_ex_stop_during_start_waits :
  match run lib_serve_ret lib_drain_ret
          [LCallStart; LAddStop; LAddStart; LGo; LAddStop; LAddStart; LGo; LSignal 0; LServe 0;
           LCallStop; LStopCall; LServeReturn 0; LStopProvReturn; LStopCall; LStopProvReturn; LDone 0]
          (init [KHttp; KGrpc] 0) with
  | Some s => s_start s = CStartWait /\ s_stop s = CStopWait /\ s_stopwg s = 1%Z
              /\ step lib_serve_ret lib_drain_ret LStopReturn s = None /\ step lib_serve_ret lib_drain_ret LStartReturn s = None
  | None => False
  end.
Proof. vm_compute. repeat split. Qed.

(* a full life with requests in flight at Stop: HTTP drains, then gRPC is forced after the context ended *)
Definition graceful_schedule : list label :=
  [LCallStart; LAddStop; LAddStart; LGo; LAddStop; LAddStart; LGo; LSignal 0; LServe 0; LListen 1; LSignal 1; LStartReturn;
   LServe 1; LReqBegin 0; LReqBegin 1; LReqBegin 1;
   LCallStop; LStopCall; LServeReturn 0; LDone 0; LReqEnd 0; LStopProvReturn;
   LStopCall; LReqEnd 1; LCtxExpire; LForce; LStopProvReturn; LServeReturn 1; LDone 1; LStopReturn].
Example C18_ex_graceful :
  match run lib_serve_ret lib_drain_ret graceful_schedule (init [KHttp; KGrpc] 0) with
  | Some s => s_stop s = CStopped /\ s_stopwg s = 0%Z /\ map p_inflight (s_provs s) = [0; 0]
  | None => False
  end.
Proof. vm_compute. repeat split. Qed.

(* blocked exactly as the property allows: Shutdown waits for the request while the context lives *)
Example C18_ex_blocked :
  match run lib_serve_ret lib_drain_ret
          [LCallStart; LAddStop; LAddStart; LGo; LSignal 0; LServe 0; LStartReturn; LReqBegin 0; LCallStop; LStopCall;
           LServeReturn 0; LDone 0]
          (init [KHttp] 0) with
  | Some s => s_stop s = CStopDrain 0 /\
              forallb (fun l => match step lib_serve_ret lib_drain_ret l s with None => true | Some _ => false end)
                      (internal_labels 1) = true
  | None => False
  end.
Proof. vm_compute. repeat split. Qed.

Print Assumptions C18_waitgroups_never_negative.
Print Assumptions C18_start_returns_after_one_done_each.
Print Assumptions C18_start_returns.
Print Assumptions C18_stop_complete.
Print Assumptions C18_stop_progress.
Print Assumptions C18_stop_returns.
Print Assumptions C18_stop_waits_for_inflight.
Print Assumptions C18_listeners_up.
Print Assumptions C18_port_bound_only_while_running.
