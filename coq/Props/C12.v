(* C12 — sliceOps functions equal their list and set specifications on all inputs.
   Property theorems only; each is closed by [exact]/[apply] of a lemma from Proofs/. *)
From Coq Require Import List Arith ZArith Bool Permutation.
From TC.Model Require Import SliceOps.
From TC.Proofs Require Import SliceOpsProofs SliceSetProofs SliceFilterSt.
Import ListNotations.

Section C12.
  Context {A : Type} (zero : A).

  (* Remove(s,i,j) for every slice (backing array b, length len) and every i <= j <= len:
     the whole backing array afterwards is  b[0,i) ++ b[j,len) ++ zeros(j-i) ++ b[len,cap). *)
  Theorem C12_remove (b : list A) len i j :
    i <= j -> j <= len -> len <= length b ->
    remove zero b len i j =
      Some (firstn i b ++ skipn j (firstn len b) ++ repeat zero (j - i) ++ skipn len b,
            len - (j - i)).
  Proof. exact (remove_spec zero b len i j). Qed.

  Theorem C12_remove_visible (b : list A) len i j b' len' :
    i <= j -> j <= len -> len <= length b ->
    remove zero b len i j = Some (b', len') ->
    firstn len' b' = firstn i (firstn len b) ++ skipn j (firstn len b)
    /\ length b' = length b
    /\ firstn (j - i) (skipn len' b') = repeat zero (j - i)
    /\ skipn len b' = skipn len b.
  Proof. exact (remove_visible zero b len i j b' len'). Qed.

  Theorem C12_cut (b : list A) len i j :
    i <= j -> j <= len -> len <= length b ->
    cut zero b len i j =
      Some (firstn (j - i) (skipn i (firstn len b)),
            firstn i b ++ skipn j (firstn len b) ++ repeat zero (j - i) ++ skipn len b,
            len - (j - i)).
  Proof. exact (cut_spec zero b len i j). Qed.

  Theorem C12_insert (s v : list A) i :
    i <= length s -> insert s i v = Some (firstn i s ++ v ++ skipn i s).
  Proof. exact (insert_spec s v i). Qed.

  Theorem C12_filter (keep : A -> bool) (b : list A) len :
    len <= length b ->
    let l := firstn len b in
    filter_in_place zero keep b len =
      Some (filter keep l ++ repeat zero (len - length (filter keep l)) ++ skipn len b,
            length (filter keep l)).
  Proof. exact (filter_spec zero keep b len). Qed.

  (* "every predicate" read operationally: a Go predicate may be a closure with state of its own.  The in-place
     loop then equals ONE ordered pass that offers each visible element to the predicate exactly once
     ([filter_st]: the state is threaded element by element); the final predicate state is part of the result.
     C12_filter is the state-less case ([filter_st_pure]). *)
  Theorem C12_filter_stateful {St : Type} (keep : St -> A -> bool * St) (st : St) (b : list A) len :
    len <= length b ->
    let l := firstn len b in
    let r := fst (filter_st keep st l) in
    filter_in_place_st zero keep st b len =
      Some (r ++ repeat zero (len - length r) ++ skipn len b, length r, snd (filter_st keep st l)).
  Proof. exact (filter_st_spec zero keep st b len). Qed.

  Theorem C12_push (s v : list A) : push s v = v ++ s.
  Proof. exact (push_spec s v). Qed.

  Theorem C12_pop (b : list A) len :
    len <= length b ->
    pop zero b len =
      match firstn len b with
      | [] => Some (zero, b, 0)
      | x :: rest => Some (x, rest ++ [zero] ++ skipn len b, len - 1)
      end.
  Proof. exact (pop_spec zero b len). Qed.

  (* set functions: for every element type with a decidable == *)
  Variable eqb : A -> A -> bool.
  Hypothesis eqb_spec : forall x y, reflect (x = y) (eqb x y).

  Theorem C12_distinct s :
    NoDup (distinct eqb s) /\ forall x, In x (distinct eqb s) <-> In x s.
  Proof. exact (distinct_spec eqb eqb_spec s). Qed.

  Theorem C12_union ss :
    NoDup (union eqb ss) /\ forall x, In x (union eqb ss) <-> exists s, In s ss /\ In x s.
  Proof. exact (union_spec eqb eqb_spec ss). Qed.

  (* Go returns the intersection in map-iteration order: the statement is for every permutation *)
  Theorem C12_intersection ss r :
    Permutation r (intersection eqb ss) ->
    NoDup r /\ forall x, In x r <-> ss <> [] /\ forall s, In s ss -> In x s.
  Proof.
    intros Hp. destruct (intersection_spec eqb eqb_spec ss) as [Hnd Hin]. split.
    - exact (Permutation_NoDup (Permutation_sym Hp) Hnd).
    - intros x. rewrite <- Hin. split; apply Permutation_in; [exact Hp|exact (Permutation_sym Hp)].
  Qed.

  Theorem C12_intersection_no_args : intersection eqb [] = [].
  Proof. exact (intersection_nil eqb). Qed.

  Theorem C12_difference s1 s2 :
    NoDup (difference eqb s1 s2)
    /\ forall x, In x (difference eqb s1 s2) <-> In x s1 /\ ~ In x s2.
  Proof. exact (difference_spec eqb eqb_spec s1 s2). Qed.

  (* Disjoin: exactly one argument slice contains x *)
  Theorem C12_disjoin ss :
    NoDup (disjoin eqb ss)
    /\ forall x, In x (disjoin eqb ss) <->
         exists l1 s l2, ss = l1 ++ s :: l2 /\ In x s
                         /\ (forall s', In s' l1 -> ~ In x s') /\ (forall s', In s' l2 -> ~ In x s').
  Proof.
    destruct (disjoin_spec eqb eqb_spec ss) as [Hnd Hin]. split; [exact Hnd|].
    intros x. rewrite Hin. exact (occ_one eqb eqb_spec x ss).
  Qed.
End C12.

(* non-vacuity: concrete inputs with duplicates, empty arguments, spare capacity *)
Example C12_ex_remove :
  remove 0%Z [1;2;3;4;5;99]%Z 5 1 3 = Some ([1;4;5;0;0;99]%Z, 3).
Proof. reflexivity. Qed.
Example C12_ex_sets :
  intersection Z.eqb [[1;1;2]; [2;1]; [1;3;2;2]]%Z = [1;2]%Z
  /\ disjoin Z.eqb [[1;1;2]; [2;3]; [4;4]; []]%Z = [1;3;4]%Z
  /\ difference Z.eqb [1;1;2;3]%Z [2]%Z = [1;3]%Z
  /\ disjoin Z.eqb [[1;1]]%Z = [1]%Z.
Proof. repeat split. Qed.

Print Assumptions C12_remove.
Print Assumptions C12_remove_visible.
Print Assumptions C12_cut.
Print Assumptions C12_insert.
Print Assumptions C12_filter.
Print Assumptions C12_filter_stateful.
Print Assumptions C12_push.
Print Assumptions C12_pop.
Print Assumptions C12_distinct.
Print Assumptions C12_union.
Print Assumptions C12_intersection.
Print Assumptions C12_intersection_no_args.
Print Assumptions C12_difference.
Print Assumptions C12_disjoin.
