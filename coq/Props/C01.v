(* C01 — FifoMapCache is a map that may forget: fresh values, consistent views.  Property theorems only.
   s ranges over EVERY state reachable from a new cache (any capacity split P,C >= 1, i.e. any capacity
   and partitioning option) by ANY history of Set/Get/Contains/Delete/Len/Keys/Values/Sweep/Clear/
   Capacity/Resize labels; Sweep labels may stand anywhere (the asynchronous `go f.Sweep()`). *)
From Coq Require Import List Arith Bool.
From TC.Lib Require Import Assoc.
From TC.Model Require Import Cache.
From TC.Proofs Require Import CacheInv CacheViews CacheRun CacheSetSweep.
Import ListNotations.

Section C01.
  Context {K V : Type} (keqb : K -> K -> bool).
  Hypothesis keqb_spec : forall x y, reflect (x = y) (keqb x y).
  Notation label := (@label K V).

  Definition reachable (p c : nat) (h : list label) := 1 <= p /\ 1 <= c /\ Forall lvalid h.

  (* Get returns the value of the most recent Set (the ideal map executes Set/Delete/Clear only),
     or nothing — never an earlier value and never another key's. *)
  Theorem C01_forgetful_map p c (h : list label) k v :
    reachable p c h ->
    get keqb (run keqb (init p c) h) k = Some v -> ideal keqb h k = Some v.
  Proof. intros (Hp & Hc & Hv). exact (forgetful_map keqb keqb_spec p c h Hp Hc Hv k v). Qed.

  (* immediately after Set(k,v), Get(k) = v; and at a quiescent point (no sweep pending before the Set)
     still after the sweep the Set may have triggered *)
  Theorem C01_set_get p c (h : list label) k v :
    reachable p c h ->
    let s := run keqb (init p c) h in
    get keqb (set keqb s k v) k = Some v
    /\ (length (parts s) <= P s -> get keqb (sweep (set keqb s k v)) k = Some v).
  Proof.
    intros (Hp & Hc & Hv) s. pose proof (Inv_run keqb keqb_spec p c h Hp Hc Hv) as H. split.
    - exact (get_set_same keqb keqb_spec s k v H).
    - exact (get_set_sweep keqb keqb_spec s k v H).
  Qed.

  (* Keys, Contains, Values, Len describe one and the same set of entries *)
  Theorem C01_views p c (h : list label) :
    reachable p c h ->
    let s := run keqb (init p c) h in
    NoDup (keys_of s)
    /\ (forall k, In k (keys_of s) <-> contains keqb s k = true)
    /\ map (get keqb s) (keys_of s) = map Some (values_of s)
    /\ len s = length (keys_of s).
  Proof.
    intros (Hp & Hc & Hv) s. pose proof (Inv_run keqb keqb_spec p c h Hp Hc Hv) as H.
    split; [exact (keys_nodup keqb s H)|].
    split; [intros k; exact (keys_contains keqb keqb_spec s k H)|].
    split; [exact (values_are_gets keqb keqb_spec s H)|reflexivity].
  Qed.

  (* a key that is absent (never set, deleted, evicted, cleared) stays absent until it is Set again *)
  Theorem C01_absent_stays p c (h : list label) (l : label) k :
    reachable p c h -> lvalid l -> (forall v, l <> LSet k v) ->
    let s := run keqb (init p c) h in
    get keqb s k = None -> get keqb (exec keqb s l) k = None.
  Proof.
    intros (Hp & Hc & Hv) Hl Hns s. pose proof (Inv_run keqb keqb_spec p c h Hp Hc Hv) as H.
    exact (absent_stays keqb keqb_spec s l k H Hl Hns).
  Qed.
End C01.

(* non-vacuity: a reachable state with three partitions, an un-swept overflow and a stale index entry *)
Example C01_ex :
  let h := [LSet 1 10; LSet 2 20; LSet 3 30; LSet 4 40; LSet 5 50; LDelete 3; LSet 1 11; LGet 1; LSweep; LGet 1; LGet 5]%nat in
  reachable 2 2 h
  /\ run_obs Nat.eqb (init 2 2) h
     = [ONone; ONone; ONone; ONone; ONone; ONone; ONone; OGet (Some 11); ONone; OGet None; OGet (Some 50)].
Proof. split; [repeat split; auto; repeat constructor|reflexivity]. Qed.

Print Assumptions C01_forgetful_map.
Print Assumptions C01_set_get.
Print Assumptions C01_views.
Print Assumptions C01_absent_stays.
