(* C15 - Publish never blocks and every undelivered message is accounted for.
   Property theorems only.  Model: Model/Pub.v (after fix F11: the callbacks are invoked). *)
From Coq Require Import List Arith Bool Lia ZArith Permutation.
From TC.Model Require Import Pub.
From TC.Proofs Require Import PubInv PubC06 PubC15.
Import ListNotations.

Section C15.
  Context {M : Type}.
  Notation state := (state M).

  (* Publish never waits for a subscriber: a call can always begin, and from every reachable state an
     open call p can run to its return by its OWN steps alone - one Visit for each subscriber it still
     has to visit (at most [nsub] of them), then PubEnd - whatever the buffers, receivers, pending
     deliveries and closes look like (nothing about them is assumed). *)
  Theorem C15_nonblocking (st : state) :
    (forall m, enabled st (PubBegin m)) /\
    (reach st -> forall p, p < npub st -> popen st p = true ->
       exists st' st'',
         run st (map (Visit p) (todo st p)) = Some st' /\ step st' (PubEnd p) = Some st'' /\
         length (todo st p) <= nsub st).
  Proof.
    split.
    - intros m. unfold enabled, step. discriminate.
    - intros R p. apply publish_can_finish; auto.
  Qed.

  (* The buffer absorbs: a delivery in its select on an open channel with room is enabled regardless of
     any receiver; and in any reachable state where no delivery goroutine of s can move, either the
     buffer holds exactly [cap s] messages or nothing is pending for s. *)
  Theorem C15_buffer_absorbs (st : state) s :
    (forall p dl m, pair st p s = PInSel dl -> pmsg st p = Some m -> s_phase (subs st s) <> Closed ->
                    length (s_buf (subs st s)) < s_cap (subs st s) -> enabled st (Deliver p s)) /\
    (reach st -> s_phase (subs st s) <> Closed ->
     (forall p, ~ enabled st (Enter p s) /\ ~ enabled st (Deliver p s)) ->
     length (s_buf (subs st s)) = s_cap (subs st s) \/ forall p, is_pending (pair st p s) = false).
  Proof.
    split.
    - intros p dl m. apply deliver_enabled.
    - apply buffer_absorbs.
  Qed.

  (* The buffer keeps: along any label sequence without a receive on s nothing leaves the buffer and
     arrivals are appended; along ANY label sequence the sequence "received ++ buffered" only grows at
     its end (so buffered messages are read later, in order, each once). *)
  Theorem C15_buffer_keeps (st st' : state) ls s :
    run st ls = Some st' -> s < nsub st ->
    (exists ext, s_got (subs st' s) ++ s_buf (subs st' s) =
                 (s_got (subs st s) ++ s_buf (subs st s)) ++ ext) /\
    (forallb (fun l => negb (takes_from s l)) ls = true ->
     s_got (subs st' s) = s_got (subs st s) /\
     exists ext, s_buf (subs st' s) = s_buf (subs st s) ++ ext).
  Proof.
    intros H Hs. split.
    - apply (seen_grows_run _ _ _ _ H Hs).
    - apply (buffer_kept_run _ _ _ _ H Hs).
  Qed.

  (* OnFiltered has been invoked with (s, p, m) iff the pair is filtered, s has the callback and m is
     p's message - and at most once per pair; the same for OnTimeout and timed-out pairs. *)
  Theorem C15_callbacks (st : state) :
    reach st ->
    (forall s p m, In (s, p, m) (cbF st) <->
                   pair st p s = PFiltered /\ s_onF (subs st s) = true /\ pmsg st p = Some m) /\
    NoDup (map key (cbF st)) /\
    (forall s p m, In (s, p, m) (cbT st) <->
                   pair st p s = PTimedOut /\ s_onT (subs st s) = true /\ pmsg st p = Some m) /\
    NoDup (map key (cbT st)).
  Proof. apply callbacks. Qed.

  (* A pair can time out only when the subscriber's OWN timeout has elapsed since the Publish call
     began (no other subscriber's timeout enters), and a timed-out pair satisfies this for ever. *)
  Theorem C15_own_timeout (st : state) p s :
    reach st ->
    (forall st', step st (Timeout p s) = Some st' -> pt0 st p + s_tmo (subs st s) <= now st) /\
    (pair st p s = PTimedOut -> pt0 st p + s_tmo (subs st s) <= now st).
  Proof.
    intros R. split.
    - intros st'. apply own_timeout_step; auto.
    - apply own_timeout_state; auto.
  Qed.

  (* No leak: after [max_dl st - now st] ticks every deadline has passed, and in every reachable state
     in which every deadline has passed and no delivery goroutine can move, no delivery is pending. *)
  Theorem C15_no_leak (st : state) :
    reach st ->
    (forall p s dl, pair st p s = PInSel dl -> dl <= now st + (max_dl st - now st)) /\
    ((forall p s dl, pair st p s = PInSel dl -> dl <= now st) ->
     (forall p s, ~ enabled st (Enter p s) /\ ~ enabled st (Timeout p s)) ->
     forall p s, is_pending (pair st p s) = false).
  Proof.
    intros R. split.
    - apply deadlines_pass; auto.
    - apply no_leak; auto.
  Qed.
  (* Option order: Subscribe applies its options in the order given; options of different kinds touch
     different fields, so any two orders of the same options (at most one of each kind) give the same effective
     subscriber - in particular OnTimeout(cb) before or after WithTimeout(d) both keep the callback and the
     timeout, which is the configuration all theorems above are stated for. *)
  Theorem C15_option_order (l1 l2 : list (sopt M)) cap :
    Permutation l1 l2 -> NoDup (map okind l1) -> SubscribeOpts cap l1 = SubscribeOpts cap l2.
  Proof.
    intros P N. unfold SubscribeOpts, apply_opts. rewrite (opts_perm l1 l2 P N). reflexivity.
  Qed.
End C15.

(* ---------- non-vacuity ---------- *)
Definition ex15 : list (label nat) :=
  [ Subscribe 1 (fun _ => true) 2%Z true true;          (* s0: buffer 1, timeout 2, both callbacks *)
    Subscribe 1 Nat.even 50%Z true true;                (* s1: buffer 1, even only, timeout 50 *)
    PubBegin 1; Visit 0 0; Visit 0 1; PubEnd 0;       (* 1: s0 accepts, s1 rejects -> OnFiltered *)
    PubBegin 2; Visit 1 1; Visit 1 0; PubEnd 1;
    Enter 0 0; Enter 1 0; Enter 1 1; Deliver 0 0; Deliver 1 1;   (* buffers absorb one each; (1,s0) waits *)
    Tick; Tick; Timeout 1 0 ].                        (* s0's own timeout (2) expires: OnTimeout *)

Example ex15_ok :
  option_map (fun st => (s_buf (subs st 0), s_buf (subs st 1), cbF st, cbT st, pair st 1 0, now st, measure st))
             (run init ex15)
  = Some ([(0, 1)], [(1, 2)], [(1, 0, 1)], [(0, 1, 2)], PTimedOut, 2, 0).
Proof. vm_compute. reflexivity. Qed.

(* an open call in a state with full buffers and nobody receiving can still finish by itself *)
Example ex15_open_call :
  match run init [Subscribe 0 (fun _ => true) 9%Z false false; Subscribe 1 (fun _ : nat => true) 9%Z false false;
                  PubBegin 7; Visit 0 1] with
  | Some st => (todo st 0, popen st 0)
  | None => ([], false)
  end = ([0], true).
Proof. vm_compute. reflexivity. Qed.

(* zero and negative timeouts (time.After(d) fires at once for d <= 0): the effective timeout is max(0, d);
   a surplus message of a never-receiving subscriber times out without any Tick, OnTimeout is called *)
Example ex15_nonpositive_timeout :
  option_map (fun st => (s_tmo (subs st 0), s_tmo (subs st 1), s_buf (subs st 0), cbT st, pair st 1 0, pair st 0 1, now st, measure st))
             (run init [ Subscribe 1 (fun _ : nat => true) 0%Z false true; Subscribe 0 (fun _ => true) (-50)%Z false true;
                         PubBegin 7; Visit 0 0; Visit 0 1; PubEnd 0; PubBegin 8; Visit 1 0; Visit 1 1; PubEnd 1;
                         Enter 0 0; Deliver 0 0; Enter 0 1; Enter 1 0; Enter 1 1; Timeout 1 0; Timeout 0 1; Timeout 1 1 ])
  = Some (0, 0, [(0, 7)], [(0, 1, 8); (1, 0, 7); (1, 1, 8)], PTimedOut, PTimedOut, 0, 0).
Proof. vm_compute. reflexivity. Qed.

Print Assumptions C15_nonblocking.
Print Assumptions C15_buffer_absorbs.
Print Assumptions C15_buffer_keeps.
Print Assumptions C15_callbacks.
Print Assumptions C15_own_timeout.
Print Assumptions C15_no_leak.
Print Assumptions C15_option_order.
