(* C19 — Stop and Break never crash, lose or resurrect work.   PARTIAL: known finding K5.

   FULL STATEMENT (false of the code, hence of the faithful model): for every reachable state s of a running queue
   and l in {Stop, Break}, and every continuation ls of [step fixed s l]: the run never reaches [panicked]; every
   caller returns; after Stop every item accepted before it still starts exactly once and no item enqueued after it
   starts; after Break the items waiting in the heap never start and the executing ones finish; an Enqueue racing
   with either returns normally.

   K5 (too large to fix safely: the shutdown protocol has to be re-designed): start() closes workerSemaphore, workerCh,
   errChan and workChan on exit while workers and producers still use them.  The model contains the shutdown path as
   written; [C19_refuted_work_in_flight] and [C19_refuted_racing_enqueue] are concrete label sequences that reach
   [panicked] (a send on a closed channel).
   PROVED (the part of the property that does hold): Stop/Break on a queue with nothing unfinished - no continuation
   whatsoever panics, the dispatcher exits, work submitted afterwards is accepted into workItems, returns its id
   without being sent and never starts; and Break makes the drain loop skip every heap item.
   Property theorems only; proofs in Proofs/WQC19.v. *)
From Coq Require Import List Arith ZArith Bool Lia.
From TC.Lib Require Import GoHeap GoHeapProofs.
From TC.Model Require Import WQ.
From TC.Proofs Require Import WQHeap WQInv WQCons WQLive WQC16 WQC19.
From TC.Findings Require WQ.
Import ListNotations.

Local Notation reachable W L ls s := (run fixed (init W L) ls = Some s).
Lemma rr W L ls s : reachable W L ls s -> reach fixed s.
Proof. intros H. eapply run_reach; [apply reach_init|exact H]. Qed.

(* K5, first witness: one item executing, Stop, the dispatcher exits and closes the token channel, the work function
   returns, its worker posts its token: send on closed channel. *)
Theorem C19_refuted_work_in_flight :
  exists ls s, run fixed (init 1 1) ls = Some s /\ panicked s = true /\ In (EvPanic PSendSem) (trace s).
Proof.
  exists WQ.labels_K5_inflight.
  destruct (run fixed (init 1 1) WQ.labels_K5_inflight) as [s|] eqn:E; [|vm_compute in E; discriminate E].
  exists s. split; [reflexivity|]. vm_compute in E. injection E as <-. split; [reflexivity|]. left. reflexivity.
Qed.

(* K5, second witness: an Enqueue racing with Stop (it has read stopped = false and is about to send): the dispatcher
   exits and closes workChan first: the producer's send panics instead of returning normally. *)
Theorem C19_refuted_racing_enqueue :
  exists s, run fixed (init 1 1)
              [Enq 1 false 0; Stop; DCancel; DDrainStep; DClose; DClose; DClose; DClose; PPanic 0] = Some s
            /\ panicked s = true /\ In (EvPanic PSendWork) (trace s).
Proof. eexists. split; [vm_compute; reflexivity|]. split; [reflexivity|]. left. reflexivity. Qed.

(* Stop or Break when nothing submitted is unfinished (the state C04_stuck_free describes): whatever happens
   afterwards - any labels: further Enqueue calls, Dequeue, SetPriority, subscriptions, repeated Stop/Break, every
   internal step in any order - the process does not panic, nothing ever executes again, and every item enqueued
   afterwards stays out of the dispatcher's reach. *)
Theorem C19_partial_idle_stop : forall W L ls s l s1 ls' s',
  reachable W L ls s -> forallb no_stop ls = true -> panicked s = false ->
  producers s = [] -> disp s = PhIdle -> heap s = [] -> buffer s = [] -> running s = [] -> senderr s = [] ->
  deleting s = [] -> posting s = 0 -> tokens s = 0 ->
  (l = Stop \/ l = Break) -> step fixed s l = Some s1 -> run fixed s1 ls' = Some s' ->
  panicked s' = false /\ running s' = [] /\ buffer s' = [] /\ producers s' = [] /\
  (forall k, nextid s <= k -> nstart k (trace s') = 0).
Proof.
  intros W L ls s l s1 ls' s' Hr Hl Hnp P1 P2 P3 P4 P5 P6 P7 P8 P9 Hsb Hs1 Hr'.
  pose proof (rr _ _ _ _ Hr) as R.
  assert (Hlive : live s) by (eapply live_reach; eauto).
  assert (Hidle : all_idle s).
  { unfold all_idle. rewrite P1, P2, P3, P4, P5, P6, P7, P8, P9. cbn. repeat split. }
  assert (Hrd : forall x, In x (removed s ++ dropped s) -> ist x = false /\ ipos x = (-1)%Z).
  { intros x Hx. split.
    - destruct Hlive as (_ & _ & _ & _ & _ & _ & _ & _ & _ & Hdr). rewrite Hdr, app_nil_r in Hx.
      (* removed items were taken from the heap, where every item is IN_QUEUE: via positions we only need ipos;
         ist is preserved by Dequeue from the heap *)
      pose proof (removed_unstarted s R) as Hu. rewrite Forall_forall in Hu. exact (Hu x Hx).
    - apply (removed_dropped_fields s R); [destruct Hlive as (_ & _ & Hp & _); exact Hp|exact Hx]. }
  pose proof (stop_idle s l s1 Hnp Hidle Hrd Hsb Hs1) as Hs1i.
  pose proof (stopped_idle_run ls' s1 s' Hs1i Hr') as (Hnp' & _ & (A1 & A2 & A3 & A4 & A5 & A6 & _) & _).
  split; [exact Hnp'|]. split; [exact A4|]. split; [exact A3|]. split; [exact A1|].
  intros k Hk.
  assert (R' : reach fixed s') by (eapply run_reach; [eapply reach_step; [exact R|exact Hs1]|exact Hr']).
  pose proof (started_reach s' R' k) as Hst. rewrite A4, A5, A6 in Hst. cbn in Hst. rewrite Hst.
  (* done never grows after the stop: WDelete needs an item in [deleting] *)
  rewrite (done_frozen _ _ _ Hs1i Hr').
  assert (Hd1 : done s1 = done s) by (destruct Hsb as [-> | ->]; unfold step in Hs1; rewrite Hnp in Hs1; injection Hs1 as <-; reflexivity).
  rewrite Hd1.
  pose proof (cons_reach s R k) as Hc. unfold total in Hc.
  destruct (Nat.ltb_spec k (nextid s)); [lia|]. lia.
Qed.

(* ... and the dispatcher does exit: a stopped idle queue whose dispatcher is at its select reaches PhExited in six
   internal steps (cancel branch, empty drain loop, four deferred closes) without panicking. *)
Theorem C19_partial_dispatcher_exits : forall s,
  stopped_idle s -> cancelled s = true -> disp s = PhIdle ->
  exists s', run fixed s [DCancel; DDrainStep; DClose; DClose; DClose; DClose] = Some s' /\ disp s' = PhExited /\
             panicked s' = false.
Proof. exact dispatcher_exits. Qed.

(* Break: in the drain loop every waiting item is skipped (moved to [dropped]), never sent to a worker. *)
Theorem C19_partial_break_skips : forall s x rest,
  panicked s = false -> breaked s = true -> disp s = PhDrain (x :: rest) ->
  step fixed s DDrainStep = Some (set_disp (PhDrain rest) (set_dropped (dropped s ++ [x]) s)).
Proof. intros s x rest Hnp Hb Hd. unfold step. rewrite Hnp, Hd, Hb. reflexivity. Qed.

(* ---- non-vacuity of C19_partial_idle_stop: a run that does work, becomes idle, is stopped, and then accepts two more
   Enqueue calls that never start ---- *)
Example C19_nonvacuous :
  exists ls s, run fixed (init 2 2) ls = Some s /\ panicked s = false /\ disp s = PhExited /\ stopped s = true /\
    length (done s) = 3 /\ length (dropped s) = 2 /\ nstart 3 (trace s) = 0 /\ nstart 4 (trace s) = 0 /\ nstart 2 (trace s) = 1.
Proof.
  exists WQ.labels_C19_example.
  destruct (run fixed (init 2 2) WQ.labels_C19_example) as [s|] eqn:E; [|vm_compute in E; discriminate E].
  exists s. split; [reflexivity|]. vm_compute in E. injection E as <-. vm_compute. repeat split.
Qed.

Print Assumptions C19_refuted_work_in_flight.
Print Assumptions C19_refuted_racing_enqueue.
Print Assumptions C19_partial_idle_stop.
Print Assumptions C19_partial_dispatcher_exits.
Print Assumptions C19_partial_break_skips.
