(* C07 — SafeMap and SyncMap are linearizable, type-faithful maps.
   Property theorems only; each is closed by a lemma from Proofs/ or Lib/Conc.v.

   What the concurrency theorems are about (read this before quoting them):
   * they are about the MODEL objects of Model/SafeMap.v and Model/SyncMap.v, whose atomic steps are the
     critical sections of the Go code (SafeMap) resp. single calls of the embedded sync.Map (SyncMap);
   * that a critical section really is atomic is [C07_safemap_race_free] (lockset theorem over the
     skeleton REGENERATED from storage/safeMap.go on every run) plus the DRF-SC guarantee of the Go memory
     model (trusted), and [C07_skeleton_matches_model] ties the skeleton's section structure to the
     model's step structure;
   * SyncMap is linearisable RELATIVE to the sync.Map contract (its methods are atomic; Range is not a
     snapshot and is therefore only covered by the sequential theorem). *)
From Coq Require Import List Bool Arith ZArith String.
From TC.Lib Require Import Conc.
From TC.Model Require Import SafeMap SyncMap.
From TC.Proofs Require Import SafeMapProofs SyncMapProofs SafeMapSkeleton.
From TC.Gen Require Import LockSkeleton_gen.
Import ListNotations.

Section C07_SafeMap.
  Context {K V D : Type}.
  Variable keqb : K -> K -> bool.
  Hypothesis keqb_spec : forall x y, reflect (x = y) (keqb x y).     (* Go's == on keys is reflexive (no NaN) *)
  Variable zero : V.                                                  (* the zero value of V *)

  (* Sequentially: for EVERY operation sequence, started on the empty map, the outputs of SafeMap are those
     of the reference map K -> option V (a miss yields the zero value; Keys/Values/CopyToMap/
     TranslateToMapOf enumerate the domain exactly once; Len is its size).  The model has no panic outcome. *)
  Theorem C07_safemap_is_map (ops : list (SafeMap.op K V D)) :
    SafeMap.ref_run keqb zero (fun _ => None) ops (SafeMap.run keqb zero [] ops).
  Proof. exact (safemap_is_map_proof keqb keqb_spec zero ops). Qed.

  (* Concurrently: for every initial content, EVERY schedule of any number of threads issuing any operations
     yields a history of the atomic automaton Lin(sequential SafeMap): each call takes effect at one instant
     between its invocation and its response.  GetOrAdd is two sections (read, then write with re-check). *)
  Theorem C07_safemap_linearizable (m0 : @SafeMap.smap K V) :
    linearizable (@safemap_obj K V D keqb zero) (@SafeMap.smap K V) (fun m o => SafeMap.step keqb zero m o) m0 m0.
  Proof. exact (safemap_linearizable_proof keqb zero m0). Qed.

  (* GetOrAdd chooses exactly one winner per key and every caller sees it: if nothing in the history removes
     or overwrites key k (no Set k / Delete k / Clear / ClearAndResize), then under every schedule all
     completed GetOrAdd(k, _) return the same value, which is the initial one or one of the offered ones. *)
  Theorem C07_getoradd_one_winner (m0 : @SafeMap.smap K V) (k : K) labels c evs :
    Conc.run (@safemap_obj K V D keqb zero) (m0, []) labels = Some (c, evs) ->
    (forall t o, In (Inv t o) evs -> touches keqb k o = false) ->
    (forall t1 v1 r1 t2 v2 r2,
        In (Res t1 (OGetOrAdd k v1) r1) evs -> In (Res t2 (OGetOrAdd k v2) r2) evs -> r1 = r2)
    /\ (forall t v r, In (Res t (OGetOrAdd k v) r) evs ->
          exists w, r = RVal w /\
            (SafeMap.lookup keqb k m0 = Some w \/ exists t', In (Inv t' (OGetOrAdd k w)) evs)).
  Proof. exact (getoradd_one_winner_proof keqb keqb_spec zero m0 k labels c evs). Qed.
End C07_SafeMap.

Section C07_SyncMap.
  Context {K V D : Type}.
  Variable keqb : K -> K -> bool.
  Hypothesis keqb_spec : forall x y, reflect (x = y) (keqb x y).
  Variable deqb : D -> D -> bool.                                     (* == on the dynamic values held in `any` *)
  Hypothesis deqb_spec : forall x y, reflect (x = y) (deqb x y).
  Variable zero : V.
  Variable inj : V -> option D.                                       (* V -> any; None = nil interface value *)
  Variable proj : D -> V.                                             (* successful assertion any -> V *)
  Hypothesis inj_proj : forall v, match inj v with Some d => proj d = v | None => v = zero end.

  (* Sequentially: NO operation sequence panics (run = Some ...), whatever values are stored — including the
     nil interface value — and the outputs are those of the reference map: a miss yields (zero, false),
     LoadOrStore / Swap / LoadAndDelete / CompareAndSwap / CompareAndDelete act as on K -> option V,
     Range/Iterate visit distinct present keys with their current values. *)
  Theorem C07_syncmap_is_map (ops : list (SyncMap.op K V)) :
    exists rs, SyncMap.run keqb deqb zero inj proj [] ops = Some rs
               /\ SyncMap.ref_run keqb zero (fun _ => None) ops rs.
  Proof. exact (syncmap_is_map_proof keqb keqb_spec deqb deqb_spec zero inj proj inj_proj ops). Qed.

  (* Concurrently, RELATIVE TO THE sync.Map CONTRACT (each sync.Map method is one atomic step): every schedule
     of Load/Store/Swap/Delete/LoadOrStore/LoadAndDelete/CompareAndSwap/CompareAndDelete calls — each being
     the sync.Map call followed by the wrapper's local type assertion — is linearisable w.r.t. the
     sequential model, and no call panics (the result is never None, by the theorem above). *)
  Theorem C07_syncmap_linearizable (m0 : list (K * option D)) :
    linearizable (@syncmap_obj K V D keqb deqb zero inj proj) (list (K * option D))
                 (@syncmap_spec K V D keqb deqb zero inj proj) m0 m0.
  Proof. exact (syncmap_linearizable_proof keqb deqb zero inj proj m0). Qed.
End C07_SyncMap.

(* the lockset theorem itself (Lib/Conc.v): for every skeleton, the decidable check implies that no schedule
   of the fine-grained RWMutex semantics reaches a data race *)
Theorem C07_lockset_sound (sk : skeleton) : lockset_check sk = true -> race_free sk.
Proof. exact (lockset_sound sk). Qed.

(* ---- the skeleton regenerated from storage/safeMap.go (Gen/LockSkeleton_gen.v) ---- *)

(* No schedule of any number of goroutines calling SafeMap's methods — locks taken one by one, accesses to
   SafeMap.m performed one at a time, RWMutex semantics — reaches a state in which two goroutines are about
   to access m conflictingly (nor code the translator could not analyse). *)
Theorem C07_safemap_race_free : race_free safemap_skeleton.
Proof. exact safemap_race_free_proof. Qed.

(* The generated skeleton has exactly the section structure of the concurrent model:
   (1) every operation of the model has its method in the skeleton, and that method's sections are, in order,
       sections holding exactly the lock "mux" in the mode, and touching only "m" with the may-read and
       may-write flags, that [sections_of] declares for the model's steps (GetOrAdd: a read section that
       reads, then a write section that reads — the re-check — and writes; Set/Delete/Clear: write only);
   (2) the skeleton has no other methods;
   (3) the model's steps respect the declaration: the i-th step of an invocation is its i-th declared
       section, a section declared non-writing (= read-locked) leaves the shared state unchanged, the outcome
       of a section declared non-reading does not depend on the shared state, and a step that does not
       return moves on to the next declared section of the same operation. *)
Theorem C07_skeleton_matches_model :
  (forall K V D (o : SafeMap.op K V D), exists secs,
      In (method_name o, secs) safemap_skeleton /\ map sec_shape secs = map Some (sections_of o))
  /\ (forall name, In name (map fst safemap_skeleton) ->
        exists o : SafeMap.op unit unit unit, name = method_name o)
  /\ (forall K V D keqb zero (m : @SafeMap.smap K V) (l : SafeMap.local K V D),
        exists md rd w, nth_error (sections_of (op_of_local l)) (section_index l) = Some (md, rd, w)
          /\ (w = false -> fst (@SafeMap.cstep K V D keqb zero m l) = m)
          /\ (rd = false -> forall m2, snd (@SafeMap.cstep K V D keqb zero m2 l) = snd (@SafeMap.cstep K V D keqb zero m l))
          /\ (md = Rd <-> w = false)
          /\ (forall l', snd (@SafeMap.cstep K V D keqb zero m l) = inl l' ->
                op_of_local l' = op_of_local l /\ section_index l' = S (section_index l))).
Proof.
  split; [|split].
  - intros K V D o. exact (skeleton_has_model_sections o).
  - intros name Hin. apply skeleton_methods_in_model in Hin. unfold model_methods in Hin.
    apply in_map_iff in Hin as (o & <- & _). now exists o.
  - intros K V D keqb zero m l. exact (model_respects_sections keqb zero m l).
Qed.

(* ---- non-vacuity: the hypotheses are satisfiable, at a concrete and at an interface value type ---- *)
Example zeqb_spec : forall x y : Z, reflect (x = y) (Z.eqb x y). Proof. exact Z.eqb_spec. Qed.
(* V = int: never the nil any *)
Example inj_proj_concrete : forall v : Z, match Some v with Some d => (fun d => d) d = v | None => v = 0%Z end.
Proof. reflexivity. Qed.
(* V = an interface type (nil or an integer inside): the nil V is the nil any, zero value = nil *)
Example inj_proj_iface : forall v : option Z,
    match (fun v => v) v with Some d => Some d = v | None => v = None end.
Proof. intros [d|]; reflexivity. Qed.

(* Store(1, nil); Load(1) = (nil, true) in the fixed model at the interface type *)
Example syncmap_nil_load :
  SyncMap.run Z.eqb Z.eqb (None : option Z) (fun v => v) Some [] [OStore 1%Z None; OLoad 1%Z; OLoad 2%Z]
  = Some [SyncMap.RUnit; RValOk None true; RValOk None false].
Proof. reflexivity. Qed.

(* two racing GetOrAdd(1,_) on an empty SafeMap, both past their read section before either writes:
   the first writer wins and both return its value *)
Example goa_race :
  exists c, Conc.run (@safemap_obj Z Z Z Z.eqb 0%Z) ([], [])
     [@Call (@safemap_obj Z Z Z Z.eqb 0%Z) 0%nat (OGetOrAdd 1 5); @Call (@safemap_obj Z Z Z Z.eqb 0%Z) 1%nat (OGetOrAdd 1 6); @Step (@safemap_obj Z Z Z Z.eqb 0%Z) 0%nat; @Step (@safemap_obj Z Z Z Z.eqb 0%Z) 1%nat; @Step (@safemap_obj Z Z Z Z.eqb 0%Z) 1%nat; @Step (@safemap_obj Z Z Z Z.eqb 0%Z) 0%nat]%Z
  = Some (c, [Inv 0%nat (OGetOrAdd 1 5); Inv 1%nat (OGetOrAdd 1 6);
              Res 1%nat (OGetOrAdd 1 6) (RVal 6); Res 0%nat (OGetOrAdd 1 5) (RVal 6)]%Z).
Proof. eexists. vm_compute. reflexivity. Qed.

Print Assumptions C07_safemap_is_map.
Print Assumptions C07_safemap_linearizable.
Print Assumptions C07_getoradd_one_winner.
Print Assumptions C07_syncmap_is_map.
Print Assumptions C07_syncmap_linearizable.
Print Assumptions C07_lockset_sound.
Print Assumptions C07_safemap_race_free.
Print Assumptions C07_skeleton_matches_model.
