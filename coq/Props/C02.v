(* C02 — never more than Capacity() entries after a sweep; Capacity() rounding.  Property theorems only. *)
From Coq Require Import List Arith Bool.
From TC.Model Require Import Cache.
From TC.Proofs Require Import CacheInv CacheViews CacheRun.
From TC.Props Require Import C01.
Import ListNotations.

Section C02.
  Context {K V : Type} (keqb : K -> K -> bool).
  Hypothesis keqb_spec : forall x y, reflect (x = y) (keqb x y).

  (* for EVERY history (inserts, updates, deletes, re-inserts, clears, resizes, sweeps anywhere)
     that ends in a Sweep: Len() <= Capacity() *)
  Theorem C02_bound p c (h : list (@label K V)) :
    reachable p c h ->
    let s := run keqb (init p c) (h ++ [LSweep]) in
    len s <= capacity s.
  Proof.
    intros (Hp & Hc & Hv) s. unfold s, run. rewrite fold_left_app. cbn [fold_left].
    change (len (sweep (run keqb (init p c) h)) <= capacity (run keqb (init p c) h)).
    apply (len_after_sweep keqb). exact (Inv_run keqb keqb_spec p c h Hp Hc Hv).
  Qed.
End C02.

(* Capacity() = P*C is the requested capacity rounded down to a whole number of equal partitions:
   never more than requested, short of it by less than the number of partitions.
   Default calculator (sqrt) and WithBalancedPartitions (the Nth-root value enters as [root]). *)
Theorem C02_rounding_default c :
  1 <= c ->
  let '(p, l) := calc_default c in
  1 <= p /\ 1 <= l /\ p <= c /\ p * l <= c < p * l + p.
Proof. exact (calc_default_rounding c). Qed.

Theorem C02_rounding_balanced root minimum c :
  1 <= minimum <= c -> root <= c ->
  let '(p, l) := calc_balanced root minimum c in
  1 <= p /\ 1 <= l /\ p <= c /\ p * l <= c < p * l + p.
Proof. exact (calc_balanced_rounding root minimum c). Qed.

Example C02_ex : calc_default 10 = (3, 3) /\ calc_balanced 2 4 10 = (4, 2) /\ calc_default 1 = (1, 1).
Proof. repeat split. Qed.

Print Assumptions C02_bound.
Print Assumptions C02_rounding_default.
Print Assumptions C02_rounding_balanced.
