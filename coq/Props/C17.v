(* C17 — every configured route is served through transparent middleware (PARTIAL by design: TLS, the
   wire format, ServeMux itself and gRPC dispatch are library code; see notes/C17.md).
   Property theorems only; each is closed by a lemma of Proofs/MiddlewareProofs.v. *)
From Coq Require Import List ZArith Bool Arith Permutation.
From TC.Model Require Import Middleware.
From TC.Proofs Require Import MiddlewareProofs.
Import ListNotations.

(* BundleMiddleware(m1, ..., mn)(next) = m1 (m2 (... (mn next))) : the first member is outermost,
   for every list of middleware (also the empty one) and every handler. *)
Theorem C17_bundle_order (ms : list middleware) (next : handler) :
  bundle ms next = fold_right (fun m acc => m acc) next ms.
Proof. exact (bundle_spec ms next). Qed.

(* Recording middleware i1..in bundled around ANY handler h, on any writer and state:
   the run is "enter i1, ..., enter in", then h, then "exit in, ..., exit i1". *)
Theorem C17_bundle_trace (ids : list Z) (h : handler) (w : writer) (s : world) :
  bundle (map rec_mw ids) h w s =
  log_all (map EExit (rev ids)) (h w (log_all (map EEnter ids) s))
  /\ w_log (log_all (map EEnter ids) s) = w_log s ++ map EEnter ids
  /\ w_log (bundle (map rec_mw ids) h w s) =
     w_log (h w (log_all (map EEnter ids) s)) ++ map EExit (rev ids).
Proof.
  split; [exact (bundle_trace ids h w s)|]. split; [apply w_log_log_all|].
  rewrite bundle_trace. apply w_log_log_all.
Qed.

(* Transparency.  For every middleware list ds (LogRequest / LogResponse anywhere, any number of times,
   among recording middleware, scripted middleware and arbitrary well-behaved middleware), every
   handler program p and every request q: the run with ds and the run with the logging members
   removed give the client the same status, sent headers and body, give handlers and the other
   middleware the same observations in the same order (request method, URL, headers, every body
   read, response headers seen), and leave the same request state. *)
Theorem C17_transparent (ds : list mwd) (p : hprog) (q : reqst) :
  others_respectful ds ->
  let a := finish (bundle (map denote ds) (run_h p) base (init_world q)) in
  let b := finish (bundle (map denote (strip ds)) (run_h p) base (init_world q)) in
  client_view a = client_view b /\ visible_log a = visible_log b /\ w_req a = w_req b.
Proof. exact (transparent_bundle ds p q). Qed.

(* The same for a logging middleware configured directly (UsingMiddleWare(LogRequest(l))). *)
Theorem C17_log_request_transparent (p : hprog) (q : reqst) :
  let a := finish (log_request (run_h p) base (init_world q)) in
  let b := finish (run_h p base (init_world q)) in
  client_view a = client_view b /\ visible_log a = visible_log b /\ w_req a = w_req b.
Proof. exact (transparent_direct log_request p q log_request_transparent). Qed.

Theorem C17_log_response_transparent (p : hprog) (q : reqst) :
  let a := finish (log_response (run_h p) base (init_world q)) in
  let b := finish (run_h p base (init_world q)) in
  client_view a = client_view b /\ visible_log a = visible_log b /\ w_req a = w_req b.
Proof. exact (transparent_direct log_response p q log_response_transparent). Qed.

(* Transparency is a property of the middleware, not of handler programs only: related to the
   identity on ALL related handlers, writers (including other wrappers) and states. *)
Theorem C17_logging_is_identity_up_to_R :
  transparent log_request /\ transparent log_response.
Proof. exact (conj log_request_transparent log_response_transparent). Qed.

Section Table.
  Context {P H : Type} (peqb : P -> P -> bool).
  Hypothesis peqb_spec : forall a b, reflect (a = b) (peqb a b).

  (* Route table.  For every sequence of AddRoute calls, every middleware (or none), every order in
     which the provider ranges over the two maps (t = any permutation of the registered patterns)
     and every request (m, p): the router's answer is the specification [expected]. *)
  Theorem C17_table (calls : list (Z * P * H)) (mw : option (H -> H)) (t : list ((Z * P) * H)) m p :
    Permutation t (build_table (config_of peqb calls) mw) ->
    serve peqb t m p = expected peqb calls mw m p.
  Proof. exact (serve_expected peqb peqb_spec calls mw t m p). Qed.

  (* ... for the HTTP and for the HTTPS provider (both install the mux as the server's handler) *)
  Theorem C17_table_http (calls : list (Z * P * H)) mw m p :
    serve_handler peqb (http_provider_handler (config_of peqb calls) mw) m p = expected peqb calls mw m p.
  Proof. apply (serve_expected peqb peqb_spec). apply Permutation_refl. Qed.

  Theorem C17_table_https (calls : list (Z * P * H)) mw m p :
    serve_handler peqb (https_provider_handler (config_of peqb calls) mw) m p = expected peqb calls mw m p.
  Proof. apply (serve_expected peqb peqb_spec). apply Permutation_refl. Qed.

  (* Configuration SEQUENCES.  For every sequence of calls on a listener's config object or builder —
     AddRoute, SetMiddleware/UsingMiddleWare and the read accessors GetRoutes/GetMiddleware in ANY positions —
     the provider built afterwards serves exactly what the AddRoute calls (in order, getters ignored) and the
     LAST configured middleware say: read accessors never change what is served. *)
  Theorem C17_config_sequence (ops : list (@cfg_op P H)) (t : list ((Z * P) * H)) m p :
    Permutation t (build_table (c_routes (cfg_run peqb ops)) (c_mw (cfg_run peqb ops))) ->
    serve peqb t m p = expected peqb (adds_of ops) (mw_of_ops ops) m p.
  Proof. exact (serve_cfg_expected peqb peqb_spec ops t m p). Qed.

  (* [expected] read in the property's words: a request is served iff its (method, path) was
     registered (or it is a HEAD for a registered GET path with no HEAD route of its own), and then by
     exactly the handler registered LAST for that pair, wrapped in the configured middleware... *)
  Theorem C17_served_exactly (calls : list (Z * P * H)) mw m p h' :
    expected peqb calls mw m p = Served h' <->
    exists h, h' = wrap_with mw h /\
      (last_added peqb m p calls None = Some h \/
       (last_added peqb m p calls None = None /\ m = mHEAD /\ last_added peqb mGET p calls None = Some h)).
  Proof. exact (expected_served_iff peqb calls mw m p h'). Qed.

  (* ... and every other method/path combination is rejected: 405 when the path is known, else 404 *)
  Theorem C17_others_rejected (calls : list (Z * P * H)) mw m p :
    last_added peqb m p calls None = None ->
    (m = mHEAD -> last_added peqb mGET p calls None = None) ->
    expected peqb calls mw m p = (if path_added peqb p calls then MethodNotAllowed else NotFound).
  Proof. exact (expected_rejected peqb calls mw m p). Qed.
End Table.

(* Routing and middleware together: for every set of routes with handler programs, every middleware
   list, every map iteration order on either side and every request, the exchange through the
   configured middleware and the exchange with the logging members removed are indistinguishable
   to client, handlers and other middleware (same router decision included). *)
Theorem C17_end_to_end (calls : list (Z * Z * hprog)) (ds : list mwd) m p (q : reqst) t t' :
  others_respectful ds ->
  Permutation t (build_table (config_of Z.eqb (compile_calls calls)) (Some (bundle (map denote ds)))) ->
  Permutation t' (build_table (config_of Z.eqb (compile_calls calls)) (Some (bundle (map denote (strip ds))))) ->
  let a := respond (serve Z.eqb t m p) q in
  let b := respond (serve Z.eqb t' m p) q in
  client_view a = client_view b /\ visible_log a = visible_log b /\ w_req a = w_req b.
Proof.
  intros Ho Hp Hp' a b. destruct (end_to_end_R calls ds m p q t t' Ho Hp Hp') as (Ha & Hb & Hc).
  fold a in Ha, Hb, Hc. fold b in Ha, Hb, Hc. unfold client_view. rewrite Hb. auto.
Qed.

(* gRPC registrations (PARTIAL: only the registration map is modelled; dispatch is grpc-go):
   a descriptor is callable iff it was registered, and reaches the implementation registered last. *)
Theorem C17_grpc_registered_partial (calls : list (Z * Z)) (d : Z) :
  grpc_call (grpc_config_of calls) d = grpc_last d calls None.
Proof. exact (grpc_call_spec calls d). Qed.

(* ---------- non-vacuity ---------- *)
Local Open Scope Z_scope.

(* the hypothesis of C17_transparent is satisfiable by lists that contain every kind of member *)
Example C17_ex_respectful :
  others_respectful [DLogRequest; DRecord 1; DLogResponse; DScript (HSetHdr 1 2 HDone) HDone;
                     DOther (rec_mw 5); DOther log_request].
Proof.
  intros f [E|[E|[E|[E|[E|[E|[]]]]]]]; try discriminate E; inversion E; subst.
  - apply rec_mw_respectful.
  - apply log_request_respectful.
Qed.

Definition ex_echo : hprog :=
  HObsReq (fun _ _ _ => HReadAll (fun b => HSetHdr 7 8 (HStatus 201 (HWrite b (HWrite [33] HDone))))).
Definition ex_req : reqst := {| q_method := 2; q_path := 1; q_hdr := [(3, 4)]; q_body := [104; 105] |}.

(* a concrete run: order 1,2 around the handler; the handler sees the whole body although LogRequest
   ran first; the client sees 201, the header and the echoed body although LogResponse wrapped w *)
Example C17_ex_run :
  let a := finish (bundle (map denote [DRecord 1; DLogRequest; DLogResponse; DRecord 2]) (run_h ex_echo) base
                     (init_world ex_req)) in
  visible_log a = [EEnter 1; EEnter 2; EObsReq 2 1 [(3, 4)]; EObsRead [104; 105]; EExit 2; EExit 1]
  /\ client_view a = (Some (201, [(7, 8)]), [104; 105; 33], [])
  /\ w_log a = [EEnter 1; ELogReq 2 1 [104; 105]; EEnter 2; EObsReq 2 1 [(3, 4)]; EObsRead [104; 105];
                EExit 2; ELogResp 2 1 201 [104; 105; 33]; EExit 1].
Proof. vm_compute. repeat split. Qed.

(* several WriteHeader calls: 103 Early Hints with the headers of that moment, then the final status; a second
   final status and anything after a Flush are ignored - identically with and without LogResponse *)
Definition ex_hints : hprog :=
  HSetHdr 1 5 (HStatus 103 (HSetHdr 2 6 (HStatus 404 (HStatus 500 (HWrite [9] (HFlush (HStatus 201 HDone))))))).
Example C17_ex_informational :
  let a := finish (log_response (run_h ex_hints) base (init_world ex_req)) in
  let b := finish (run_h ex_hints base (init_world ex_req)) in
  client_view a = client_view b
  /\ client_view b = (Some (404, [(1, 5); (2, 6)]), [9], [(103, [(1, 5)])]).
Proof. vm_compute. split; reflexivity. Qed.

(* the table: later AddRoute wins, HEAD is served by GET, 405 and 404 *)
Example C17_ex_table :
  let calls := [(0, 1, 10); (2, 1, 11); (0, 1, 12); (0, 2, 13); (1, 2, 14)] in
  let t := build_table (config_of Z.eqb calls) (Some (fun h => h + 100)) in
  serve Z.eqb t 0 1 = Served 112 /\ serve Z.eqb t 1 1 = Served 112 /\ serve Z.eqb t 2 1 = Served 111
  /\ serve Z.eqb t 1 2 = Served 114 /\ serve Z.eqb t 2 2 = MethodNotAllowed /\ serve Z.eqb t 0 3 = NotFound
  /\ serve Z.eqb (rev t) 1 1 = Served 112.
Proof. vm_compute. repeat split. Qed.

Print Assumptions C17_bundle_order.
Print Assumptions C17_bundle_trace.
Print Assumptions C17_transparent.
Print Assumptions C17_log_request_transparent.
Print Assumptions C17_log_response_transparent.
Print Assumptions C17_logging_is_identity_up_to_R.
Print Assumptions C17_table.
Print Assumptions C17_table_http.
Print Assumptions C17_table_https.
Print Assumptions C17_config_sequence.
Print Assumptions C17_served_exactly.
Print Assumptions C17_others_rejected.
Print Assumptions C17_end_to_end.
Print Assumptions C17_grpc_registered_partial.
