(* X05 — rankCalculation (PercentileRanker.Rank value-based and positional; RankCalculator = options,
   Accumulate, Reset, Calculate), over exact rationals.  Property theorems only.
   m = the count map (distinct keys), it = the order in which `range` delivers it, sorter = what sort.Sort
   does (X02 contract), out = an ascending key order sort.Sort may have produced (X02 admissible). *)
From Coq Require Import List Bool ZArith QArith Arith Lia Sorted Permutation.
From TC.Lib Require Import Assoc.
From TC.Model Require Import MapOps Rank.
From TC.Proofs Require Import MapOpsProofs RankProofs RankMonitor.
Import ListNotations.
Local Open Scope Z_scope.

Section X05.
  Context {K : Type}.
  Variable keqb : K -> K -> bool.
  Hypothesis keqb_spec : forall x y, reflect (x = y) (keqb x y).

  (* ---- value-based ranking ---- *)

  (* The result map is EXACTLY  k |-> count(k) / max * 100  (max = the largest count, or 0 if none is positive):
     for every iteration order and every sorting algorithm keeping sort.Sort's contract.  Hence it does not
     depend on the iteration order nor on how ties are sorted. *)
  Theorem X05_value_result (m it : @counts K) sorter :
    NoDup (keys m) -> Permutation m it -> sort_contract (pair_less Z.ltb) sorter -> m <> [] ->
    Permutation (rank_with keqb sorter false it)
                (map (fun e => (fst e, pct_value (snd e) (max_count m))) m)
    /\ 0 <= max_count m
    /\ (forall e, In e m -> snd e <= max_count m)
    /\ (max_count m = 0 \/ exists e, In e m /\ snd e = max_count m).
  Proof.
    intros Hnd P C Hne. split; [exact (rank_value_perm keqb keqb_spec m it sorter Hnd P C Hne)|apply max_count_spec].
  Qed.

  (* For non-negative counts of which one is positive (what a RankCalculator always holds: X05_counts):
     every percentile is a number in [0,100], the maximum gets exactly 100, the percentile is strictly
     monotone in the count and equal counts get equal percentiles. *)
  Theorem X05_value_properties (m : @counts K) :
    (forall e, In e m -> 0 <= snd e) -> (exists e, In e m /\ 0 < snd e) ->
    let mx := max_count m in
    0 < mx
    /\ (forall e, In e m -> exists q, pct_value (snd e) mx = PQ q /\ (0 <= q)%Q /\ (q <= 100)%Q)
    /\ (forall e, In e m -> snd e = mx -> exists q, pct_value (snd e) mx = PQ q /\ (q == 100)%Q)
    /\ (forall e1 e2 q1 q2, In e1 m -> In e2 m -> pct_value (snd e1) mx = PQ q1 -> pct_value (snd e2) mx = PQ q2 ->
          (snd e1 <= snd e2 <-> (q1 <= q2)%Q) /\ (snd e1 < snd e2 <-> (q1 < q2)%Q))
    /\ (forall e1 e2 : K * Z, snd e1 = snd e2 -> pct_value (snd e1) mx = pct_value (snd e2) mx).
  Proof.
    intros Hnn Hpos mx. assert (Hm : 0 < mx) by (apply max_count_positive, Hpos).
    destruct (max_count_spec m) as [_ [Hle _]]. fold mx in Hle.
    split; [exact Hm|]. split; [|split; [|split]].
    - intros e He. rewrite (pct_value_pos _ _ Hm). eexists. split; [reflexivity|].
      apply value_range; [split; [apply Hnn, He|apply Hle, He]|exact Hm].
    - intros e He E. rewrite (pct_value_pos _ _ Hm). eexists. split; [reflexivity|]. rewrite E. apply value_max, Hm.
    - intros e1 e2 q1 q2 _ _. rewrite !(pct_value_pos _ _ Hm). intros [= <-] [= <-]. apply value_mono, Hm.
    - intros e1 e2 ->. reflexivity.
  Qed.

  (* The degenerate inputs of the public Ranker API (finding X05-F2, not changed): if no count is positive the
     divisor is 0 and every key gets NaN (count 0) or -Inf (negative count) — never a number. *)
  Theorem X05_value_degenerate (m it : @counts K) sorter :
    NoDup (keys m) -> Permutation m it -> sort_contract (pair_less Z.ltb) sorter -> m <> [] ->
    (forall e, In e m -> snd e <= 0) ->
    Permutation (rank_with keqb sorter false it)
                (map (fun e => (fst e, if snd e =? 0 then PNaN else PNegInf)) m).
  Proof.
    intros Hnd P C Hne Hz. eapply Permutation_trans; [apply (rank_value_perm keqb keqb_spec m it sorter Hnd P C Hne)|].
    rewrite (max_count_zero m Hz). apply Permutation_refl.
  Qed.

  (* ---- positional ranking ---- *)

  (* For EVERY ascending order [out] sort.Sort may produce: the keys are those of the map, the i-th key gets
     pct_pos n i, so the SEQUENCE of percentiles along the order — and hence their multiset — is determined
     by n alone; which key gets which percentile is determined only up to the order of equal counts. *)
  Theorem X05_positional_result (m : @counts K) out :
    admissible (le_asc Z.ltb) m out ->
    let n := length m in
    map fst (rank_pos_on out) = out
    /\ Permutation out (keys m)
    /\ map snd (rank_pos_on out) = map (fun i => PQ (pct_pos n i)) (seq 0 n)
    /\ (forall i k, nth_error out i = Some k -> nth_error (rank_pos_on out) i = Some (k, PQ (pct_pos n i))).
  Proof.
    intros Ha n. destruct (admissible_keys _ m out Ha) as [Pk Lk]. unfold rank_pos_on. rewrite Lk. fold n.
    split; [apply rank_pos_from_fst|]. split; [exact Pk|]. split.
    - rewrite rank_pos_from_snd, Lk. reflexivity.
    - intros i k H. apply (rank_pos_from_nth n 0 out i k H).
  Qed.

  (* the numbers: within [0,100], strictly increasing with the position, 0 for the first, 100 for the last when
     there are at least two, (i+1)/(n+1)*100 in between; a single entry gets 0 (the test i == 0 comes first) *)
  Theorem X05_positional_values (n : nat) :
    (forall i, (i < n)%nat -> (0 <= pct_pos n i)%Q /\ (pct_pos n i <= 100)%Q)
    /\ (forall i j, (i < j)%nat -> (j < n)%nat -> (pct_pos n i < pct_pos n j)%Q)
    /\ pct_pos n 0 = 0%Q
    /\ ((2 <= n)%nat -> pct_pos n (n - 1) = 100%Q)
    /\ (forall i, (0 < i)%nat -> (i < n - 1)%nat -> pct_pos n i = Qmake (100 * Z.of_nat (i + 1)) (Pos.of_nat (n + 1)))
    /\ map (pct_pos 1) (seq 0 1) = [0%Q]
    /\ map (pct_pos 2) (seq 0 2) = [0%Q; 100%Q]
    /\ map (pct_pos 3) (seq 0 3) = [0%Q; Qmake 200 4; 100%Q].
  Proof.
    split; [apply pct_pos_range|]. split; [apply pct_pos_strict|]. split; [reflexivity|].
    split; [apply pct_pos_last|]. split; [apply pct_pos_middle|]. repeat split.
  Qed.

  (* what IS determined whatever the tie order: a key with a strictly smaller count gets a strictly smaller percentile *)
  Theorem X05_positional_respects_counts (m : @counts K) out a b va vb qa qb :
    NoDup (keys m) -> admissible (le_asc Z.ltb) m out ->
    lookup keqb a m = Some va -> lookup keqb b m = Some vb -> va < vb ->
    In (a, PQ qa) (rank_pos_on out) -> In (b, PQ qb) (rank_pos_on out) -> (qa < qb)%Q.
  Proof. exact (positional_respects_counts keqb keqb_spec m out a b va vb qa qb). Qed.

  (* the code's result is of this form: for every iteration order and every sorter keeping the contract,
     Rank returns rank_pos_on of an admissible order; the executable model is one instance *)
  Theorem X05_positional_any_sorter (m it : @counts K) sorter :
    Permutation m it -> sort_contract (pair_less Z.ltb) sorter -> m <> [] ->
    exists out, admissible (le_asc Z.ltb) m out /\ rank_with keqb sorter true it = rank_pos_on out.
  Proof.
    intros P C Hne. exists (sort_keys_with sorter it). split; [apply (any_sorter_asc Z.ltb sorter m it C P)|].
    destruct it as [|x t]; [|reflexivity]. apply Permutation_sym, Permutation_nil in P. contradiction.
  Qed.

  Theorem X05_empty (positional : bool) sorter : rank_with keqb sorter positional ([] : @counts K) = [].
  Proof. reflexivity. Qed.

  (* ---- the calculator ---- *)

  (* NewRankCalculator(options...): value-based percentile ranker by default, every option applied in order
     (the last one decides), no entries  (after fix X05-F1; the pinned constructor ignored them: Findings/Rank.v) *)
  Theorem X05_options (opts : list (@copt K)) (r : @ranker K) :
    rk (new_calc ([] : list (@copt K))) = Percentile false
    /\ rk (new_calc (opts ++ [WithRankPositionally])) = Percentile true
    /\ rk (new_calc (opts ++ [WithRanker r])) = r
    /\ entries (new_calc opts) = [].
  Proof.
    rewrite !new_calc_snoc. repeat split. unfold new_calc. rewrite new_calc_entries. reflexivity.
  Qed.

  (* Accumulate / Reset: after ANY sequence of events on a new calculator the counts are exactly the numbers of
     occurrences among the Accumulate calls since the last Reset (absent = 0 occurrences), keys distinct, every
     stored count >= 1; the ranker never changes. *)
  Theorem X05_counts (opts : list (@copt K)) (evs : list (@event K)) :
    let c := fst (run keqb (new_calc opts) evs) in
    let l := live [] evs in
    NoDup (keys (entries c))
    /\ (forall k, lookup keqb k (entries c) = if cnt keqb k l =? 0 then None else Some (cnt keqb k l))
    /\ (forall e, In e (entries c) -> 1 <= snd e)
    /\ rk c = rk (new_calc opts).
  Proof.
    intros c l.
    assert (H0 : represents keqb (entries (new_calc opts)) []).
    { destruct (X05_options opts (Percentile false)) as [_ [_ [_ E]]]. rewrite E. apply represents_nil. }
    destruct (run_represents keqb keqb_spec evs (new_calc opts) [] H0) as [[R1 R2] R3].
    split; [exact R1|]. split; [exact R2|]. split; [|exact R3].
    intros e He. apply (represents_counts_positive keqb keqb_spec _ _ e (conj R1 R2) He).
  Qed.

  (* each Calculate answers with the ranker applied to the counts reached by the events before it *)
  Theorem X05_calculate (c : @calc K) evs1 evs2 :
    snd (run keqb c (evs1 ++ ECalculate :: evs2)) =
      snd (run keqb c evs1) ++ calculate keqb (fst (run keqb c evs1)) :: snd (run keqb (fst (run keqb c evs1)) evs2).
  Proof. exact (run_calculate keqb evs1 c evs2). Qed.

  (* ---- the monitors used by the correspondence ---- *)

  (* acceptance of an observed map means: its keys are those of m and (value-based) every observed percentile is an
     acceptable rendering of count/max*100, resp. (positional) the observed order is an admissible ascending order
     and the i-th observed percentile an acceptable rendering of pct_pos n i *)
  Theorem X05_monitor_sound {X} (ok : X -> pct -> bool) (m : @counts K) (o : list (K * X)) :
    NoDup (keys m) ->
    (value_ok keqb ok m o = true ->
       Permutation (map fst o) (keys m)
       /\ forall k x, In (k, x) o -> exists v, lookup keqb k m = Some v /\ ok x (pct_value v (max_count m)) = true)
    /\ (positional_ok keqb ok m o = true ->
       admissible (le_asc Z.ltb) m (map fst o)
       /\ Forall2 (fun x kp => ok x (snd kp) = true) (map snd o) (rank_pos_on (map fst o))).
  Proof.
    intros Hnd. split.
    - apply (value_ok_sound keqb keqb_spec ok m o Hnd).
    - intros H. destruct (positional_ok_sound keqb keqb_spec ok m o Hnd H) as [A B]. split; [exact A|].
      apply all2_spec, B.
  Qed.

  (* the model's own answer, compared exactly, always passes its monitor (verdict 2 of the correspondence cannot
     be caused by a correct model) *)
  Theorem X05_model_passes_monitor (positional : bool) (m : @counts K) :
    NoDup (keys m) -> rank_ok keqb exact_pct positional m (rank keqb positional m) = true.
  Proof. exact (model_passes keqb keqb_spec positional m). Qed.
End X05.

(* non-vacuity *)
Example X05_ex_value :
  rank Z.eqb false [(1,1); (2,2); (3,3)] = [(1, PQ (Qmake 100 3)); (2, PQ (Qmake 200 3)); (3, PQ (Qmake 300 3))].
Proof. reflexivity. Qed.
Example X05_ex_positional :
  rank Z.eqb true [(7,5); (8,1); (9,3); (6,9)] =
    [(8, PQ 0); (9, PQ (Qmake 200 5)); (7, PQ (Qmake 300 5)); (6, PQ 100)].
Proof. reflexivity. Qed.
(* ties: two admissible orders, two different result maps (key 1 gets 0 in one, 50 in the other) *)
Example X05_ex_tie_orders_differ :
  asc_ok Z.eqb Z.ltb [(1,5); (2,5); (3,9)] [1;2;3] = true
  /\ asc_ok Z.eqb Z.ltb [(1,5); (2,5); (3,9)] [2;1;3] = true
  /\ rank_pos_on [1;2;3] = [(1, PQ 0); (2, PQ (Qmake 200 4)); (3, PQ 100)]
  /\ rank_pos_on [2;1;3] = [(2, PQ 0); (1, PQ (Qmake 200 4)); (3, PQ 100)].
Proof. repeat split. Qed.
Example X05_ex_degenerate :
  rank Z.eqb false [(1,0); (2,0)] = [(1, PNaN); (2, PNaN)]
  /\ rank Z.eqb false [(1,-3); (2,0)] = [(1, PNegInf); (2, PNaN)]
  /\ rank Z.eqb true [(1,5)] = [(1, PQ 0)].
Proof. repeat split. Qed.
Example X05_ex_calculator :
  snd (run Z.eqb (new_calc [WithRankPositionally])
         [EAccumulate 1; EAccumulate 2; EAccumulate 2; ECalculate; EReset; ECalculate; EAccumulate 3; ECalculate]) =
    [[(1, PQ 0); (2, PQ 100)]; []; [(3, PQ 0)]].
Proof. reflexivity. Qed.

Print Assumptions X05_value_result.
Print Assumptions X05_value_properties.
Print Assumptions X05_value_degenerate.
Print Assumptions X05_positional_result.
Print Assumptions X05_positional_values.
Print Assumptions X05_positional_respects_counts.
Print Assumptions X05_positional_any_sorter.
Print Assumptions X05_empty.
Print Assumptions X05_options.
Print Assumptions X05_counts.
Print Assumptions X05_calculate.
Print Assumptions X05_monitor_sound.
Print Assumptions X05_model_passes_monitor.
