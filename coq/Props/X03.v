(* X03 — storage/tree.go: AddAncestryChain and Walk on rose trees, for all trees and all chains.
   Property theorems only. *)
From Coq Require Import List Bool Arith ZArith Sorted Lia.
From TC.Model Require Import Tree.
From TC.Proofs Require Import TreeProofs TreeWalk TreeHistory.
Import ListNotations.

Section X03.
  Context {A : Type}.
  Variable eqb : A -> A -> bool.
  Hypothesis eqb_spec : forall x y, reflect (x = y) (eqb x y).

  (* The error case, exactly: AddAncestryChain returns an error iff the tree is non-empty and the chain is
     empty or does not start with the root's value.  On an empty tree it never fails. *)
  Theorem X03_error_exact (t : tree A) anc :
    add_chain eqb t anc = None <->
    exists root, t = Some root /\ (anc = [] \/ exists a r, anc = a :: r /\ value root <> a).
  Proof. exact (add_chain_error eqb eqb_spec t anc). Qed.

  (* After a successful call the value paths from the root downwards are EXACTLY the previous ones plus the
     non-empty prefixes of the chain: the chain's path exists, every old path still exists, nothing else appears. *)
  Theorem X03_paths (t t' : tree A) anc :
    add_chain eqb t anc = Some t' -> forall p, tpath p t' <-> tpath p t \/ ne_prefix p anc.
  Proof. exact (add_chain_paths eqb eqb_spec t t' anc). Qed.

  Corollary X03_chain_present_old_paths_kept (t t' : tree A) anc :
    add_chain eqb t anc = Some t' ->
    (anc <> [] -> tpath anc t') /\ (forall p, tpath p t -> tpath p t').
  Proof.
    intros H. split.
    - intros N. apply (add_chain_paths eqb eqb_spec t t' anc H). right. split; [exact N|].
      exists []. rewrite app_nil_r. reflexivity.
    - intros p Hp. apply (add_chain_paths eqb eqb_spec t t' anc H). left. exact Hp.
  Qed.

  (* Siblings with equal values: a call neither creates nor removes them; so a tree built by
     AddAncestryChain alone never has two children of one node with the same value. *)
  Theorem X03_sibling_duplicates_unchanged (t t' : tree A) anc :
    add_chain eqb t anc = Some t' -> (tnodup t' <-> tnodup t).
  Proof. exact (add_chain_nodup eqb eqb_spec t t' anc). Qed.

  (* the root value is fixed by the first successful non-empty chain and never changes *)
  Theorem X03_root_stable (root : rtree A) (t' : tree A) anc :
    add_chain eqb (Some root) anc = Some t' -> exists r', t' = Some r' /\ value r' = value root.
  Proof. exact (add_chain_root eqb root t' anc). Qed.

  (* adding the same chain again changes nothing *)
  Theorem X03_idempotent (t t' : tree A) anc :
    add_chain eqb t anc = Some t' -> add_chain eqb t' anc = Some t'.
  Proof. exact (add_chain_idem eqb eqb_spec t t' anc). Qed.

  (* Every history of calls from ANY tree: one error flag per call; sibling uniqueness is invariant;
     the paths at the end are the initial ones plus the non-empty prefixes of the accepted chains. *)
  Theorem X03_every_history (t : tree A) (chains : list (list A)) :
    let t' := fst (run eqb t chains) in
    let errs := snd (run eqb t chains) in
    length errs = length chains
    /\ (tnodup t' <-> tnodup t)
    /\ (forall p, tpath p t' <-> tpath p t \/ exists c, In c (accepted chains errs) /\ ne_prefix p c).
  Proof. exact (run_spec eqb eqb_spec chains t). Qed.

  Corollary X03_built_trees_have_unique_siblings (chains : list (list A)) :
    tnodup (fst (run eqb None chains)).
  Proof. apply (run_spec eqb eqb_spec chains None). exact I. Qed.

  (* the pointer-style model (find the lowest matching node, then append below it) is the structural insertion *)
  Theorem X03_model_is_structural_insertion (root : rtree A) anc :
    add_chain eqb (Some root) anc =
      match ins eqb root anc with Some r' => Some (Some r') | None => None end.
  Proof. exact (add_chain_ins eqb root anc). Qed.

  (* Walk: the callback is invoked on (value, depth) of the node at each position of [positions], which
     lists every node of the tree (complete), exactly once (NoDup), parents before children and children
     left to right (lexicographic = pre-order); the number of invocations is the number of nodes. *)
  Theorem X03_walk_preorder (node : rtree A) (l : nat) :
    map Some (walk_from l node) = map (label_at node l) (positions node)
    /\ (forall pos, In pos (positions node) <-> subtree_at pos node <> None)
    /\ NoDup (positions node)
    /\ StronglySorted lex_lt (positions node)
    /\ length (walk_from l node) = size node.
  Proof.
    split; [apply walk_positions|]. split; [apply positions_complete|]. split; [apply positions_NoDup|].
    split; [apply positions_sorted|apply walk_length].
  Qed.

  (* Walk on the empty tree invokes nothing (after fix X03-F1; the pinned code panics: Findings/Tree.v) *)
  Theorem X03_walk_empty : walk (None : tree A) = [].
  Proof. reflexivity. Qed.

  (* what Walk reports determines the tree: comparing Walk outputs compares trees *)
  Theorem X03_walk_determines_tree (t1 t2 : tree A) : walk t1 = walk t2 -> t1 = t2.
  Proof. exact (walk_inj t1 t2). Qed.
End X03.

(* non-vacuity: the repo's own test chains, an error, a repeated chain, a chain with a repeated value *)
Definition ex_chains : list (list Z) :=
  [[]; [1;2;3]; [1;2;4]; [9;2]; [1;5;6]; []; [1;2;3]; [1;5;7]; [1;1;1]; [1]]%Z.
Example X03_ex_run :
  run Z.eqb None ex_chains =
    (Some (Node 1 [Node 2 [Node 3 []; Node 4 []]; Node 5 [Node 6 []; Node 7 []]; Node 1 [Node 1 []]]),
     [false; false; false; true; false; true; false; false; false; false])%Z.
Proof. reflexivity. Qed.
Example X03_ex_walk :
  walk (fst (run Z.eqb None ex_chains)) =
    [(1%Z,0); (2%Z,1); (3%Z,2); (4%Z,2); (5%Z,1); (6%Z,2); (7%Z,2); (1%Z,1); (1%Z,2)].
Proof. reflexivity. Qed.
Example X03_ex_positions :
  positions (Node 1 [Node 2 [Node 3 []; Node 4 []]; Node 5 []])%Z = [[]; [0]; [0;0]; [0;1]; [1]].
Proof. reflexivity. Qed.

Print Assumptions X03_error_exact.
Print Assumptions X03_paths.
Print Assumptions X03_chain_present_old_paths_kept.
Print Assumptions X03_sibling_duplicates_unchanged.
Print Assumptions X03_root_stable.
Print Assumptions X03_idempotent.
Print Assumptions X03_every_history.
Print Assumptions X03_built_trees_have_unique_siblings.
Print Assumptions X03_model_is_structural_insertion.
Print Assumptions X03_walk_preorder.
Print Assumptions X03_walk_empty.
Print Assumptions X03_walk_determines_tree.
