(* C06 - Publication delivers each accepted message exactly once per subscriber.
   Property theorems only.  Model: Model/Pub.v (labelled transition system; "for every schedule,
   every workload" = for every state reachable by any label sequence). *)
From Coq Require Import List Arith Bool Lia ZArith.
From TC.Model Require Import Pub.
From TC.Proofs Require Import PubInv PubC06.
Import ListNotations.

Section C06.
  Context {M : Type}.
  Notation state := (state M).

  (* Every (publish call p, subscriber s) pair is at any time in exactly one control state / fate
     (the value [pair st p s]); a visited pair refers to an existing call and subscriber; it is
     [PFiltered] iff the subscriber's own filter rejects the call's message (so pending, delivered,
     timed out, dropped only if accepted); it is [PDelivered] iff its message sits in the
     subscriber's channel buffer or has been received. *)
  Theorem C06_fates (st : state) :
    reach st -> forall p s,
      (pair st p s = PNone \/ is_pending (pair st p s) = true \/ pair st p s = PDelivered \/
       pair st p s = PFiltered \/ pair st p s = PTimedOut \/ pair st p s = PDropped) /\
      (pair st p s <> PNone ->
         p < npub st /\ s < nsub st /\
         exists m, pmsg st p = Some m /\
                   (pair st p s = PFiltered <-> s_filt (subs st s) m = false)) /\
      (pair st p s = PDelivered <->
         exists m, pmsg st p = Some m /\ In (p, m) (s_got (subs st s) ++ s_buf (subs st s))).
  Proof. intros R p s. split; [apply pst_cases | apply fates; auto]. Qed.

  (* A final fate never changes afterwards, whatever happens (any label sequence). *)
  Theorem C06_fate_final (st st' : state) ls p s :
    run st ls = Some st' -> terminal (pair st p s) = true -> pair st' p s = pair st p s.
  Proof. apply fate_final_run. Qed.

  (* Everything a subscriber has ever received is the message of a publish call that visited it,
     was accepted by its own filter, and is received at most once (no duplicates, nothing foreign,
     nothing rejected). *)
  Theorem C06_received (st : state) :
    reach st -> forall s,
      (forall p m, In (p, m) (s_got (subs st s)) ->
                   pair st p s = PDelivered /\ pmsg st p = Some m /\ s_filt (subs st s) m = true) /\
      NoDup (map fst (s_got (subs st s))).
  Proof. apply received. Qed.

  (* Range contract made explicit: when Publish returns, every subscriber that was in the map
     during the whole call has been visited. *)
  Theorem C06_published_while_subscribed (st st' : state) p :
    step st (PubEnd p) = Some st' ->
    forall s, s < pn0 st p -> pgone st p s = false -> s_inmap (subs st s) = true ->
              pair st p s <> PNone.
  Proof.
    unfold step. destruct (popen st p && range_done st p) eqn:E; [|discriminate].
    intros _ s Hs Hg Hi. apply andb_true_iff in E. destruct E as [_ E].
    unfold range_done in E. rewrite forallb_forall in E.
    specialize (E s). rewrite in_seq in E. rewrite Hg, Hi in E. simpl in E.
    intro Hn. rewrite Hn in E. simpl in E. assert (false = true) by (apply E; lia). discriminate.
  Qed.

  (* Exactly once: in any reachable state in which subscriber s can make no further progress (its
     buffer is drained, none of its delivery goroutines can move - the end of a maximal run in which
     the subscriber kept receiving), every accepted pair that did not time out and whose subscriber
     was not closed has been delivered, and its message has been received exactly once. *)
  Theorem C06_exactly_once (st : state) s p m :
    reach st -> ~ can_progress st s ->
    pmsg st p = Some m -> pair st p s <> PNone -> s_filt (subs st s) m = true ->
    pair st p s <> PTimedOut -> pair st p s <> PDropped ->
    pair st p s = PDelivered /\ count_occ Nat.eq_dec (map fst (s_got (subs st s))) p = 1.
  Proof. apply exactly_once. Qed.

  (* The delivery goroutines terminate: every step of the library's own goroutines strictly
     decreases a natural-number measure ... *)
  Theorem C06_goroutines_terminate (st st' : state) l :
    reach st -> internal l = true -> step st l = Some st' -> measure st' < measure st.
  Proof. apply measure_decreases. Qed.

  (* ... and the passage of time eventually enables the timeout of any delivery still in its select. *)
  Theorem C06_goroutines_timeout (st : state) p s dl :
    reach st -> pair st p s = PInSel dl ->
    exists st', run st (repeat Tick (dl - now st)) = Some st' /\ enabled st' (Timeout p s).
  Proof. apply tick_enables_timeout. Qed.
End C06.

(* ---------- non-vacuity: concrete runs ---------- *)
Definition ex_even (m : nat) : bool := Nat.even m.
Definition ex_run : list (label nat) :=
  [ Subscribe 1 (fun _ => true) 100%Z false false;      (* s0: buffer 1, no filter *)
    Subscribe 0 ex_even 100%Z true true;                 (* s1: unbuffered, even messages only *)
    PubBegin 4; Visit 0 0; Visit 0 1; PubEnd 0;
    PubBegin 5; Visit 1 1; Visit 1 0; PubEnd 1;
    Enter 0 0; Enter 0 1; Enter 1 0;
    Deliver 0 0; Rendezvous 0 1; Recv 0; Deliver 1 0; Recv 0 ].

Example ex_run_ok :
  option_map (fun st => (s_got (subs st 0), s_got (subs st 1), pair st 1 1, cbF st, measure st))
             (run init ex_run)
  = Some ([(0, 4); (1, 5)], [(0, 4)], PFiltered, [(1, 1, 5)], 0).
Proof. vm_compute. reflexivity. Qed.

Example ex_reach : exists st, run init ex_run = Some st /\ reach st /\
                              ~ can_progress st 0 /\ pair st 1 0 = PDelivered.
Proof.
  destruct (run init ex_run) as [st|] eqn:E; [|vm_compute in E; discriminate].
  exists st. split; auto. split; [eapply run_reach; [apply reach_init | exact E]|].
  vm_compute in E. inversion E; subst; clear E. split.
  - intros [Hb | [p [H | [H | H]]]].
    + apply Hb. reflexivity.
    + apply H. unfold step. simpl. destruct p as [|[|p]]; reflexivity.
    + apply H. unfold step. simpl. destruct p as [|[|p]]; reflexivity.
    + apply H. unfold step. simpl. destruct p as [|[|p]]; reflexivity.
  - reflexivity.
Qed.

Print Assumptions C06_fates.
Print Assumptions C06_fate_final.
Print Assumptions C06_received.
Print Assumptions C06_published_while_subscribed.
Print Assumptions C06_exactly_once.
Print Assumptions C06_goroutines_terminate.
Print Assumptions C06_goroutines_timeout.
