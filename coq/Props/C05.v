(* C05 — the work queue dispatches by priority, first come first served among equals, and consults every waiting
   item's adjust function for every decision.

   Model: Model/WQ.v, variant [fixed] (the code after fixes F3, F4, F5).  "Every sequence of Enqueue / completions /
   adjust-value changes, every worker count and queue length, every schedule" = every label list [ls] accepted from
   [init W L]: labels are the callers' actions, the work functions' returns AND the internal steps of dispatcher
   and workers, so [ls] fixes workload and interleaving; every decision label carries the values [vals] the adjust
   functions return at that moment (arbitrary).
   A *decision* is a step in which the dispatcher pops the heap (labels DTok with a non-empty heap, DFullTok); it
   leaves [EvDecide before vals consulted x] in the ghost trace: the heap contents [before] just before
   AdjustPriorities, the adjust values, the ids consulted in order, and the popped item [x].  Direct hand-offs
   (label DHandoff, event EvHandoff) are not decisions, as the property says.
   Property theorems only; proofs in Proofs/WQC05.v, Proofs/WQInv.v, Proofs/WQHeap.v, Lib/GoHeapProofs.v. *)
From Coq Require Import List Arith ZArith Bool Lia.
From TC.Lib Require Import GoHeap GoHeapProofs.
From TC.Model Require Import WQ.
From TC.Proofs Require Import WQHeap WQInv WQC05.
From TC.Findings Require WQ.
Import ListNotations.

(* At every decision the popped item x is one of the waiting items, carries the priority it competes with
   ([eff vals y]: the adjust function's value if it has one, the stored priority otherwise), and no waiting item is
   strictly before it in the order (priority, arrival number). *)
Theorem C05_min : forall W L ls s before vals cs x,
  run fixed (init W L) ls = Some s ->
  In (EvDecide before vals cs x) (trace s) ->
  (exists y, In y before /\ iid x = iid y /\ iseq x = iseq y /\ iprio x = eff vals y) /\
  (forall y, In y before ->
     (iprio x < eff vals y)%Z \/ (iprio x = eff vals y /\ iseq x <= iseq y)).
Proof.
  intros W L ls s before vals cs x Hr Hin.
  destruct (decisions_reach s (run_reach _ _ _ _ (reach_init _ W L) Hr) _ _ _ _ Hin) as (_ & (y & Hy & Hk) & Hmin).
  split; [|exact Hmin]. exists y. split; [exact Hy|].
  pose proof (f_equal iid Hk) as E1. pose proof (f_equal iseq Hk) as E2. pose proof (f_equal iprio Hk) as E3.
  cbn in E1, E2, E3. auto.
Qed.

(* The arrival number IS the order of arrival at the dispatcher: at every decision each waiting item's number is
   its index in the sequence of EvArrive events (the order in which Enqueue calls were received from workChan;
   for a single producer, call order).  With C05_min: among the waiting items of equal (effective) priority none
   arrived before the one handed out. *)
Theorem C05_arrival_order : forall W L ls s before vals cs x,
  run fixed (init W L) ls = Some s ->
  In (EvDecide before vals cs x) (trace s) ->
  forall y, In y before -> nth_error (arrivals (trace s)) (iseq y) = Some (iid y, iseq y).
Proof.
  intros W L ls s before vals cs x Hr Hin.
  exact (decided_seq_reach s (run_reach _ _ _ _ (reach_init _ W L) Hr) _ _ _ _ Hin).
Qed.

Corollary C05_fifo_among_equals : forall W L ls s before vals cs x,
  run fixed (init W L) ls = Some s ->
  In (EvDecide before vals cs x) (trace s) ->
  forall y, In y before -> eff vals y = iprio x ->
  exists i j, i <= j /\ nth_error (arrivals (trace s)) i = Some (iid x, iseq x)
                     /\ nth_error (arrivals (trace s)) j = Some (iid y, iseq y).
Proof.
  intros W L ls s before vals cs x Hr Hin y Hy He.
  destruct (C05_min _ _ _ _ _ _ _ _ Hr Hin) as ((x0 & Hx0 & E1 & E2 & _) & Hmin).
  exists (iseq x), (iseq y). split; [destruct (Hmin y Hy); lia|]. split.
  - rewrite E1, E2. eapply C05_arrival_order; eauto.
  - eapply C05_arrival_order; eauto.
Qed.

(* Every waiting item that has an adjust function is consulted, once, for every decision. *)
Theorem C05_all_consulted : forall W L ls s before vals cs x,
  run fixed (init W L) ls = Some s ->
  In (EvDecide before vals cs x) (trace s) ->
  cs = map iid (filter iadj before).
Proof.
  intros W L ls s before vals cs x Hr Hin.
  destruct (decisions_reach s (run_reach _ _ _ _ (reach_init _ W L) Hr) _ _ _ _ Hin) as (Hc & _). exact Hc.
Qed.

(* The heap order (container/heap invariant for Less = (priority, arrival number)) and position = index hold in
   every reachable state, so no decision depends on the array layout and Dequeue/SetPriority find their item. *)
Theorem C05_heap_ok : forall W L ls s,
  run fixed (init W L) ls = Some s ->
  heap_ok (item_lt fixed) (heap s) /\ positions_ok ipos (heap s).
Proof.
  intros W L ls s Hr. exact (hinv_reach s (run_reach _ _ _ _ (reach_init _ W L) Hr)).
Qed.

(* ---- non-vacuity: a run with a full queue, blocked producers and contested decisions ---- *)
Example C05_nonvacuous :
  exists ls s before vals cs x,
    run fixed (init 1 2) ls = Some s /\ In (EvDecide before vals cs x) (trace s) /\ length before = 2 /\
    iid x = 4%nat /\ iprio x = 1%Z.
Proof.
  exists WQ.labels_F3_fixed.
  destruct (run fixed (init 1 2) WQ.labels_F3_fixed) as [s|] eqn:E;
    [|vm_compute in E; discriminate].
  exists s.
  assert (H : existsb (fun e => match e with
                                | EvDecide b _ _ x => (length b =? 2) && (iid x =? 4) && (iprio x =? 1)%Z
                                | _ => false end) (trace s) = true).
  { vm_compute in E. injection E as <-. vm_compute. reflexivity. }
  apply existsb_exists in H. destruct H as (e & He & Hb). destruct e; try discriminate Hb.
  apply andb_true_iff in Hb. destruct Hb as [Hb H3]. apply andb_true_iff in Hb. destruct Hb as [H1 H2].
  exists before, vals, consulted, x. split; [reflexivity|]. split; [exact He|].
  apply Nat.eqb_eq in H1, H2. apply Z.eqb_eq in H3. auto.
Qed.

(* On the pinned tree the property fails (Findings/WQ.v, same transition function with one flag each):
   F3_bare_push_refuted, F4_priority_only_refuted, F5_fix_while_ranging_refuted, F6_setpriority_refuted. *)

Print Assumptions C05_min.
Print Assumptions C05_arrival_order.
Print Assumptions C05_fifo_among_equals.
Print Assumptions C05_all_consulted.
Print Assumptions C05_heap_ok.
