(* C13 — Resize and Clear keep the newest data and the right capacity.  Property theorems only.
   s = any reachable state; (p, c) = what the CONFIGURED calculator returns for the new capacity
   (both >= 1 in the property's configuration class); [order] = the order in which Go's map ranges
   yield each old partition's keys: every theorem holds for EVERY such order ([order_ok]). *)
From Coq Require Import List Arith Bool Permutation.
From TC.Lib Require Import Assoc.
From TC.Model Require Import Cache CacheGhost.
From TC.Proofs Require Import CacheInv CacheViews CacheFifo CacheRun CacheResize CacheResize2 CacheResize3.
From TC.Props Require Import C01.
Import ListNotations.

Section C13.
  Context {K V : Type} (keqb : K -> K -> bool).
  Hypothesis keqb_spec : forall x y, reflect (x = y) (keqb x y).
  Notation label := (@label K V).

  (* Capacity() afterwards is exactly what a new cache built with the new capacity and the same option has *)
  Theorem C13_capacity (s : @state K V) p c order :
    capacity (resize keqb s (p, c) order) = capacity (@init K V p c)
    /\ P (resize keqb s (p, c) order) = p /\ C (resize keqb s (p, c) order) = c.
  Proof.
    destruct (resize_capacity keqb s p c order) as [H1 H2]. unfold capacity. rewrite H1, H2. auto.
  Qed.

  (* every entry that survives keeps its value; no entry appears from nowhere *)
  Theorem C13_survivors_subset p0 c0 (h : list label) p c order k v :
    reachable p0 c0 h -> 1 <= p -> 1 <= c ->
    let s := run keqb (init p0 c0) h in
    get keqb (resize keqb s (p, c) order) k = Some v -> get keqb s k = Some v.
  Proof.
    intros (Hp0 & Hc0 & Hv) Hp Hc s.
    exact (get_resize_sub keqb keqb_spec s p c order k v (Inv_run keqb keqb_spec p0 c0 h Hp0 Hc0 Hv) Hp Hc).
  Qed.

  (* all entries survive when they fit; otherwise the survivors are a suffix of the replay order
     (a replayed before b, a survives => b survives); and Len() <= Capacity() *)
  Theorem C13_keeps_newest p0 c0 (h : list label) p c order :
    reachable p0 c0 h -> 1 <= p -> 1 <= c ->
    let s := run keqb (init p0 c0) h in
    (p =? P s) && (c =? C s) = false -> order_ok (parts s) order ->
    let r := resize keqb s (p, c) order in
    (len s <= p * c -> forall k v, get keqb s k = Some v -> get keqb r k = Some v)
    /\ (forall a b, before a b (concat order) -> get keqb r a <> None -> get keqb r b <> None)
    /\ len r <= capacity r.
  Proof.
    intros (Hp0 & Hc0 & Hv) Hp Hc s E Hok r.
    pose proof (Inv_run keqb keqb_spec p0 c0 h Hp0 Hc0 Hv) as H.
    destruct (resize_keeps_newest keqb keqb_spec s p c order H Hp Hc E Hok) as [H1 H2].
    split; [exact H1|]. split; [exact H2|]. exact (resize_len keqb keqb_spec s p c order Hp Hc E).
  Qed.

  (* partition granularity: whatever order the map ranges produce, keys of an older old-partition come
     before keys of a newer one, so "a survives => b survives" whenever a's old partition is older *)
  Theorem C13_partition_granularity (olds o1 o2 : list (nat * @amap K V)) (order : list (list K)) i oi j oj (a b : K) :
    order_ok olds order -> olds = o1 ++ (i, oi) :: o2 -> In (j, oj) o2 ->
    In a (map fst oi) -> In b (map fst oj) -> before a b (concat order).
  Proof. exact (older_partition_first olds o1 o2 order i oi j oj a b). Qed.

  (* entries inserted after a Resize are newer than all earlier ones for later eviction:
     C03_fifo holds for histories CONTAINING Resize labels (the ghost [born] of a replayed key is its
     replay time, see Model/CacheGhost.v gexec), and every later insertion gets a later time *)
  Theorem C13_newer_after p0 c0 (h : list label) a b ta tb :
    reachable p0 c0 h ->
    let '(s, g) := grun keqb (init p0 c0, ghost0 0) h in
    lookup keqb a (born g) = Some ta -> lookup keqb b (born g) = Some tb -> ta < tb ->
    get keqb s a <> None -> get keqb s b <> None.
  Proof.
    intros (Hp & Hc & Hv).
    assert (HB : Both keqb (grun keqb (init p0 c0, ghost0 0) h)).
    { apply (Both_grun keqb keqb_spec h); [|exact Hv]. split; simpl; [apply Inv_init; assumption|apply GInv_init]. }
    destruct (grun keqb (init p0 c0, ghost0 0) h) as [s g]. destruct HB as [H G].
    exact (fifo keqb keqb_spec s g a b ta tb H G).
  Qed.

  (* the decidable order check evaluated on observed layouts implies [order_ok] *)
  Theorem C13_valid_order_sound p0 c0 (h : list label) order :
    reachable p0 c0 h ->
    let s := run keqb (init p0 c0) h in
    valid_order keqb (parts s) order = true -> order_ok (parts s) order.
  Proof.
    intros (Hp0 & Hc0 & Hv) s. pose proof (Inv_run keqb keqb_spec p0 c0 h Hp0 Hc0 Hv) as H.
    apply (valid_order_sound keqb keqb_spec). intros i old Hin.
    eapply (inv_nd keqb s H). apply In_peek; [apply (Inv_nodup_ids keqb s H)|exact Hin].
  Qed.

  (* the asynchronous sweeps spawned by the Sets of a replay (`go f.Sweep()`) are irrelevant: for any
     sequence of insertions of pairwise distinct new keys, extra Sweeps after any of them (flag true)
     leave the same state after the final Sweep as no extra Sweeps at all *)
  Theorem C13_sweeps_irrelevant p0 c0 (h : list label) (l : list (K * V * bool)) :
    reachable p0 c0 h ->
    let s := run keqb (init p0 c0) h in
    NoDup (map (fun kvx => fst (fst kvx)) l) ->
    (forall kvx, In kvx l -> lookup keqb (fst (fst kvx)) (index s) = None) ->
    sweep (fold_left (ins_x keqb) l s) = sweep (fold_left (ins_plain keqb) l s).
  Proof.
    intros (Hp0 & Hc0 & Hv) s Hnd Hnew.
    apply (sweeps_irrelevant keqb keqb_spec l s s); auto.
    - exact (Inv_run keqb keqb_spec p0 c0 h Hp0 Hc0 Hv).
    - apply ahead_refl.
  Qed.

  (* Clear leaves an empty cache of unchanged capacity that behaves like a new one:
     identical outputs for EVERY continuation *)
  Theorem C13_clear_like_new p0 c0 (h h' : list label) :
    reachable p0 c0 h -> Forall lvalid h' ->
    let s := run keqb (init p0 c0) h in
    run_obs keqb (clear s) h' = run_obs keqb (init (P s) (C s)) h'
    /\ len (clear s) = 0 /\ capacity (clear s) = capacity s.
  Proof.
    intros (Hp0 & Hc0 & Hv) Hv' s. pose proof (Inv_run keqb keqb_spec p0 c0 h Hp0 Hc0 Hv) as H.
    destruct (inv_pc keqb s H) as [HP HC]. split; [|split; reflexivity].
    symmetry. apply (clear_like_new keqb); [|exact Hv'].
    right. exists (P s), (C s). auto.
  Qed.
End C13.

(* non-vacuity: shrinking 3x3 -> 2x2 keeps the newest partition-wise; same count/different size 3x3 -> 3x4 *)
Definition C13_ex_h : list (@label nat nat) :=
  [LSet 1 10; LSet 2 20; LSet 3 30; LSet 4 40; LSet 5 50; LSet 6 60; LSet 7 70].
Definition C13_ex_order : list (list nat) := [[3; 1; 2]; [4; 6; 5]; [7]].
Example C13_ex_values :
  let s := run Nat.eqb (init 3 3) C13_ex_h in
  let r := resize Nat.eqb s (2, 2) C13_ex_order in
  (valid_order Nat.eqb (parts s) C13_ex_order,
   map (get Nat.eqb r) [1; 2; 3; 4; 5; 6; 7], capacity r,
   capacity (resize Nat.eqb s (3, 4) [[1; 2; 3]; [4; 5; 6]; [7]]))
  = (true, [None; None; None; None; Some 50; Some 60; Some 70], 4, 12).
Proof. vm_compute. reflexivity. Qed.

Print Assumptions C13_capacity.
Print Assumptions C13_survivors_subset.
Print Assumptions C13_keeps_newest.
Print Assumptions C13_partition_granularity.
Print Assumptions C13_newer_after.
Print Assumptions C13_valid_order_sound.
Print Assumptions C13_sweeps_irrelevant.
Print Assumptions C13_clear_like_new.
