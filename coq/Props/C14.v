(* C14 — the work queue reports every work error to every error subscriber exactly once.

   Model: Model/WQ.v, variant [fixed] (after fix F14 the monitor snapshots the subscriber slice under the mutex; in the
   interleaving model that is the atomic step WSendErr, which fans the error out to [subs s]).  Errors are opaque
   tokens [e : nat] chosen by the environment in [Finish id (Some e)]; identity of the value = identity of the token.
   Ghost events: [EvDone id (Some e)] the work function of id returned e; [EvSent id e to] the monitor received it and
   will send it to the subscribers [to], in order; [EvErr sub (Some e)] subscriber sub received e; [EvSub sub].
   The trace is newest first: in [t1 ++ ev :: t2] the events of [t2] happened before [ev].
   "As long as the subscribers keep receiving" = [ErrRecv] labels are the environment's; a fan-out in progress is
   [mon s = MFan ..], and [mon s = MIdle] is what every maximal run with receiving subscribers returns to.
   Race freedom of the subscriber slice is not a statement about this interleaving model: it is the F14 lock, stated
   as C14_subscribers_race_free over the lock skeleton regenerated from workqueue/queue.go on every run (lockset
   theorem of Lib/Conc.v), and checked by the free-running -race stress (notes/C14.md).
   Property theorems only; proofs in Proofs/WQC14.v. *)
From Coq Require Import List Arith ZArith Bool Lia.
From TC.Lib Require Import GoHeap GoHeapProofs.
From TC.Model Require Import WQ.
From TC.Proofs Require Import WQHeap WQInv WQCons WQLive WQC14.
From TC.Findings Require WQ.
From TC.Lib Require Conc.
From TC.Gen Require WQSkeleton_gen.
From TC.Proofs Require WQLockset.
Import ListNotations.

Local Notation reachable W L ls s := (run fixed (init W L) ls = Some s).
Lemma rr W L ls s : reachable W L ls s -> reach fixed s.
Proof. intros H. eapply run_reach; [apply reach_init|exact H]. Qed.

(* Accounting, for ALL label sequences: for every subscriber and error token, deliveries so far + what the fan-out in
   progress still owes that subscriber = the number of fan-outs of that token that include the subscriber. *)
Theorem C14_accounting : forall W L ls s sub e,
  reachable W L ls s ->
  ndeliv sub e (trace s) + pending sub e s = nsent sub e (trace s).
Proof. intros W L ls s sub e Hr. exact (fan_reach s (rr _ _ _ _ Hr) sub e). Qed.

(* Every fan-out goes to exactly the subscribers registered before it (each once, in registration order): in
   particular to every subscriber registered before the item was enqueued. *)
Theorem C14_recipients : forall W L ls s t1 id e to t2,
  reachable W L ls s -> trace s = t1 ++ EvSent id e to :: t2 ->
  (exists n, to = seq 0 n) /\ NoDup to /\ (forall sub, In (EvSub sub) t2 -> In sub to).
Proof.
  intros W L ls s t1 id e to t2 Hr E.
  destruct (sent_ok_reach s (rr _ _ _ _ Hr) t1 id e to t2 E) as ((n & ->) & H). split; [eauto|]. split; [apply seq_NoDup|exact H].
Qed.

(* Exactly once: when no fan-out is in progress, a subscriber has received error token e exactly as many times as e
   was fanned out to a list containing it; so if the work functions return pairwise distinct error values (e is sent
   once) every subscriber registered before that fan-out has received e exactly once, the others never. *)
Theorem C14_exactly_once : forall W L ls s t1 id e to t2 sub,
  reachable W L ls s -> mon s = MIdle ->
  trace s = t1 ++ EvSent id e to :: t2 ->
  (forall id' to', In (EvSent id' e to') (t1 ++ t2) -> False) ->      (* e is the error of this one completion *)
  ndeliv sub e (trace s) = if existsb (Nat.eqb sub) to then 1 else 0.
Proof.
  intros W L ls s t1 id e to t2 sub Hr Hm E Huniq.
  pose proof (C14_accounting _ _ _ _ sub e Hr) as Ha. unfold pending in Ha. rewrite Hm in Ha. rewrite Nat.add_0_r in Ha.
  rewrite Ha, E.
  assert (Hz : forall t, (forall id' to', In (EvSent id' e to') t -> False) -> nsent sub e t = 0).
  { induction t as [|a t IH]; intros Hn; [reflexivity|].
    destruct a; cbn [nsent]; try (apply IH; intros; eapply Hn; right; eauto).
    destruct (Nat.eqb_spec e0 e) as [->|]; [exfalso; eapply Hn; left; reflexivity|].
    apply IH. intros; eapply Hn; right; eauto. }
  assert (Happ : forall a b, nsent sub e (a ++ b) = nsent sub e a + nsent sub e b).
  { induction a as [|x a IH]; intros b; [reflexivity|]. destruct x; cbn [app nsent]; rewrite ?IH; lia. }
  rewrite Happ. cbn [nsent]. rewrite Nat.eqb_refl.
  rewrite (Hz t1), (Hz t2); try (intros; eapply Huniq; apply in_or_app; eauto).
  destruct (C14_recipients _ _ _ _ _ _ _ _ _ Hr E) as ((n & ->) & _ & _).
  rewrite cntn_seq.
  assert (Hex : existsb (Nat.eqb sub) (seq 0 n) = (sub <? n)).
  { destruct (Nat.ltb_spec sub n) as [Hlt|Hge].
    - apply existsb_exists. exists sub. split; [apply in_seq; lia|apply Nat.eqb_refl].
    - destruct (existsb (Nat.eqb sub) (seq 0 n)) eqn:Ex; [|reflexivity].
      apply existsb_exists in Ex. destruct Ex as (x & Hx & Ex). apply Nat.eqb_eq in Ex. subst. apply in_seq in Hx. lia. }
  rewrite Hex. destruct (sub <? n); lia.
Qed.

(* A nil result produces no delivery: whatever a subscriber has received was fanned out, and whatever was fanned out
   is the non-nil result of a work function (never [Finish id None]). *)
Theorem C14_only_errors : forall W L ls s sub e,
  reachable W L ls s -> 0 < ndeliv sub e (trace s) ->
  exists id to, In (EvSent id e to) (trace s) /\ In (EvDone id (Some e)) (trace s).
Proof.
  intros W L ls s sub e Hr Hd. pose proof (C14_accounting _ _ _ _ sub e Hr) as Ha.
  assert (Hs : 0 < nsent sub e (trace s)) by lia.
  assert (Hex : exists id to, In (EvSent id e to) (trace s)).
  { clear - Hs. induction (trace s) as [|a t IH]; [cbn in Hs; lia|].
    destruct a; cbn [nsent] in Hs; try (destruct (IH Hs) as (i & t0 & H); exists i, t0; right; exact H).
    destruct (Nat.eqb_spec e0 e) as [->|].
    - exists id, to. left. reflexivity.
    - destruct (IH Hs) as (i & t0 & H). exists i, t0. right. exact H. }
  destruct Hex as (id & to & Hin). exists id, to. split; [exact Hin|].
  exact (proj2 (origin_reach s (rr _ _ _ _ Hr)) id e to Hin).
Qed.

(* Error reporting does not stop other work: whatever the monitor is doing (idle, blocked on a subscriber that does not
   receive, exited), every step of the dispatcher and of every worker that holds no error is enabled exactly as if the
   monitor were idle, with the same effect; only a worker that itself holds an error waits for the monitor. *)
Theorem C14_others_progress : forall s l m,
  mon_label l = false -> step fixed (set_mon m s) l = option_map (set_mon m) (step fixed s l).
Proof. exact mon_independent. Qed.

(* ... and the worker holding an error is not stuck for ever either: at an internally-quiescent state a pending error
   means the monitor is in a fan-out, i.e. waiting for a subscriber to receive (the property's proviso). *)
Theorem C14_pending_error_waits_for_subscriber : forall s,
  panicked s = false -> quiescent fixed s -> err_closed s = false -> senderr s <> [] -> mon s <> MIdle.
Proof.
  intros s Hnp Hq Hc Hne. destruct (q_senderr s Hnp Hq Hc) as [H|H]; [contradiction|exact H].
Qed.

(* Obtaining a new channel from Errors() at any moment: the call is always enabled, adds the next subscriber number
   and changes nothing else; all theorems above (and C04, C05, C09, C16) quantify over label sequences that contain
   ErrSub anywhere. *)
Theorem C14_subscribe_safe : forall s,
  panicked s = false ->
  step fixed s ErrSub = Some (ev (EvSub (nextsub s)) (set_nextsub (S (nextsub s)) (set_subs (subs s ++ [nextsub s]) s))).
Proof. intros s Hnp. unfold step. rewrite Hnp. reflexivity. Qed.

(* ---- non-vacuity: two subscribers before, one during processing; item 0 returns error 7: the two early subscribers
   receive it once each, the late one does not ---- *)
Example C14_nonvacuous :
  exists ls s, run fixed (init 1 2) ls = Some s /\ mon s = MIdle /\
    ndeliv 0 7 (trace s) = 1 /\ ndeliv 1 7 (trace s) = 1 /\ ndeliv 2 7 (trace s) = 0 /\ subs s = [0; 1; 2].
Proof.
  exists WQ.labels_C14_example.
  destruct (run fixed (init 1 2) WQ.labels_C14_example) as [s|] eqn:E; [|vm_compute in E; discriminate E].
  exists s. split; [reflexivity|]. vm_compute in E. injection E as <-. vm_compute. repeat split.
Qed.

(* Race freedom of the subscriber slice, re-checked against the GO SOURCE on every run.  Gen/WQSkeleton_gen.v is
   regenerated from workqueue/queue.go by translator/lockskel before every Coq build: the accesses to
   Queue.errorSubscribers in every exported method of Queue and in the goroutines the constructor starts (the dispatcher
   "NewQueue.go1" = start(), the error monitor it spawns "NewQueue.go1.go1", the workers "NewQueue.go1.go2"; the mutex and the
   slice are found by TYPE — sync.Mutex, []chan error — and printed under role names), with the mode of errSubScriberMux held around them.  For EVERY schedule of any number of
   instances of these methods (locks taken one by one, accesses one at a time, mutex semantics of Lib/Conc.v) no
   two of them are ever about to access the slice conflictingly, and the translator understood all of queue.go.
   (Before fix F14 the monitor ranged over the slice without the mutex: this theorem would not compile.) *)
Theorem C14_subscribers_race_free : Conc.race_free WQSkeleton_gen.wq_err_skeleton.
Proof. exact WQLockset.wq_err_race_free. Qed.

Print Assumptions C14_accounting.
Print Assumptions C14_recipients.
Print Assumptions C14_exactly_once.
Print Assumptions C14_only_errors.
Print Assumptions C14_others_progress.
Print Assumptions C14_pending_error_waits_for_subscriber.
Print Assumptions C14_subscribe_safe.
Print Assumptions C14_subscribers_race_free.
