(* X02 — mapOps.SortAscKeys / SortDescKeys return a permutation of the map's keys ordered by value
   (non-decreasing / non-increasing); the order among equal values is unspecified (sort.Sort is not
   stable), so the statements are about the SET of admissible results.  Property theorems only. *)
From Coq Require Import List Bool Arith ZArith Sorted Permutation Lia.
From TC.Lib Require Import Assoc.
From TC.Model Require Import MapOps.
From TC.Proofs Require Import MapOpsProofs.
Import ListNotations.

Section X02.
  Context {K V : Type}.
  Variable keqb : K -> K -> bool.
  Variable ltb : V -> V -> bool.
  Hypothesis keqb_spec : forall x y, reflect (x = y) (keqb x y).
  (* < of cmp.Ordered is a strict weak order (what sort.Sort demands of Less) *)
  Hypothesis ltb_asym : forall x y, ltb x y = true -> ltb y x = false.
  Hypothesis ltb_ntrans : forall x y z, ltb y x = false -> ltb z y = false -> ltb z x = false.

  (* m = the map's entries, it = the order in which `range` delivers them (any permutation).
     Whatever sorting algorithm sort.Sort uses, as long as it keeps its contract, the result is
     admissible: the keys of a permutation of the entries sorted by value. *)
  Theorem X02_asc_any_sorter sorter (m it : list (K * V)) :
    sort_contract (pair_less ltb) sorter -> Permutation m it ->
    admissible (le_asc ltb) m (sort_keys_with sorter it).
  Proof. exact (any_sorter_asc ltb sorter m it). Qed.

  Theorem X02_desc_any_sorter sorter (m it : list (K * V)) :
    sort_contract (rev_less ltb) sorter -> Permutation m it ->
    admissible (le_desc ltb) m (sort_keys_with sorter it).
  Proof. exact (any_sorter_desc ltb sorter m it). Qed.

  (* the contract is satisfiable: insertion sort keeps it for Less and for sort.Reverse(Less) *)
  Theorem X02_sort_contract_satisfiable :
    sort_contract (pair_less ltb) (isort (@pair_less K V ltb))
    /\ sort_contract (rev_less ltb) (isort (@rev_less K V ltb)).
  Proof. split; [exact (pair_less_contract ltb ltb_asym ltb_ntrans)|exact (rev_less_contract ltb ltb_asym ltb_ntrans)]. Qed.

  (* the executable model, for every map and every iteration order *)
  Theorem X02_asc (m it : list (K * V)) :
    Permutation m it -> admissible (le_asc ltb) m (sort_asc_keys ltb it).
  Proof. exact (asc_model ltb ltb_asym ltb_ntrans m it). Qed.

  Theorem X02_desc (m it : list (K * V)) :
    Permutation m it -> admissible (le_desc ltb) m (sort_desc_keys ltb it).
  Proof. exact (desc_model ltb ltb_asym ltb_ntrans m it). Qed.

  (* what admissibility means at the API: every key exactly once, and values ordered along the result *)
  Theorem X02_admissible_meaning (le : V -> V -> Prop) (m : list (K * V)) out :
    NoDup (keys m) -> admissible le m out ->
    Permutation out (keys m) /\ length out = length m /\ NoDup out
    /\ forall i j ki kj vi vj, i < j -> nth_error out i = Some ki -> nth_error out j = Some kj ->
         lookup keqb ki m = Some vi -> lookup keqb kj m = Some vj -> le vi vj.
  Proof.
    intros Hnd Ha. destruct (admissible_keys le m out Ha) as [Hp Hl].
    split; [exact Hp|]. split; [exact Hl|]. split.
    - eapply Permutation_NoDup; [apply Permutation_sym, Hp|exact Hnd].
    - exact (admissible_values keqb keqb_spec le m out Hnd Ha).
  Qed.

  (* the monitor evaluated on the observed outputs accepts exactly the admissible results *)
  Theorem X02_monitor_asc (m : list (K * V)) out :
    NoDup (keys m) -> (asc_ok keqb ltb m out = true <-> admissible (le_asc ltb) m out).
  Proof. exact (asc_ok_iff keqb ltb keqb_spec ltb_ntrans m out). Qed.

  Theorem X02_monitor_desc (m : list (K * V)) out :
    NoDup (keys m) -> (desc_ok keqb ltb m out = true <-> admissible (le_desc ltb) m out).
  Proof. exact (desc_ok_iff keqb ltb keqb_spec ltb_ntrans m out). Qed.
End X02.

Lemma Zltb_asym x y : Z.ltb x y = true -> Z.ltb y x = false.
Proof. rewrite Z.ltb_lt, Z.ltb_ge. lia. Qed.
Lemma Zltb_ntrans x y z : Z.ltb y x = false -> Z.ltb z y = false -> Z.ltb z x = false.
Proof. rewrite !Z.ltb_ge. lia. Qed.

(* integer keys and values: the statement with the mathematical order *)
Theorem X02_Z (m it : list (Z * Z)) :
  NoDup (keys m) -> Permutation m it ->
  let asc := sort_asc_keys Z.ltb it in
  let desc := sort_desc_keys Z.ltb it in
  Permutation asc (keys m) /\ Permutation desc (keys m)
  /\ (forall i j ki kj vi vj, i < j -> nth_error asc i = Some ki -> nth_error asc j = Some kj ->
        lookup Z.eqb ki m = Some vi -> lookup Z.eqb kj m = Some vj -> (vi <= vj)%Z)
  /\ (forall i j ki kj vi vj, i < j -> nth_error desc i = Some ki -> nth_error desc j = Some kj ->
        lookup Z.eqb ki m = Some vi -> lookup Z.eqb kj m = Some vj -> (vi >= vj)%Z).
Proof.
  intros Hnd Hp asc desc.
  pose proof (X02_asc Z.ltb Zltb_asym Zltb_ntrans m it Hp) as Ha.
  pose proof (X02_desc Z.ltb Zltb_asym Zltb_ntrans m it Hp) as Hd.
  destruct (X02_admissible_meaning Z.eqb Z.eqb_spec _ m asc Hnd Ha) as [A1 [_ [_ A2]]].
  destruct (X02_admissible_meaning Z.eqb Z.eqb_spec _ m desc Hnd Hd) as [D1 [_ [_ D2]]].
  split; [exact A1|]. split; [exact D1|]. split.
  - intros i j ki kj vi vj Hij Hi Hj Li Lj. specialize (A2 i j ki kj vi vj Hij Hi Hj Li Lj).
    unfold le_asc in A2. apply Z.ltb_ge in A2. exact A2.
  - intros i j ki kj vi vj Hij Hi Hj Li Lj. specialize (D2 i j ki kj vi vj Hij Hi Hj Li Lj).
    unfold le_desc in D2. apply Z.ltb_ge in D2. lia.
Qed.

(* non-vacuity: ties between values; two different admissible results for the same map *)
Example X02_ex_model :
  sort_asc_keys Z.ltb [(1,5);(2,3);(3,5);(4,1)]%Z = [4;2;1;3]%Z
  /\ sort_desc_keys Z.ltb [(1,5);(2,3);(3,5);(4,1)]%Z = [1;3;2;4]%Z
  /\ sort_asc_keys Z.ltb ([] : list (Z * Z)) = [].
Proof. repeat split. Qed.
Example X02_ex_monitor :
  asc_ok Z.eqb Z.ltb [(1,5);(2,3);(3,5);(4,1)]%Z [4;2;1;3]%Z = true
  /\ asc_ok Z.eqb Z.ltb [(1,5);(2,3);(3,5);(4,1)]%Z [4;2;3;1]%Z = true     (* the other tie order *)
  /\ asc_ok Z.eqb Z.ltb [(1,5);(2,3);(3,5);(4,1)]%Z [2;4;1;3]%Z = false    (* not sorted *)
  /\ asc_ok Z.eqb Z.ltb [(1,5);(2,3);(3,5);(4,1)]%Z [4;2;1]%Z = false      (* a key missing *)
  /\ asc_ok Z.eqb Z.ltb [(1,5);(2,3);(3,5);(4,1)]%Z [4;2;1;1]%Z = false    (* a key twice *)
  /\ desc_ok Z.eqb Z.ltb [(1,5);(2,3);(3,5);(4,1)]%Z [3;1;2;4]%Z = true.
Proof. repeat split. Qed.

Print Assumptions X02_asc_any_sorter.
Print Assumptions X02_desc_any_sorter.
Print Assumptions X02_sort_contract_satisfiable.
Print Assumptions X02_asc.
Print Assumptions X02_desc.
Print Assumptions X02_admissible_meaning.
Print Assumptions X02_monitor_asc.
Print Assumptions X02_monitor_desc.
Print Assumptions X02_Z.
