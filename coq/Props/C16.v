(* C16 — Dequeue and SetPriority act on exactly the identified work item.

   Model: Model/WQ.v, variant [fixed] (the code after fix F6).  "Every queue state reachable by Enqueue /
   completion sequences" = every state [s] with [run fixed (init W L) ls = Some s]; the target is identified through
   [find_item id s] (= workItems.Load(id)): the unique record carrying that id.  It is *waiting in the priority
   queue* iff it is in [heap s]; every other accepted, unfinished item is a blocked producer's, in the dispatcher's
   hand, in the workerCh buffer (handed to the worker pool, not started) or executing.
   [predrain s]: the dispatcher has not begun its shutdown drain (always true without Stop/Break; C19 covers those).
   The calls are total in every dispatcher phase of the model; the property's proviso "called while the dispatcher is
   idle" matters only for what follows them: Findings/WQ.v [dequeue_while_dispatcher_waits_crashes] shows that a
   Dequeue issued while the dispatcher waits in the full-queue branch can make it pop an empty heap.
   Property theorems only; proofs in Proofs/WQC16.v, Proofs/WQCons.v, Proofs/WQInv.v. *)
From Coq Require Import List Arith ZArith Bool Lia Permutation.
From TC.Lib Require Import GoHeap GoHeapProofs.
From TC.Model Require Import WQ.
From TC.Proofs Require Import WQHeap WQInv WQCons WQC16.
From TC.Findings Require WQ.
Import ListNotations.

Local Notation reachable W L ls s := (run fixed (init W L) ls = Some s).
Lemma rr W L ls s : reachable W L ls s -> reach fixed s.
Proof. intros H. eapply run_reach; [apply reach_init|exact H]. Qed.

(* Dequeue(id) of an item waiting in the priority queue returns nil (EvDeq id true), removes exactly that item
   (found through its position field, which is its index) into [removed], drops its id from workItems, leaves the
   other waiting items in the heap (re-adjusted by [vals], heap order restored) and changes nothing else. *)
Theorem C16_dequeue_waiting : forall W L ls s id vals it,
  reachable W L ls s -> panicked s = false -> predrain s = true ->
  find_item id s = Some it -> In it (heap s) ->
  exists x h1 h2,
    step fixed s (Dequeue id vals)
    = Some (ev (EvDeq id true) (ev (EvAdjust (consults h1))
             (set_heap h2 (set_removed (removed s ++ [x]) (set_workitems (remove_id id (workitems s)) s))))) /\
    iid x = id /\ ikey x = ikey it /\
    Permutation (ikey x :: map ikey h1) (map ikey (heap s)) /\
    Permutation (map ikey h2) (map ikey (adjust_all vals h1)) /\
    heap_ok (item_lt fixed) h2.
Proof.
  intros W L ls s id vals it Hr Hnp Hpre Hf Hin.
  pose proof (rr _ _ _ _ Hr) as R. pose proof (hinv_reach s R) as [_ Hp].
  destruct (pok_in _ _ Hp Hin) as [_ Hpos].
  assert (Hst : ist it = false).
  { destruct (dq_reach s R) as (_ & _ & Hu). rewrite Forall_forall in Hu. exact (Hu it Hin). }
  destruct (dequeue_waiting s id vals it R Hnp Hpre Hf Hst Hpos) as (x & h1 & h2 & H1 & H2 & H3 & _ & H4 & H5 & H6).
  exists x, h1, h2. repeat split; assumption.
Qed.

(* An item removed by Dequeue never starts, whatever happens afterwards (any label sequence). *)
Theorem C16_dequeued_never_starts : forall W L ls s x ls' s',
  reachable W L ls s -> In x (removed s) -> run fixed s ls' = Some s' ->
  ~ In (EvStart (iid x)) (trace s').
Proof.
  intros W L ls s x ls' s' Hr Hx Hr' Hin.
  pose proof (removed_never_starts s x ls' s' (rr _ _ _ _ Hr) Hx Hr') as H0.
  clear - Hin H0. induction (trace s') as [|e t IH]; [contradiction|].
  destruct Hin as [->|Hin].
  - cbn in H0. rewrite Nat.eqb_refl in H0. discriminate.
  - destruct e; cbn in H0; try (apply IH; assumption). destruct (id =? iid x); [discriminate|apply IH; assumption].
Qed.

(* Dequeue(id) of an item that is not waiting in the priority queue - executing, already handed to the worker pool,
   still with a blocked producer or in the dispatcher's hand - returns an error and changes nothing. *)
Theorem C16_dequeue_not_waiting : forall W L ls s id vals it,
  reachable W L ls s -> panicked s = false -> predrain s = true ->
  find_item id s = Some it -> ~ In it (heap s) ->
  step fixed s (Dequeue id vals) = Some (ev (EvDeq id false) s).
Proof.
  intros W L ls s id vals it Hr Hnp Hpre Hf Hn.
  destruct (not_waiting_cases s id it (rr _ _ _ _ Hr) Hpre Hf Hn) as [_ Hpos].
  apply (dequeue_not_waiting s id vals it Hnp Hf). right. lia.
Qed.

(* ... in particular for an executing item (which the code reports as "in process") *)
Theorem C16_dequeue_executing : forall W L ls s id vals it,
  reachable W L ls s -> panicked s = false ->
  find_item id s = Some it -> In it (running s) ->
  step fixed s (Dequeue id vals) = Some (ev (EvDeq id false) s) /\ ist it = true.
Proof.
  intros W L ls s id vals it Hr Hnp Hf Hin.
  pose proof (st_reach s (rr _ _ _ _ Hr) it Hin) as Hst.
  split; [|exact Hst]. apply (dequeue_not_waiting s id vals it Hnp Hf). left. exact Hst.
Qed.

(* An unknown id (never issued, finished, or already dequeued) is a no-op returning nil. *)
Theorem C16_dequeue_unknown : forall s id vals,
  panicked s = false -> find_item id s = None ->
  step fixed s (Dequeue id vals) = Some (ev (EvDeq id true) s).
Proof. exact dequeue_unknown. Qed.

(* SetPriority(id, p) of a waiting item returns nil; the heap afterwards holds the same items, the target with
   priority p (then every adjust function applied, as for a decision), in heap order; nothing else changes.
   So from then on the target competes with p (C05_min applies to the next decision with this heap as [before]):
   [C16_setprio_target] and [C16_setprio_others] read the permutation item by item. *)
Theorem C16_setprio_waiting : forall W L ls s id p vals it,
  reachable W L ls s -> panicked s = false -> predrain s = true ->
  find_item id s = Some it -> In it (heap s) ->
  exists cs h2,
    step fixed s (SetPrio id p vals) = Some (ev (EvSetPrio id true) (ev (EvAdjust cs) (set_heap h2 s))) /\
    Permutation (map ikey h2)
                (map ikey (adjust_all vals (map (fun x => if iid x =? id then set_prio p x else x) (heap s)))) /\
    heap_ok (item_lt fixed) h2.
Proof.
  intros W L ls s id p vals it Hr Hnp Hpre Hf Hin.
  pose proof (rr _ _ _ _ Hr) as R. pose proof (hinv_reach s R) as [_ Hp].
  destruct (pok_in _ _ Hp Hin) as [_ Hpos].
  assert (Hst : ist it = false).
  { destruct (dq_reach s R) as (_ & _ & Hu). rewrite Forall_forall in Hu. exact (Hu it Hin). }
  destruct (setprio_waiting s id p vals it R Hnp Hpre Hf Hst Hpos) as (cs & h2 & H1 & _ & _ & H2 & H3).
  exists cs, h2. repeat split; assumption.
Qed.

(* reading the permutation: every item y of the new heap comes from an item y0 of the old heap with the same id,
   name, arrival number, adjust flag; the target's priority is p (if it has no adjust function), every other
   item's priority is what it was (or what its own adjust function says) *)
Corollary C16_setprio_items : forall (h h2 : list item) id p vals,
  Permutation (map ikey h2)
              (map ikey (adjust_all vals (map (fun x => if iid x =? id then set_prio p x else x) h))) ->
  forall y, In y h2 ->
  exists y0, In y0 h /\ iid y = iid y0 /\ iname y = iname y0 /\ iseq y = iseq y0 /\ iadj y = iadj y0 /\
             (iid y0 = id -> iadj y0 = false -> iprio y = p) /\
             (iid y0 <> id -> iprio y = eff vals y0).
Proof.
  intros h h2 id p vals P y Hy.
  destruct (perm_key_in _ _ _ P Hy) as (z & Hz & E).
  unfold adjust_all in Hz. rewrite map_map in Hz. apply in_map_iff in Hz. destruct Hz as (y0 & <- & Hy0).
  exists y0. split; [exact Hy0|].
  pose proof (f_equal iid E) as E1. pose proof (f_equal iname E) as E2. pose proof (f_equal iseq E) as E3.
  pose proof (f_equal iadj E) as E4. pose proof (f_equal iprio E) as E5. cbn in E1, E2, E3, E4, E5.
  destruct (Nat.eqb_spec (iid y0) id) as [Hid|Hid]; cbn in *.
  - repeat split; try congruence.
    intros _ Ha. rewrite <- E5. unfold eff. cbn. rewrite Ha. reflexivity.
  - repeat split; try congruence.
Qed.

(* SetPriority of an item that is not waiting in the priority queue (executing, handed off, ...): error, no change;
   unknown id: nil, no change. *)
Theorem C16_setprio_not_waiting : forall W L ls s id p vals it,
  reachable W L ls s -> panicked s = false -> predrain s = true ->
  find_item id s = Some it -> ~ In it (heap s) ->
  step fixed s (SetPrio id p vals) = Some (ev (EvSetPrio id false) s).
Proof.
  intros W L ls s id p vals it Hr Hnp Hpre Hf Hn.
  destruct (not_waiting_cases s id it (rr _ _ _ _ Hr) Hpre Hf Hn) as [_ Hpos].
  apply (setprio_not_waiting s id p vals it Hnp Hf). right. lia.
Qed.

Theorem C16_setprio_unknown : forall s id p vals,
  panicked s = false -> find_item id s = None ->
  step fixed s (SetPrio id p vals) = Some (ev (EvSetPrio id true) s).
Proof. exact setprio_unknown. Qed.

(* Either way every other item keeps its fate: the state after the call is again a reachable state of the model, so
   conservation (each id in exactly one place) and at-most-once hold for every continuation (the liveness half of
   "runs exactly once" is C04_stuck_free / C04_terminates). *)
Theorem C16_others_conserved : forall W L ls s l s' ls' s'' k,
  reachable W L ls s -> step fixed s l = Some s' -> run fixed s' ls' = Some s'' ->
  total k s'' = (if k <? nextid s'' then 1 else 0) /\ nstart k (trace s'') <= 1.
Proof.
  intros W L ls s l s' ls' s'' k Hr Hs Hr'.
  assert (R : reach fixed s'') by (eapply run_reach; [eapply reach_step; [apply (rr _ _ _ _ Hr)|exact Hs]|exact Hr']).
  split; [apply (cons_reach s'' R)|apply at_most_once, R].
Qed.

(* ---- non-vacuity: a reachable state with an executing item, a handed-off item and two waiting items ---- *)
Example C16_nonvacuous :
  exists ls s, run fixed (init 1 3) ls = Some s /\ panicked s = false /\ predrain s = true /\
    length (heap s) = 2 /\ length (buffer s) = 1 /\ length (running s) = 1 /\
    (exists it, find_item 2 s = Some it /\ In it (heap s)) /\
    (exists it, find_item 1 s = Some it /\ In it (buffer s) /\ ~ In it (heap s)) /\
    (exists it, find_item 0 s = Some it /\ In it (running s)) /\
    find_item 9 s = None.
Proof.
  exists WQ.labels_C16_example.
  destruct (run fixed (init 1 3) WQ.labels_C16_example) as [s|] eqn:E; [|vm_compute in E; discriminate E].
  exists s. vm_compute in E. injection E as <-. cbn.
  repeat split.
  - eexists. split; [reflexivity|]. cbn. auto.
  - eexists. split; [reflexivity|]. split; [cbn; auto|]. cbn. intros [H|[H|[]]]; discriminate H.
  - eexists. split; [reflexivity|]. cbn. auto.
Qed.

(* On the pinned tree the property fails (Findings/WQ.v): F6_dequeue_handed_off_refuted, F6_dequeue_panics_refuted,
   F6_setpriority_refuted. *)

Print Assumptions C16_dequeue_waiting.
Print Assumptions C16_dequeued_never_starts.
Print Assumptions C16_dequeue_not_waiting.
Print Assumptions C16_dequeue_executing.
Print Assumptions C16_dequeue_unknown.
Print Assumptions C16_setprio_waiting.
Print Assumptions C16_setprio_items.
Print Assumptions C16_setprio_not_waiting.
Print Assumptions C16_setprio_unknown.
Print Assumptions C16_others_conserved.
