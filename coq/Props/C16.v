(* C16 — property theorems (work in progress: the check is run on the pinned tree first). *)
From Coq Require Import List.
