(* C10 - closing a subscriber or the publication at any moment is safe.
   Property theorems only.  Model: Model/Pub.v with the close path after fix F16.  Subscriber.Close is
   [CloseSub s] (LoadAndDelete; the closer that takes s closes s.done) followed by [FinishClose s] (the
   closer has the write lock: s.closed = true, close(receiveCh)); Publication.Close is that pair of steps for
   every subscriber its Range yields.  "Every position, repeated, both, from several callers" = every label
   sequence: nothing restricts who issues a CloseSub, when, or how often.  The panics of the Go runtime
   (send on a closed channel, close of a closed channel) are transitions of the model that set [panicked]. *)
From Coq Require Import List Arith Bool Lia ZArith.
From TC.Model Require Import Pub.
From TC.Proofs Require Import PubInv PubC06 PubC15 PubC10 PubSim.
Import ListNotations.

Section C10.
  Context {M : Type}.
  Notation state := (state M).

  (* No schedule reaches a send on a closed channel or a second close. *)
  Theorem C10_no_panic (st : state) : reach st -> panicked st = false.
  Proof. intros R. apply (i_panic _ (reach_inv _ R)). Qed.

  (* The receive channel is closed at most once - the counter of close(receiveCh) executions is 1 exactly
     when the channel is closed - and by the first closer: the closer that finds s in the map takes it out
     and starts the close (without touching the channel yet); any closer that does not find it changes
     nothing at all; the channel is closed by a FinishClose, which is possible only while s is Closing. *)
  Theorem C10_closed_once (st : state) s :
    reach st ->
    (s_ncl (subs st s) <= 1 /\ (s_phase (subs st s) = Closed <-> s_ncl (subs st s) = 1)) /\
    (s < nsub st -> s_inmap (subs st s) = false -> step st (CloseSub s) = Some st) /\
    (forall st', step st (CloseSub s) = Some st' -> s_inmap (subs st s) = true ->
                 s_inmap (subs st' s) = false /\ s_phase (subs st' s) = Closing /\
                 s_ncl (subs st' s) = 0 /\ panicked st' = false) /\
    (forall st', step st (FinishClose s) = Some st' ->
                 s_phase (subs st s) = Closing /\ s_phase (subs st' s) = Closed /\
                 s_buf (subs st' s) = s_buf (subs st s)).
  Proof.
    intros R. split; [apply closed_once; auto|]. split; [apply later_closer_noop|].
    split; [intros st'; apply first_closer_takes; auto | intros st'; apply finish_only_when_closing].
  Qed.

  (* From the moment the channel is closed: along ANY label sequence it stays closed, what the subscriber
     receives afterwards is exactly a prefix of what was buffered at the close, in order, the rest is still
     in the buffer, and nothing else is ever added (no Deliver / Rendezvous after the close); "closed" is
     reported only when the buffer has been read completely. *)
  Theorem C10_buffer_kept_nothing_after (st st' : state) ls s :
    reach st -> run st ls = Some st' -> s < nsub st -> s_phase (subs st s) = Closed ->
    s_phase (subs st' s) = Closed /\
    (exists k, s_got (subs st' s) = s_got (subs st s) ++ firstn k (s_buf (subs st s)) /\
               s_buf (subs st' s) = skipn k (s_buf (subs st s))) /\
    (s_eof (subs st' s) = true -> s_buf (subs st' s) = []).
  Proof.
    intros R H Hs Hc. destruct (closed_run _ _ _ _ R H Hs Hc) as [Hc' Hk]. split; auto. split; auto.
    intros He. apply (eof_means_drained st' s); auto. eapply run_reach; eauto.
  Qed.

  (* Other subscribers are unaffected: whatever happens in a run with closes of s (at any positions, by any
     callers) also happens, to every other subscriber, in a run without any close of s: there is a label
     sequence from the initial state containing no CloseSub s / FinishClose s / Drop _ s that ends in a
     state with the same clock, calls and messages and, for every t <> s, the same subscriber record
     (buffer, received list, phase, ...), the same pair states, and the same callback invocations. *)
  Theorem C10_others_untouched (s : nat) (ls : list (label M)) (a : state) :
    run init ls = Some a ->
    exists lb b,
      run init lb = Some b /\ forallb (fun l => negb (closes s l)) lb = true /\
      (s < nsub b -> s_inmap (subs b s) = true /\ s_phase (subs b s) = Open) /\
      nsub b = nsub a /\ npub b = npub a /\ now b = now a /\
      (forall p, pmsg b p = pmsg a p) /\
      (forall t, t <> s -> subs b t = subs a t /\ forall p, pair b p t = pair a p t) /\
      filter (notS s) (cbF b) = filter (notS s) (cbF a) /\
      filter (notS s) (cbT b) = filter (notS s) (cbT a).
  Proof. apply others_untouched. Qed.

  (* No deadlock: Close can always start (CloseSub is enabled for every existing subscriber in every state,
     it is one step and waits for nothing); and whenever a subscriber is Closing, either its closer can finish
     or one of the delivery goroutines it waits for can leave its select - and every such internal step
     decreases the measure (C06_goroutines_terminate), so the closer gets through. *)
  Theorem C10_no_deadlock (st : state) s :
    s < nsub st ->
    enabled st (CloseSub s) /\
    (s_phase (subs st s) = Closing -> enabled st (FinishClose s) \/ exists p, enabled st (Drop p s)).
  Proof. intros Hs. split; [apply close_enabled | apply closing_progress]; auto. Qed.
  (* Close from inside a callback: after [Timeout p s] (OnTimeout runs) the environment may issue [CloseSub s]
     at once - the callback calling sub.Close() or pub.Close().  The delivery (p,s) has left its select, so it is
     not among the goroutines the closer waits for; if no other delivery of s is in its select the close
     finishes immediately, otherwise C10_no_deadlock applies.  (OnFiltered runs inside Visit, outside any
     select: the same holds trivially.) *)
  Theorem C10_close_from_callback (st st1 st2 : state) p s :
    reach st -> step st (Timeout p s) = Some st1 -> step st1 (CloseSub s) = Some st2 ->
    is_insel (pair st2 p s) = false /\
    (s_inmap (subs st1 s) = true -> (forall q, q <> p -> is_insel (pair st q s) = false) ->
     enabled st2 (FinishClose s)).
  Proof. apply close_from_callback. Qed.
End C10.

(* ---------- non-vacuity ---------- *)
(* s0 (buffer 1) holds one message and has one delivery parked; s1 (unbuffered) has two parked.  s0 is closed
   by two closers while a Publish call is still visiting; the parked delivery is dropped, the buffered message
   stays readable, then "closed"; s1 is not affected. *)
Definition ex10 : list (label nat) :=
  [ Subscribe 1 (fun _ => true) 50%Z false false; Subscribe 0 (fun _ => true) 50%Z false false;
    PubBegin 1; Visit 0 0; Visit 0 1; PubEnd 0; Enter 0 0; Enter 0 1; Deliver 0 0;
    PubBegin 2; Visit 1 0; Enter 1 0;
    CloseSub 0; CloseSub 0;                 (* the second closer finds nothing *)
    Visit 1 1; PubEnd 1; Enter 1 1;
    Drop 1 0; FinishClose 0;
    Recv 0; Recv 0; Rendezvous 0 1; Rendezvous 1 1 ].

Example ex10_ok :
  option_map (fun st => (s_got (subs st 0), s_eof (subs st 0), s_ncl (subs st 0), pair st 1 0,
                         s_got (subs st 1), panicked st, measure st))
             (run init ex10)
  = Some ([(0, 1)], true, 1, PDropped, [(0, 1); (1, 2)], false, 0).
Proof. vm_compute. reflexivity. Qed.

Print Assumptions C10_no_panic.
Print Assumptions C10_closed_once.
Print Assumptions C10_buffer_kept_nothing_after.
Print Assumptions C10_others_untouched.
Print Assumptions C10_no_deadlock.
Print Assumptions C10_close_from_callback.
