(* C03 — FIFO eviction by insertion, never early.  Property theorems only.
   Ghost history variables (Model/CacheGhost.v, not in the code): [born k] = logical time of the Set that
   last INSERTED k (a Set on an absent key; an update does not change it), erased by Delete/Clear;
   [n_ins] = insertions since the last Clear.  (s, g) ranges over every state reachable by any history. *)
From Coq Require Import List Arith Bool.
From TC.Lib Require Import Assoc.
From TC.Model Require Import Cache CacheGhost.
From TC.Proofs Require Import CacheInv CacheViews CacheFifo CacheRun CacheSetSweep.
From TC.Props Require Import C01.
Import ListNotations.

Section C03.
  Context {K V : Type} (keqb : K -> K -> bool).
  Hypothesis keqb_spec : forall x y, reflect (x = y) (keqb x y).
  Notation label := (@label K V).

  Lemma reach_both p c (h : list label) :
    reachable p c h -> Both keqb (grun keqb (init p c, ghost0 0) h).
  Proof.
    intros (Hp & Hc & Hv). apply (Both_grun keqb keqb_spec h); [|exact Hv].
    split; simpl; [apply Inv_init; assumption|apply GInv_init].
  Qed.

  (* oldest first: if a was inserted before b and neither was deleted since, a present => b present *)
  Theorem C03_fifo p c (h : list label) a b ta tb :
    reachable p c h ->
    let '(s, g) := grun keqb (init p c, ghost0 0) h in
    lookup keqb a (born g) = Some ta -> lookup keqb b (born g) = Some tb -> ta < tb ->
    get keqb s a <> None -> get keqb s b <> None.
  Proof.
    intros Hr. pose proof (reach_both p c h Hr) as HB.
    destruct (grun keqb (init p c, ghost0 0) h) as [s g]. destruct HB as [H G].
    exact (fifo keqb keqb_spec s g a b ta tb H G).
  Qed.

  (* nothing is evicted while the insertions since the last Clear do not exceed Capacity() *)
  Theorem C03_not_early p c (h : list label) k t :
    reachable p c h ->
    let '(s, g) := grun keqb (init p c, ghost0 0) h in
    n_ins g <= capacity s -> lookup keqb k (born g) = Some t -> get keqb s k <> None.
  Proof.
    intros Hr. pose proof (reach_both p c h Hr) as HB.
    destruct (grun keqb (init p c, ghost0 0) h) as [s g]. destruct HB as [H G].
    intros Hn. exact (not_early keqb keqb_spec s g H G Hn k t).
  Qed.

  (* a Sweep removes exactly the (number of partitions - P) oldest partitions, each of at most
     C = Capacity()/P entries ... *)
  Theorem C03_sweep_removes p c (h : list label) :
    reachable p c h ->
    let s := run keqb (init p c) h in
    let evicted := firstn (length (parts s) - P s) (parts s) in
    parts s = evicted ++ parts (sweep s)
    /\ length evicted = length (parts s) - P s
    /\ (forall id m, In (id, m) evicted -> length m <= C s)
    /\ len s = length (flat_map (fun p => map fst (snd p)) evicted) + len (sweep s).
  Proof.
    intros (Hp & Hc & Hv). exact (sweep_removes keqb _ (Inv_run keqb keqb_spec p c h Hp Hc Hv)).
  Qed.

  (* ... so with prompt sweeps each overflow costs at most one partition's worth of entries *)
  Theorem C03_one_partition p c (h : list label) k v :
    reachable p c h ->
    let s := run keqb (init p c) h in
    length (parts s) <= P s ->
    len (set keqb s k v) <= C s + len (sweep (set keqb s k v)).
  Proof.
    intros (Hp & Hc & Hv). exact (overflow_cost keqb keqb_spec _ k v (Inv_run keqb keqb_spec p c h Hp Hc Hv)).
  Qed.
End C03.

(* non-vacuity: update does not renew, re-insertion does *)
Example C03_ex :
  let h := [LSet 1 10; LSet 2 20; LSet 3 30; LSet 1 11; LDelete 2; LSet 2 21; LSet 4 40; LSet 5 50; LSweep]%nat in
  let '(s, g) := grun Nat.eqb (init 2 2, ghost0 0) h in
  born g = [(1, 0); (3, 2); (2, 5); (4, 6); (5, 7)] /\ n_ins g = 6
  /\ map (get Nat.eqb s) [1; 2; 3; 4; 5] = [None; Some 21; Some 30; Some 40; Some 50].
Proof. repeat split. Qed.

Print Assumptions C03_fifo.
Print Assumptions C03_not_early.
Print Assumptions C03_sweep_removes.
Print Assumptions C03_one_partition.
