(* X04 — storage/orderedBTree.go (wrapper over github.com/google/btree, trusted by contract as an ordered
   map): Set/Get/Delete/Has/Len/Min/Max/DeleteMin/DeleteMax/Clone refine the finite-map specification for
   every operation sequence; each Ascend*/Descend* variant visits exactly the keys in its range, in order,
   stopping when the callback returns false.  Property theorems only. *)
From Coq Require Import List Bool ZArith Arith Sorted Lia.
From TC.Lib Require Import Assoc.
From TC.Model Require Import OrderedMap.
From TC.Proofs Require Import OrderedMapProofs OrderedMapRefine.
Import ListNotations.
Local Open Scope Z_scope.

Section X04.
  Context {V : Type}.
  Variable vnil : V.

  (* One step, from any pair of well-formed trees (receiver selected by the boolean): the trees stay
     well formed, the receiver changes and answers exactly as the finite-map specification [spec1] says
     (stated through [get] only), and the other tree is untouched — except by Clone, which makes it a copy. *)
  Theorem X04_step_refines (s : @state V) (to : bool * @op V) :
    wf s -> wf (fst (step vnil s to)) /\ spec_step vnil s to (snd (step vnil s to)) (fst (step vnil s to)).
  Proof. exact (step_refines vnil s to). Qed.

  (* Every history: after ANY sequence of operations from two empty trees the state is well formed, the
     next operation (any) meets its specification, and [run] is exactly the iteration of [step]. *)
  Theorem X04_every_history (ops : list (bool * @op V)) (o : bool * @op V) :
    let s := fst (run vnil init ops) in
    wf s
    /\ spec_step vnil s o (snd (step vnil s o)) (fst (step vnil s o))
    /\ run vnil init (ops ++ [o]) = (fst (step vnil s o), snd (run vnil init ops) ++ [snd (step vnil s o)]).
  Proof.
    intros s. assert (W : wf s) by (apply run_wf, wf_init).
    split; [exact W|]. split; [apply (step_refines vnil s o W)|apply run_snoc].
  Qed.

  (* The specification determines the tree: two sorted lists with the same bindings are equal, so
     "spec1 through get" leaves no freedom to the model. *)
  Theorem X04_canonical (m1 m2 : @omap V) :
    sorted m1 -> sorted m2 -> (forall k, get k m1 = get k m2) -> m1 = m2.
  Proof. exact (canonical m1 m2). Qed.

  (* The bounds of every range variant, as the wrapper passes its arguments to btree
     (a = first bound argument, b = second). *)
  Theorem X04_ranges (a b k : Z) :
    (in_range IAscend a b k = true)
    /\ (in_range IAscendGE a b k = true <-> a <= k)
    /\ (in_range IAscendLT a b k = true <-> k < a)
    /\ (in_range IAscendRange a b k = true <-> a <= k < b)
    /\ (in_range IDescend a b k = true)
    /\ (in_range IDescendLE a b k = true <-> k <= a)
    /\ (in_range IDescendGT a b k = true <-> a < k)
    /\ (in_range IDescendRange a b k = true <-> b < k <= a)
    /\ (forall it, descending it = true <-> In it [IDescend; IDescendLE; IDescendGT; IDescendRange]).
  Proof.
    simpl. rewrite !andb_true_iff, !Z.leb_le, !Z.ltb_lt. repeat split; try lia.
    - destruct it; simpl; intros H; try discriminate; auto.
    - intros [<- | [<- | [<- | [<- | []]]]]; reflexivity.
  Qed.

  (* Iteration on a well-formed tree: there is a list R of exactly the bound entries whose key is in
     range, strictly ascending (descending for the Descend variants), and the callback sees a prefix of R: every
     visited entry but the last returned true, and if R was not exhausted the last visited entry returned
     false; the first entry of a non-empty range is always visited. *)
  Theorem X04_iteration (m : @omap V) it a b cb :
    sorted m ->
    exists R, range_spec m (in_range it a b) (descending it) R
              /\ visit_spec (cb_go cb) R (iterate it a b cb m).
  Proof.
    intros H. unfold iterate. eexists. split; [|apply visit_ok].
    destruct (descending it); [apply range_desc_spec, H|apply range_asc_spec, H].
  Qed.

  (* ... and both the range list and the visited list are uniquely determined by that description *)
  Theorem X04_iteration_deterministic (m : @omap V) inr desc f R1 R2 v1 v2 :
    range_spec m inr desc R1 -> range_spec m inr desc R2 ->
    visit_spec f R1 v1 -> visit_spec f R2 v2 -> R1 = R2 /\ v1 = v2.
  Proof.
    intros A1 A2 B1 B2. pose proof (range_unique m inr desc R1 R2 A1 A2) as E. subst R2.
    split; [reflexivity|exact (visit_unique f R1 v1 v2 B1 B2)].
  Qed.

  (* a callback that always returns true sees the whole range; one that returns false at once sees one entry *)
  Theorem X04_iteration_extremes (m : @omap V) it a b :
    sorted m ->
    range_spec m (in_range it a b) (descending it) (iterate it a b {| stop_after := 0; stop_keys := [] |} m)
    /\ length (iterate it a b {| stop_after := 1; stop_keys := [] |} m) = 
         Nat.min 1 (length (iterate it a b {| stop_after := 0; stop_keys := [] |} m)).
  Proof.
    intros H. unfold iterate.
    set (R := if descending it then range_desc (in_range it a b) m else range_asc (in_range it a b) m).
    assert (HR : range_spec m (in_range it a b) (descending it) R).
    { unfold R. destruct (descending it); [apply range_desc_spec, H|apply range_asc_spec, H]. }
    rewrite (visit_all _ 0 R) by (intros j k _; unfold cb_go; simpl; destruct j; reflexivity).
    split; [exact HR|]. destruct R as [|[k v] t]; [reflexivity|]. reflexivity.
  Qed.

  (* the map laws in directly usable form *)
  Theorem X04_map_laws (m : @omap V) k k' v :
    sorted m ->
    get k (set k v m) = Some v
    /\ (k' <> k -> get k' (set k v m) = get k' m)
    /\ get k (snd (delete k m)) = None
    /\ (k' <> k -> get k' (snd (delete k m)) = get k' m)
    /\ fst (delete k m) = get k m
    /\ sorted (set k v m) /\ sorted (snd (delete k m))
    /\ length (set k v m) = (length m + match get k m with Some _ => 0 | None => 1 end)%nat.
  Proof.
    intros H. rewrite !get_set, Z.eqb_refl. unfold delete. simpl. rewrite !(get_remove k m _ H), Z.eqb_refl.
    split; [reflexivity|]. split; [intros N; apply Z.eqb_neq in N; rewrite N; reflexivity|].
    split; [reflexivity|]. split; [intros N; apply Z.eqb_neq in N; rewrite N; reflexivity|].
    split; [reflexivity|]. split; [apply set_sorted, H|]. split; [apply remove_sorted, H|].
    apply length_set, H.
  Qed.
End X04.

(* non-vacuity: a concrete history on two trees with Clone, every range variant, early stops *)
Definition ex_ops : list (bool * @op Z) :=
  [(false, OSet 5 50); (false, OSet 1 10); (false, OSet 3 30); (false, OSet 3 31); (false, OClone);
   (true, ODelete 1); (true, OSet 9 90); (false, OLen); (true, OLen); (false, OMin); (true, OMax);
   (false, OIter IAscendRange 1 5 {| stop_after := 0; stop_keys := [] |});
   (false, OIter IDescendRange 5 1 {| stop_after := 0; stop_keys := [] |});
   (false, OIter IDescendRange 1 5 {| stop_after := 0; stop_keys := [] |});
   (true, OIter IDescend 0 0 {| stop_after := 2; stop_keys := [] |});
   (true, OIter IAscendGE 4 0 {| stop_after := 0; stop_keys := [5] |});
   (true, ODeleteMin); (true, ODeleteMin); (true, ODeleteMin); (true, ODeleteMin); (true, OGet 3); (false, OGet 3)].
Example X04_ex_run :
  run 0 init ex_ops =
    (([(1,10); (3,31); (5,50)], []),
     [RUnit; RUnit; RUnit; RUnit; RUnit; ROpt (Some 10); RUnit; RNat 3; RNat 3; RKV 1 10; RKV 9 90;
      RVisit [(1,10); (3,31)]; RVisit [(5,50); (3,31)]; RVisit [];
      RVisit [(9,90); (5,50)]; RVisit [(5,50)];
      RKV 3 31; RKV 5 50; RKV 9 90; RKV 0 0; ROpt None; ROpt (Some 31)]).
Proof. reflexivity. Qed.

Print Assumptions X04_step_refines.
Print Assumptions X04_every_history.
Print Assumptions X04_canonical.
Print Assumptions X04_ranges.
Print Assumptions X04_iteration.
Print Assumptions X04_iteration_deterministic.
Print Assumptions X04_iteration_extremes.
Print Assumptions X04_map_laws.
