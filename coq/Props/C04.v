(* C04 — the work queue runs every accepted work item exactly once; WorkItems() is faithful.

   Model: Model/WQ.v, variant [fixed].  "Any number of concurrent producers, any worker count and queue length,
   every interleaving" = every label list [ls] with [run fixed (init W L) ls = Some s]: [Enq] labels are Enqueue calls
   (a blocked producer is an item in [producers]; any number of them), internal labels are the steps of dispatcher
   and workers in any order, [Finish] is a work function returning.
   "Accepted" = Enqueue started on a queue that is not stopped ([EvEnq id true]); "on a running queue" = the label list
   contains no Stop/Break ([forallb no_stop ls]) - shutdown is C19.  Ghost: [EvStart id] = the work function of id is
   called; [done] = ids whose worker has passed workItems.Delete.
   Liveness is termination + stuck-freedom (DESIGN.md section 3): every internal step and every completion strictly
   decreases [measure] (C04_terminates), and a state in which no internal step is enabled and no work function is
   executing has nothing left to run (C04_stuck_free), so with terminating work every maximal run ends with every
   accepted, non-dequeued item started exactly once (C04_exactly_once).
   Property theorems only; proofs in Proofs/WQCons.v (conservation, at most once, workItems) and Proofs/WQLive.v. *)
From Coq Require Import List Arith ZArith Bool Lia.
From TC.Lib Require Import GoHeap GoHeapProofs.
From TC.Model Require Import WQ.
From TC.Proofs Require Import WQHeap WQInv WQCons WQLive WQC16.
From TC.Findings Require WQ.
Import ListNotations.

Local Notation reachable W L ls s := (run fixed (init W L) ls = Some s).
Lemma rr W L ls s : reachable W L ls s -> reach fixed s.
Proof. intros H. eapply run_reach; [apply reach_init|exact H]. Qed.

(* Conservation, for ALL label sequences (including Dequeue, SetPriority, Stop, Break): every id ever issued is in
   exactly one place - blocked producer, dispatcher's hand, heap, worker channel, executing, reporting its error,
   about to be deleted, finished, dequeued, or dropped by a stopped queue - and no other id is anywhere. *)
Theorem C04_conservation : forall W L ls s k,
  reachable W L ls s ->
  cnt k (producers s) + cnt k (held (disp s)) + cnt k (heap s) + cnt k (buffer s) + cnt k (running s)
  + cnt k (map fst (senderr s)) + cnt k (deleting s) + cnt k (removed s) + cnt k (dropped s) + cntn k (done s)
  = if k <? nextid s then 1 else 0.
Proof. intros W L ls s k Hr. exact (cons_reach s (rr _ _ _ _ Hr) k). Qed.

(* Each Enqueue call gets a distinct id: the ids issued so far are 0 .. nextid-1, each once. *)
Theorem C04_distinct_ids : forall W L ls s,
  reachable W L ls s -> enq_ids (trace s) = rev (seq 0 (nextid s)) /\ NoDup (enq_ids (trace s)).
Proof.
  intros W L ls s Hr. pose proof (enq_ids_reach s (rr _ _ _ _ Hr)) as H. split; [exact H|].
  rewrite H. apply NoDup_rev, seq_NoDup.
Qed.

(* Never run twice (all label sequences): a work function is called at most once, and it has been called exactly
   for the items that are executing or past execution. *)
Theorem C04_at_most_once : forall W L ls s k,
  reachable W L ls s ->
  nstart k (trace s) <= 1 /\
  nstart k (trace s) = cnt k (running s) + cnt k (map fst (senderr s)) + cnt k (deleting s) + cntn k (done s).
Proof.
  intros W L ls s k Hr. pose proof (rr _ _ _ _ Hr) as R. split; [apply at_most_once, R|apply (started_reach s R)].
Qed.

(* Never dropped: on a running queue (no Stop/Break in the history, W >= 1), at a state where no internal step is
   enabled, no work function is executing and no worker is still reporting an error, nothing is left anywhere:
   no producer is blocked, the dispatcher is idle with an empty heap and worker channel, all workers are idle. *)
Theorem C04_stuck_free : forall W L ls s,
  1 <= W -> forallb no_stop ls = true -> reachable W L ls s -> panicked s = false ->
  quiescent fixed s -> running s = [] -> senderr s = [] ->
  producers s = [] /\ disp s = PhIdle /\ heap s = [] /\ buffer s = [] /\ deleting s = [] /\
  posting s = 0 /\ tokens s = 0 /\ idle s = W.
Proof.
  intros W L ls s HW Hl Hr Hnp Hq Hrun He.
  pose proof (sW_run ls _ _ Hr) as HsW. cbn in HsW.
  rewrite <- HsW. apply stuck_free; auto; [apply (rr _ _ _ _ Hr)|eapply live_reach; eauto|lia].
Qed.

(* ... hence every id issued was either dequeued or has finished, and a finished item was started exactly once *)
Theorem C04_exactly_once : forall W L ls s k,
  1 <= W -> forallb no_stop ls = true -> reachable W L ls s -> panicked s = false ->
  quiescent fixed s -> running s = [] -> senderr s = [] ->
  k < nextid s ->
  (cnt k (removed s) = 1 /\ nstart k (trace s) = 0) \/ (cntn k (done s) = 1 /\ nstart k (trace s) = 1).
Proof.
  intros W L ls s k HW Hl Hr Hnp Hq Hrun He Hk.
  pose proof (rr _ _ _ _ Hr) as R. pose proof (sW_run ls _ _ Hr) as HsW. cbn in HsW.
  assert (Hd : cnt k (removed s) + cntn k (done s) = 1).
  { apply all_done; auto; [eapply live_reach; eauto|lia]. }
  pose proof (started_reach s R k) as Hs.
  destruct (stuck_free s R (live_reach _ _ _ _ Hl Hr) Hnp ltac:(lia) Hq Hrun He) as (_ & _ & _ & _ & Hdel & _).
  rewrite Hrun, He, Hdel in Hs. cbn in Hs.
  destruct (cnt k (removed s)) as [|[|n]] eqn:E; [right|left|]; lia.
Qed.

(* Every maximal run reaches such a state when work terminates: each internal step of a running queue and each
   completion strictly decreases the measure 20*producers + dispatcher phase + 12*heap + 8*buffer + 6*running
   + 5*senderr + 4*deleting + 2*posting + tokens. *)
Theorem C04_terminates : forall W L ls s l s',
  forallb no_stop ls = true -> reachable W L ls s -> step fixed s l = Some s' ->
  (is_internal l = true \/ exists id r, l = Finish id r) -> measure s' < measure s.
Proof.
  intros W L ls s l s' Hl Hr Hs [Hi|(id & r & ->)].
  - eapply measure_decreases; eauto. eapply live_reach; eauto.
  - eapply measure_finish; eauto.
Qed.

(* WorkItems(): the ids in the sync.Map are exactly those of the items not yet past workItems.Delete and not
   dequeued - each once -, wherever they are (all label sequences); each is listed with the name and the current
   priority of its one record ([find_item]); the executing ones are IN_PROGRESS. *)
Theorem C04_workitems : forall W L ls s k,
  reachable W L ls s ->
  cntn k (workitems s)
  = cnt k (producers s) + cnt k (held (disp s)) + cnt k (heap s) + cnt k (buffer s) + cnt k (running s)
    + cnt k (map fst (senderr s)) + cnt k (deleting s) + cnt k (dropped s)
  /\ cntn k (workitems s) <= 1
  /\ (forall x, In x (running s) -> ist x = true)
  /\ (forall x, In x (producers s ++ held (disp s) ++ heap s) -> ist x = false).
Proof.
  intros W L ls s k Hr. pose proof (rr _ _ _ _ Hr) as R.
  pose proof (wi_reach s R k) as Hw. pose proof (cons_reach s R k) as Hc. unfold total in Hc.
  split; [exact Hw|]. split; [destruct (k <? nextid s); lia|]. split; [apply (st_reach s R)|].
  destruct (dq_reach s R) as (H1 & H2 & H3). rewrite Forall_forall in H1, H2, H3.
  intros x Hx. rewrite !in_app_iff in Hx. destruct Hx as [Hx|[Hx|Hx]]; [exact (H1 x Hx)|exact (H2 x Hx)|exact (H3 x Hx)].
Qed.

(* ---- non-vacuity: a run with a full queue and two blocked producers that ends in a state meeting the hypotheses
   of C04_stuck_free / C04_exactly_once, all seven items finished ---- *)
Example C04_nonvacuous :
  exists ls s, forallb no_stop ls = true /\ run fixed (init 1 2) ls = Some s /\ panicked s = false /\
    quiescentb fixed s = true /\ running s = [] /\ senderr s = [] /\ nextid s = 7 /\ length (done s) = 7.
Proof.
  exists WQ.labels_C04_example.
  destruct (run fixed (init 1 2) WQ.labels_C04_example) as [s|] eqn:E; [|vm_compute in E; discriminate E].
  exists s. split; [vm_compute; reflexivity|]. split; [reflexivity|].
  vm_compute in E. injection E as <-. vm_compute. repeat split.
Qed.

Print Assumptions C04_conservation.
Print Assumptions C04_distinct_ids.
Print Assumptions C04_at_most_once.
Print Assumptions C04_stuck_free.
Print Assumptions C04_exactly_once.
Print Assumptions C04_terminates.
Print Assumptions C04_workitems.
