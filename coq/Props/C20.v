(* C20 — ValidationError flattening is faithful and reading it has no side effects.
   Property theorems only; each is closed by [exact]/[apply] of a lemma from Proofs/VErrProofs.v.

   Setting (Model/VErr.v): Go map objects live in a heap [h] (address = index), a ValidationError is a tree
   [t : ve] whose nodes refer to their error / warning maps by [mref] (None = nil map).  [wf h t]: every
   reference in t is an allocated address - true of every tree the three constructors can build from maps
   that exist (C20_constructors, C20_every_construction_wf), whatever is nil, shared or empty.  [abs h t : vt] is the value of the
   tree (the contents of its maps).  The SPECIFICATION of flattening is [pairs w (abs h t)]: the multiset
   of (key, message) pairs defined by C20_spec_unfold / characterised by paths in C20_spec_paths; results
   are compared up to [Permutation] because Go iterates maps in an unspecified order.
   [agree (length h) h h']: h' has all maps of h, unchanged, at the same addresses (plus fresh ones). *)
From Coq Require Import String Ascii List Bool Arith Permutation.
From TC.Lib Require Import StrAux.
From TC.Model Require Import VErr.
From TC.Proofs Require Import VErrProofs.
Import ListNotations.

(* ---- what "flattened" means ---- *)
(* the specification, unfolded once: the node's own messages under their field names, and for every child
   (c, t') the pairs of t' with "c." prepended; w = false for errors, true for warnings, never mixed *)
Theorem C20_spec_unfold (w : bool) (e wn : option amap) (ks : option (list (string * vt))) :
  pairs w (Node e wn ks) =
  entries (omap (if w then wn else e)) ++
  flat_map (fun kc => map (fun km => ((fst kc +++ dot) +++ fst km, snd km)) (pairs w (snd kc))) (okids ks).
Proof. destruct ks; reflexivity. Qed.

(* ... equivalently: (k, m) is a flat pair iff m is stored in the w-map of some node under a field f and
   k = c1.c2. ... .cn.f for the chain of child names leading to that node *)
Theorem C20_spec_paths (w : bool) (a : vt) (k m : string) : In (k, m) (pairs w a) <-> has_msg w a k m.
Proof. exact (pairs_paths w a k m). Qed.

(* errors and warnings are kept apart: the flat errors are those of the tree with every warning map removed,
   which has no flat warnings at all (and symmetrically) *)
Theorem C20_kinds_apart (w : bool) (a : vt) :
  pairs w (only w a) = pairs w a /\ pairs (negb w) (only w a) = [].
Proof. split; [exact (pairs_only_same w a)|exact (pairs_only_other w a)]. Qed.

(* the specification does not depend on the order in which maps are iterated, at any level of the tree:
   permuting the entries of a node's map, permuting its children, or replacing children by children with
   permuted pairs, permutes the pairs *)
Theorem C20_iteration_order_irrelevant (w : bool) (e wn e' wn' : option amap) (ks : option (list (string * vt)))
        (l l' l'' : list (string * vt)) :
  (Permutation (omap (sel w e wn)) (omap (sel w e' wn')) ->
   Permutation (pairs w (Node e wn ks)) (pairs w (Node e' wn' ks))) /\
  (Permutation l l' -> Permutation (pairs w (Node e wn (Some l))) (pairs w (Node e wn (Some l')))) /\
  (Forall2 (fun kc kc' => fst kc = fst kc' /\ Permutation (pairs w (snd kc)) (pairs w (snd kc'))) l l'' ->
   Permutation (pairs w (Node e wn (Some l))) (pairs w (Node e wn (Some l'')))).
Proof.
  split; [exact (pairs_perm_top w e wn e' wn' ks)|].
  split; [exact (pairs_perm_kids w e wn l l')|exact (pairs_perm_congr w e wn l l'')].
Qed.

(* ---- GetFlatErrorMap (w = false) / GetFlatWarningMap (w = true) ---- *)
(* for EVERY well-formed tree in EVERY heap: no panic; the result is a fresh map (its address is the first
   free one), every existing map is unchanged, and its contents are exactly the specified pairs *)
Theorem C20_flat_spec (w : bool) (t : ve) (h : heap) :
  wf h t = true ->
  exists h' m, get_flat w t h = Result (length h, h') /\
               agree (length h) h h' /\
               nth_error h' (length h) = Some m /\
               Permutation (entries m) (pairs w (abs h t)).
Proof.
  intros Hwf. destruct (get_flat_spec w t h Hwf) as [h' [E [A [_ [m [Em Pm]]]]]].
  exists h', m. repeat split; try assumption; apply A.
Qed.

(* ---- Error() ---- *)
(* the lines written by Error() are, up to order, "ERROR: m\n" for each flat error message and
   "WARNING: m\n" for each flat warning message, each exactly once; the string is their concatenation *)
Theorem C20_error_string_spec (t : ve) (h : heap) :
  wf h t = true ->
  exists ls h', error_lines t h = Result (ls, h') /\
                error_string t h = Result (String.concat empty_str ls, h') /\
                agree (length h) h h' /\
                Permutation ls (map err_line (map snd (pairs false (abs h t))) ++
                                map warn_line (map snd (pairs true (abs h t)))).
Proof.
  intros Hwf. destruct (error_lines_spec t h Hwf) as [ls [h' [E [A P]]]].
  exists ls, h'. split; [exact E|]. split; [unfold error_string; now rewrite E|]. split; [exact A|exact P].
Qed.

(* ---- reads never change the receiver, never panic, and are repeatable ---- *)
(* for every well-formed tree and EVERY sequence of reads (Error, GetFlatErrorMap, GetFlatWarningMap,
   GetErrorMap, GetWarningMap): the run does not panic, every map that existed before is unchanged, the value
   of the receiver is the same afterwards, and every answer is the one specified for that read by the value
   the receiver had BEFORE the sequence *)
Theorem C20_reads_pure (t : ve) (ops : list read_op) (h : heap) :
  wf h t = true ->
  exists vs h', run_reads ops t h = Result (vs, h') /\
                agree (length h) h h' /\
                abs h' t = abs h t /\
                Forall2 (val_spec (abs h t)) ops vs.
Proof. exact (run_reads_spec t ops h). Qed.

(* consequently two reads of the same kind anywhere in any sequence give the same answer (the same lines /
   the same (key,message) pairs, up to the order of iteration; the same top-level map) *)
Theorem C20_reads_repeatable (t : ve) (ops : list read_op) (h : heap) :
  wf h t = true ->
  exists vs h', run_reads ops t h = Result (vs, h') /\
    forall i j op vi vj, nth_error ops i = Some op -> nth_error ops j = Some op ->
                         nth_error vs i = Some vi -> nth_error vs j = Some vj -> val_equiv vi vj.
Proof.
  intros Hwf. destruct (run_reads_spec t ops h Hwf) as [vs [h' [E [_ [_ F]]]]].
  exists vs, h'. split; [exact E|]. intros i j op vi vj Oi Oj Vi Vj.
  assert (G : forall k o v, nth_error ops k = Some o -> nth_error vs k = Some v -> val_spec (abs h t) o v).
  { clear -F. induction F as [|o v ops vs Hov _ IH]; intros [|k] o' v' Ho Hv; simpl in *; try discriminate.
    - injection Ho as <-. injection Hv as <-. exact Hov.
    - eapply IH; eassumption. }
  eapply val_spec_equiv; [exact (G i op vi Oi Vi)|exact (G j op vj Oj Vj)].
Qed.

(* ---- every tree the three constructors build is well formed (so all of the above applies to it), and
        constructing changes no existing map ---- *)
Theorem C20_constructors (h : heap) :
  (forall ctx msg isw,
      let '(t, h') := new_validation_error ctx msg isw h in
      wf h' t = true /\ agree (length h) h h' /\
      abs h' t = if isw then Node (Some []) (Some [(ctx, [msg])]) None
                 else Node (Some [(ctx, [msg])]) (Some []) None) /\
  (forall errs ks, ref_ok (length h) errs = true -> kids_wf (length h) ks = true ->
      let '(t, h') := new_validation_errors errs ks h in
      wf h' t = true /\ agree (length h) h h' /\ get_child_errors t = ks /\ get_warning_map t = None /\
      deref h' (get_error_map t) = match errs with None => Some [] | Some _ => deref h errs end) /\
  (forall errs warns ks, ref_ok (length h) errs = true -> ref_ok (length h) warns = true ->
      kids_wf (length h) ks = true ->
      let '(t, h') := new_validation_errors_with_warnings errs warns ks h in
      wf h' t = true /\ agree (length h) h h' /\ get_child_errors t = ks /\ get_warning_map t = warns /\
      deref h' (get_error_map t) = match errs, warns with None, None => Some [] | _, _ => deref h errs end).
Proof.
  split; [intros; apply new_validation_error_spec|].
  split; [intros; now apply new_validation_errors_spec|intros; now apply new_validation_errors_with_warnings_spec].
Qed.

(* hence: EVERY nesting of constructor calls ([bexp]: any depth and fan-out, any constructor at any node, any
   caller-made map of the heap or nil at any place, the same map object at several places) yields a well-formed
   tree and changes no existing map *)
Theorem C20_every_construction_wf (b : bexp) (h : heap) (t : ve) (h' : heap) :
  bexp_ok (length h) b = true -> build b h = (t, h') ->
  wf h' t = true /\ agree (length h) h h'.
Proof. intros Hok E. exact (build_ok (length h) b h t h' (le_n _) Hok E). Qed.

(* ---- AddErrorToValidation ---- *)
(* for EVERY pair of arguments - nil interface, nil pointer, any other error, a ValidationError, or any of
   these wrapped any number of times - in every heap where the ValidationErrors inside them are well formed
   (they may share maps with each other, or be the same object): no panic; the result (None = nil, only when
   there is nothing to report) is well formed, so every read theorem applies to it; and its flat errors contain
   the flat errors of both arguments, its flat warnings their flat warnings, as multisets of (key, message)
   pairs ([msubP]).  An argument that is not and does not wrap a ValidationError counts as one error message,
   its Error() text, under the empty key.  Maps are only ever added to ([heap_le]). *)
Theorem C20_add_contains (e1 e2 : err) (h : heap) :
  err_wf h e1 = true -> err_wf h e2 = true ->
  exists r h', add_error_to_validation e1 e2 h = Result (r, h') /\
    heap_le h h' /\
    match r with Some t => wf h' t = true | None => True end /\
    forall w, msubP (err_pairs w h e1 ++ err_pairs w h e2) (res_pairs w h' r).
Proof. exact (add_contains e1 e2 h). Qed.

(* ---- histories: reads and AddErrorToValidation calls interleaved on the same objects ---- *)
(* [run_history ops cur h]: the running object cur (a *ValidationError variable, None = nil) goes through ANY
   sequence of: a read of cur; a read of a descendant reached through GetChildErrors; cur = AddErrorToValidation(cur, a);
   cur = AddErrorToValidation(a, cur); AddErrorToValidation(descendant, a) - with a any nil / plain / freshly
   constructed ValidationError / wrapped argument.  For every such history from a well-formed start: no panic, and
   every step is as specified IN THE STATE THE PREVIOUS STEPS LEFT ([hist_ok] chains [hstep_ok]):
     - a read returns what the specification says for the value the object has AT THAT MOMENT (whatever was read
       or added before) and changes no map;
     - after an Add the running object contains, as multisets of pairs, everything it held before plus the
       argument's messages, and is well formed again;
     - no step ever removes a pair from the running object. *)
Theorem C20_history (ops : list hop) (cur : option ve) (h : heap) :
  forallb (hop_ok (length h)) ops = true -> cur_wf h cur = true ->
  exists xs cur' h', run_history ops cur h = Result (xs, cur', h') /\ hist_ok ops cur h xs cur' h'.
Proof. exact (run_history_spec (length h) ops cur h (le_n _)). Qed.

(* over a whole history nothing is lost: whatever the running object held at the start (and, applying this to a
   suffix, whatever an Add put into it) is still reported by the flat maps at the end *)
Theorem C20_history_nothing_lost (ops : list hop) (cur : option ve) (h : heap) xs cur' h' :
  hist_ok ops cur h xs cur' h' ->
  heap_le h h' /\ forall w, msubP (res_pairs w h cur) (res_pairs w h' cur').
Proof. exact (hist_nothing_lost ops cur h xs cur' h'). Qed.

(* ---- non-vacuity ---- *)
Local Open Scope string_scope.

(* a three-level tree with colliding keys: child "a" + field "b.c", child "a.b" + field "c", grandchild a/b
   field "c" and a top-level field "a.b.c" all flatten to "a.b.c"; warnings at two levels; nil maps *)
Definition ex_heap : heap :=
  [ [("a.b.c", ["top"]); ("x", [])];        (* 0: root errors *)
    [("b.c", ["from a"])];                   (* 1: errors of child "a" *)
    [("c", ["from a.b"; "again"])];          (* 2: errors of child "a.b" *)
    [("c", ["from a/b"])];                   (* 3: errors of grandchild "a" / "b" *)
    [("c", ["careful"])] ].                  (* 4: warnings, shared by child "a" and the grandchild *)
Definition ex_tree : ve :=
  Node (Some 0) None
       (Some [("a", Node (Some 1) (Some 4) (Some [("b", Node (Some 3) (Some 4) None)]));
              ("a.b", Node (Some 2) None None)]).

Example ex_wf : wf ex_heap ex_tree = true.
Proof. reflexivity. Qed.

Example ex_pairs_errors :
  pairs false (abs ex_heap ex_tree) =
  [("a.b.c", "top"); ("a.b.c", "from a"); ("a.b.c", "from a/b"); ("a.b.c", "from a.b"); ("a.b.c", "again")].
Proof. reflexivity. Qed.

Example ex_pairs_warnings :
  pairs true (abs ex_heap ex_tree) = [("a.c", "careful"); ("a.b.c", "careful")].
Proof. reflexivity. Qed.

Example ex_flat_runs :
  exists h' m, get_flat false ex_tree ex_heap = Result (5, h') /\ nth_error h' 5 = Some m /\
               m = [("a.b.c", ["top"; "from a"; "from a/b"; "from a.b"; "again"]); ("x", [])] /\
               firstn 5 h' = ex_heap.
Proof. eexists _, _. split; [vm_compute; reflexivity|]. split; [reflexivity|]. split; reflexivity. Qed.

Example ex_error_string :
  exists h', error_string ex_tree ex_heap =
    Result ("ERROR: top" +++ nl +++ "ERROR: from a" +++ nl +++ "ERROR: from a/b" +++ nl +++
            "ERROR: from a.b" +++ nl +++ "ERROR: again" +++ nl +++
            "WARNING: careful" +++ nl +++ "WARNING: careful" +++ nl, h').
Proof. eexists. vm_compute. reflexivity. Qed.

(* the constructors, then AddErrorToValidation on (wrapped ValidationError, plain error) and on (nil, nil) *)
Example ex_add :
  let '(t, h1) := new_validation_error "Name" "required" false [] in
  exists r h', add_error_to_validation (EWrap "ctx" (EVE t)) (EPlain "boom") h1 = Result (Some r, h') /\
               pairs false (abs h' r) = [("Name", "required"); ("", "boom")] /\
               add_error_to_validation ENil ENilPtr h1 = Result (None, h1).
Proof. vm_compute. eexists _, _. split; [reflexivity|]. split; reflexivity. Qed.

(* read (Error), join a plain error, read again: the joined message is in the flat map and rendered once;
   then a child is extended and the parent read again *)
Example ex_history :
  let b := BWW (Some 0) (Some 1) (Some [("Address", BNew "Zip" "is invalid" false)]) in
  let h0 : heap := [[("Name", ["is required"])]; [("Email", ["looks odd"])]] in
  let '(t, h) := build b h0 in
  exists cur' h',
    run_history [HRead RError; HAdd (APlain "lookup failed"); HRead RFlatE; HRead RError;
                 HAddChild ["Address"] (APlain "no such street"); HRead RFlatE] (Some t) h =
    Result ([HVal (VLines ["ERROR: is required" +++ nl; "ERROR: is invalid" +++ nl; "WARNING: looks odd" +++ nl]);
             HAbs (Some (Node (Some [("Name", ["is required"]); ("", ["lookup failed"])]) (Some [("Email", ["looks odd"])])
                              (Some [("Address", Node (Some [("Zip", ["is invalid"])]) (Some []) None)])));
             HVal (VMap (Some [("Name", ["is required"]); ("", ["lookup failed"]); ("Address.Zip", ["is invalid"])]));
             HVal (VLines ["ERROR: is required" +++ nl; "ERROR: lookup failed" +++ nl; "ERROR: is invalid" +++ nl;
                           "WARNING: looks odd" +++ nl]);
             HAbs (Some (Node (Some [("Name", ["is required"]); ("", ["lookup failed"])]) (Some [("Email", ["looks odd"])])
                              (Some [("Address", Node (Some [("Zip", ["is invalid"]); ("", ["no such street"])]) (Some []) None)])));
             HVal (VMap (Some [("Name", ["is required"]); ("", ["lookup failed"]); ("Address.Zip", ["is invalid"]);
                               ("Address.", ["no such street"])]))],
            cur', h').
Proof. vm_compute. eexists _, _. reflexivity. Qed.

Example ex_has_msg : has_msg false (abs ex_heap ex_tree) "a.b.c" "from a/b".
Proof. apply C20_spec_paths. vm_compute. tauto. Qed.

Print Assumptions C20_spec_unfold.
Print Assumptions C20_spec_paths.
Print Assumptions C20_kinds_apart.
Print Assumptions C20_iteration_order_irrelevant.
Print Assumptions C20_flat_spec.
Print Assumptions C20_error_string_spec.
Print Assumptions C20_reads_pure.
Print Assumptions C20_reads_repeatable.
Print Assumptions C20_constructors.
Print Assumptions C20_every_construction_wf.
Print Assumptions C20_add_contains.
Print Assumptions C20_history.
Print Assumptions C20_history_nothing_lost.
