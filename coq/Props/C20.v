(* C20 — property theorems (placeholder while the pipeline is brought up; filled in below). *)
From Coq Require Import String List.
From TC.Model Require Import VErr.
