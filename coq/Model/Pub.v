(* Executable model of /repo/publisher/publication.go (after the fixes F11 and F16), shared by
   C06, C15 and C10.  Definitions only.

   A labelled transition system.  One step = one atomic action of the Go code:

     Subscribe        p.subscriberCount.Add(1) ... p.subscribers.Store(id, sub); the timeout is an integer
                      number of ticks and may be zero or negative: time.After(d) fires immediately for
                      d <= 0, so the effective timeout is max(0, d) ([Z.to_nat])
     PubBegin m       a call Publish(m) starts (its Range begins)
     Visit p s        the Range of call p yields subscriber s: the filter is consulted and either the
                      delivery goroutine is spawned ([PSpawned]) or the pair is [PFiltered] and
                      OnFiltered (if set) is called
     PubEnd p         the Range is exhausted, Publish returns
     Enter p s        the delivery goroutine takes s.mu.RLock(); if s.closed it returns ([PDropped]),
                      otherwise it enters the select (its timer is started: deadline = now + timeout)
     Deliver p s      the send arm of the select: the message enters the channel buffer
     Rendezvous p s   the send arm meets a receiver that is waiting on an empty channel (the only way
                      for capacity 0); environment label (the subscriber receives)
     Timeout p s      the time.After arm; OnTimeout (if set) is called
     Drop p s         the <-s.done arm (the subscriber is being closed)
     Recv s           the subscriber takes the head of the buffer (or sees "closed" / nothing)
     Tick             time passes
     CloseSub s       Subscriber.Close / one iteration of Publication.Close:
                      LoadAndDelete(id); the taker closes s.done (wakes the pending selects)
     FinishClose s    the closer obtains s.mu.Lock() (possible only when no delivery of s is inside its
                      select), sets s.closed and closes the receive channel

   The panics of the Go runtime are part of the model: a send on a closed channel ([Deliver] while
   [Closed]) and a second close ([CloseSub] finding s.done already closed) set [panicked].  That they
   are unreachable is theorem C10_no_panic, not a feature of the definitions.

   Subscribers and publish calls are numbered in creation order; maps are total functions on [nat]
   with explicit bounds [nsub]/[npub].  The state of a (call, subscriber) pair - the control state of
   its delivery goroutine, or its final fate - is one value [pst]: a pair is therefore always in exactly
   one of: not visited, pending (spawned / in select), delivered, filtered, timed out, dropped.

   Range contract of sync.Map (trusted, see notes): a call visits a key at most once; it may visit any
   subscriber that was in the map at some moment of the call ([pgone] = the ones already removed when
   the call began cannot be visited); before it returns it has visited every subscriber that was in the
   map during the whole call ([PubEnd] guard). *)
From Coq Require Import List Arith Bool ZArith.
Import ListNotations.

Definition upd {A} (f : nat -> A) (k : nat) (v : A) : nat -> A :=
  fun x => if x =? k then v else f x.
Definition upd2 {A} (f : nat -> nat -> A) (p s : nat) (v : A) : nat -> nat -> A :=
  fun x y => if (x =? p) && (y =? s) then v else f x y.

Inductive phase := Open | Closing | Closed.
Inductive pst :=
| PNone | PSpawned | PInSel (dl : nat) | PDelivered | PFiltered | PTimedOut | PDropped.

Definition phase_eqb (a b : phase) : bool :=
  match a, b with Open, Open | Closing, Closing | Closed, Closed => true | _, _ => false end.
Definition is_insel (x : pst) : bool := match x with PInSel _ => true | _ => false end.
Definition is_pending (x : pst) : bool :=
  match x with PSpawned | PInSel _ => true | _ => false end.
Definition is_none (x : pst) : bool := match x with PNone => true | _ => false end.

Section Pub.
  Context {M : Type}.

  Record sub := mkSub {
    s_cap : nat;                 (* make(chan T, buffer) *)
    s_filt : M -> bool;          (* WithFilter; no filter = fun _ => true *)
    s_tmo : nat;                 (* effective timeout in ticks: max(0, WithTimeout) - time.After(d) fires at once for d <= 0 *)
    s_onF : bool;                (* OnFiltered set? *)
    s_onT : bool;                (* OnTimeout set? *)
    s_buf : list (nat * M);      (* channel buffer: (publish call, message), head = oldest *)
    s_got : list (nat * M);      (* ghost: everything the subscriber has received, in order *)
    s_inmap : bool;              (* still in p.subscribers *)
    s_phase : phase;             (* Open; Closing = s.done closed; Closed = receive channel closed *)
    s_ncl : nat;                 (* ghost: number of close(receiveCh) executed *)
    s_eof : bool                 (* ghost: the subscriber has observed "closed" *)
  }.

  Definition set_buf (x : sub) b := mkSub (s_cap x) (s_filt x) (s_tmo x) (s_onF x) (s_onT x) b (s_got x) (s_inmap x) (s_phase x) (s_ncl x) (s_eof x).
  Definition set_bufgot (x : sub) b g := mkSub (s_cap x) (s_filt x) (s_tmo x) (s_onF x) (s_onT x) b g (s_inmap x) (s_phase x) (s_ncl x) (s_eof x).
  Definition set_eof (x : sub) := mkSub (s_cap x) (s_filt x) (s_tmo x) (s_onF x) (s_onT x) (s_buf x) (s_got x) (s_inmap x) (s_phase x) (s_ncl x) true.
  Definition set_taken (x : sub) := mkSub (s_cap x) (s_filt x) (s_tmo x) (s_onF x) (s_onT x) (s_buf x) (s_got x) false Closing (s_ncl x) (s_eof x).
  Definition set_closed (x : sub) := mkSub (s_cap x) (s_filt x) (s_tmo x) (s_onF x) (s_onT x) (s_buf x) (s_got x) (s_inmap x) Closed (S (s_ncl x)) (s_eof x).
  Definition set_unmapped (x : sub) := mkSub (s_cap x) (s_filt x) (s_tmo x) (s_onF x) (s_onT x) (s_buf x) (s_got x) false (s_phase x) (s_ncl x) (s_eof x).

  Definition new_sub c f t oF oT : sub := mkSub c f t oF oT [] [] true Open 0 false.
  Definition no_sub : sub := mkSub 0 (fun _ => true) 0 false false [] [] false Open 0 false.

  Record state := mkState {
    nsub : nat;  subs : nat -> sub;
    npub : nat;
    pmsg : nat -> option M;       (* message of call p *)
    popen : nat -> bool;          (* call p has not returned yet *)
    pt0 : nat -> nat;             (* time at which call p began *)
    pn0 : nat -> nat;             (* nsub when call p began *)
    pgone : nat -> nat -> bool;   (* subscribers already removed from the map when call p began *)
    pair : nat -> nat -> pst;     (* call p, subscriber s *)
    now : nat;
    cbF : list (nat * nat * M);   (* OnFiltered invocations (subscriber, call, message), in order *)
    cbT : list (nat * nat * M);   (* OnTimeout invocations *)
    panicked : bool
  }.

  Definition init : state :=
    mkState 0 (fun _ => no_sub) 0 (fun _ => None) (fun _ => false) (fun _ => 0) (fun _ => 0)
            (fun _ _ => false) (fun _ _ => PNone) 0 [] [] false.

  Definition with_sub (st : state) (s : nat) (x : sub) : state :=
    mkState (nsub st) (upd (subs st) s x) (npub st) (pmsg st) (popen st) (pt0 st) (pn0 st) (pgone st)
            (pair st) (now st) (cbF st) (cbT st) (panicked st).
  Definition with_pair (st : state) (p s : nat) (v : pst) : state :=
    mkState (nsub st) (subs st) (npub st) (pmsg st) (popen st) (pt0 st) (pn0 st) (pgone st)
            (upd2 (pair st) p s v) (now st) (cbF st) (cbT st) (panicked st).
  Definition with_cbF (st : state) l : state :=
    mkState (nsub st) (subs st) (npub st) (pmsg st) (popen st) (pt0 st) (pn0 st) (pgone st)
            (pair st) (now st) l (cbT st) (panicked st).
  Definition with_cbT (st : state) l : state :=
    mkState (nsub st) (subs st) (npub st) (pmsg st) (popen st) (pt0 st) (pn0 st) (pgone st)
            (pair st) (now st) (cbF st) l (panicked st).
  Definition with_panic (st : state) : state :=
    mkState (nsub st) (subs st) (npub st) (pmsg st) (popen st) (pt0 st) (pn0 st) (pgone st)
            (pair st) (now st) (cbF st) (cbT st) true.

  Inductive label :=
  | Subscribe (cap : nat) (f : M -> bool) (tmo : Z) (onF onT : bool)   (* tmo: WithTimeout in ticks, may be <= 0 *)
  | PubBegin (m : M)
  | Visit (p s : nat)
  | PubEnd (p : nat)
  | Enter (p s : nat)
  | Deliver (p s : nat)
  | Rendezvous (p s : nat)
  | Timeout (p s : nat)
  | Drop (p s : nat)
  | Recv (s : nat)
  | Tick
  | CloseSub (s : nat)
  | FinishClose (s : nat).

  (* Subscribe(buffer, opts...): the options are applied in the order given, each sets its own field(s) of the
     subscriber and nothing else; the effective configuration is what the Subscribe label carries. *)
  Inductive sopt :=
  | OFilter (f : M -> bool)      (* WithFilter *)
  | OTimeout (t : Z)             (* WithTimeout, in ticks *)
  | OOnFiltered                  (* OnFiltered(cb) *)
  | OOnTimeout.                  (* OnTimeout(cb) *)
  Record scfg := mkCfg { c_filt : M -> bool; c_tmo : Z; c_onF : bool; c_onT : bool }.
  Definition default_tmo : Z := 500%Z.   (* defaultTimeout = 10 s, in ticks of 20 ms *)
  Definition cfg0 : scfg := mkCfg (fun _ => true) default_tmo false false.
  Definition apply_opt (c : scfg) (o : sopt) : scfg :=
    match o with
    | OFilter f => mkCfg f (c_tmo c) (c_onF c) (c_onT c)
    | OTimeout t => mkCfg (c_filt c) t (c_onF c) (c_onT c)
    | OOnFiltered => mkCfg (c_filt c) (c_tmo c) true (c_onT c)
    | OOnTimeout => mkCfg (c_filt c) (c_tmo c) (c_onF c) true
    end.
  Definition apply_opts (os : list sopt) : scfg := fold_left apply_opt os cfg0.
  Definition okind (o : sopt) : nat :=
    match o with OFilter _ => 0 | OTimeout _ => 1 | OOnFiltered => 2 | OOnTimeout => 3 end.
  Definition SubscribeOpts (cap : nat) (os : list sopt) : label :=
    let c := apply_opts os in Subscribe cap (c_filt c) (c_tmo c) (c_onF c) (c_onT c).

  (* every subscriber that was in the map when call p began and still is has been visited *)
  Definition range_done (st : state) (p : nat) : bool :=
    forallb (fun s => implb (negb (pgone st p s) && s_inmap (subs st s)) (negb (is_none (pair st p s))))
            (seq 0 (pn0 st p)).

  (* no delivery goroutine of subscriber s is inside its select (holds the read lock) *)
  Definition no_insel (st : state) (s : nat) : bool :=
    forallb (fun p => negb (is_insel (pair st p s))) (seq 0 (npub st)).

  Definition step (st : state) (l : label) : option state :=
    match l with
    | Subscribe c f t oF oT =>
        Some (mkState (S (nsub st)) (upd (subs st) (nsub st) (new_sub c f (Z.to_nat t) oF oT)) (npub st) (pmsg st)
                      (popen st) (pt0 st) (pn0 st) (pgone st) (pair st) (now st) (cbF st) (cbT st)
                      (panicked st))
    | PubBegin m =>
        let p := npub st in
        Some (mkState (nsub st) (subs st) (S p) (upd (pmsg st) p (Some m)) (upd (popen st) p true)
                      (upd (pt0 st) p (now st)) (upd (pn0 st) p (nsub st))
                      (upd (pgone st) p (fun s => (s <? nsub st) && negb (s_inmap (subs st s))))
                      (pair st) (now st) (cbF st) (cbT st) (panicked st))
    | Visit p s =>
        match pmsg st p with
        | Some m =>
            if popen st p && (s <? nsub st) && negb (pgone st p s) && is_none (pair st p s) then
              let x := subs st s in
              if s_filt x m then Some (with_pair st p s PSpawned)
              else
                let st1 := with_pair st p s PFiltered in
                Some (if s_onF x then with_cbF st1 (cbF st ++ [(s, p, m)]) else st1)
            else None
        | None => None
        end
    | PubEnd p =>
        if popen st p && range_done st p then
          Some (mkState (nsub st) (subs st) (npub st) (pmsg st) (upd (popen st) p false) (pt0 st) (pn0 st)
                        (pgone st) (pair st) (now st) (cbF st) (cbT st) (panicked st))
        else None
    | Enter p s =>
        match pair st p s with
        | PSpawned =>
            let x := subs st s in
            match s_phase x with
            | Closed => Some (with_pair st p s PDropped)
            | _ => Some (with_pair st p s (PInSel (now st + s_tmo x)))
            end
        | _ => None
        end
    | Deliver p s =>
        match pair st p s, pmsg st p with
        | PInSel _, Some m =>
            let x := subs st s in
            match s_phase x with
            | Closed => Some (with_panic st)            (* send on closed channel *)
            | _ =>
                if length (s_buf x) <? s_cap x then
                  Some (with_pair (with_sub st s (set_buf x (s_buf x ++ [(p, m)]))) p s PDelivered)
                else None
            end
        | _, _ => None
        end
    | Rendezvous p s =>
        match pair st p s, pmsg st p with
        | PInSel _, Some m =>
            let x := subs st s in
            match s_phase x, s_buf x with
            | Closed, _ => None
            | _, [] => Some (with_pair (with_sub st s (set_bufgot x [] (s_got x ++ [(p, m)]))) p s PDelivered)
            | _, _ => None
            end
        | _, _ => None
        end
    | Timeout p s =>
        match pair st p s, pmsg st p with
        | PInSel dl, Some m =>
            if dl <=? now st then
              let st1 := with_pair st p s PTimedOut in
              Some (if s_onT (subs st s) then with_cbT st1 (cbT st ++ [(s, p, m)]) else st1)
            else None
        | _, _ => None
        end
    | Drop p s =>
        match pair st p s, s_phase (subs st s) with
        | PInSel _, Closing => Some (with_pair st p s PDropped)
        | _, _ => None
        end
    | Recv s =>
        if s <? nsub st then
          let x := subs st s in
          match s_buf x with
          | m :: b => Some (with_sub st s (set_bufgot x b (s_got x ++ [m])))
          | [] => match s_phase x with
                  | Closed => Some (with_sub st s (set_eof x))
                  | _ => Some st
                  end
          end
        else None
    | Tick =>
        Some (mkState (nsub st) (subs st) (npub st) (pmsg st) (popen st) (pt0 st) (pn0 st) (pgone st)
                      (pair st) (S (now st)) (cbF st) (cbT st) (panicked st))
    | CloseSub s =>
        if s <? nsub st then
          let x := subs st s in
          if s_inmap x then
            match s_phase x with
            | Open => Some (with_sub st s (set_taken x))
            | _ => Some (with_panic (with_sub st s (set_unmapped x)))   (* close of closed s.done *)
            end
          else Some st
        else None
    | FinishClose s =>
        if s <? nsub st then
          let x := subs st s in
          match s_phase x with
          | Closing => if no_insel st s then Some (with_sub st s (set_closed x)) else None
          | _ => None
          end
        else None
    end.

  Fixpoint run (st : state) (ls : list label) : option state :=
    match ls with
    | [] => Some st
    | l :: t => match step st l with Some st' => run st' t | None => None end
    end.

  Inductive reach : state -> Prop :=
  | reach_init : reach init
  | reach_step st l st' : reach st -> step st l = Some st' -> reach st'.

  Definition enabled (st : state) (l : label) : Prop := step st l <> None.

  (* labels performed by goroutines of the library itself; all others belong to the environment
     (callers of Subscribe/Publish/Close, receiving subscribers, time) *)
  Definition internal (l : label) : bool :=
    match l with
    | Enter _ _ | Deliver _ _ | Timeout _ _ | Drop _ _ | FinishClose _ => true
    | _ => false
    end.

  (* measure for termination of the internal steps: 2 per spawned goroutine, 1 per goroutine inside
     its select, 1 per subscriber being closed *)
  Definition pweight (x : pst) : nat :=
    match x with PSpawned => 2 | PInSel _ => 1 | _ => 0 end.
  Definition sum_list (l : list nat) : nat := fold_right Nat.add 0 l.
  Definition pairs_weight (st : state) : nat :=
    sum_list (map (fun ps => pweight (pair st (fst ps) (snd ps)))
                  (list_prod (seq 0 (npub st)) (seq 0 (nsub st)))).
  Definition closing_weight (st : state) : nat :=
    sum_list (map (fun s => match s_phase (subs st s) with Closing => 1 | _ => 0 end) (seq 0 (nsub st))).
  Definition measure (st : state) : nat := pairs_weight st + closing_weight st.
End Pub.

Arguments sub : clear implicits.
Arguments state : clear implicits.
Arguments label : clear implicits.
Arguments sopt : clear implicits.
Arguments scfg : clear implicits.
