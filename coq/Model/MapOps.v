(* Executable model of /repo/mapOps/mapOps.go.  Definitions only.

   A Go map is the list of its entries in the order `range` delivers them (at most one binding per key).
   SortAscKeys / SortDescKeys collect the (key, value) pairs, sort them with sort.Sort and project the
   keys.  sort.Sort (pdqsort, NOT stable) is trusted by contract: for a strict weak order `less` it
   permutes the slice so that no later element is `less` than an earlier one ([sort_contract]); which of
   the admissible orders it produces is unspecified.  The model is parametric in the sorter; [isort]
   (insertion sort) is one sorter proved to satisfy the contract, used to execute the model.
   [asc_ok] / [desc_ok] are the executable monitors "the observed output is an admissible result". *)
From Coq Require Import List Bool Arith Sorted Permutation.
From TC.Lib Require Import Assoc.
Import ListNotations.

Section MapOps.
  Context {K V : Type}.
  Variable keqb : K -> K -> bool.
  Variable ltb : V -> V -> bool.      (* the < of cmp.Ordered *)

  (* pairList.Less(i, j) = p[i].value < p[j].value ; sort.Reverse swaps the arguments *)
  Definition pair_less (a b : K * V) : bool := ltb (snd a) (snd b).
  Definition rev_less (a b : K * V) : bool := pair_less b a.

  Section Sorting.
    Context {P : Type}.
    Variable less : P -> P -> bool.
    Fixpoint ins (x : P) (l : list P) : list P :=
      match l with
      | [] => [x]
      | y :: t => if less y x then y :: ins x t else x :: y :: t
      end.
    Definition isort (l : list P) : list P := fold_right ins [] l.

    (* what sort.Sort guarantees *)
    Definition sort_contract (sorter : list P -> list P) : Prop :=
      forall l, Permutation (sorter l) l /\ StronglySorted (fun a b => less b a = false) (sorter l).
  End Sorting.

  (* for k, v := range m { pairs = append(pairs, {k,v}) }; sort; project keys *)
  Definition sort_keys_with (sorter : list (K * V) -> list (K * V)) (it : list (K * V)) : list K :=
    map fst (sorter it).
  Definition sort_asc_keys (it : list (K * V)) : list K := sort_keys_with (isort pair_less) it.
  Definition sort_desc_keys (it : list (K * V)) : list K := sort_keys_with (isort rev_less) it.

  (* the set of admissible results: the keys of a permutation of the entries that is sorted by value *)
  Definition admissible (le : V -> V -> Prop) (m : list (K * V)) (out : list K) : Prop :=
    exists ps, Permutation ps m /\ out = map fst ps /\ StronglySorted (fun a b => le (snd a) (snd b)) ps.
  Definition le_asc (a b : V) : Prop := ltb b a = false.    (* a <= b *)
  Definition le_desc (a b : V) : Prop := ltb a b = false.   (* a >= b *)

  (* executable monitors *)
  Fixpoint kmem (k : K) (l : list K) : bool :=
    match l with [] => false | x :: t => keqb k x || kmem k t end.
  Fixpoint knodup (l : list K) : bool :=
    match l with [] => true | x :: t => negb (kmem x t) && knodup t end.
  Fixpoint values_of (m : list (K * V)) (out : list K) : option (list V) :=
    match out with
    | [] => Some []
    | k :: t => match lookup keqb k m, values_of m t with
                | Some v, Some vs => Some (v :: vs)
                | _, _ => None
                end
    end.
  Fixpoint adj_sorted (le : V -> V -> bool) (vs : list V) : bool :=
    match vs with
    | a :: t => match t with b :: _ => le a b | [] => true end && adj_sorted le t
    | [] => true
    end.
  Definition sorted_keys_ok (le : V -> V -> bool) (m : list (K * V)) (out : list K) : bool :=
    Nat.eqb (length out) (length m) && knodup out &&
    match values_of m out with Some vs => adj_sorted le vs | None => false end.
  Definition asc_ok := sorted_keys_ok (fun a b => negb (ltb b a)).
  Definition desc_ok := sorted_keys_ok (fun a b => negb (ltb a b)).
End MapOps.
