(* Executable model of /repo/storage/fifoMapCache.go, sequential (after fixes F1, F2).  Definitions only.

   parts : the partitions stack as the abstract FIFO queue of (id, partition) justified by
           Props/C11.v (GenericStack refines the queue): oldest first;
   next  : the stack's id counter (Push returns next+1);   cur : currentPartitionId;
   index : valuePartitionIndex (key -> partition id; 0 = absent is [None]);
   P, C  : maxPartitions, partitionCapacity.
   `go f.Sweep()` is NOT part of [set]: [Sweep] is a label of its own and theorems quantify over every
   placement of it.  Resize takes the replay order of each old partition's keys (Go ranges over a map)
   as an oracle argument constrained by [valid_order]. *)
From Coq Require Import List Arith Bool.
From TC.Lib Require Import Assoc.
Import ListNotations.

Section Cache.
  Context {K V : Type}.
  Variable keqb : K -> K -> bool.

  Definition amap (A : Type) := list (K * A).

  Record state := {
    parts : list (nat * amap V);
    next : nat;
    cur : nat;
    index : amap nat;
    P : nat;
    C : nat
  }.

  Definition init (p c : nat) : state :=
    {| parts := []; next := 0; cur := 0; index := []; P := p; C := c |}.

  (* partitions.Peek(id) *)
  Fixpoint peek (id : nat) (ps : list (nat * amap V)) : option (amap V) :=
    match ps with
    | [] => None
    | (i, m) :: t => if i =? id then Some m else peek id t
    end.

  Fixpoint put (id : nat) (m : amap V) (ps : list (nat * amap V)) : list (nat * amap V) :=
    match ps with
    | [] => []
    | (i, m') :: t => if i =? id then (i, m) :: t else (i, m') :: put id m t
    end.

  Definition with_parts (s : state) ps := {| parts := ps; next := next s; cur := cur s; index := index s; P := P s; C := C s |}.
  Definition with_index (s : state) ix := {| parts := parts s; next := next s; cur := cur s; index := ix; P := P s; C := C s |}.

  (* getCurrentPartition: fast path condition *)
  Definition room (s : state) : bool :=
    match peek (cur s) (parts s) with
    | Some m => length m <? C s
    | None => false
    end.

  (* slow path: push a new partition, it becomes current *)
  Definition open_part (s : state) : state :=
    let id := S (next s) in
    {| parts := parts s ++ [(id, [])]; next := id; cur := id; index := index s; P := P s; C := C s |}.

  (* the insertion path of Set: key goes into the current partition and into the index *)
  Definition fresh (s : state) (k : K) (v : V) : state :=
    let s1 := if room s then s else open_part s in
    match peek (cur s1) (parts s1) with
    | Some m => with_index (with_parts s1 (put (cur s1) (upsert keqb k v m) (parts s1)))
                           (upsert keqb k (cur s1) (index s1))
    | None => s1   (* unreachable: the current partition exists after the two branches above *)
    end.

  Definition set (s : state) (k : K) (v : V) : state :=
    match lookup keqb k (index s) with
    | Some id =>
        match peek id (parts s) with
        | Some m => with_parts s (put id (upsert keqb k v m) (parts s))    (* update in place *)
        | None => fresh s k v                                               (* stale index entry *)
        end
    | None => fresh s k v
    end.

  Definition get (s : state) (k : K) : option V :=
    match lookup keqb k (index s) with
    | Some id => match peek id (parts s) with
                 | Some m => lookup keqb k m
                 | None => None
                 end
    | None => None
    end.

  Definition contains (s : state) (k : K) : bool :=
    match get s k with Some _ => true | None => false end.

  (* Delete after fix F1: the index entry goes too *)
  Definition delete (s : state) (k : K) : state :=
    match lookup keqb k (index s) with
    | Some id =>
        match peek id (parts s) with
        | Some m => if has keqb k m
                    then with_index (with_parts s (put id (remove keqb k m) (parts s)))
                                    (remove keqb k (index s))
                    else s
        | None => s
        end
    | None => s
    end.

  Definition sweep (s : state) : state :=
    with_parts s (skipn (length (parts s) - P s) (parts s)).

  Definition clear_with (p c : nat) : state :=
    {| parts := [(1, [])]; next := 1; cur := 1; index := []; P := p; C := c |}.
  Definition clear (s : state) : state := clear_with (P s) (C s).

  Definition keys_of (s : state) : list K := flat_map (fun p => map fst (snd p)) (parts s).
  Definition values_of (s : state) : list V := flat_map (fun p => map snd (snd p)) (parts s).
  Definition len (s : state) : nat := length (keys_of s).
  Definition capacity (s : state) : nat := P s * C s.

  (* Resize after fix F2.  [pc] = what the configured calculator returns for the new capacity.
     [order] = for each old partition, oldest first, its keys in the order the Go map range yields them. *)
  Definition replay_part (s : state) (old : amap V) (ks : list K) : state :=
    sweep (fold_left (fun s k => match lookup keqb k old with
                                 | Some v => set s k v
                                 | None => s
                                 end) ks s).

  Fixpoint replay (s : state) (olds : list (nat * amap V)) (order : list (list K)) : state :=
    match olds, order with
    | (_, old) :: olds', ks :: order' => replay (replay_part s old ks) olds' order'
    | (_, old) :: olds', [] => replay (replay_part s old (map fst old)) olds' []
    | [], _ => s
    end.

  Definition resize (s : state) (pc : nat * nat) (order : list (list K)) : state :=
    let '(p, c) := pc in
    if (p =? P s) && (c =? C s) then s
    else replay (clear_with p c) (parts s) order.

  (* the order oracle is valid when it lists, per old partition, a permutation of that partition's keys *)
  Fixpoint count_in (k : K) (l : list K) : nat :=
    match l with [] => 0 | x :: t => (if keqb k x then 1 else 0) + count_in k t end.
  Definition same_keys (a b : list K) : bool :=
    (length a =? length b) && forallb (fun k => count_in k a =? count_in k b) a.
  Fixpoint valid_order (olds : list (nat * amap V)) (order : list (list K)) : bool :=
    match olds, order with
    | [], [] => true
    | (_, old) :: olds', ks :: order' => same_keys ks (map fst old) && valid_order olds' order'
    | _, _ => false
    end.

  (* ---- labels ---- *)
  Inductive label :=
  | LSet (k : K) (v : V) | LGet (k : K) | LContains (k : K) | LDelete (k : K)
  | LLen | LKeys | LValues | LSweep | LClear | LCapacity
  | LResize (pc : nat * nat) (order : list (list K)).

  Inductive obs :=
  | ONone | OGet (r : option V) | OBool (b : bool) | ONat (n : nat) | OKeys (ks : list K) | OValues (vs : list V).

  Definition step (s : state) (l : label) : state * obs :=
    match l with
    | LSet k v => (set s k v, ONone)
    | LGet k => (s, OGet (get s k))
    | LContains k => (s, OBool (contains s k))
    | LDelete k => (delete s k, ONone)
    | LLen => (s, ONat (len s))
    | LKeys => (s, OKeys (keys_of s))
    | LValues => (s, OValues (values_of s))
    | LSweep => (sweep s, ONone)
    | LClear => (clear s, ONone)
    | LCapacity => (s, ONat (capacity s))
    | LResize pc order => (resize s pc order, ONone)
    end.

  Definition exec (s : state) (l : label) : state := fst (step s l).
  Definition run (s : state) (h : list label) : state := fold_left exec h s.

  Fixpoint run_obs (s : state) (h : list label) : list obs :=
    match h with
    | [] => []
    | l :: t => let '(s', o) := step s l in o :: run_obs s' t
    end.
End Cache.

(* ---- partition calculators (float arithmetic modelled on nat; validated numerically, not proved) ---- *)
Definition calc_default (capacity : nat) : nat * nat :=
  let p := Nat.sqrt capacity in (p, capacity / p).

(* WithBalancedPartitions: [root] is floor(capacity^(1/nRoot)) supplied as an oracle value *)
Definition calc_balanced (root minimum capacity : nat) : nat * nat :=
  let p := Nat.max root minimum in (p, capacity / p).
