(* Executable model of /repo/propositions/slicePropositions.go and mapPropositions.go.  Definitions only.

   Slices are lists.  A Go map is an association list with at most one binding per key, given in the
   order in which `range` happens to deliver the entries: every map function below is a loop over that
   list, and the theorems (Props/X01.v) are stated for EVERY permutation of the entries.
   cmp.Ordered is a type with decidable ==, < and <= ([eqb], [ltb], [leb]); Go's  e > v  is  v < e  and
   e >= v  is  v <= e  for every ordered type (NaN included), so no separate relations are needed.
   Each function has the shape of the Go loop (early return), not of its specification. *)
From Coq Require Import List Bool.
Import ListNotations.

Section SliceProps.
  Context {A : Type}.

  (* for _, e := range s { if p(e) { return false } }; return true *)
  Fixpoint prop_none (p : A -> bool) (s : list A) : bool :=
    match s with
    | [] => true
    | e :: t => if p e then false else prop_none p t
    end.

  (* for _, e := range s { if p(e) { return true } }; return false *)
  Fixpoint prop_any (p : A -> bool) (s : list A) : bool :=
    match s with
    | [] => false
    | e :: t => if p e then true else prop_any p t
    end.

  (* for _, e := range s { if !p(e) { return false } }; return true *)
  Fixpoint prop_all (p : A -> bool) (s : list A) : bool :=
    match s with
    | [] => true
    | e :: t => if negb (p e) then false else prop_all p t
    end.

  Variable eqb ltb leb : A -> A -> bool.

  Definition slice_contains (s : list A) (v : A) : bool := prop_any (fun e => eqb e v) s.

  Fixpoint slice_contains_all (s v : list A) : bool :=
    match v with
    | [] => true
    | e :: t => if negb (slice_contains s e) then false else slice_contains_all s t
    end.

  Fixpoint slice_contains_any (s v : list A) : bool :=
    match v with
    | [] => false
    | e :: t => if slice_contains s e then true else slice_contains_any s t
    end.

  Fixpoint slice_contains_none (s v : list A) : bool :=
    match v with
    | [] => true
    | e :: t => if slice_contains s e then false else slice_contains_none s t
    end.

  Definition slice_all_lt (s : list A) (v : A) : bool := prop_all (fun e => ltb e v) s.
  Definition slice_all_le (s : list A) (v : A) : bool := prop_all (fun e => leb e v) s.
  Definition slice_all_gt (s : list A) (v : A) : bool := prop_all (fun e => ltb v e) s.
  Definition slice_all_ge (s : list A) (v : A) : bool := prop_all (fun e => leb v e) s.
  Definition slice_any_lt (s : list A) (v : A) : bool := prop_any (fun e => ltb e v) s.
  Definition slice_any_le (s : list A) (v : A) : bool := prop_any (fun e => leb e v) s.
  Definition slice_any_gt (s : list A) (v : A) : bool := prop_any (fun e => ltb v e) s.
  Definition slice_any_ge (s : list A) (v : A) : bool := prop_any (fun e => leb v e) s.
End SliceProps.

Section MapProps.
  Context {K V : Type}.
  Variable keqb : K -> K -> bool.
  Variable veqb : V -> V -> bool.

  (* _, ok := m[k]: the runtime's hash lookup, by contract "is there a binding for k" *)
  Fixpoint map_contains_key (m : list (K * V)) (k : K) : bool :=
    match m with
    | [] => false
    | (k', _) :: t => if keqb k k' then true else map_contains_key t k
    end.

  (* the loops: m is the entry list in the order `range` delivers it *)
  Fixpoint map_contains_value (m : list (K * V)) (v : V) : bool :=
    match m with
    | [] => false
    | (_, val) :: t => if veqb val v then true else map_contains_value t v
    end.

  Fixpoint map_key_any (m : list (K * V)) (p : K -> bool) : bool :=
    match m with [] => false | (k, _) :: t => if p k then true else map_key_any t p end.
  Fixpoint map_key_all (m : list (K * V)) (p : K -> bool) : bool :=
    match m with [] => true | (k, _) :: t => if negb (p k) then false else map_key_all t p end.
  Fixpoint map_key_none (m : list (K * V)) (p : K -> bool) : bool :=
    match m with [] => true | (k, _) :: t => if p k then false else map_key_none t p end.
  Fixpoint map_value_any (m : list (K * V)) (p : V -> bool) : bool :=
    match m with [] => false | (_, v) :: t => if p v then true else map_value_any t p end.
  Fixpoint map_value_all (m : list (K * V)) (p : V -> bool) : bool :=
    match m with [] => true | (_, v) :: t => if negb (p v) then false else map_value_all t p end.
  Fixpoint map_value_none (m : list (K * V)) (p : V -> bool) : bool :=
    match m with [] => true | (_, v) :: t => if p v then false else map_value_none t p end.
End MapProps.
