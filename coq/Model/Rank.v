(* Executable model of /repo/rankCalculation (rankCalculator.go, rankCalculatorOptions.go,
   percentileRanker.go; after fix X05-F1: NewRankCalculator applies its options).  Definitions only.

   Counts are a Go map T -> int64: an association list with distinct keys ([counts]; Lib/Assoc).
   Percentiles are exact rationals ([PQ q]); float64 rounding is NOT modelled (the correspondence compares
   within a stated relative tolerance).  The two float results that are not numbers are kept apart:
   dividing by maxV = 0 gives NaN (0/0) or -Inf (negative/0).
   The ascending key order comes from the X02 model of mapOps.SortAscKeys ([sort_keys_with sorter]):
   sort.Sort is unstable, so with equal counts the positional result depends on WHICH admissible order was
   produced; theorems quantify over every admissible order, the executable model uses insertion sort.
   The result map is the list (key, percentile) in sortedKeys order (keys distinct). *)
From Coq Require Import List Bool ZArith QArith.
From TC.Lib Require Import Assoc.
From TC.Model Require Import MapOps.
Import ListNotations.
Local Open Scope Z_scope.

Inductive pct := PQ (q : Q) | PNaN | PNegInf.

(* exact comparison of two percentiles (used for the model's self-check through its own monitor) *)
Definition exact_pct (x p : pct) : bool :=
  match x, p with
  | PQ a, PQ b => Qeq_bool a b
  | PNaN, PNaN => true
  | PNegInf, PNegInf => true
  | _, _ => false
  end.

Section Rank.
  Context {K : Type}.
  Variable keqb : K -> K -> bool.

  Definition counts := list (K * Z).

  (* ---- PercentileRanker.Rank ---- *)

  (* maxV := int64(0); for _, v := range entries { if v > maxV { maxV = v } } *)
  Definition max_count (it : counts) : Z :=
    fold_left (fun mx e => if mx <? snd e then snd e else mx) it 0.

  (* float64(v) / float64(maxV) * 100 *)
  Definition pct_value (v mx : Z) : pct :=
    if mx =? 0 then (if v =? 0 then PNaN else PNegInf)      (* maxV >= 0 always, so v <= 0 here *)
    else PQ (Qmake (100 * v) (Z.to_pos mx)).

  (* position i (from 0) of n sorted keys: 0 for the first, 100 for the last, (i+1)/(n+1)*100 otherwise;
     the test i == 0 comes first, so a single entry gets 0 *)
  Definition pct_pos (n i : nat) : Q :=
    if Nat.eqb i 0 then 0%Q
    else if Nat.eqb i (n - 1) then 100%Q
    else Qmake (100 * Z.of_nat (i + 1)) (Pos.of_nat (n + 1)).

  Definition count_of (it : counts) (k : K) : Z :=
    match lookup keqb k it with Some v => v | None => 0 end.     (* entries[k] *)

  Definition rank_value_on (it : counts) (sorted : list K) : list (K * pct) :=
    map (fun k => (k, pct_value (count_of it k) (max_count it))) sorted.

  Fixpoint rank_pos_from (n i : nat) (sorted : list K) : list (K * pct) :=
    match sorted with
    | [] => []
    | k :: t => (k, PQ (pct_pos n i)) :: rank_pos_from n (S i) t
    end.
  Definition rank_pos_on (sorted : list K) : list (K * pct) := rank_pos_from (length sorted) 0 sorted.

  (* Rank(entries): [it] = the entries as `range` delivers them, [sorter] = what sort.Sort does *)
  Definition rank_with (sorter : list (K * Z) -> list (K * Z)) (positional : bool) (it : counts)
    : list (K * pct) :=
    match it with
    | [] => []                                  (* len(entries) == 0 *)
    | _ =>
        let sorted := sort_keys_with sorter it in
        if positional then rank_pos_on sorted else rank_value_on it sorted
    end.
  Definition rank (positional : bool) (it : counts) : list (K * pct) :=
    rank_with (isort (pair_less Z.ltb)) positional it.

  (* ---- executable monitors: is an observed result map an admissible result of Rank? ----
     [X] = how the observer represents a percentile (the harness: an exact binary64 value), [ok x p] = "x is an
     acceptable rendering of the exact percentile p".  The observed map is given as a list [o] with distinct keys;
     for positional ranking in ascending order of the observed percentiles. *)
  Section Monitor.
    Context {X : Type}.
    Variable ok : X -> pct -> bool.
    Fixpoint all2 (xs : list X) (ps : list (K * pct)) : bool :=
      match xs, ps with
      | [], [] => true
      | x :: xt, (_, p) :: pt => ok x p && all2 xt pt
      | _, _ => false
      end.
    Definition value_ok (m : counts) (o : list (K * X)) : bool :=
      Nat.eqb (length o) (length m) && knodup keqb (map fst o)
      && forallb (fun kx => match lookup keqb (fst kx) m with
                            | Some v => ok (snd kx) (pct_value v (max_count m))
                            | None => false
                            end) o.
    Definition positional_ok (m : counts) (o : list (K * X)) : bool :=
      asc_ok keqb Z.ltb m (map fst o) && all2 (map snd o) (rank_pos_on (map fst o)).
    Definition rank_ok (positional : bool) (m : counts) (o : list (K * X)) : bool :=
      match m with
      | [] => match o with [] => true | _ => false end
      | _ => if positional then positional_ok m o else value_ok m o
      end.
  End Monitor.

  (* ---- RankCalculator ---- *)
  Inductive ranker :=
  | Percentile (positional : bool)
  | Custom (f : counts -> list (K * pct)).        (* any caller-supplied Ranker *)

  Inductive copt := WithRanker (r : ranker) | WithRankPositionally.

  Record calc := { entries : counts; rk : ranker }.

  Definition apply_opt (c : calc) (o : copt) : calc :=
    match o with
    | WithRanker r => {| entries := entries c; rk := r |}
    | WithRankPositionally => {| entries := entries c; rk := Percentile true |}
    end.

  (* NewRankCalculator(options...): defaults, then every option in order *)
  Definition new_calc (opts : list copt) : calc :=
    fold_left apply_opt opts {| entries := []; rk := Percentile false |}.

  (* r.entries.GetOrAdd(entry, &atomic.Int64{}).Add(1) *)
  Definition accumulate (e : K) (c : calc) : calc :=
    {| entries := upsert keqb e (count_of (entries c) e + 1) (entries c); rk := rk c |}.

  Definition reset (c : calc) : calc := {| entries := []; rk := rk c |}.

  Definition run_ranker (r : ranker) (it : counts) : list (K * pct) :=
    match r with Percentile p => rank p it | Custom f => f it end.

  (* Calculate: copy of the counts, handed to the ranker *)
  Definition calculate (c : calc) : list (K * pct) := run_ranker (rk c) (entries c).

  Inductive event := EAccumulate (e : K) | EReset | ECalculate.

  Fixpoint run (c : calc) (evs : list event) : calc * list (list (K * pct)) :=
    match evs with
    | [] => (c, [])
    | EAccumulate e :: t => run (accumulate e c) t
    | EReset :: t => run (reset c) t
    | ECalculate :: t => let (c', rs) := run c t in (c', calculate c :: rs)
    end.
End Rank.
