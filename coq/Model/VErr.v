(* Executable model of /repo/errors/validationError.go (after the fixes F12a-c).  Definitions only.

   Go maps are OBJECTS that are shared through references, and every defect of the pinned code in this
   file is an aliasing defect (a read writes into a map the receiver still refers to).  A value-semantics
   model would make "reads do not change the receiver" true by construction, so the model keeps a heap:

     heap  = list of map contents, the address of a map object is its index;
     mref  = None (a nil map) | Some address;
     a ValidationError node = [Node errs warns kids] with [errs warns : mref]; the children map
     (never written by the code after the fix) is a value: None = nil map, Some l = association list.

   Map contents ([amap]) are association lists (key, messages).  Iterating a Go map visits the entries
   in an unspecified order: the model iterates in list order and every theorem about results is stated up
   to [Permutation] of (key, message) pairs.  Writing to a nil map panics ([Panic]); reading or ranging
   over one yields nothing.  The message slices stored in the maps are values (the fixed code copies
   them; sharing of their backing arrays is observed by the harness only).

   Functions that run Go code take the heap and return [outcome (result * heap)]. *)
From Coq Require Import String Ascii List Bool Arith.
Import ListNotations.

Infix "+++" := String.append (right associativity, at level 60).

Definition dot : string := "."%string.
Definition empty_str : string := ""%string.
Definition nl : string := String (ascii_of_nat 10) EmptyString.

Inductive outcome (A : Type) := Result (a : A) | Panic.
Arguments Result {A} a.
Arguments Panic {A}.

Definition bind {A B} (o : outcome A) (f : A -> outcome B) : outcome B :=
  match o with Result a => f a | Panic => Panic end.

(* ---------- map contents ---------- *)
Definition amap := list (string * list string).

(* addMsgs(errMap, context, msg...) on the contents of a (non-nil) map *)
Fixpoint add_msgs (m : amap) (k : string) (ms : list string) : amap :=
  match m with
  | [] => [(k, ms)]
  | (k', v) :: r => if String.eqb k' k then (k', v ++ ms) :: r else (k', v) :: add_msgs r k ms
  end.

(* prefixKeys(m, prefix): a fresh map (with fresh message slices) *)
Definition prefix_keys (m : amap) (p : string) : amap := map (fun kv => (p +++ fst kv, snd kv)) m.

(* ---------- trees ---------- *)
Inductive tree (M : Type) := Node (errs warns : M) (kids : option (list (string * tree M))).
Arguments Node {M} errs warns kids.

Definition mref := option nat.
Definition ve := tree mref.              (* a *ValidationError (non-nil) in a heap *)
Definition vt := tree (option amap).     (* its abstract value / a snapshot through the getters *)

Definition sel {M} (w : bool) (e wn : M) : M := if w then wn else e.

(* ---------- heap ---------- *)
Definition heap := list amap.

Definition alloc (m : amap) (h : heap) : nat * heap := (length h, h ++ [m]).
Definition hget (a : nat) (h : heap) : option amap := nth_error h a.
Fixpoint hset (a : nat) (m : amap) (h : heap) : heap :=
  match h, a with
  | [], _ => []
  | _ :: r, 0 => m :: r
  | x :: r, S a' => x :: hset a' m r
  end.

Definition deref (h : heap) (r : mref) : option amap :=
  match r with None => None | Some a => hget a h end.

(* `range m` / `m[k]` reads: a nil map has no entries; a dangling address cannot occur in a well-formed
   state and is mapped to Panic so that "no panic" theorems also exclude it *)
Definition read_map (h : heap) (r : mref) : outcome amap :=
  match r with
  | None => Result []
  | Some a => match hget a h with Some m => Result m | None => Panic end
  end.

(* addMsgs(dst, k, ms...) : assignment to an entry of a nil map panics *)
Definition h_add_msgs (dst : mref) (k : string) (ms : list string) (h : heap) : outcome heap :=
  match dst with
  | None => Panic
  | Some a => match hget a h with
              | Some m => Result (hset a (add_msgs m k ms) h)
              | None => Panic
              end
  end.

(* for k, e := range src { addMsgs(dst, k, e...) }   (src already read: it is never dst, see callers) *)
Fixpoint h_add_all (dst : mref) (src : amap) (h : heap) : outcome heap :=
  match src with
  | [] => Result h
  | (k, ms) :: r => bind (h_add_msgs dst k ms h) (h_add_all dst r)
  end.

(* ---------- flattening ---------- *)
Section MergeKids.
  (* the recursive call getFlattenedMap(prefix+childKey, child, w) *)
  Variable rec : string -> ve -> heap -> outcome (nat * heap).
  (* for childKey, child := range children { childMap := rec(pfx+childKey, child); for k,e := range childMap { addMsgs(dst,k,e...) } } *)
  Fixpoint merge_kids (dst : mref) (pfx : string) (l : list (string * ve)) (h : heap) : outcome heap :=
    match l with
    | [] => Result h
    | (ck, c) :: r =>
        bind (rec (pfx +++ ck) c h) (fun '(cm, h1) =>
        bind (read_map h1 (Some cm)) (fun cmv =>
        bind (h_add_all dst cmv h1) (merge_kids dst pfx r)))
    end.
End MergeKids.

(* getFlattenedMap(key, ve, getWarnings): returns the address of a fresh map *)
Fixpoint get_flattened (w : bool) (key : string) (t : ve) (h : heap) {struct t} : outcome (nat * heap) :=
  match t with
  | Node e wn ks =>
      bind (read_map h (sel w e wn)) (fun m =>
      let '(f, h1) := alloc (prefix_keys m (key +++ dot)) h in
      bind (match ks with
            | None => Result h1
            | Some l => merge_kids (get_flattened w) (Some f) (key +++ dot) l h1
            end) (fun h2 => Result (f, h2)))
  end.

(* GetFlatErrorMap (w = false) / GetFlatWarningMap (w = true), fixed: flatMap := prefixKeys(e.xMap, "") *)
Definition get_flat (w : bool) (t : ve) (h : heap) : outcome (nat * heap) :=
  match t with
  | Node e wn ks =>
      bind (read_map h (sel w e wn)) (fun m =>
      let '(f, h1) := alloc (prefix_keys m empty_str) h in
      bind (match ks with
            | None => Result h1
            | Some l => merge_kids (get_flattened w) (Some f) empty_str l h1
            end) (fun h2 => Result (f, h2)))
  end.

(* all messages of a map, in iteration order *)
Definition all_msgs (m : amap) : list string := flat_map (fun kv => snd kv) m.

Definition err_line (m : string) : string := "ERROR: "%string +++ m +++ nl.
Definition warn_line (m : string) : string := "WARNING: "%string +++ m +++ nl.

(* Error(): the lines written to the strings.Builder, in order *)
Definition error_lines (t : ve) (h : heap) : outcome (list string * heap) :=
  bind (get_flat false t h) (fun '(fe, h1) =>
  bind (read_map h1 (Some fe)) (fun me =>
  bind (get_flat true t h1) (fun '(fw, h2) =>
  bind (read_map h2 (Some fw)) (fun mw =>
  Result (map err_line (all_msgs me) ++ map warn_line (all_msgs mw), h2))))).

Definition error_string (t : ve) (h : heap) : outcome (string * heap) :=
  bind (error_lines t h) (fun '(ls, h') => Result (String.concat empty_str ls, h')).

(* GetErrorMap / GetWarningMap / GetChildErrors return the fields *)
Definition get_error_map (t : ve) : mref := match t with Node e _ _ => e end.
Definition get_warning_map (t : ve) : mref := match t with Node _ w _ => w end.
Definition get_child_errors (t : ve) : option (list (string * ve)) := match t with Node _ _ ks => ks end.

(* ---------- the three constructors ---------- *)
Definition new_validation_error (ctx msg : string) (isw : bool) (h : heap) : ve * heap :=
  let '(em, h1) := alloc [(ctx, [msg])] h in
  let '(other, h2) := alloc [] h1 in
  (if isw then Node (Some other) (Some em) None else Node (Some em) (Some other) None, h2).

Definition new_validation_errors (errs : mref) (kids : option (list (string * ve))) (h : heap) : ve * heap :=
  match errs with
  | None => let '(a, h1) := alloc [] h in (Node (Some a) None kids, h1)
  | Some _ => (Node errs None kids, h)
  end.

Definition new_validation_errors_with_warnings (errs warns : mref) (kids : option (list (string * ve)))
           (h : heap) : ve * heap :=
  match errs, warns with
  | None, None => let '(a, h1) := alloc [] h in (Node (Some a) None kids, h1)
  | _, _ => (Node errs warns kids, h)
  end.

(* ---------- error values and AddErrorToValidation ---------- *)
(* ENil: the nil interface; ENilPtr: a nil pointer inside a non-nil interface (reflect IsNil);
   EPlain s: any other error with Error() = s and no ValidationError in its Unwrap chain;
   EVE t: a *ValidationError; EWrap s e: an error with text s whose Unwrap() is e. *)
Inductive err := ENil | ENilPtr | EPlain (s : string) | EVE (t : ve) | EWrap (s : string) (e : err).

(* errors.As(e, &ve) && ve != nil *)
Fixpoint as_ve (e : err) : option ve :=
  match e with EVE t => Some t | EWrap _ e' => as_ve e' | _ => None end.
Definition is_nil (e : err) : bool := match e with ENil | ENilPtr => true | _ => false end.
(* Error() of an error that is not nil and has no ValidationError inside *)
Definition err_text (e : err) : string :=
  match e with EPlain s => s | EWrap s _ => s | _ => empty_str end.

(* toValidationError(err) *)
Definition to_ve (e : err) (h : heap) : ve * heap :=
  match as_ve e with
  | Some t => (t, h)
  | None => new_validation_error empty_str (err_text e) false h
  end.

(* if m == nil { m = make(...) } *)
Definition ensure (r : mref) (h : heap) : nat * heap :=
  match r with Some a => (a, h) | None => alloc [] h end.

(* AddErrorToValidation(e1, e2): None = a nil *ValidationError *)
Definition add_error_to_validation (e1 e2 : err) (h : heap) : outcome (option ve * heap) :=
  if is_nil e1 then
    if is_nil e2 then Result (None, h)
    else let '(t, h1) := to_ve e2 h in Result (Some t, h1)
  else
    let '(t1, h1) := to_ve e1 h in
    match t1 with
    | Node e w ks =>
        if is_nil e2 then Result (Some t1, h1) else
        let '(ea, h2) := ensure e h1 in
        match as_ve e2 with
        | Some o =>
            bind (get_flat false o h2) (fun '(fe, h3) =>
            bind (read_map h3 (Some fe)) (fun me =>
            bind (h_add_all (Some ea) me h3) (fun h4 =>
            let '(wa, h5) := ensure w h4 in
            bind (get_flat true o h5) (fun '(fw, h6) =>
            bind (read_map h6 (Some fw)) (fun mw =>
            bind (h_add_all (Some wa) mw h6) (fun h7 =>
            Result (Some (Node (Some ea) (Some wa) ks), h7)))))))
        | None =>
            bind (h_add_msgs (Some ea) empty_str [err_text e2] h2) (fun h3 =>
            Result (Some (Node (Some ea) w ks), h3))
        end
    end.

(* ---------- read operations and sequences of reads ---------- *)
Inductive read_op := RError | RFlatE | RFlatW | RTopE | RTopW.

(* what a read returns, as a value: lines of Error(), or the contents of the returned map (None = nil) *)
Inductive read_val := VLines (l : list string) | VMap (m : option amap).

Definition do_read (op : read_op) (t : ve) (h : heap) : outcome (read_val * heap) :=
  match op with
  | RError => bind (error_lines t h) (fun '(ls, h') => Result (VLines ls, h'))
  | RFlatE => bind (get_flat false t h) (fun '(f, h') => Result (VMap (hget f h'), h'))
  | RFlatW => bind (get_flat true t h) (fun '(f, h') => Result (VMap (hget f h'), h'))
  | RTopE => Result (VMap (deref h (get_error_map t)), h)
  | RTopW => Result (VMap (deref h (get_warning_map t)), h)
  end.

Fixpoint run_reads (ops : list read_op) (t : ve) (h : heap) : outcome (list read_val * heap) :=
  match ops with
  | [] => Result ([], h)
  | op :: r => bind (do_read op t h) (fun '(v, h1) =>
               bind (run_reads r t h1) (fun '(vs, h2) => Result (v :: vs, h2)))
  end.

(* ---------- abstraction and specification-level functions ---------- *)
Fixpoint tmap {M N} (f : M -> N) (t : tree M) : tree N :=
  match t with
  | Node e w ks =>
      Node (f e) (f w) (match ks with
                        | None => None
                        | Some l => Some (map (fun kc => (fst kc, tmap f (snd kc))) l)
                        end)
  end.

(* the value of a ValidationError in a heap *)
Definition abs (h : heap) (t : ve) : vt := tmap (deref h) t.

Definition omap (o : option amap) : amap := match o with Some m => m | None => [] end.
Definition okids {M} (ks : option (list (string * tree M))) : list (string * tree M) :=
  match ks with Some l => l | None => [] end.

(* the (key, message) pairs stored in a map, with multiplicity *)
Definition entries (m : amap) : list (string * string) :=
  flat_map (fun kv => map (pair (fst kv)) (snd kv)) m.

Definition pfx_pair (p : string) (km : string * string) : string * string := (p +++ fst km, snd km).

(* SPECIFICATION of flattening: the messages of the node under their field names, plus, for every child
   (c, t'), the pairs of t' with "c." prepended to the key.  w = false: errors, w = true: warnings. *)
Fixpoint pairs (w : bool) (t : vt) : list (string * string) :=
  match t with
  | Node e wn ks =>
      entries (omap (sel w e wn)) ++
      match ks with
      | None => []
      | Some l => flat_map (fun kc => map (pfx_pair (fst kc +++ dot)) (pairs w (snd kc))) l
      end
  end.

(* SPECIFICATION of Error(): one line per flat error message, one per flat warning message *)
Definition spec_lines (t : vt) : list string :=
  map err_line (map snd (pairs false t)) ++ map warn_line (map snd (pairs true t)).

(* well-formed: every map reference in the tree is an allocated address below n *)
Definition ref_ok (n : nat) (r : mref) : bool := match r with None => true | Some a => a <? n end.
Fixpoint wfn (n : nat) (t : ve) : bool :=
  match t with
  | Node e w ks =>
      ref_ok n e && ref_ok n w &&
      match ks with None => true | Some l => forallb (fun kc => wfn n (snd kc)) l end
  end.
Definition wf (h : heap) (t : ve) : bool := wfn (length h) t.

(* messages of an error argument of AddErrorToValidation: (error pairs, warning pairs) *)
Definition err_pairs (w : bool) (h : heap) (e : err) : list (string * string) :=
  if is_nil e then [] else
  match as_ve e with
  | Some t => pairs w (abs h t)
  | None => if w then [] else [(empty_str, err_text e)]
  end.

Fixpoint err_wf (h : heap) (e : err) : bool :=
  match e with EVE t => wf h t | EWrap _ e' => err_wf h e' | _ => true end.

Definition res_pairs (w : bool) (h : heap) (r : option ve) : list (string * string) :=
  match r with None => [] | Some t => pairs w (abs h t) end.

(* ---------- nested constructor calls: every way of building a tree through the public constructors ---------- *)
Inductive bexp :=
| BNew (ctx msg : string) (isw : bool)                                   (* NewValidationError *)
| BErrs (errs : option nat) (kids : option (list (string * bexp)))       (* NewValidationErrors *)
| BWW (errs warns : option nat) (kids : option (list (string * bexp))).  (* NewValidationErrorsWithWarnings *)
(* [option nat]: nil or the address of a caller-made map (the same address may be used several times: the
   same map object).  Children are built before their parent (Go evaluates the arguments first). *)

Section BuildList.
  Variable rec : bexp -> heap -> ve * heap.
  Fixpoint build_list (l : list (string * bexp)) (h : heap) : list (string * ve) * heap :=
    match l with
    | [] => ([], h)
    | (k, b) :: r => let '(t, h1) := rec b h in
                     let '(r', h2) := build_list r h1 in ((k, t) :: r', h2)
    end.
End BuildList.

Fixpoint build (b : bexp) (h : heap) {struct b} : ve * heap :=
  match b with
  | BNew c m w => new_validation_error c m w h
  | BErrs e ks =>
      let '(ks', h1) := match ks with
                        | None => (None, h)
                        | Some l => let '(l', h1) := build_list build l h in (Some l', h1)
                        end in
      new_validation_errors e ks' h1
  | BWW e w ks =>
      let '(ks', h1) := match ks with
                        | None => (None, h)
                        | Some l => let '(l', h1) := build_list build l h in (Some l', h1)
                        end in
      new_validation_errors_with_warnings e w ks' h1
  end.

Fixpoint bexp_ok (n : nat) (b : bexp) : bool :=
  match b with
  | BNew _ _ _ => true
  | BErrs e ks => ref_ok n e && match ks with None => true | Some l => forallb (fun kb => bexp_ok n (snd kb)) l end
  | BWW e w ks => ref_ok n e && ref_ok n w &&
                  match ks with None => true | Some l => forallb (fun kb => bexp_ok n (snd kb)) l end
  end.

(* ---------- arguments of AddErrorToValidation as the caller writes them ---------- *)
Inductive earg := ANil | ANilPtr | APlain (s : string) | AVE (b : bexp) | AWrap (s : string) (a : earg).

Fixpoint build_earg (a : earg) (h : heap) : err * heap :=
  match a with
  | ANil => (ENil, h)
  | ANilPtr => (ENilPtr, h)
  | APlain s => (EPlain s, h)
  | AVE b => let '(t, h1) := build b h in (EVE t, h1)
  | AWrap s a' => let '(e, h1) := build_earg a' h in (EWrap s e, h1)
  end.

Fixpoint earg_ok (n : nat) (a : earg) : bool :=
  match a with AVE b => bexp_ok n b | AWrap _ a' => earg_ok n a' | _ => true end.

(* ---------- histories: reads and AddErrorToValidation calls interleaved on one running object ---------- *)
(* The running object [cur : option ve] is a *ValidationError variable (None = nil), as in
     var ve *ValidationError; ve = AddErrorToValidation(ve, err1); log(ve.Error()); ve = AddErrorToValidation(ve, err2) ...
   Descendants reached through GetChildErrors() can be read and extended too: they share their maps with the
   running object, so extending a child changes the parent's value.  (A node's FIELDS are values in the model:
   extending a child that lacks the map to be written would assign the child's field, which the parent's copy
   does not see - the harness only extends children that have the map.) *)
Fixpoint kid_lookup (l : list (string * ve)) (k : string) : option ve :=
  match l with
  | [] => None
  | (k', c) :: r => if String.eqb k' k then Some c else kid_lookup r k
  end.

Fixpoint child_at (t : ve) (path : list string) : option ve :=
  match path with
  | [] => Some t
  | k :: r => match t with
              | Node _ _ ks => match kid_lookup (okids ks) k with
                               | Some c => child_at c r
                               | None => None
                               end
              end
  end.

(* a *ValidationError variable passed as an error: nil becomes a nil pointer inside a non-nil interface *)
Definition cur_err (cur : option ve) : err := match cur with Some t => EVE t | None => ENilPtr end.

Inductive hop :=
| HRead (op : read_op)                             (* cur.<read>() *)
| HReadChild (path : list string) (op : read_op)   (* cur.GetChildErrors()[..]...<read>() *)
| HAdd (a : earg)                                  (* cur = AddErrorToValidation(cur, a) *)
| HAddTo (a : earg)                                (* cur = AddErrorToValidation(a, cur) *)
| HAddChild (path : list string) (a : earg).       (* AddErrorToValidation(child, a), result dropped *)

(* what a step shows: nothing (not applicable: cur is nil / no such child), the value read, or the value of the
   running object after the call *)
Inductive hres := HSkip | HVal (v : read_val) | HAbs (a : option vt).

Definition hstep (o : hop) (cur : option ve) (h : heap) : outcome (hres * option ve * heap) :=
  match o with
  | HRead op =>
      match cur with
      | None => Result (HSkip, cur, h)
      | Some t => bind (do_read op t h) (fun '(v, h') => Result (HVal v, cur, h'))
      end
  | HReadChild p op =>
      match cur with
      | None => Result (HSkip, cur, h)
      | Some t => match child_at t p with
                  | None => Result (HSkip, cur, h)
                  | Some c => bind (do_read op c h) (fun '(v, h') => Result (HVal v, cur, h'))
                  end
      end
  | HAdd a =>
      let '(e, h1) := build_earg a h in
      bind (add_error_to_validation (cur_err cur) e h1) (fun '(r, h2) =>
      Result (HAbs (option_map (abs h2) r), r, h2))
  | HAddTo a =>
      let '(e, h1) := build_earg a h in
      bind (add_error_to_validation e (cur_err cur) h1) (fun '(r, h2) =>
      Result (HAbs (option_map (abs h2) r), r, h2))
  | HAddChild p a =>
      match cur with
      | None => Result (HSkip, cur, h)
      | Some t => match child_at t p with
                  | None => Result (HSkip, cur, h)
                  | Some c =>
                      let '(e, h1) := build_earg a h in
                      bind (add_error_to_validation (EVE c) e h1) (fun '(_, h2) =>
                      Result (HAbs (Some (abs h2 t)), cur, h2))
                  end
      end
  end.

Fixpoint run_history (ops : list hop) (cur : option ve) (h : heap) : outcome (list hres * option ve * heap) :=
  match ops with
  | [] => Result ([], cur, h)
  | o :: r => bind (hstep o cur h) (fun '(x, cur1, h1) =>
              bind (run_history r cur1 h1) (fun '(xs, cur2, h2) => Result (x :: xs, cur2, h2)))
  end.

Definition hop_ok (n : nat) (o : hop) : bool :=
  match o with HAdd a | HAddTo a | HAddChild _ a => earg_ok n a | _ => true end.

Definition cur_wf (h : heap) (cur : option ve) : bool := match cur with Some t => wf h t | None => true end.
