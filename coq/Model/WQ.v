(* Executable model of /repo/workqueue (queue.go, workHeap.go, models.go, options.go) AFTER the small
   fixes F3, F4, F5, F6 (DESIGN.md section 6), as a labelled transition system
       step : variant -> state -> label -> option state        (None = label not enabled)
   with a ghost trace.  Definitions only; proofs are in Proofs/WQ*.v, the pinned-code refutations in
   Findings/WQ.v (they run the SAME step function with the corresponding [variant] flag switched on).

   Conventions (DESIGN.md section 3, Appendix C):
   * one step per channel operation / critical section / atomic operation; goroutines that are anonymous and
     symmetric (workers, blocked producers) are represented by phase (multi)sets, not by index;
   * every item record lives in exactly ONE place (blocked producer, dispatcher's hand, heap, workerCh buffer,
     running, senderr, deleting, removed, dropped); Go's pointer sharing between the heap / channels and the
     workItems sync.Map is modelled by [workitems] holding ids only and [find_item] locating the record;
   * container/heap is the verified mirror Lib/GoHeap.v, instantiated with Less = (priority, seq)
     lexicographic and Swap/Push/Pop writing the [position] field;
   * environment labels (caller actions, work functions returning, subscribers receiving) and internal
     labels (dispatcher, workers, error monitor, panicking producers) are one alphabet, so "every schedule and
     every workload" is "every label list";
   * adjust functions are environment input: every label that makes the code call AdjustPriorities carries
     [vals], the values those functions return at that moment (absent id = the function returns the
     current priority);
   * the shutdown path (Stop/Break, drain loop, deferred closes) is modelled as written; a send on a closed
     channel is the outcome [panicked] (K5), after which nothing is enabled.
   Simplifications (recorded in notes/WQ.md): a worker's receive from workerCh and its state.Store(IN_PROGRESS)
   are one step; Stop's Store+cancel and Break's write+Stop are one step each; Enqueue's Store/Load is one
   step and its channel send is the matching DRecv; in the drain loop the heap items are moved into the
   dispatcher's hand instead of being shared with the (no longer used) heap array. *)
From Coq Require Import List Arith ZArith Bool.
From TC.Lib Require Import GoHeap.
Import ListNotations.

(* ---- which pinned defects are switched on (all false = the fixed code) ---- *)
Record variant := mkVariant {
  bare_push_in_full_branch : bool;   (* F3: full-queue branch appends with workQueue.Push, no sift-up *)
  less_priority_only : bool;         (* F4: Less compares priority only *)
  fix_while_ranging : bool;          (* F5: AdjustPriorities calls heap.Fix while ranging over the slice *)
  position_default_zero : bool       (* F6: position defaults to 0; Dequeue/SetPriority trust state==IN_QUEUE;
                                            SetPriority does not re-order *)
}.
Definition fixed : variant := mkVariant false false false false.
Definition pinned : variant := mkVariant true true true true.

(* ---- items ---- *)
Record item := mkItem {
  iid : nat;      (* uuid.New(): fresh counter (trusted: no collisions) *)
  iname : nat;    (* WithName token *)
  iprio : Z;      (* priority *)
  iadj : bool;    (* has an adjust function *)
  iseq : nat;     (* arrival number at the dispatcher (F4) *)
  ipos : Z;       (* position: index in the heap, -1 = not in the heap *)
  ist : bool      (* state: false = IN_QUEUE (also the zero value), true = IN_PROGRESS *)
}.
Definition set_prio (p : Z) (x : item) := mkItem (iid x) (iname x) p (iadj x) (iseq x) (ipos x) (ist x).
Definition set_seq (q : nat) (x : item) := mkItem (iid x) (iname x) (iprio x) (iadj x) q (ipos x) (ist x).
Definition set_pos (p : Z) (x : item) := mkItem (iid x) (iname x) (iprio x) (iadj x) (iseq x) p (ist x).
Definition set_st (b : bool) (x : item) := mkItem (iid x) (iname x) (iprio x) (iadj x) (iseq x) (ipos x) b.

(* Less *)
Definition item_lt (v : variant) (x y : item) : bool :=
  if less_priority_only v then (iprio x <? iprio y)%Z
  else (iprio x <? iprio y)%Z || ((iprio x =? iprio y)%Z && (iseq x <? iseq y)).

(* ---- adjust-function values supplied by the environment ---- *)
Definition avals := list (nat * Z).
Fixpoint lookup (id : nat) (vals : avals) : option Z :=
  match vals with
  | [] => None
  | (k, z) :: t => if k =? id then Some z else lookup id t
  end.
(* the priority an item competes with at a decision *)
Definition eff (vals : avals) (x : item) : Z :=
  if iadj x then match lookup (iid x) vals with Some z => z | None => iprio x end else iprio x.

Inductive pkind := PSendSem | PSendErr | PSendWork | PHeapPop | PHeapRemove.

Inductive event :=
| EvEnq (id : nat) (accepted : bool)          (* Enqueue stored the item; accepted = queue not stopped *)
| EvReturned (id : nat)                       (* that Enqueue call has returned *)
| EvArrive (id seq : nat)                     (* the dispatcher received it from workChan *)
| EvHandoff (id : nat)                        (* passed straight to the worker pool: not a decision *)
| EvDecide (before : list item) (vals : avals) (consulted : list nat) (x : item)
                                              (* a decision: heap before AdjustPriorities, adjust values,
                                                 ids consulted in order, the item popped *)
| EvAdjust (consulted : list nat)             (* AdjustPriorities run by Dequeue / SetPriority *)
| EvStart (id : nat)
| EvDone (id : nat) (r : option nat)
| EvSent (id : nat) (e : nat) (to : list nat)  (* the monitor received error e of item id; it will fan it out to [to] *)
| EvErr (sub : nat) (e : option nat)          (* subscriber received e (None = the nil read from a closed errChan) *)
| EvSub (sub : nat)
| EvDeq (id : nat) (nil_returned : bool)
| EvSetPrio (id : nat) (nil_returned : bool)
| EvPanic (k : pkind).

(* dispatcher = goroutine start() *)
Inductive dphase :=
| PhIdle                         (* at the select *)
| PhGot (w : item)               (* received w from workChan *)
| PhFullWait (w : item)          (* full-queue branch: blocked in <-workerSemaphore *)
| PhFullSend (x w : item)        (* popped x, at workerCh <- x; then pushes w *)
| PhTokSend (x : item)           (* token branch: popped x, at workerCh <- x *)
| PhDrain (rest : list item)     (* after cancel: for _, work := range items *)
| PhClosing (k : nat)            (* deferred closes: 0 workerSemaphore, 1 workerCh, 2 errChan, 3 workChan *)
| PhExited.

(* error monitor goroutine *)
Inductive mphase :=
| MIdle
| MFan (e : option nat) (rest : list nat)     (* sending e to the remaining subscribers, in order *)
| MExited.

Record state := mkState {
  sW : nat;
  sL : nat;
  nextid : nat;
  nextseq : nat;
  producers : list item;
  disp : dphase;
  heap : list item;
  buffer : list item;
  tokens : nat;
  idle : nat;
  running : list item;
  senderr : list (item * nat);
  deleting : list item;
  posting : nat;
  wexited : nat;
  workitems : list nat;
  removed : list item;
  dropped : list item;
  mon : mphase;
  subs : list nat;
  nextsub : nat;
  stopped : bool;
  breaked : bool;
  cancelled : bool;
  sem_closed : bool;
  wch_closed : bool;
  err_closed : bool;
  work_closed : bool;
  panicked : bool;
  done : list nat;
  trace : list event
}.

Definition set_sW (v : nat) (s : state) : state :=
  {| sW := v ; sL := sL s ; nextid := nextid s ; nextseq := nextseq s ; producers := producers s ; disp := disp s ; heap := heap s ; buffer := buffer s ; tokens := tokens s ; idle := idle s ; running := running s ; senderr := senderr s ; deleting := deleting s ; posting := posting s ; wexited := wexited s ; workitems := workitems s ; removed := removed s ; dropped := dropped s ; mon := mon s ; subs := subs s ; nextsub := nextsub s ; stopped := stopped s ; breaked := breaked s ; cancelled := cancelled s ; sem_closed := sem_closed s ; wch_closed := wch_closed s ; err_closed := err_closed s ; work_closed := work_closed s ; panicked := panicked s ; done := done s ; trace := trace s |}.
Definition set_sL (v : nat) (s : state) : state :=
  {| sW := sW s ; sL := v ; nextid := nextid s ; nextseq := nextseq s ; producers := producers s ; disp := disp s ; heap := heap s ; buffer := buffer s ; tokens := tokens s ; idle := idle s ; running := running s ; senderr := senderr s ; deleting := deleting s ; posting := posting s ; wexited := wexited s ; workitems := workitems s ; removed := removed s ; dropped := dropped s ; mon := mon s ; subs := subs s ; nextsub := nextsub s ; stopped := stopped s ; breaked := breaked s ; cancelled := cancelled s ; sem_closed := sem_closed s ; wch_closed := wch_closed s ; err_closed := err_closed s ; work_closed := work_closed s ; panicked := panicked s ; done := done s ; trace := trace s |}.
Definition set_nextid (v : nat) (s : state) : state :=
  {| sW := sW s ; sL := sL s ; nextid := v ; nextseq := nextseq s ; producers := producers s ; disp := disp s ; heap := heap s ; buffer := buffer s ; tokens := tokens s ; idle := idle s ; running := running s ; senderr := senderr s ; deleting := deleting s ; posting := posting s ; wexited := wexited s ; workitems := workitems s ; removed := removed s ; dropped := dropped s ; mon := mon s ; subs := subs s ; nextsub := nextsub s ; stopped := stopped s ; breaked := breaked s ; cancelled := cancelled s ; sem_closed := sem_closed s ; wch_closed := wch_closed s ; err_closed := err_closed s ; work_closed := work_closed s ; panicked := panicked s ; done := done s ; trace := trace s |}.
Definition set_nextseq (v : nat) (s : state) : state :=
  {| sW := sW s ; sL := sL s ; nextid := nextid s ; nextseq := v ; producers := producers s ; disp := disp s ; heap := heap s ; buffer := buffer s ; tokens := tokens s ; idle := idle s ; running := running s ; senderr := senderr s ; deleting := deleting s ; posting := posting s ; wexited := wexited s ; workitems := workitems s ; removed := removed s ; dropped := dropped s ; mon := mon s ; subs := subs s ; nextsub := nextsub s ; stopped := stopped s ; breaked := breaked s ; cancelled := cancelled s ; sem_closed := sem_closed s ; wch_closed := wch_closed s ; err_closed := err_closed s ; work_closed := work_closed s ; panicked := panicked s ; done := done s ; trace := trace s |}.
Definition set_producers (v : list item) (s : state) : state :=
  {| sW := sW s ; sL := sL s ; nextid := nextid s ; nextseq := nextseq s ; producers := v ; disp := disp s ; heap := heap s ; buffer := buffer s ; tokens := tokens s ; idle := idle s ; running := running s ; senderr := senderr s ; deleting := deleting s ; posting := posting s ; wexited := wexited s ; workitems := workitems s ; removed := removed s ; dropped := dropped s ; mon := mon s ; subs := subs s ; nextsub := nextsub s ; stopped := stopped s ; breaked := breaked s ; cancelled := cancelled s ; sem_closed := sem_closed s ; wch_closed := wch_closed s ; err_closed := err_closed s ; work_closed := work_closed s ; panicked := panicked s ; done := done s ; trace := trace s |}.
Definition set_disp (v : dphase) (s : state) : state :=
  {| sW := sW s ; sL := sL s ; nextid := nextid s ; nextseq := nextseq s ; producers := producers s ; disp := v ; heap := heap s ; buffer := buffer s ; tokens := tokens s ; idle := idle s ; running := running s ; senderr := senderr s ; deleting := deleting s ; posting := posting s ; wexited := wexited s ; workitems := workitems s ; removed := removed s ; dropped := dropped s ; mon := mon s ; subs := subs s ; nextsub := nextsub s ; stopped := stopped s ; breaked := breaked s ; cancelled := cancelled s ; sem_closed := sem_closed s ; wch_closed := wch_closed s ; err_closed := err_closed s ; work_closed := work_closed s ; panicked := panicked s ; done := done s ; trace := trace s |}.
Definition set_heap (v : list item) (s : state) : state :=
  {| sW := sW s ; sL := sL s ; nextid := nextid s ; nextseq := nextseq s ; producers := producers s ; disp := disp s ; heap := v ; buffer := buffer s ; tokens := tokens s ; idle := idle s ; running := running s ; senderr := senderr s ; deleting := deleting s ; posting := posting s ; wexited := wexited s ; workitems := workitems s ; removed := removed s ; dropped := dropped s ; mon := mon s ; subs := subs s ; nextsub := nextsub s ; stopped := stopped s ; breaked := breaked s ; cancelled := cancelled s ; sem_closed := sem_closed s ; wch_closed := wch_closed s ; err_closed := err_closed s ; work_closed := work_closed s ; panicked := panicked s ; done := done s ; trace := trace s |}.
Definition set_buffer (v : list item) (s : state) : state :=
  {| sW := sW s ; sL := sL s ; nextid := nextid s ; nextseq := nextseq s ; producers := producers s ; disp := disp s ; heap := heap s ; buffer := v ; tokens := tokens s ; idle := idle s ; running := running s ; senderr := senderr s ; deleting := deleting s ; posting := posting s ; wexited := wexited s ; workitems := workitems s ; removed := removed s ; dropped := dropped s ; mon := mon s ; subs := subs s ; nextsub := nextsub s ; stopped := stopped s ; breaked := breaked s ; cancelled := cancelled s ; sem_closed := sem_closed s ; wch_closed := wch_closed s ; err_closed := err_closed s ; work_closed := work_closed s ; panicked := panicked s ; done := done s ; trace := trace s |}.
Definition set_tokens (v : nat) (s : state) : state :=
  {| sW := sW s ; sL := sL s ; nextid := nextid s ; nextseq := nextseq s ; producers := producers s ; disp := disp s ; heap := heap s ; buffer := buffer s ; tokens := v ; idle := idle s ; running := running s ; senderr := senderr s ; deleting := deleting s ; posting := posting s ; wexited := wexited s ; workitems := workitems s ; removed := removed s ; dropped := dropped s ; mon := mon s ; subs := subs s ; nextsub := nextsub s ; stopped := stopped s ; breaked := breaked s ; cancelled := cancelled s ; sem_closed := sem_closed s ; wch_closed := wch_closed s ; err_closed := err_closed s ; work_closed := work_closed s ; panicked := panicked s ; done := done s ; trace := trace s |}.
Definition set_idle (v : nat) (s : state) : state :=
  {| sW := sW s ; sL := sL s ; nextid := nextid s ; nextseq := nextseq s ; producers := producers s ; disp := disp s ; heap := heap s ; buffer := buffer s ; tokens := tokens s ; idle := v ; running := running s ; senderr := senderr s ; deleting := deleting s ; posting := posting s ; wexited := wexited s ; workitems := workitems s ; removed := removed s ; dropped := dropped s ; mon := mon s ; subs := subs s ; nextsub := nextsub s ; stopped := stopped s ; breaked := breaked s ; cancelled := cancelled s ; sem_closed := sem_closed s ; wch_closed := wch_closed s ; err_closed := err_closed s ; work_closed := work_closed s ; panicked := panicked s ; done := done s ; trace := trace s |}.
Definition set_running (v : list item) (s : state) : state :=
  {| sW := sW s ; sL := sL s ; nextid := nextid s ; nextseq := nextseq s ; producers := producers s ; disp := disp s ; heap := heap s ; buffer := buffer s ; tokens := tokens s ; idle := idle s ; running := v ; senderr := senderr s ; deleting := deleting s ; posting := posting s ; wexited := wexited s ; workitems := workitems s ; removed := removed s ; dropped := dropped s ; mon := mon s ; subs := subs s ; nextsub := nextsub s ; stopped := stopped s ; breaked := breaked s ; cancelled := cancelled s ; sem_closed := sem_closed s ; wch_closed := wch_closed s ; err_closed := err_closed s ; work_closed := work_closed s ; panicked := panicked s ; done := done s ; trace := trace s |}.
Definition set_senderr (v : list (item * nat)) (s : state) : state :=
  {| sW := sW s ; sL := sL s ; nextid := nextid s ; nextseq := nextseq s ; producers := producers s ; disp := disp s ; heap := heap s ; buffer := buffer s ; tokens := tokens s ; idle := idle s ; running := running s ; senderr := v ; deleting := deleting s ; posting := posting s ; wexited := wexited s ; workitems := workitems s ; removed := removed s ; dropped := dropped s ; mon := mon s ; subs := subs s ; nextsub := nextsub s ; stopped := stopped s ; breaked := breaked s ; cancelled := cancelled s ; sem_closed := sem_closed s ; wch_closed := wch_closed s ; err_closed := err_closed s ; work_closed := work_closed s ; panicked := panicked s ; done := done s ; trace := trace s |}.
Definition set_deleting (v : list item) (s : state) : state :=
  {| sW := sW s ; sL := sL s ; nextid := nextid s ; nextseq := nextseq s ; producers := producers s ; disp := disp s ; heap := heap s ; buffer := buffer s ; tokens := tokens s ; idle := idle s ; running := running s ; senderr := senderr s ; deleting := v ; posting := posting s ; wexited := wexited s ; workitems := workitems s ; removed := removed s ; dropped := dropped s ; mon := mon s ; subs := subs s ; nextsub := nextsub s ; stopped := stopped s ; breaked := breaked s ; cancelled := cancelled s ; sem_closed := sem_closed s ; wch_closed := wch_closed s ; err_closed := err_closed s ; work_closed := work_closed s ; panicked := panicked s ; done := done s ; trace := trace s |}.
Definition set_posting (v : nat) (s : state) : state :=
  {| sW := sW s ; sL := sL s ; nextid := nextid s ; nextseq := nextseq s ; producers := producers s ; disp := disp s ; heap := heap s ; buffer := buffer s ; tokens := tokens s ; idle := idle s ; running := running s ; senderr := senderr s ; deleting := deleting s ; posting := v ; wexited := wexited s ; workitems := workitems s ; removed := removed s ; dropped := dropped s ; mon := mon s ; subs := subs s ; nextsub := nextsub s ; stopped := stopped s ; breaked := breaked s ; cancelled := cancelled s ; sem_closed := sem_closed s ; wch_closed := wch_closed s ; err_closed := err_closed s ; work_closed := work_closed s ; panicked := panicked s ; done := done s ; trace := trace s |}.
Definition set_wexited (v : nat) (s : state) : state :=
  {| sW := sW s ; sL := sL s ; nextid := nextid s ; nextseq := nextseq s ; producers := producers s ; disp := disp s ; heap := heap s ; buffer := buffer s ; tokens := tokens s ; idle := idle s ; running := running s ; senderr := senderr s ; deleting := deleting s ; posting := posting s ; wexited := v ; workitems := workitems s ; removed := removed s ; dropped := dropped s ; mon := mon s ; subs := subs s ; nextsub := nextsub s ; stopped := stopped s ; breaked := breaked s ; cancelled := cancelled s ; sem_closed := sem_closed s ; wch_closed := wch_closed s ; err_closed := err_closed s ; work_closed := work_closed s ; panicked := panicked s ; done := done s ; trace := trace s |}.
Definition set_workitems (v : list nat) (s : state) : state :=
  {| sW := sW s ; sL := sL s ; nextid := nextid s ; nextseq := nextseq s ; producers := producers s ; disp := disp s ; heap := heap s ; buffer := buffer s ; tokens := tokens s ; idle := idle s ; running := running s ; senderr := senderr s ; deleting := deleting s ; posting := posting s ; wexited := wexited s ; workitems := v ; removed := removed s ; dropped := dropped s ; mon := mon s ; subs := subs s ; nextsub := nextsub s ; stopped := stopped s ; breaked := breaked s ; cancelled := cancelled s ; sem_closed := sem_closed s ; wch_closed := wch_closed s ; err_closed := err_closed s ; work_closed := work_closed s ; panicked := panicked s ; done := done s ; trace := trace s |}.
Definition set_removed (v : list item) (s : state) : state :=
  {| sW := sW s ; sL := sL s ; nextid := nextid s ; nextseq := nextseq s ; producers := producers s ; disp := disp s ; heap := heap s ; buffer := buffer s ; tokens := tokens s ; idle := idle s ; running := running s ; senderr := senderr s ; deleting := deleting s ; posting := posting s ; wexited := wexited s ; workitems := workitems s ; removed := v ; dropped := dropped s ; mon := mon s ; subs := subs s ; nextsub := nextsub s ; stopped := stopped s ; breaked := breaked s ; cancelled := cancelled s ; sem_closed := sem_closed s ; wch_closed := wch_closed s ; err_closed := err_closed s ; work_closed := work_closed s ; panicked := panicked s ; done := done s ; trace := trace s |}.
Definition set_dropped (v : list item) (s : state) : state :=
  {| sW := sW s ; sL := sL s ; nextid := nextid s ; nextseq := nextseq s ; producers := producers s ; disp := disp s ; heap := heap s ; buffer := buffer s ; tokens := tokens s ; idle := idle s ; running := running s ; senderr := senderr s ; deleting := deleting s ; posting := posting s ; wexited := wexited s ; workitems := workitems s ; removed := removed s ; dropped := v ; mon := mon s ; subs := subs s ; nextsub := nextsub s ; stopped := stopped s ; breaked := breaked s ; cancelled := cancelled s ; sem_closed := sem_closed s ; wch_closed := wch_closed s ; err_closed := err_closed s ; work_closed := work_closed s ; panicked := panicked s ; done := done s ; trace := trace s |}.
Definition set_mon (v : mphase) (s : state) : state :=
  {| sW := sW s ; sL := sL s ; nextid := nextid s ; nextseq := nextseq s ; producers := producers s ; disp := disp s ; heap := heap s ; buffer := buffer s ; tokens := tokens s ; idle := idle s ; running := running s ; senderr := senderr s ; deleting := deleting s ; posting := posting s ; wexited := wexited s ; workitems := workitems s ; removed := removed s ; dropped := dropped s ; mon := v ; subs := subs s ; nextsub := nextsub s ; stopped := stopped s ; breaked := breaked s ; cancelled := cancelled s ; sem_closed := sem_closed s ; wch_closed := wch_closed s ; err_closed := err_closed s ; work_closed := work_closed s ; panicked := panicked s ; done := done s ; trace := trace s |}.
Definition set_subs (v : list nat) (s : state) : state :=
  {| sW := sW s ; sL := sL s ; nextid := nextid s ; nextseq := nextseq s ; producers := producers s ; disp := disp s ; heap := heap s ; buffer := buffer s ; tokens := tokens s ; idle := idle s ; running := running s ; senderr := senderr s ; deleting := deleting s ; posting := posting s ; wexited := wexited s ; workitems := workitems s ; removed := removed s ; dropped := dropped s ; mon := mon s ; subs := v ; nextsub := nextsub s ; stopped := stopped s ; breaked := breaked s ; cancelled := cancelled s ; sem_closed := sem_closed s ; wch_closed := wch_closed s ; err_closed := err_closed s ; work_closed := work_closed s ; panicked := panicked s ; done := done s ; trace := trace s |}.
Definition set_nextsub (v : nat) (s : state) : state :=
  {| sW := sW s ; sL := sL s ; nextid := nextid s ; nextseq := nextseq s ; producers := producers s ; disp := disp s ; heap := heap s ; buffer := buffer s ; tokens := tokens s ; idle := idle s ; running := running s ; senderr := senderr s ; deleting := deleting s ; posting := posting s ; wexited := wexited s ; workitems := workitems s ; removed := removed s ; dropped := dropped s ; mon := mon s ; subs := subs s ; nextsub := v ; stopped := stopped s ; breaked := breaked s ; cancelled := cancelled s ; sem_closed := sem_closed s ; wch_closed := wch_closed s ; err_closed := err_closed s ; work_closed := work_closed s ; panicked := panicked s ; done := done s ; trace := trace s |}.
Definition set_stopped (v : bool) (s : state) : state :=
  {| sW := sW s ; sL := sL s ; nextid := nextid s ; nextseq := nextseq s ; producers := producers s ; disp := disp s ; heap := heap s ; buffer := buffer s ; tokens := tokens s ; idle := idle s ; running := running s ; senderr := senderr s ; deleting := deleting s ; posting := posting s ; wexited := wexited s ; workitems := workitems s ; removed := removed s ; dropped := dropped s ; mon := mon s ; subs := subs s ; nextsub := nextsub s ; stopped := v ; breaked := breaked s ; cancelled := cancelled s ; sem_closed := sem_closed s ; wch_closed := wch_closed s ; err_closed := err_closed s ; work_closed := work_closed s ; panicked := panicked s ; done := done s ; trace := trace s |}.
Definition set_breaked (v : bool) (s : state) : state :=
  {| sW := sW s ; sL := sL s ; nextid := nextid s ; nextseq := nextseq s ; producers := producers s ; disp := disp s ; heap := heap s ; buffer := buffer s ; tokens := tokens s ; idle := idle s ; running := running s ; senderr := senderr s ; deleting := deleting s ; posting := posting s ; wexited := wexited s ; workitems := workitems s ; removed := removed s ; dropped := dropped s ; mon := mon s ; subs := subs s ; nextsub := nextsub s ; stopped := stopped s ; breaked := v ; cancelled := cancelled s ; sem_closed := sem_closed s ; wch_closed := wch_closed s ; err_closed := err_closed s ; work_closed := work_closed s ; panicked := panicked s ; done := done s ; trace := trace s |}.
Definition set_cancelled (v : bool) (s : state) : state :=
  {| sW := sW s ; sL := sL s ; nextid := nextid s ; nextseq := nextseq s ; producers := producers s ; disp := disp s ; heap := heap s ; buffer := buffer s ; tokens := tokens s ; idle := idle s ; running := running s ; senderr := senderr s ; deleting := deleting s ; posting := posting s ; wexited := wexited s ; workitems := workitems s ; removed := removed s ; dropped := dropped s ; mon := mon s ; subs := subs s ; nextsub := nextsub s ; stopped := stopped s ; breaked := breaked s ; cancelled := v ; sem_closed := sem_closed s ; wch_closed := wch_closed s ; err_closed := err_closed s ; work_closed := work_closed s ; panicked := panicked s ; done := done s ; trace := trace s |}.
Definition set_sem_closed (v : bool) (s : state) : state :=
  {| sW := sW s ; sL := sL s ; nextid := nextid s ; nextseq := nextseq s ; producers := producers s ; disp := disp s ; heap := heap s ; buffer := buffer s ; tokens := tokens s ; idle := idle s ; running := running s ; senderr := senderr s ; deleting := deleting s ; posting := posting s ; wexited := wexited s ; workitems := workitems s ; removed := removed s ; dropped := dropped s ; mon := mon s ; subs := subs s ; nextsub := nextsub s ; stopped := stopped s ; breaked := breaked s ; cancelled := cancelled s ; sem_closed := v ; wch_closed := wch_closed s ; err_closed := err_closed s ; work_closed := work_closed s ; panicked := panicked s ; done := done s ; trace := trace s |}.
Definition set_wch_closed (v : bool) (s : state) : state :=
  {| sW := sW s ; sL := sL s ; nextid := nextid s ; nextseq := nextseq s ; producers := producers s ; disp := disp s ; heap := heap s ; buffer := buffer s ; tokens := tokens s ; idle := idle s ; running := running s ; senderr := senderr s ; deleting := deleting s ; posting := posting s ; wexited := wexited s ; workitems := workitems s ; removed := removed s ; dropped := dropped s ; mon := mon s ; subs := subs s ; nextsub := nextsub s ; stopped := stopped s ; breaked := breaked s ; cancelled := cancelled s ; sem_closed := sem_closed s ; wch_closed := v ; err_closed := err_closed s ; work_closed := work_closed s ; panicked := panicked s ; done := done s ; trace := trace s |}.
Definition set_err_closed (v : bool) (s : state) : state :=
  {| sW := sW s ; sL := sL s ; nextid := nextid s ; nextseq := nextseq s ; producers := producers s ; disp := disp s ; heap := heap s ; buffer := buffer s ; tokens := tokens s ; idle := idle s ; running := running s ; senderr := senderr s ; deleting := deleting s ; posting := posting s ; wexited := wexited s ; workitems := workitems s ; removed := removed s ; dropped := dropped s ; mon := mon s ; subs := subs s ; nextsub := nextsub s ; stopped := stopped s ; breaked := breaked s ; cancelled := cancelled s ; sem_closed := sem_closed s ; wch_closed := wch_closed s ; err_closed := v ; work_closed := work_closed s ; panicked := panicked s ; done := done s ; trace := trace s |}.
Definition set_work_closed (v : bool) (s : state) : state :=
  {| sW := sW s ; sL := sL s ; nextid := nextid s ; nextseq := nextseq s ; producers := producers s ; disp := disp s ; heap := heap s ; buffer := buffer s ; tokens := tokens s ; idle := idle s ; running := running s ; senderr := senderr s ; deleting := deleting s ; posting := posting s ; wexited := wexited s ; workitems := workitems s ; removed := removed s ; dropped := dropped s ; mon := mon s ; subs := subs s ; nextsub := nextsub s ; stopped := stopped s ; breaked := breaked s ; cancelled := cancelled s ; sem_closed := sem_closed s ; wch_closed := wch_closed s ; err_closed := err_closed s ; work_closed := v ; panicked := panicked s ; done := done s ; trace := trace s |}.
Definition set_panicked (v : bool) (s : state) : state :=
  {| sW := sW s ; sL := sL s ; nextid := nextid s ; nextseq := nextseq s ; producers := producers s ; disp := disp s ; heap := heap s ; buffer := buffer s ; tokens := tokens s ; idle := idle s ; running := running s ; senderr := senderr s ; deleting := deleting s ; posting := posting s ; wexited := wexited s ; workitems := workitems s ; removed := removed s ; dropped := dropped s ; mon := mon s ; subs := subs s ; nextsub := nextsub s ; stopped := stopped s ; breaked := breaked s ; cancelled := cancelled s ; sem_closed := sem_closed s ; wch_closed := wch_closed s ; err_closed := err_closed s ; work_closed := work_closed s ; panicked := v ; done := done s ; trace := trace s |}.
Definition set_done (v : list nat) (s : state) : state :=
  {| sW := sW s ; sL := sL s ; nextid := nextid s ; nextseq := nextseq s ; producers := producers s ; disp := disp s ; heap := heap s ; buffer := buffer s ; tokens := tokens s ; idle := idle s ; running := running s ; senderr := senderr s ; deleting := deleting s ; posting := posting s ; wexited := wexited s ; workitems := workitems s ; removed := removed s ; dropped := dropped s ; mon := mon s ; subs := subs s ; nextsub := nextsub s ; stopped := stopped s ; breaked := breaked s ; cancelled := cancelled s ; sem_closed := sem_closed s ; wch_closed := wch_closed s ; err_closed := err_closed s ; work_closed := work_closed s ; panicked := panicked s ; done := v ; trace := trace s |}.
Definition set_trace (v : list event) (s : state) : state :=
  {| sW := sW s ; sL := sL s ; nextid := nextid s ; nextseq := nextseq s ; producers := producers s ; disp := disp s ; heap := heap s ; buffer := buffer s ; tokens := tokens s ; idle := idle s ; running := running s ; senderr := senderr s ; deleting := deleting s ; posting := posting s ; wexited := wexited s ; workitems := workitems s ; removed := removed s ; dropped := dropped s ; mon := mon s ; subs := subs s ; nextsub := nextsub s ; stopped := stopped s ; breaked := breaked s ; cancelled := cancelled s ; sem_closed := sem_closed s ; wch_closed := wch_closed s ; err_closed := err_closed s ; work_closed := work_closed s ; panicked := panicked s ; done := done s ; trace := v |}.

Definition ev (e : event) (s : state) : state := set_trace (e :: trace s) s.

Definition init (W L : nat) : state :=
  mkState W L 0 0 [] PhIdle [] [] 0 W [] [] [] 0 0 [] [] [] MIdle [] 0
          false false false false false false false false [] [].

(* ---- NewQueue(options...): the effective configuration ----
   Defaults workerCount = runtime.NumCPU(), queueLength = 2 * NumCPU; the options are applied in argument order, each
   writes one field, so the last WithWorkers / WithQueueLength wins and options of different kinds do not interact.
   An option VALUE is a description: the configuration is a function of the option list alone ([effective]); building
   several queues from the same option values gives several independent instances of this transition system - no
   label of one queue (e.g. its ResizeLen) occurs in another queue's run.  (Likewise an Enqueue option value may be
   reused for any number of items.) *)
Inductive qopt := OptWorkers (n : nat) | OptLength (n : nat).
Definition apply_opt (cfg : nat * nat) (o : qopt) : nat * nat :=
  match o with OptWorkers n => (n, snd cfg) | OptLength n => (fst cfg, n) end.
Definition effective (ncpu : nat) (opts : list qopt) : nat * nat := fold_left apply_opt opts (ncpu, 2 * ncpu).
Definition init_opts (ncpu : nat) (opts : list qopt) : state :=
  init (fst (effective ncpu opts)) (snd (effective ncpu opts)).

(* ---- labels ---- *)
Inductive label :=
(* environment *)
| Enq (p : Z) (adj : bool) (name : nat)
| Finish (id : nat) (r : option nat)
| ErrSub
| ErrRecv (sub : nat)
| Dequeue (id : nat) (vals : avals)
| SetPrio (id : nat) (p : Z) (vals : avals)
| ResizeLen (n : nat)
| Stop
| Break
(* dispatcher *)
| DRecv (id : nat)
| DHandoff
| DPush
| DFull
| DFullTok (vals : avals)
| DFullSend
| DTok (vals : avals)
| DTokSend
| DCancel
| DDrainStep
| DClose
(* workers *)
| WTake
| WSendErr (id : nat)
| WDelete (id : nat)
| WPost
| WExit
(* error monitor *)
| MCancel
| MRecvClosed
(* a producer blocked on (or about to send on) the closed workChan *)
| PPanic (id : nat).

Definition is_internal (l : label) : bool :=
  match l with
  | Enq _ _ _ | Finish _ _ | ErrSub | ErrRecv _ | Dequeue _ _ | SetPrio _ _ _ | ResizeLen _ | Stop | Break => false
  | _ => true
  end.

(* ---- helpers ---- *)
Definition memn (x : nat) (l : list nat) : bool := existsb (Nat.eqb x) l.
Definition remove_id (x : nat) (l : list nat) : list nat := filter (fun y => negb (y =? x)) l.

Fixpoint take_item (id : nat) (l : list item) : option (item * list item) :=
  match l with
  | [] => None
  | x :: t => if iid x =? id then Some (x, t)
              else match take_item id t with
                   | Some (y, t') => Some (y, x :: t')
                   | None => None
                   end
  end.
Fixpoint take_err (id : nat) (l : list (item * nat)) : option (item * nat * list (item * nat)) :=
  match l with
  | [] => None
  | (x, e) :: t => if iid x =? id then Some (x, e, t)
                   else match take_err id t with
                        | Some (y, e', t') => Some (y, e', (x, e) :: t')
                        | None => None
                        end
  end.

Definition held (d : dphase) : list item :=
  match d with
  | PhGot w | PhFullWait w => [w]
  | PhFullSend x w => [x; w]
  | PhTokSend x => [x]
  | PhDrain rest => rest
  | _ => []
  end.

(* every item record of the state, place by place *)
Definition all_items (s : state) : list item :=
  producers s ++ held (disp s) ++ heap s ++ buffer s ++ running s ++ map fst (senderr s) ++ deleting s
  ++ removed s ++ dropped s.

(* workItems.Load(id) *)
Definition find_item (id : nat) (s : state) : option item :=
  if memn id (workitems s) then find (fun x => iid x =? id) (all_items s) else None.

(* ---- AdjustPriorities ---- *)
Definition adjust_all (vals : avals) (l : list item) : list item :=
  map (fun x => set_prio (eff vals x) x) l.
Definition consults (l : list item) : list nat := map iid (filter iadj l).

(* pinned (F5): for _, wi := range items { if adj { new := adj(); if new != prio { prio = new; heap.Fix(&wh, wi.position) } } }
   — index i reads the array as it is NOW, after the Fix calls of earlier iterations *)
Fixpoint adjust_ranging (v : variant) (k i : nat) (vals : avals) (l : list item) (cs : list nat)
  : list item * list nat :=
  match k with
  | 0 => (l, cs)
  | S k' =>
      match nth_error l i with
      | None => (l, cs)
      | Some x =>
          if iadj x then
            let p := eff vals x in
            if (p =? iprio x)%Z then adjust_ranging v k' (S i) vals l (cs ++ [iid x])
            else
              let l1 := upd l i (set_prio p x) in
              let l2 := if (ipos x <? 0)%Z then l1 else h_fix (item_lt v) set_pos l1 (Z.to_nat (ipos x)) in
              adjust_ranging v k' (S i) vals l2 (cs ++ [iid x])
          else adjust_ranging v k' (S i) vals l cs
      end
  end.

(* fixed (F5): re-evaluate every adjust function, then heap.Init *)
Definition adjust (v : variant) (vals : avals) (l : list item) : list item * list nat :=
  if fix_while_ranging v then adjust_ranging v (length l) 0 vals l []
  else (h_init (item_lt v) set_pos (adjust_all vals l), consults l).

Definition do_panic (k : pkind) (s : state) : option state :=
  Some (set_panicked true (ev (EvPanic k) s)).

(* AdjustPriorities; heap.Pop — one dispatch decision.  None = heap.Pop on an empty heap (Go panics) *)
Definition decide (v : variant) (vals : avals) (s : state) : option (item * state) :=
  let '(h1, cs) := adjust v vals (heap s) in
  match h_pop (item_lt v) set_pos h1 with
  | None => None
  | Some (x, h2) => Some (x, ev (EvDecide (heap s) vals cs x) (set_heap h2 s))
  end.

Definition buffer_room (s : state) : bool := length (buffer s) <? sW s.
(* the guard of "if Len()==0 { select { case workerCh <- work: ...; default: } }" failing *)
Definition no_handoff (s : state) : bool := negb (match heap s with [] => true | _ => false end) || negb (buffer_room s).

Definition map_items (f : item -> item) (s : state) : state :=
  set_producers (map f (producers s))
  (set_disp (match disp s with
             | PhGot w => PhGot (f w) | PhFullWait w => PhFullWait (f w)
             | PhFullSend x w => PhFullSend (f x) (f w) | PhTokSend x => PhTokSend (f x)
             | PhDrain r => PhDrain (map f r) | d => d end)
  (set_heap (map f (heap s))
  (set_buffer (map f (buffer s))
  (set_running (map f (running s))
  (set_senderr (map (fun xe => (f (fst xe), snd xe)) (senderr s))
  (set_deleting (map f (deleting s))
  (set_removed (map f (removed s))
  (set_dropped (map f (dropped s)) s)))))))).

(* ---- the transition function ---- *)
Definition step (v : variant) (s : state) (l : label) : option state :=
  if panicked s then None else
  match l with
  (* Enqueue: uuid.New, options, workItems.Store, stopped.Load; the send itself is DRecv *)
  | Enq p adj name =>
      let id := nextid s in
      let it := mkItem id name p adj 0 (if position_default_zero v then 0 else -1)%Z false in
      let s1 := set_nextid (S id) (set_workitems (workitems s ++ [id]) s) in
      if stopped s
      then Some (ev (EvReturned id) (ev (EvEnq id false) (set_dropped (dropped s ++ [it]) s1)))
      else Some (ev (EvEnq id true) (set_producers (producers s ++ [it]) s1))
  (* case work := <-w.workChan  (F4: the arrival number is assigned here) *)
  | DRecv id =>
      match disp s, take_item id (producers s) with
      | PhIdle, Some (it, rest) =>
          let q := nextseq s in
          Some (ev (EvReturned id) (ev (EvArrive id q)
                 (set_nextseq (S q) (set_disp (PhGot (set_seq q it)) (set_producers rest s)))))
      | _, _ => None
      end
  (* if Len()==0 { select { case workerCh <- work: break insideFor ... *)
  | DHandoff =>
      match disp s with
      | PhGot w => if negb (no_handoff s)
                  then Some (ev (EvHandoff (iid w)) (set_disp PhIdle (set_buffer (buffer s ++ [w]) s)))
                  else None
      | _ => None
      end
  (* if Len() < queueLength { heap.Push } *)
  | DPush =>
      match disp s with
      | PhGot w => if no_handoff s && (length (heap s) <? sL s)
                  then Some (set_disp PhIdle (set_heap (h_push (item_lt v) set_pos (heap s) w) s))
                  else None
      | _ => None
      end
  (* else: "Waiting for free worker" *)
  | DFull =>
      match disp s with
      | PhGot w => if no_handoff s && negb (length (heap s) <? sL s)
                  then Some (set_disp (PhFullWait w) s)
                  else None
      | _ => None
      end
  (* <-workerSemaphore; AdjustPriorities; heap.Pop *)
  | DFullTok vals =>
      match disp s with
      | PhFullWait w =>
          match tokens s with
          | 0 => None
          | S t =>
              match decide v vals (set_tokens t s) with
              | Some (x, s1) => Some (set_disp (PhFullSend x w) s1)
              | None => do_panic PHeapPop (set_tokens t s)
              end
          end
      | _ => None
      end
  (* workerCh <- wtemp; heap.Push(work)   (F3; pinned: bare workQueue.Push) *)
  | DFullSend =>
      match disp s with
      | PhFullSend x w =>
          if buffer_room s then
            let h := if bare_push_in_full_branch v
                     then heap s ++ [set_pos (Z.of_nat (length (heap s))) w]
                     else h_push (item_lt v) set_pos (heap s) w in
            Some (set_disp PhIdle (set_heap h (set_buffer (buffer s ++ [x]) s)))
          else None
      | _ => None
      end
  (* case <-workerSemaphore: if Len() > 0 { AdjustPriorities; heap.Pop; ... } *)
  | DTok vals =>
      match disp s with
      | PhIdle =>
          match tokens s with
          | 0 => None
          | S t =>
              match heap s with
              | [] => Some (set_tokens t s)
              | _ => match decide v vals (set_tokens t s) with
                     | Some (x, s1) => Some (set_disp (PhTokSend x) s1)
                     | None => do_panic PHeapPop (set_tokens t s)
                     end
              end
          end
      | _ => None
      end
  | DTokSend =>
      match disp s with
      | PhTokSend x => if buffer_room s then Some (set_disp PhIdle (set_buffer (buffer s ++ [x]) s)) else None
      | _ => None
      end
  (* case <-w.queueContext.Done(): break outsideFor *)
  | DCancel =>
      match disp s with
      | PhIdle => if cancelled s then Some (set_disp (PhDrain (heap s)) (set_heap [] s)) else None
      | _ => None
      end
  (* for _, work := range items { if !breaked { workerCh <- work } } *)
  | DDrainStep =>
      match disp s with
      | PhDrain [] => Some (set_disp (PhClosing 0) s)
      | PhDrain (x :: rest) =>
          if breaked s then Some (set_disp (PhDrain rest) (set_dropped (dropped s ++ [x]) s))
          else if buffer_room s then Some (set_disp (PhDrain rest) (set_buffer (buffer s ++ [x]) s))
          else None
      | _ => None
      end
  (* deferred: close(workerSemaphore); close(workerCh); close(errChan); close(workChan) *)
  | DClose =>
      match disp s with
      | PhClosing 0 => Some (set_disp (PhClosing 1) (set_sem_closed true s))
      | PhClosing 1 => Some (set_disp (PhClosing 2) (set_wch_closed true s))
      | PhClosing 2 => Some (set_disp (PhClosing 3) (set_err_closed true s))
      | PhClosing _ => Some (set_disp PhExited (set_work_closed true s))
      | _ => None
      end
  (* doWork: for wi := range workCh { state.Store(IN_PROGRESS); workToDo() ... *)
  | WTake =>
      match idle s, buffer s with
      | S i, x :: b =>
          Some (ev (EvStart (iid x)) (set_running (running s ++ [set_st true x]) (set_buffer b (set_idle i s))))
      | _, _ => None
      end
  (* the work function returns (environment) *)
  | Finish id r =>
      match take_item id (running s) with
      | Some (x, rest) =>
          let s1 := ev (EvDone id r) (set_running rest s) in
          match r with
          | Some e => Some (set_senderr (senderr s ++ [(x, e)]) s1)
          | None => Some (set_deleting (deleting s ++ [x]) s1)
          end
      | None => None
      end
  (* w.errChan <- err : rendezvous with the monitor's receive *)
  | WSendErr id =>
      match take_err id (senderr s) with
      | Some (x, e, rest) =>
          if err_closed s then do_panic PSendErr s
          else match mon s with
               | MIdle => Some (ev (EvSent id e (subs s))
                                (set_mon (match subs s with [] => MIdle | l => MFan (Some e) l end)
                                (set_deleting (deleting s ++ [x]) (set_senderr rest s))))
               | _ => None
               end
      | None => None
      end
  (* sub <- e : a subscriber receives (environment) *)
  | ErrRecv sub =>
      match mon s with
      | MFan e (s0 :: rest) =>
          if s0 =? sub
          then Some (ev (EvErr sub e) (set_mon (match rest with [] => MIdle | _ => MFan e rest end) s))
          else None
      | _ => None
      end
  (* w.workItems.Delete(wi.id) *)
  | WDelete id =>
      match take_item id (deleting s) with
      | Some (x, rest) =>
          Some (set_done (done s ++ [id]) (set_posting (S (posting s))
               (set_workitems (remove_id id (workitems s)) (set_deleting rest s))))
      | None => None
      end
  (* semaphore <- true *)
  | WPost =>
      match posting s with
      | 0 => None
      | S p => if sem_closed s then do_panic PSendSem s
               else if tokens s <? sW s
               then Some (set_idle (S (idle s)) (set_tokens (S (tokens s)) (set_posting p s)))
               else None
      end
  (* range over the closed, drained workerCh ends *)
  | WExit =>
      match idle s, buffer s with
      | S i, [] => if wch_closed s then Some (set_wexited (S (wexited s)) (set_idle i s)) else None
      | _, _ => None
      end
  | MCancel =>
      match mon s with
      | MIdle => if cancelled s then Some (set_mon MExited s) else None
      | _ => None
      end
  (* e := <-w.errChan on the closed channel yields nil, which is fanned out like an error *)
  | MRecvClosed =>
      match mon s with
      | MIdle => if err_closed s
                 then Some (set_mon (match subs s with [] => MIdle | l => MFan None l end) s)
                 else None
      | _ => None
      end
  | PPanic id =>
      match take_item id (producers s) with
      | Some _ => if work_closed s then do_panic PSendWork s else None
      | None => None
      end
  | ErrSub =>
      Some (ev (EvSub (nextsub s)) (set_nextsub (S (nextsub s)) (set_subs (subs s ++ [nextsub s]) s)))
  (* Dequeue(id) *)
  | Dequeue id vals =>
      match find_item id s with
      | None => Some (ev (EvDeq id true) s)                      (* unknown id: nil, nothing happens *)
      | Some it =>
          if ist it then Some (ev (EvDeq id false) s)            (* IN_PROGRESS: error *)
          else if negb (position_default_zero v) && (ipos it <? 0)%Z
          then Some (ev (EvDeq id false) s)                      (* F6: not in the heap: error *)
          else
            let hr := if (0 <=? ipos it)%Z
                      then match h_remove (item_lt v) set_pos (heap s) (Z.to_nat (ipos it)) with
                           | Some (x, h') => Some ([x], h')
                           | None => None
                           end
                      else Some ([], heap s) in
            match hr with
            | None => do_panic PHeapRemove s
            | Some (xs, h1) =>
                let '(h2, cs) := adjust v vals h1 in
                Some (ev (EvDeq id true) (ev (EvAdjust cs)
                       (set_heap h2 (set_removed (removed s ++ xs)
                          (set_workitems (remove_id id (workitems s)) s)))))
            end
      end
  (* SetPriority(id, p) *)
  | SetPrio id p vals =>
      match find_item id s with
      | None => Some (ev (EvSetPrio id true) s)
      | Some it =>
          if ist it then Some (ev (EvSetPrio id false) s)
          else if position_default_zero v then
            (* pinned: wi.priority = p wherever the item is; AdjustPriorities; no re-ordering *)
            let s1 := map_items (fun x => if iid x =? id then set_prio p x else x) s in
            let '(h2, cs) := adjust v vals (heap s1) in
            Some (ev (EvSetPrio id true) (ev (EvAdjust cs) (set_heap h2 s1)))
          else if (ipos it <? 0)%Z then Some (ev (EvSetPrio id false) s)
          else
            (* F6: wi.priority = p; heap.Fix(position); AdjustPriorities *)
            let i := Z.to_nat (ipos it) in
            let h0 := map (fun x => if iid x =? id then set_prio p x else x) (heap s) in
            let h1 := h_fix (item_lt v) set_pos h0 i in
            let '(h2, cs) := adjust v vals h1 in
            Some (ev (EvSetPrio id true) (ev (EvAdjust cs) (set_heap h2 s)))
      end
  | ResizeLen n => Some (set_sL n s)
  | Stop => Some (set_cancelled true (set_stopped true s))
  | Break => Some (set_cancelled true (set_stopped true (set_breaked true s)))
  end.

(* run a label list; None if some label is not enabled *)
Fixpoint run (v : variant) (s : state) (ls : list label) : option state :=
  match ls with
  | [] => Some s
  | l :: t => match step v s l with Some s' => run v s' t | None => None end
  end.

(* candidate internal labels of a state (those that can possibly be enabled), for execution *)
Definition internal_labels (vals : avals) (s : state) : list label :=
  map (fun x => DRecv (iid x)) (producers s)
  ++ [DHandoff; DPush; DFull; DFullTok vals; DFullSend; DTok vals; DTokSend; DCancel; DDrainStep; DClose;
      WTake; WPost; WExit; MCancel; MRecvClosed]
  ++ map (fun xe => WSendErr (iid (fst xe))) (senderr s)
  ++ map (fun x => WDelete (iid x)) (deleting s)
  ++ map (fun x => PPanic (iid x)) (producers s).

(* no internal step enabled (for every choice of adjust values: enabledness does not depend on them) *)
Definition quiescent (v : variant) (s : state) : Prop :=
  forall l, is_internal l = true -> step v s l = None.
Definition quiescentb (v : variant) (s : state) : bool :=
  forallb (fun l => match step v s l with None => true | Some _ => false end) (internal_labels [] s).
