(* Ghost instrumentation of the cache model (history variables; not in the code):
   born k  = logical time of the Set that last INSERTED k (insertion path), erased by Delete / Clear;
   n_ins   = insertions since the last Clear;  ins_cur = insertions into the current partition. *)
From Coq Require Import List Arith Bool.
From TC.Lib Require Import Assoc.
From TC.Model Require Import Cache.
Import ListNotations.

Section CacheGhost.
  Context {K V : Type}.
  Variable keqb : K -> K -> bool.

  Record ghost := { born : list (K * nat); clock : nat; n_ins : nat; ins_cur : nat }.
  Definition ghost0 (t : nat) : ghost := {| born := []; clock := t; n_ins := 0; ins_cur := 0 |}.

  (* does Set take the insertion path? *)
  Definition is_fresh (s : @state K V) (k : K) : bool :=
    match lookup keqb k (index s) with
    | Some id => match peek id (parts s) with Some _ => false | None => true end
    | None => true
    end.

  Definition gset (s : @state K V) (g : ghost) (k : K) : ghost :=
    if is_fresh s k then
      {| born := upsert keqb k (clock g) (born g); clock := S (clock g); n_ins := S (n_ins g);
         ins_cur := if room s then S (ins_cur g) else 1 |}
    else {| born := born g; clock := S (clock g); n_ins := n_ins g; ins_cur := ins_cur g |}.

  Definition tick (g : ghost) : ghost :=
    {| born := born g; clock := S (clock g); n_ins := n_ins g; ins_cur := ins_cur g |}.

  Definition greplay_part (sg : @state K V * ghost) (old : amap V) (ks : list K) : @state K V * ghost :=
    let '(s1, g1) := fold_left (fun '(s, g) k => match lookup keqb k old with
                                                | Some v => (set keqb s k v, gset s g k)
                                                | None => (s, g)
                                                end) ks sg in
    (sweep s1, tick g1).

  Fixpoint greplay (sg : @state K V * ghost) (olds : list (nat * amap V)) (order : list (list K)) :=
    match olds, order with
    | (_, old) :: olds', ks :: order' => greplay (greplay_part sg old ks) olds' order'
    | (_, old) :: olds', [] => greplay (greplay_part sg old (map fst old)) olds' []
    | [], _ => sg
    end.

  Definition gexec (sg : @state K V * ghost) (l : @label K V) : @state K V * ghost :=
    let '(s, g) := sg in
    match l with
    | LSet k v => (set keqb s k v, gset s g k)
    | LDelete k => (delete keqb s k,
                    {| born := remove keqb k (born g); clock := S (clock g); n_ins := n_ins g; ins_cur := ins_cur g |})
    | LClear => (clear s, ghost0 (S (clock g)))
    | LSweep => (sweep s, tick g)
    | LResize (p, c) order =>
        if (p =? P s) && (c =? C s) then (s, tick g)
        else greplay (clear_with p c, ghost0 (S (clock g))) (parts s) order
    | _ => (s, tick g)
    end.

  Definition grun (sg : @state K V * ghost) (h : list (@label K V)) := fold_left gexec h sg.
End CacheGhost.
