(* Model of generic/syncmap.go (after fix F8).  Executable definitions only.

   sync.Map is library code: it is modelled BY CONTRACT as an association list K -> any whose
   methods are atomic (this is what its documentation promises; Range is the documented exception and
   is only modelled sequentially).  A value of Go type `any` is [option D]: [None] is the nil interface
   value, [Some d] a non-nil one with dynamic value d.

   The wrapper SyncMap[K,V] converts V -> any on the way in ([inj]) and asserts any -> V on the way
   out.  The assertion is a PARTIAL function: `x.(V)` panics on the nil interface value.  For a
   concrete V (int, string, *T) [inj] never yields nil; for an interface-typed V the nil V becomes the nil
   any — so `Store(k, nil)` followed by `Load(k)` panics in the pinned code (Findings/SyncMap.v).
   After F8 the wrapper uses the comma-ok form, which yields the zero V for the nil any.

   [step_gen asV] is the wrapper with the assertion as a parameter: [asV_ok] (fixed code, total) gives the
   model [step]; Findings/SyncMap.v instantiates it with the pinned, partial assertion. *)
From Coq Require Import List Bool Arith.
From TC.Lib Require Import Conc.
From TC.Model Require Import SafeMap.
Import ListNotations.

Section SyncMap.
  Context {K V D : Type}.
  Variable keqb : K -> K -> bool.
  Variable deqb : D -> D -> bool.
  Variable zero : V.
  Variable inj : V -> option D.      (* conversion V -> any; None = the nil interface value *)
  Variable proj : D -> V.            (* what a successful assertion x.(V) yields *)

  Definition any := option D.
  Definition cmap := list (K * any).                 (* state of the sync.Map contract *)

  Definition any_eqb (x y : any) : bool :=           (* interface == on comparable dynamic values *)
    match x, y with
    | None, None => true
    | Some a, Some b => deqb a b
    | _, _ => false
    end.

  (* sync.Map contract (each one atomic) *)
  Definition c_load (k : K) (m : cmap) : option any := lookup keqb k m.
  Definition c_store (k : K) (x : any) (m : cmap) : cmap := set keqb k x m.
  Definition c_delete (k : K) (m : cmap) : cmap := remove keqb k m.

  (* the two assertions *)
  Definition asV_ok (x : any) : option V :=          (* v, _ := x.(V) : never panics *)
    Some (match x with Some d => proj d | None => zero end).
  Definition asV_pinned (x : any) : option V :=      (* x.(V) : panics on the nil interface value *)
    match x with Some d => Some (proj d) | None => None end.

  Inductive op :=
  | OLoad (k : K) | OStore (k : K) (v : V) | OSwap (k : K) (v : V) | ODelete (k : K)
  | OLoadOrStore (k : K) (v : V) | OLoadAndDelete (k : K)
  | OCompareAndDelete (k : K) (old : V) | OCompareAndSwap (k : K) (old new : V)
  | ORange (n : nat)        (* the callback answers true n times, then false *)
  | OIterate (n : nat).     (* the range-over-func loop breaks after n+1 iterations *)

  Inductive ret :=
  | RUnit | RValOk (v : V) (ok : bool) | RBool (b : bool) | RPairs (l : list (K * V)).

  Fixpoint assert_all (asV : any -> option V) (l : list (K * any)) : option (list (K * V)) :=
    match l with
    | [] => Some []
    | (k, x) :: t =>
        match asV x with
        | None => None
        | Some v => match assert_all asV t with None => None | Some r => Some ((k, v) :: r) end
        end
    end.

  (* what the embedded sync.Map call hands back to the wrapper *)
  Inductive raw :=
  | RawUnit | RawValOk (x : any) (ok : bool) | RawBool (b : bool) | RawPairs (l : list (K * any)).

  (* phase 1 of every method: ONE call of the embedded sync.Map (atomic by contract) *)
  Definition contract_call (m : cmap) (o : op) : cmap * raw :=
    match o with
    | OLoad k =>
        match c_load k m with Some x => (m, RawValOk x true) | None => (m, RawValOk None false) end
    | OStore k v => (c_store k (inj v) m, RawUnit)
    | OSwap k v =>
        let m' := c_store k (inj v) m in
        match c_load k m with Some x => (m', RawValOk x true) | None => (m', RawValOk None false) end
    | ODelete k => (c_delete k m, RawUnit)
    | OLoadOrStore k v =>
        match c_load k m with
        | Some x => (m, RawValOk x true)
        | None => (c_store k (inj v) m, RawValOk (inj v) false)
        end
    | OLoadAndDelete k =>
        match c_load k m with Some x => (c_delete k m, RawValOk x true) | None => (m, RawValOk None false) end
    | OCompareAndDelete k old =>
        match c_load k m with
        | Some x => if any_eqb x (inj old) then (c_delete k m, RawBool true) else (m, RawBool false)
        | None => (m, RawBool false)
        end
    | OCompareAndSwap k old new =>
        match c_load k m with
        | Some x => if any_eqb x (inj old) then (c_store k (inj new) m, RawBool true) else (m, RawBool false)
        | None => (m, RawBool false)
        end
    | ORange n | OIterate n => (m, RawPairs (firstn (S n) m))
    end.

  (* phase 2: purely local — the wrapper's type assertions on what came back.  None = panic. *)
  Definition finish (asV : any -> option V) (o : op) (w : raw) : option ret :=
    match o, w with
    | (OLoad _ | OSwap _ _ | OLoadAndDelete _), RawValOk x ok =>
        if ok then match asV x with Some v => Some (RValOk v true) | None => None end
        else Some (RValOk zero false)                       (* `if !ok { return }` : zero value, false *)
    | OLoadOrStore _ _, RawValOk x ok =>
        match asV x with Some v => Some (RValOk v ok) | None => None end     (* asserted unconditionally *)
    | (OStore _ _ | ODelete _), _ => Some RUnit
    | (OCompareAndDelete _ _ | OCompareAndSwap _ _ _), RawBool b => Some (RBool b)
    | (ORange _ | OIterate _), RawPairs l =>
        match assert_all asV l with Some r => Some (RPairs r) | None => None end
    | _, _ => Some RUnit                                   (* shapes contract_call never produces *)
    end.

  (* None = the call panics *)
  Definition step_gen (asV : any -> option V) (m : cmap) (o : op) : option (cmap * ret) :=
    let (m', w) := contract_call m o in
    match finish asV o w with Some r => Some (m', r) | None => None end.

  Definition step := step_gen asV_ok.

  Fixpoint run_gen (asV : any -> option V) (m : cmap) (ops : list op) : option (list ret) :=
    match ops with
    | [] => Some []
    | o :: t =>
        match step_gen asV m o with
        | None => None
        | Some (m', r) => match run_gen asV m' t with None => None | Some rs => Some (r :: rs) end
        end
    end.
  Definition run := run_gen asV_ok.

  (* ---- the reference map K -> option V ---- *)
  Definition ref_step (f : fmap (K := K) (V := V)) (o : op) : fmap :=
    match o with
    | OStore k v | OSwap k v => fupd keqb f k (Some v)
    | ODelete k | OLoadAndDelete k => fupd keqb f k None
    | OLoadOrStore k v => match f k with Some _ => f | None => fupd keqb f k (Some v) end
    | OCompareAndDelete k old => fun k' => if keqb k' k then None else f k'      (* guarded below *)
    | OCompareAndSwap k old new => fupd keqb f k (Some new)                       (* guarded below *)
    | _ => f
    end.

  (* CompareAnd* change the map only when the comparison succeeds: the relation between f, o, r and the
     next reference state *)
  Definition ref_next (f : fmap (K := K) (V := V)) (o : op) (r : ret) (f' : fmap) : Prop :=
    match o with
    | OCompareAndDelete _ _ | OCompareAndSwap _ _ _ =>
        (r = RBool true /\ forall k, f' k = ref_step f o k) \/ (r = RBool false /\ forall k, f' k = f k)
    | _ => forall k, f' k = ref_step f o k
    end.

  Definition visit_ok (f : fmap (K := K) (V := V)) (n : nat) (r : ret) : Prop :=
    exists ks l, dom_of f ks /\ r = RPairs l /\ NoDup (map fst l)
                 /\ (forall k v, In (k, v) l -> f k = Some v)
                 /\ List.length l = Nat.min (S n) (List.length ks).

  Definition ret_ok (f : fmap (K := K) (V := V)) (o : op) (r : ret) : Prop :=
    match o with
    | OLoad k | OLoadAndDelete k | OSwap k _ =>
        r = RValOk (match f k with Some v => v | None => zero end) (isSome (f k))    (* miss: (zero, false) *)
    | OStore _ _ | ODelete _ => r = RUnit
    | OLoadOrStore k v => r = RValOk (match f k with Some x => x | None => v end) (isSome (f k))
    | OCompareAndDelete k old | OCompareAndSwap k old _ =>
        (f k = Some old /\ r = RBool true) \/ (f k <> Some old /\ r = RBool false)
    | ORange n | OIterate n => visit_ok f n r
    end.

  Inductive ref_run : fmap -> list op -> list ret -> Prop :=
  | ref_nil f : ref_run f [] []
  | ref_cons f f' o r ops rs :
      ret_ok f o r -> ref_next f o r f' -> ref_run f' ops rs -> ref_run f (o :: ops) (r :: rs).

  (* ---- the concurrent object relative to the sync.Map contract ----
     every method except Range/Iterate is ONE atomic sync.Map call (step 1) followed by a purely local
     assertion (step 2).  sync.Map.Range is documented NOT to be a consistent snapshot, so Range and
     Iterate are excluded from the concurrent object (they are covered sequentially only). *)
  Definition atomic_op (o : op) : bool :=
    match o with ORange _ | OIterate _ => false | _ => true end.
  Definition aop : Type := { o : op | atomic_op o = true }.

  Inductive local := LCall (o : op) | LAssert (o : op) (w : raw).

  (* result None = the invocation panicked *)
  Definition syncmap_cstep (m : cmap) (l : local) : cmap * (local + option ret) :=
    match l with
    | LCall o => let (m', w) := contract_call m o in (m', inl (LAssert o w))
    | LAssert o w => (m, inr (finish asV_ok o w))
    end.

  Definition syncmap_obj : object :=
    {| St := cmap; Loc := local; Op := aop; Ret := option ret;
       obegin := fun o => LCall (proj1_sig o); ostep := syncmap_cstep |}.

  (* the sequential specification: the sequential model itself *)
  Definition syncmap_spec (m : cmap) (o : aop) : cmap * option ret :=
    match step m (proj1_sig o) with
    | Some (m', r) => (m', Some r)
    | None => (m, None)
    end.
End SyncMap.

Arguments op : clear implicits.
Arguments ret : clear implicits.
Arguments raw : clear implicits.
Arguments local : clear implicits.
