(* Model of server.Server.Start / Stop, the provider goroutines and the two WaitGroups as an
   interleaving system.  Definitions only.

   Mirrors server/server.go (Start, Stop), server/httpServer/httpProvider.go (Start, Stop) and
   server/grpcServer/grpcProvider.go (Start, Stop).  The HTTPS provider has the lifecycle of the HTTP
   provider (ListenAndServeTLS instead of ListenAndServe).

   Atomic steps: every WaitGroup operation, every call into / return from the library servers, every
   goroutine start.  The library (net/http.Server, grpc.Server) is NOT modelled: what it may do is given by
   two functions that are Section variables of the proofs, constrained there by the contracts
     L1/L2: once Shutdown / GracefulStop has been called, ListenAndServe[TLS] / Serve returns
            (whether it was entered before or after), and it closes its listener when it returns;
     L3:    Shutdown / GracefulStop returns when no request is in flight, and Shutdown also when its
            context has ended (GracefulStop is then forced by grpc.Server.Stop, which aborts the calls). *)
From Coq Require Import List ZArith Bool Arith.
Import ListNotations.

Inductive kind := KHttp | KGrpc.

(* program counter of a provider goroutine *)
Inductive gpc :=
| GNone        (* go provider.Start(...) not yet executed by the caller *)
| GSpawned     (* goroutine exists, has not run *)
| GListened    (* gRPC only: listenerFactory returned, the port is bound *)
| GSignalled   (* startWg.Done() executed *)
| GServing     (* inside ListenAndServe[TLS] / Serve *)
| GReturned    (* ListenAndServe[TLS] / Serve returned *)
| GDone.       (* deferred stopWg.Done() executed: the goroutine has returned *)

Record prov := {
  p_kind : kind;
  p_pc : gpc;
  p_shut : bool;        (* Shutdown / GracefulStop has been called on the library server *)
  p_bound : bool;       (* a listening socket of this provider is open *)
  p_inflight : nat;     (* requests being handled *)
  p_sdone : nat         (* how many times this provider called startWg.Done() *)
}.

(* program counter of the goroutine that calls Start *)
Inductive spc :=
| CIdle
| CAddStop (i : nat)     (* Start loop, provider i: before s.stopProvidersWg.Add(1) *)
| CAddStart (i : nat)    (*                         before startWg.Add(1) *)
| CGo (i : nat)          (*                         before go provider.Start(...) *)
| CStartWait             (* at startWg.Wait() *)
| CRunning.              (* Start has returned *)

(* program counter of the goroutine that calls Stop.  It may be another goroutine than the one in Start:
   Stop can be issued as soon as Start has launched every provider (it is then waiting at startWg.Wait()
   or has returned).  A Stop that overlaps Start's launching loop itself is excluded: it would call
   WaitGroup.Wait concurrently with WaitGroup.Add at counter zero, which sync.WaitGroup forbids. *)
Inductive tpc :=
| TIdle
| CStopCall (i : nat)    (* Stop loop: before providers[i].Stop(ctx) *)
| CStopDrain (i : nat)   (* inside providers[i].Stop: Shutdown / GracefulStop called, not yet returned *)
| CStopWait              (* at s.stopProvidersWg.Wait() *)
| CStopped.              (* Stop has returned *)

Record st := {
  s_provs : list prov;
  s_start : spc;
  s_stop : tpc;
  s_startwg : Z;         (* counter of Start's local WaitGroup *)
  s_stopwg : Z;          (* counter of the caller-supplied WaitGroup *)
  s_ctx : bool           (* the context given to Stop has ended *)
}.

Inductive label :=
(* environment *)
| LCallStart | LCallStop | LCtxExpire
| LReqBegin (i : nat) | LReqEnd (i : nat)
(* the caller inside Start *)
| LAddStop | LAddStart | LGo | LStartReturn
(* provider goroutine i *)
| LListen (i : nat) | LSignal (i : nat) | LServe (i : nat) | LServeReturn (i : nat) | LDone (i : nat)
(* the caller inside Stop *)
| LStopCall | LForce | LStopProvReturn | LStopReturn.

Definition is_env (l : label) : bool :=
  match l with LCallStart | LCallStop | LCtxExpire | LReqBegin _ | LReqEnd _ => true | _ => false end.

Definition set_pc (pc : gpc) (p : prov) : prov :=
  {| p_kind := p_kind p; p_pc := pc; p_shut := p_shut p; p_bound := p_bound p; p_inflight := p_inflight p; p_sdone := p_sdone p |}.
Definition set_bound (b : bool) (p : prov) : prov :=
  {| p_kind := p_kind p; p_pc := p_pc p; p_shut := p_shut p; p_bound := b; p_inflight := p_inflight p; p_sdone := p_sdone p |}.
Definition set_shut (p : prov) : prov :=
  {| p_kind := p_kind p; p_pc := p_pc p; p_shut := true; p_bound := p_bound p; p_inflight := p_inflight p; p_sdone := p_sdone p |}.
Definition set_inflight (k : nat) (p : prov) : prov :=
  {| p_kind := p_kind p; p_pc := p_pc p; p_shut := p_shut p; p_bound := p_bound p; p_inflight := k; p_sdone := p_sdone p |}.
Definition inc_sdone (p : prov) : prov :=
  {| p_kind := p_kind p; p_pc := p_pc p; p_shut := p_shut p; p_bound := p_bound p; p_inflight := p_inflight p; p_sdone := S (p_sdone p) |}.

Fixpoint upd_nth {A} (i : nat) (f : A -> A) (l : list A) : list A :=
  match l, i with
  | [], _ => []
  | x :: t, O => f x :: t
  | x :: t, S j => x :: upd_nth j f t
  end.

Definition with_provs (ps : list prov) (s : st) : st :=
  {| s_provs := ps; s_start := s_start s; s_stop := s_stop s; s_startwg := s_startwg s; s_stopwg := s_stopwg s; s_ctx := s_ctx s |}.
Definition with_start (c : spc) (s : st) : st :=
  {| s_provs := s_provs s; s_start := c; s_stop := s_stop s; s_startwg := s_startwg s; s_stopwg := s_stopwg s; s_ctx := s_ctx s |}.
Definition with_stop (c : tpc) (s : st) : st :=
  {| s_provs := s_provs s; s_start := s_start s; s_stop := c; s_startwg := s_startwg s; s_stopwg := s_stopwg s; s_ctx := s_ctx s |}.
Definition add_startwg (d : Z) (s : st) : st :=
  {| s_provs := s_provs s; s_start := s_start s; s_stop := s_stop s; s_startwg := (s_startwg s + d)%Z; s_stopwg := s_stopwg s; s_ctx := s_ctx s |}.
Definition add_stopwg (d : Z) (s : st) : st :=
  {| s_provs := s_provs s; s_start := s_start s; s_stop := s_stop s; s_startwg := s_startwg s; s_stopwg := (s_stopwg s + d)%Z; s_ctx := s_ctx s |}.
Definition with_ctx (s : st) : st :=
  {| s_provs := s_provs s; s_start := s_start s; s_stop := s_stop s; s_startwg := s_startwg s; s_stopwg := s_stopwg s; s_ctx := true |}.

Definition kind_eqb (a b : kind) : bool :=
  match a, b with KHttp, KHttp | KGrpc, KGrpc => true | _, _ => false end.
Definition pc_eqb (a b : gpc) : bool :=
  match a, b with
  | GNone, GNone | GSpawned, GSpawned | GListened, GListened | GSignalled, GSignalled
  | GServing, GServing | GReturned, GReturned | GDone, GDone => true
  | _, _ => false
  end.

Definition init_prov (k : kind) : prov :=
  {| p_kind := k; p_pc := GNone; p_shut := false; p_bound := false; p_inflight := 0; p_sdone := 0 |}.
(* w0 = value of the caller's WaitGroup counter before Start *)
Definition init (kinds : list kind) (w0 : Z) : st :=
  {| s_provs := map init_prov kinds; s_start := CIdle; s_stop := TIdle; s_startwg := 0%Z; s_stopwg := w0; s_ctx := false |}.

Section Step.
  (* what the library may do (see the header): may the serve loop of p return now?  may the
     Shutdown / GracefulStop call on p return now, given whether the context has ended? *)
  Variable serve_ret : prov -> bool.
  Variable drain_ret : prov -> bool -> bool.

  (* after the loop body for provider i *)
  Definition next_start (n i : nat) : spc := if S i <? n then CAddStop (S i) else CStartWait.
  Definition next_stop (n i : nat) : tpc := if S i <? n then CStopCall (S i) else CStopWait.

  Definition step_prov (i : nat) (s : st) (f : prov -> option (prov * (st -> st))) : option st :=
    match nth_error (s_provs s) i with
    | None => None
    | Some p =>
        match f p with
        | None => None
        | Some (p', g) => Some (g (with_provs (upd_nth i (fun _ => p') (s_provs s)) s))
        end
    end.

  Definition step (l : label) (s : st) : option st :=
    let n := length (s_provs s) in
    match l with
    (* ---- environment ---- *)
    | LCallStart =>
        match s_start s with
        | CIdle => Some (with_start (if 0 <? n then CAddStop 0 else CStartWait) s)
        | _ => None
        end
    | LCallStop =>                                       (* from any goroutine, once every provider was launched *)
        match s_stop s, s_start s with
        | TIdle, CStartWait | TIdle, CRunning => Some (with_stop (if 0 <? n then CStopCall 0 else CStopWait) s)
        | _, _ => None
        end
    | LCtxExpire => Some (with_ctx s)
    | LReqBegin i =>
        step_prov i s (fun p =>
          if pc_eqb (p_pc p) GServing && negb (p_shut p) then Some (set_inflight (S (p_inflight p)) p, fun s => s) else None)
    | LReqEnd i =>
        step_prov i s (fun p =>
          match p_inflight p with O => None | S k => Some (set_inflight k p, fun s => s) end)
    (* ---- Start ----   for _, provider := range s.providers { *)
    | LAddStop =>                                       (* s.stopProvidersWg.Add(1) *)
        match s_start s with
        | CAddStop i => Some (with_start (CAddStart i) (add_stopwg 1 s))
        | _ => None
        end
    | LAddStart =>                                      (* startWg.Add(1) *)
        match s_start s with
        | CAddStart i => Some (with_start (CGo i) (add_startwg 1 s))
        | _ => None
        end
    | LGo =>                                            (* go provider.Start(ctx, startWg, s.stopProvidersWg) *)
        match s_start s with
        | CGo i =>
            step_prov i s (fun p =>
              match p_pc p with
              | GNone => Some (set_pc GSpawned p, with_start (next_start n i))
              | _ => None
              end)
        | _ => None
        end
    | LStartReturn =>                                   (* startWg.Wait(); return nil *)
        match s_start s with
        | CStartWait => if Z.eqb (s_startwg s) 0 then Some (with_start CRunning s) else None
        | _ => None
        end
    (* ---- provider goroutines ---- *)
    | LListen i =>                                      (* gRPC: ls, err := p.listenerFactory("tcp", ":port") *)
        step_prov i s (fun p =>
          match p_kind p, p_pc p with
          | KGrpc, GSpawned => Some (set_bound true (set_pc GListened p), fun s => s)
          | _, _ => None
          end)
    | LSignal i =>                                      (* startWg.Done() *)
        step_prov i s (fun p =>
          match p_kind p, p_pc p with
          | KHttp, GSpawned | KGrpc, GListened => Some (inc_sdone (set_pc GSignalled p), add_startwg (-1))
          | _, _ => None
          end)
    | LServe i =>                                       (* ListenAndServe[TLS]() / Serve(ls) is entered *)
        step_prov i s (fun p =>
          match p_pc p with
          | GSignalled =>
              if p_shut p
              then Some (set_bound false (set_pc GReturned p), fun s => s)   (* ErrServerClosed / ErrServerStopped at once *)
              else Some (set_bound true (set_pc GServing p), fun s => s)
          | _ => None
          end)
    | LServeReturn i =>                                 (* ListenAndServe[TLS]() / Serve(ls) returns *)
        step_prov i s (fun p =>
          match p_pc p with
          | GServing => if serve_ret p then Some (set_bound false (set_pc GReturned p), fun s => s) else None
          | _ => None
          end)
    | LDone i =>                                        (* defer stopWg.Done() *)
        step_prov i s (fun p =>
          match p_pc p with
          | GReturned => Some (set_pc GDone p, add_stopwg (-1))
          | _ => None
          end)
    (* ---- Stop ----   for _, provider := range s.providers { e := provider.Stop(ctx) ... } *)
    | LStopCall =>                                      (* Shutdown(ctx) / GracefulStop() is entered *)
        match s_stop s with
        | CStopCall i =>
            step_prov i s (fun p =>
              Some (set_shut (if pc_eqb (p_pc p) GServing then set_bound false p else p), with_stop (CStopDrain i)))
        | _ => None
        end
    | LForce =>                                         (* gRPC: case <-ctx.Done(): p.grpcServer.Stop() *)
        match s_stop s with
        | CStopDrain i =>
            step_prov i s (fun p =>
              match p_kind p, p_inflight p with
              | KGrpc, S _ => if s_ctx s then Some (set_inflight 0 p, fun s => s) else None
              | _, _ => None
              end)
        | _ => None
        end
    | LStopProvReturn =>                                (* Shutdown / GracefulStop returns *)
        match s_stop s with
        | CStopDrain i =>
            step_prov i s (fun p =>
              if drain_ret p (s_ctx s) then Some (p, with_stop (next_stop n i)) else None)
        | _ => None
        end
    | LStopReturn =>                                    (* s.stopProvidersWg.Wait(); return err *)
        match s_stop s with
        | CStopWait => if Z.eqb (s_stopwg s) 0 then Some (with_stop CStopped s) else None
        | _ => None
        end
    end.

  (* a schedule = a list of labels; "every schedule" = every list accepted by [run] *)
  Fixpoint run (ls : list label) (s : st) : option st :=
    match ls with
    | [] => Some s
    | l :: t => match step l s with Some s' => run t s' | None => None end
    end.

  Definition reachable (kinds : list kind) (w0 : Z) (s : st) : Prop :=
    exists ls, run ls (init kinds w0) = Some s.
End Step.

(* the library behaviour the contracts describe exactly (used to close the Section hypotheses and to
   run scenarios): the serve loop returns iff shut down; Shutdown returns when drained or (HTTP only)
   when the context has ended *)
Definition lib_serve_ret (p : prov) : bool := p_shut p.
Definition lib_drain_ret (p : prov) (ctx : bool) : bool :=
  Nat.eqb (p_inflight p) 0 || (ctx && kind_eqb (p_kind p) KHttp).

(* all labels that can possibly be enabled in a state with n providers (for executable schedulers) *)
Definition internal_labels (n : nat) : list label :=
  [LAddStop; LAddStart; LGo; LStartReturn; LStopCall; LForce; LStopProvReturn; LStopReturn]
  ++ flat_map (fun i => [LListen i; LSignal i; LServe i; LServeReturn i; LDone i]) (seq 0 n).

(* run internal steps (first enabled in the given priority order) until none is enabled *)
Fixpoint settle (order : list label) (fuel : nat) (s : st) : st :=
  match fuel with
  | O => s
  | S f =>
      match find (fun l => match step lib_serve_ret lib_drain_ret l s with Some _ => true | None => false end) order with
      | Some l => match step lib_serve_ret lib_drain_ret l s with Some s' => settle order f s' | None => s end
      | None => s
      end
  end.
