(* Executable model of /repo/storage/genericStack.go (after fix F9).  Definitions only.

   entries : the heap array of (id, value) handled by container/heap (Lib/GoHeap.v), Less = id order,
             Swap does not record positions (setpos = identity);
   next    : the atomic counter currentKey (ids are next+1, next+2, ...; uint64 overflow not modelled).
   Sequential model [step] and concurrent model [cstep] (Push = fetch-add step + locked insertion step;
   every other method is one critical section; Values sorts its private copy afterwards). *)
From Coq Require Import List ZArith Bool.
From TC.Lib Require Import GoHeap.
Import ListNotations.

Section GStack.
  Context {V : Type}.
  Variable zero : V.

  Definition entry : Type := (Z * V)%type.
  Definition elt (a b : entry) : bool := (fst a <? fst b)%Z.       (* stack.Less *)
  Definition nopos (_ : Z) (e : entry) : entry := e.                (* stack.Swap records nothing *)

  Record gstack := { entries : list entry; next : Z }.
  Definition init : gstack := {| entries := []; next := 0 |}.

  (* sort.SliceStable(stackCpy, id <): insertion sort, stable *)
  Fixpoint ins (e : entry) (l : list entry) : list entry :=
    match l with
    | [] => [e]
    | x :: t => if elt e x then e :: l else x :: ins e t
    end.
  Definition sort_by_id (l : list entry) : list entry := fold_right ins [] l.

  Fixpoint scan (id : Z) (l : list entry) : option V :=
    match l with
    | [] => None
    | (i, v) :: t => if (i =? id)%Z then Some v else scan id t
    end.

  Inductive op := Push (v : V) | Pop | Peek (id : Z) | Len | Values.
  Inductive out := OId (id : Z) | OVal (v : V) | OPeek (r : option V) | OLen (n : nat)
                 | OValues (vs : list V) | OPanic.

  (* locked insertion of an entry that already has its id *)
  Definition insert (s : gstack) (e : entry) : gstack :=
    {| entries := h_push elt nopos (entries s) e; next := next s |}.

  (* Pop's critical section (after F9 the emptiness test is inside it) *)
  Definition pop_locked (s : gstack) : gstack * out :=
    match entries s with
    | [] => (s, OVal zero)
    | _ => match h_pop elt nopos (entries s) with
           | Some (e, l') => ({| entries := l'; next := next s |}, OVal (snd e))
           | None => (s, OPanic)
           end
    end.

  Definition step (s : gstack) (o : op) : gstack * out :=
    match o with
    | Push v => let id := (next s + 1)%Z in
                (insert {| entries := entries s; next := id |} (id, v), OId id)
    | Pop => pop_locked s
    | Peek id => (s, OPeek (scan id (entries s)))
    | Len => (s, OLen (length (entries s)))
    | Values => (s, OValues (map snd (sort_by_id (entries s))))
    end.

  Fixpoint run (s : gstack) (ops : list op) : gstack * list out :=
    match ops with
    | [] => (s, [])
    | o :: t => let '(s1, r) := step s o in let '(s2, rs) := run s1 t in (s2, r :: rs)
    end.

  (* ---- specification: a FIFO queue of (id, value) in push order ---- *)
  Record qspec := { items : list entry; qnext : Z }.
  Definition qinit : qspec := {| items := []; qnext := 0 |}.
  Definition qstep (q : qspec) (o : op) : qspec * out :=
    match o with
    | Push v => let id := (qnext q + 1)%Z in ({| items := items q ++ [(id, v)]; qnext := id |}, OId id)
    | Pop => match items q with
             | [] => (q, OVal zero)
             | e :: t => ({| items := t; qnext := qnext q |}, OVal (snd e))
             end
    | Peek id => (q, OPeek (scan id (items q)))
    | Len => (q, OLen (length (items q)))
    | Values => (q, OValues (map snd (items q)))
    end.
  Fixpoint qrun (q : qspec) (ops : list op) : qspec * list out :=
    match ops with
    | [] => (q, [])
    | o :: t => let '(q1, r) := qstep q o in let '(q2, rs) := qrun q1 t in (q2, r :: rs)
    end.

  (* ---- concurrent model: any number of anonymous goroutines ---- *)
  Record cstate := {
    st : gstack;
    issued : list entry;       (* ghost: every (id, value) a Push call was ever given *)
    pending : list entry;      (* Push calls that hold an id but have not inserted yet *)
    inserted : list entry;     (* ghost: everything ever inserted *)
    popped : list entry;       (* ghost: everything ever removed by Pop *)
    panicked : bool
  }.
  Definition cinit : cstate :=
    {| st := init; issued := []; pending := []; inserted := []; popped := []; panicked := false |}.

  Inductive clabel :=
  | LPushId (v : V)            (* currentKey.Add(1) *)
  | LPushIns (k : nat)         (* the k-th pending Push takes the lock and inserts *)
  | LPop | LPeek (id : Z) | LLen | LValues.

  Fixpoint remove_nth {A} (k : nat) (l : list A) : list A :=
    match l, k with
    | [], _ => []
    | _ :: t, 0 => t
    | x :: t, S k' => x :: remove_nth k' t
    end.

  (* [pinned_pop]: the unfixed Pop tests emptiness in a separate, unlocked step before locking:
     modelled by the label LPopLocked being enabled regardless of emptiness *)
  Definition cstep (c : cstate) (l : clabel) : option cstate :=
    match l with
    | LPushId v =>
        let id := (next (st c) + 1)%Z in
        Some {| st := {| entries := entries (st c); next := id |};
                issued := (id, v) :: issued c;
                pending := pending c ++ [(id, v)];
                inserted := inserted c; popped := popped c; panicked := panicked c |}
    | LPushIns k =>
        match nth_error (pending c) k with
        | Some e => Some {| st := insert (st c) e; issued := issued c; pending := remove_nth k (pending c);
                            inserted := e :: inserted c; popped := popped c; panicked := panicked c |}
        | None => None
        end
    | LPop =>
        match entries (st c) with
        | [] => Some c
        | _ => match h_pop elt nopos (entries (st c)) with
               | Some (e, l') => Some {| st := {| entries := l'; next := next (st c) |};
                                         issued := issued c; pending := pending c; inserted := inserted c;
                                         popped := e :: popped c; panicked := panicked c |}
               | None => Some {| st := st c; issued := issued c; pending := pending c; inserted := inserted c;
                                 popped := popped c; panicked := true |}
               end
        end
    | LPeek _ | LLen | LValues => Some c
    end.

  Fixpoint crun (c : cstate) (ls : list clabel) : option cstate :=
    match ls with
    | [] => Some c
    | l :: t => match cstep c l with Some c' => crun c' t | None => None end
    end.
End GStack.
