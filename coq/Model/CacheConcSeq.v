(* Sequential use of the concurrent model: calling an operation = spawning its goroutine and letting it (and only
   it) run to completion; the abstraction from the heap-shaped state of Model/CacheConc.v to the sequential cache
   state of Model/Cache.v.  Definitions only (the projection theorem is Proofs/CacheConcSeq.v). *)
From Coq Require Import List Arith Bool.
From TC.Lib Require Import Assoc.
From TC.Model Require Cache.
From TC.Model Require Import CacheConc.
Import ListNotations.

Section Seq.
  Context {K V : Type}.
  Variable keqb : K -> K -> bool.
  Variable zero : V.

  (* live partitions, oldest first, with their contents; counter; current id; index; configuration *)
  Definition absf (c : config) (s : @CacheConc.state K V) : @Cache.state K V :=
    match nth_error (stacks s) (fparts s), nth_error (idxs s) (findex s) with
    | Some st, Some ix =>
        {| Cache.parts := map (fun e => (fst e, nth (snd e) (pmaps s) [])) (ents st);
           Cache.next := ctr st; Cache.cur := CacheConc.cur s; Cache.index := ix;
           Cache.P := maxP c; Cache.C := capC c |}
    | _, _ => Cache.init (maxP c) (capC c)
    end.

  (* the schedule "goroutine i takes m steps in a row" *)
  Definition solo (i m : nat) : list (@CacheConc.label K V) := repeat (LStep i) m.

  (* the sequential label of an operation, and what the sequential model observes for it *)
  Definition lab (o : @op K V) : option (@Cache.label K V) :=
    match o with
    | OSet k v => Some (Cache.LSet k v)
    | OGet k => Some (Cache.LGet k)
    | OContains k => Some (Cache.LContains k)
    | ODelete k => Some (Cache.LDelete k)
    | OSweep => Some Cache.LSweep
    | OClear => Some Cache.LClear
    | OTicker => None
    end.
  Definition res_matches (o : @op K V) (r : @res V) (ob : @Cache.obs K V) : Prop :=
    match o, r, ob with
    | OGet _, RVal v, Cache.OGet g => v = match g with Some x => x | None => zero end
    | OContains _, RBool b, Cache.OBool b' => b = b'
    | (OSet _ _ | ODelete _ | OSweep | OClear), RUnit, Cache.ONone => True
    | _, _, _ => False
    end.
End Seq.
