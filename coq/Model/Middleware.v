(* Model of the HTTP side of toolchest/server: request/response state, handler programs, the supplied
   middleware (LogRequest, LogResponse, BundleMiddleware), the route table both providers build and the
   net/http ServeMux lookup for literal "METHOD /path" patterns.  Definitions only.

   Mirrors (after the fixes of DESIGN.md section 6, row F13):
     server/httpMiddleware/bundleMiddleware.go, logRequest.go, logResponse.go
     server/serverConfig/httpServerConfig.go (AddRoute), server/httpServer/httpProvider.go (New*Provider)
     server/serverConfig/grpcServerConfig.go + server/grpcServer/grpcProvider.go (registration map)

   Data (method codes, header keys/values, body bytes, status codes) are opaque integer tokens [Z];
   the path type of the route table is a Section variable with a decidable equality.
   Method codes: 0 = GET, 1 = HEAD (the only two the router treats specially), others arbitrary. *)
From Coq Require Import List ZArith Bool Arith.
Import ListNotations.

Definition mGET : Z := 0%Z.
Definition mHEAD : Z := 1%Z.

(* ---------- association lists (Go maps; http.Header restricted to single-valued Set) ---------- *)
Fixpoint upd {V} (k : Z) (v : V) (l : list (Z * V)) : list (Z * V) :=
  match l with
  | [] => [(k, v)]
  | (k', v') :: t => if Z.eqb k k' then (k, v) :: t else (k', v') :: upd k v t
  end.
Fixpoint get {V} (k : Z) (l : list (Z * V)) : option V :=
  match l with
  | [] => None
  | (k', v') :: t => if Z.eqb k k' then Some v' else get k t
  end.

(* ---------- state ---------- *)
Definition hdrs := list (Z * Z).

(* *http.Request as the handler chain sees it.  q_body is the UNREAD remainder of r.Body. *)
Record reqst := { q_method : Z; q_path : Z; q_hdr : hdrs; q_body : list Z }.

(* The server's own http.ResponseWriter (net/http contract):
   p_hdr = the live header map; p_sent = status and header snapshot taken by the first WriteHeader
   (explicit or implied by the first Write or Flush); p_body = bytes written; p_info = the informational
   (1xx) responses sent before it, each with the header map as it was at that moment.
   TRUSTED net/http contract for WriteHeader(code) (server.go, h2 likewise): once the final header is written
   every further WriteHeader is ignored ("superfluous"); before that, 100 <= code <= 199 (except 101) sends an
   interim response and does NOT commit the header, any other code commits it.  Flush commits 200 if nothing
   was committed yet. *)
Record respst := { p_hdr : hdrs; p_sent : option (Z * hdrs); p_body : list Z; p_info : list (Z * hdrs) }.
Definition is_info (c : Z) : bool := (100 <=? c)%Z && (c <=? 199)%Z && negb (c =? 101)%Z.

Inductive event :=
| EEnter (i : Z) | EExit (i : Z)                       (* a recording middleware i before / after next *)
| EObsReq (m p : Z) (h : hdrs)                         (* a handler program looked at method, URL, headers *)
| EObsRead (bs : list Z)                               (* a handler program read these body bytes *)
| EObsHdr (h : hdrs)                                   (* a handler program looked at w.Header() *)
| EMark (i : Z)                                        (* a handler program announced itself (which handler ran) *)
| ELogReq (m p : Z) (body : list Z)                    (* logger: "Request received" *)
| ELogResp (m p : Z) (status : Z) (body : list Z).     (* logger: "Response Sent" *)

(* w_cells: private state of the ResponseWriterWrapper objects allocated so far (status, buffer) *)
Record world := { w_req : reqst; w_resp : respst; w_cells : list (Z * list Z); w_log : list event }.

Definition set_req (q : reqst) (s : world) : world :=
  {| w_req := q; w_resp := w_resp s; w_cells := w_cells s; w_log := w_log s |}.
Definition set_resp (p : respst) (s : world) : world :=
  {| w_req := w_req s; w_resp := p; w_cells := w_cells s; w_log := w_log s |}.
Definition set_cells (c : list (Z * list Z)) (s : world) : world :=
  {| w_req := w_req s; w_resp := w_resp s; w_cells := c; w_log := w_log s |}.
Definition logev (e : event) (s : world) : world :=
  {| w_req := w_req s; w_resp := w_resp s; w_cells := w_cells s; w_log := w_log s ++ [e] |}.
Definition set_body (b : list Z) (s : world) : world :=
  set_req {| q_method := q_method (w_req s); q_path := q_path (w_req s); q_hdr := q_hdr (w_req s); q_body := b |} s.

(* ---------- http.ResponseWriter as an interface: a record of methods ---------- *)
Record writer := {
  wr_set : Z -> Z -> world -> world;      (* w.Header().Set(k, v) *)
  wr_hdr : world -> hdrs;                 (* reading w.Header() *)
  wr_status : Z -> world -> world;        (* w.WriteHeader(code) *)
  wr_write : list Z -> world -> world;    (* w.Write(bytes) *)
  wr_flush : world -> world               (* if f, ok := w.(http.Flusher); ok { f.Flush() } *)
}.

Definition base_set (k v : Z) (s : world) : world :=
  let p := w_resp s in set_resp {| p_hdr := upd k v (p_hdr p); p_sent := p_sent p; p_body := p_body p; p_info := p_info p |} s.
Definition base_status (c : Z) (s : world) : world :=
  let p := w_resp s in
  match p_sent p with
  | Some _ => s                                            (* superfluous WriteHeader: ignored *)
  | None =>
      if is_info c
      then set_resp {| p_hdr := p_hdr p; p_sent := None; p_body := p_body p; p_info := p_info p ++ [(c, p_hdr p)] |} s
      else set_resp {| p_hdr := p_hdr p; p_sent := Some (c, p_hdr p); p_body := p_body p; p_info := p_info p |} s
  end.
Definition base_write (bs : list Z) (s : world) : world :=
  let s1 := base_status 200 s in                           (* first Write implies WriteHeader(200) *)
  let p := w_resp s1 in
  set_resp {| p_hdr := p_hdr p; p_sent := p_sent p; p_body := p_body p ++ bs; p_info := p_info p |} s1.
Definition base_flush (s : world) : world := base_status 200 s.   (* Flush: if !wroteHeader { WriteHeader(200) } *)
Definition base : writer :=
  {| wr_set := base_set; wr_hdr := fun s => p_hdr (w_resp s); wr_status := base_status; wr_write := base_write;
     wr_flush := base_flush |}.

(* what net/http does when the handler chain returns: an unsent header goes out as 200 *)
Definition finish (s : world) : world := base_status 200 s.

(* ---------- handlers ---------- *)
Definition handler := writer -> world -> world.            (* func(w http.ResponseWriter, r *http.Request) *)
Definition middleware := handler -> handler.               (* HttpHandlerMiddleware *)

(* Handler programs: every terminating handler that talks to the request and the writer only through
   their interfaces; continuations make later behaviour depend on what was observed. *)
Inductive hprog :=
| HDone
| HMark (i : Z) (k : hprog)                    (* record "handler i is running" (harness recorders) *)
| HObsReq (k : Z -> Z -> hdrs -> hprog)        (* r.Method, r.URL.Path, r.Header *)
| HRead (n : nat) (k : list Z -> hprog)        (* io.ReadFull(r.Body, buf[:n]) : min(n, remaining) bytes *)
| HReadAll (k : list Z -> hprog)               (* io.ReadAll(r.Body) *)
| HGetHdr (k : hdrs -> hprog)                  (* w.Header() *)
| HSetHdr (key v : Z) (k : hprog)              (* w.Header().Set(key, v) *)
| HStatus (c : Z) (k : hprog)                  (* w.WriteHeader(c) *)
| HWrite (bs : list Z) (k : hprog)             (* w.Write(bs) *)
| HFlush (k : hprog).                          (* flush if the writer can: w.(http.Flusher) *)

Fixpoint run_h (h : hprog) (w : writer) (s : world) : world :=
  match h with
  | HDone => s
  | HMark i k => run_h k w (logev (EMark i) s)
  | HObsReq k =>
      let q := w_req s in
      run_h (k (q_method q) (q_path q) (q_hdr q)) w (logev (EObsReq (q_method q) (q_path q) (q_hdr q)) s)
  | HRead n k =>
      let b := q_body (w_req s) in
      run_h (k (firstn n b)) w (logev (EObsRead (firstn n b)) (set_body (skipn n b) s))
  | HReadAll k =>
      let b := q_body (w_req s) in
      run_h (k b) w (logev (EObsRead b) (set_body [] s))
  | HGetHdr k => run_h (k (wr_hdr w s)) w (logev (EObsHdr (wr_hdr w s)) s)
  | HSetHdr key v k => run_h k w (wr_set w key v s)
  | HStatus c k => run_h k w (wr_status w c s)
  | HWrite bs k => run_h k w (wr_write w bs s)
  | HFlush k => run_h k w (wr_flush w s)
  end.

(* ---------- logRequest.go (fixed: the body is restored) ---------- *)
Definition log_request_fx (s : world) : world :=
  let body := q_body (w_req s) in            (* bodyBytes, _ := io.ReadAll(r.Body); r.Body.Close() *)
  let s1 := set_body [] s in
  let s2 := set_body body s1 in              (* r.Body = io.NopCloser(bytes.NewReader(bodyBytes)) *)
  logev (ELogReq (q_method (w_req s2)) (q_path (w_req s2)) body) s2.
Definition log_request : middleware := fun next w s => next w (log_request_fx s).

(* ---------- logResponse.go ---------- *)
Definition cell_get (id : nat) (s : world) : Z * list Z := nth id (w_cells s) (200%Z, []).
Fixpoint cell_upd (id : nat) (f : Z * list Z -> Z * list Z) (l : list (Z * list Z)) : list (Z * list Z) :=
  match l, id with
  | [], _ => []
  | c :: t, O => f c :: t
  | c :: t, S j => c :: cell_upd j f t
  end.
Definition wrap_writer (id : nat) (w : writer) : writer :=
  {| wr_set := wr_set w;                                        (* Header() returns the inner map *)
     wr_hdr := wr_hdr w;
     wr_status := fun c s =>                                    (* *statusCode = c; inner.WriteHeader(c) *)
       wr_status w c (set_cells (cell_upd id (fun '(_, b) => (c, b)) (w_cells s)) s);
     wr_write := fun bs s =>                                    (* body.Write(bs); inner.Write(bs) *)
       wr_write w bs (set_cells (cell_upd id (fun '(c, b) => (c, b ++ bs)) (w_cells s)) s);
     wr_flush := wr_flush w |}.                                 (* fixed (F13d): Flush() forwards to the inner writer *)
Definition log_response : middleware := fun next w s =>
  let id := length (w_cells s) in                               (* newResponseWriterWrapper(w) *)
  let s1 := set_cells (w_cells s ++ [(200%Z, [])]) s in
  let s2 := next (wrap_writer id w) s1 in
  let '(st, b) := cell_get id s2 in                             (* deferred logResponse *)
  logev (ELogResp (q_method (w_req s2)) (q_path (w_req s2)) st b) s2.

(* ---------- other middleware used by theorems and the harness ---------- *)
Definition rec_mw (i : Z) : middleware := fun next w s => logev (EExit i) (next w (logev (EEnter i) s)).
(* a middleware written as two handler programs around next *)
Definition script_mw (pre post : hprog) : middleware := fun next w s => run_h post w (next w (run_h pre w s)).

(* ---------- bundleMiddleware.go ---------- *)
(* for i := len(middleware)-1; i >= 0; i-- { wrapped = middleware[i](wrapped) }   (cnt = i+1) *)
Fixpoint bundle_loop (ms : list middleware) (cnt : nat) (wrapped : handler) : handler :=
  match cnt with
  | O => wrapped
  | S i => bundle_loop ms i (nth i ms (fun h => h) wrapped)
  end.
Definition bundle (ms : list middleware) : middleware := fun next =>
  match ms with
  | [] => next
  | _ => bundle_loop ms (length ms) next
  end.

(* descriptions of middleware lists (what a configuration is made of) *)
Inductive mwd :=
| DLogRequest | DLogResponse
| DRecord (i : Z)
| DScript (pre post : hprog)
| DOther (f : middleware).
Definition denote (d : mwd) : middleware :=
  match d with
  | DLogRequest => log_request
  | DLogResponse => log_response
  | DRecord i => rec_mw i
  | DScript pre post => script_mw pre post
  | DOther f => f
  end.
Definition is_logging (d : mwd) : bool :=
  match d with DLogRequest | DLogResponse => true | _ => false end.
Definition strip (ds : list mwd) : list mwd := filter (fun d => negb (is_logging d)) ds.

(* ---------- observables ---------- *)
Definition is_logger_event (e : event) : bool :=
  match e with ELogReq _ _ _ | ELogResp _ _ _ _ => true | _ => false end.
(* everything recorded by handlers and recording middleware, in order *)
Definition visible_log (s : world) : list event := filter (fun e => negb (is_logger_event e)) (w_log s).
(* what the client receives: status, headers as sent, body *)
Definition client_view (s : world) : option (Z * hdrs) * list Z * list (Z * hdrs) :=
  (p_sent (w_resp s), p_body (w_resp s), p_info (w_resp s)).

Definition init_world (q : reqst) : world :=
  {| w_req := q; w_resp := {| p_hdr := []; p_sent := None; p_body := []; p_info := [] |}; w_cells := []; w_log := [] |}.

(* ---------- route table (serverConfig.AddRoute, New*Provider, ServeMux) ---------- *)
Section Table.
  Context {P H : Type} (peqb : P -> P -> bool).

  (* map[string]map[string]http.HandlerFunc as nested association lists *)
  Definition routes := list (Z * list (P * H)).

  Fixpoint pupd (p : P) (h : H) (l : list (P * H)) : list (P * H) :=
    match l with
    | [] => [(p, h)]
    | (p', h') :: t => if peqb p p' then (p, h) :: t else (p', h') :: pupd p h t
    end.
  Fixpoint pget (p : P) (l : list (P * H)) : option H :=
    match l with
    | [] => None
    | (p', h') :: t => if peqb p p' then Some h' else pget p t
    end.

  (* func (c *HttpServerConfig) AddRoute(method, path, handler) *)
  Definition add_route (m : Z) (p : P) (h : H) (r : routes) : routes :=
    match get m r with
    | None => upd m [(p, h)] r                       (* c.routes[method] = map{}; then insert *)
    | Some ps => upd m (pupd p h ps) r
    end.
  Definition config_of (calls : list (Z * P * H)) : routes :=
    fold_left (fun r c => let '(m, p, h) := c in add_route m p h r) calls [].

  (* The configuration phase as a SEQUENCE of calls on the config object / its builder, read accessors
     included: AddRoute, GetRoutes, GetMiddleware (and the other getters), SetMiddleware / UsingMiddleWare.
     Getters return the stored value and change nothing; SetMiddleware overwrites. *)
  Inductive cfg_op :=
  | OAdd (m : Z) (p : P) (h : H)
  | OGetRoutes | OGetMiddleware
  | OSetMiddleware (f : H -> H).
  Record cfg := { c_routes : routes; c_mw : option (H -> H) }.
  Definition cfg_step (c : cfg) (o : cfg_op) : cfg :=
    match o with
    | OAdd m p h => {| c_routes := add_route m p h (c_routes c); c_mw := c_mw c |}
    | OGetRoutes => c                                  (* return c.routes *)
    | OGetMiddleware => c                              (* return c.middleware *)
    | OSetMiddleware f => {| c_routes := c_routes c; c_mw := Some f |}
    end.
  Definition cfg_run (ops : list cfg_op) : cfg := fold_left cfg_step ops {| c_routes := []; c_mw := None |}.
  (* what the property talks about: the AddRoute calls in order, and the middleware set last *)
  Definition adds_of (ops : list cfg_op) : list (Z * P * H) :=
    flat_map (fun o => match o with OAdd m p h => [(m, p, h)] | _ => [] end) ops.
  Definition mw_of_ops (ops : list cfg_op) : option (H -> H) :=
    fold_left (fun acc o => match o with OSetMiddleware f => Some f | _ => acc end) ops None.

  (* the double range loop of NewHttpProvider / NewHttpsProvider registering "METHOD path" patterns,
     each handler wrapped in the middleware when one is configured *)
  Definition wrap_with (mw : option (H -> H)) (h : H) : H :=
    match mw with Some f => f h | None => h end.
  Definition build_table (r : routes) (mw : option (H -> H)) : list ((Z * P) * H) :=
    flat_map (fun mp => map (fun ph => ((fst mp, fst ph), wrap_with mw (snd ph))) (snd mp)) r.

  (* net/http.ServeMux (Go 1.22+) restricted to literal patterns "METHOD /path":
     exact method match wins; a GET pattern also serves HEAD; a known path with no matching method
     is 405; an unknown path is 404.  TRUSTED description of library code. *)
  Inductive outcome := Served (h : H) | MethodNotAllowed | NotFound.

  Fixpoint find_pat (m : Z) (p : P) (t : list ((Z * P) * H)) : option H :=
    match t with
    | [] => None
    | ((m', p'), h) :: t' => if Z.eqb m m' && peqb p p' then Some h else find_pat m p t'
    end.
  Definition path_known (p : P) (t : list ((Z * P) * H)) : bool :=
    existsb (fun e => peqb p (snd (fst e))) t.
  Definition serve (t : list ((Z * P) * H)) (m : Z) (p : P) : outcome :=
    match find_pat m p t with
    | Some h => Served h
    | None =>
        match (if Z.eqb m mHEAD then find_pat mGET p t else None) with
        | Some h => Served h
        | None => if path_known p t then MethodNotAllowed else NotFound
        end
    end.

  (* http.Server.Handler: Some mux, or nil = http.DefaultServeMux on which nothing is registered *)
  Definition serve_handler (hd : option (list ((Z * P) * H))) (m : Z) (p : P) : outcome :=
    match hd with Some t => serve t m p | None => NotFound end.

  (* both providers after the fix: srvr.Handler = routerMux *)
  Definition http_provider_handler (r : routes) (mw : option (H -> H)) := Some (build_table r mw).
  Definition https_provider_handler (r : routes) (mw : option (H -> H)) := Some (build_table r mw).

  (* the specification the property states, directly on the sequence of AddRoute calls *)
  Fixpoint last_added (m : Z) (p : P) (calls : list (Z * P * H)) (acc : option H) : option H :=
    match calls with
    | [] => acc
    | (m', p', h) :: t => last_added m p t (if Z.eqb m m' && peqb p p' then Some h else acc)
    end.
  Definition path_added (p : P) (calls : list (Z * P * H)) : bool :=
    existsb (fun c => peqb p (snd (fst c))) calls.
  Definition expected (calls : list (Z * P * H)) (mw : option (H -> H)) (m : Z) (p : P) : outcome :=
    match last_added m p calls None with
    | Some h => Served (wrap_with mw h)
    | None =>
        match (if Z.eqb m mHEAD then last_added mGET p calls None else None) with
        | Some h => Served (wrap_with mw h)
        | None => if path_added p calls then MethodNotAllowed else NotFound
        end
    end.
End Table.
Arguments Served {H}.
Arguments MethodNotAllowed {H}.
Arguments NotFound {H}.

(* ---------- gRPC registrations (map[*grpc.ServiceDesc]any, RegisterService per entry) ---------- *)
(* service descriptors are identified by an integer token; the server dispatches a call to the
   implementation registered for the descriptor of that name, anything else is Unimplemented
   (grpc-go contract, trusted). *)
Definition grpc_register (d impl : Z) (regs : list (Z * Z)) : list (Z * Z) := upd d impl regs.
Definition grpc_config_of (calls : list (Z * Z)) : list (Z * Z) :=
  fold_left (fun r c => grpc_register (fst c) (snd c) r) calls [].
Definition grpc_call (regs : list (Z * Z)) (d : Z) : option Z := get d regs.

(* ---------- a whole exchange: router outcome -> what the client gets ---------- *)
Definition reject (code : Z) (q : reqst) : world :=
  base_status code (init_world q).                       (* http.Error / mux's 404 and 405 replies *)
Definition respond (o : outcome (H := handler)) (q : reqst) : world :=
  match o with
  | Served h => finish (h base (init_world q))
  | MethodNotAllowed => reject 405 q
  | NotFound => reject 404 q
  end.
Definition status_of (s : world) : Z :=
  match p_sent (w_resp s) with Some (c, _) => c | None => 0%Z end.
