(* Model of storage/safeMap.go (after fix F7).  Executable definitions only.

   A Go map[K]V is an association list without duplicate keys; iteration order is unspecified in Go,
   so Keys/Values/CopyToMap/TranslateToMapOf return the list order and every statement about them is
   "as a set" (Proofs/SafeMapProofs.v, Run/CorrC07.v sort before comparing).

   Two layers:
   * [step]  : the sequential semantics of one method call (what a single goroutine sees);
   * [safemap_obj] : the concurrent object in the sense of Lib/Conc.v.  Its atomic steps are the
     critical sections of the Go code: every method is ONE section, except GetOrAdd which is
     a read section (RLock: look the key up, return it if present) followed, on a miss, by a write
     section (Lock: look up again, insert if still absent).
   The reference map the model is proved against is [ref_step]/[ret_ok] (a function K -> option V). *)
From Coq Require Import List Bool Arith String.
From TC.Lib Require Import Conc.
Import ListNotations.

Section SafeMap.
  Context {K V D : Type}.
  Variable keqb : K -> K -> bool.
  Variable zero : V.

  Definition smap := list (K * V).

  Fixpoint lookup (k : K) (m : smap) : option V :=
    match m with
    | [] => None
    | (k', v) :: t => if keqb k k' then Some v else lookup k t
    end.

  Fixpoint remove (k : K) (m : smap) : smap :=
    match m with
    | [] => []
    | (k', v) :: t => if keqb k k' then remove k t else (k', v) :: remove k t
    end.

  (* m[k] = v *)
  Definition set (k : K) (v : V) (m : smap) : smap := (k, v) :: remove k m.

  Inductive op :=
  | OContains (k : K) | OGet (k : K) | OGetOrAdd (k : K) (v : V) | OSet (k : K) (v : V)
  | ODelete (k : K) | OClear | OClearAndResize (n : nat) | OHas (k : K) | OLen
  | OKeys | OValues | OCopy | OTranslate (f : V -> D).

  Inductive ret :=
  | RUnit | RBool (b : bool) | RVal (v : V) | RInt (n : nat)
  | RKeys (l : list K) | RVals (l : list V) | RMap (l : list (K * V)) | RMapD (l : list (K * D)).

  Definition isSome {A} (o : option A) : bool := match o with Some _ => true | None => false end.
  Definition orzero (o : option V) : V := match o with Some v => v | None => zero end.

  (* one method call, executed alone *)
  Definition step (m : smap) (o : op) : smap * ret :=
    match o with
    | OContains k => (m, RBool (isSome (lookup k m)))
    | OGet k => (m, RVal (orzero (lookup k m)))
    | OGetOrAdd k v =>
        match lookup k m with                       (* read section *)
        | Some x => (m, RVal x)
        | None =>
            match lookup k m with                   (* write section: re-check, then insert *)
            | Some x => (m, RVal x)
            | None => (set k v m, RVal v)
            end
        end
    | OSet k v => (set k v m, RUnit)
    | ODelete k => (remove k m, RUnit)
    | OClear => ([], RUnit)
    | OClearAndResize _ => ([], RUnit)
    | OHas k => (m, RBool (isSome (lookup k m)))
    | OLen => (m, RInt (List.length m))
    | OKeys => (m, RKeys (map fst m))
    | OValues => (m, RVals (map snd m))
    | OCopy => (m, RMap m)
    | OTranslate f => (m, RMapD (map (fun kv => (fst kv, f (snd kv))) m))
    end.

  Fixpoint run (m : smap) (ops : list op) : list ret :=
    match ops with
    | [] => []
    | o :: t => let (m', r) := step m o in r :: run m' t
    end.

  Fixpoint final (m : smap) (ops : list op) : smap :=
    match ops with
    | [] => m
    | o :: t => final (fst (step m o)) t
    end.

  (* ---- the reference map: a function K -> option V ---- *)
  Definition fmap := K -> option V.
  Definition fupd (f : fmap) (k : K) (x : option V) : fmap := fun k' => if keqb k' k then x else f k'.

  Definition ref_step (f : fmap) (o : op) : fmap :=
    match o with
    | OGetOrAdd k v => match f k with Some _ => f | None => fupd f k (Some v) end
    | OSet k v => fupd f k (Some v)
    | ODelete k => fupd f k None
    | OClear | OClearAndResize _ => fun _ => None
    | _ => f
    end.

  (* ks enumerates the domain of f exactly once *)
  Definition dom_of (f : fmap) (ks : list K) : Prop :=
    NoDup ks /\ forall k, In k ks <-> f k <> None.

  Definition ret_ok (f : fmap) (o : op) (r : ret) : Prop :=
    match o with
    | OContains k | OHas k => r = RBool (isSome (f k))
    | OGet k => r = RVal (orzero (f k))                       (* a miss yields the zero value *)
    | OGetOrAdd k v => r = RVal (match f k with Some x => x | None => v end)
    | OSet _ _ | ODelete _ | OClear | OClearAndResize _ => r = RUnit
    | OLen => exists ks, dom_of f ks /\ r = RInt (List.length ks)
    | OKeys => exists ks, dom_of f ks /\ r = RKeys ks
    | OValues => exists ks vs, dom_of f ks /\ Forall2 (fun k v => f k = Some v) ks vs /\ r = RVals vs
    | OCopy => exists kvs, NoDup (map fst kvs) /\ (forall k v, In (k, v) kvs <-> f k = Some v) /\ r = RMap kvs
    | OTranslate g => exists kvs, NoDup (map fst kvs)
                        /\ (forall k d, In (k, d) kvs <-> exists v, f k = Some v /\ d = g v) /\ r = RMapD kvs
    end.

  (* the outputs [rs] are those of the reference map started at (any function extensionally equal to) f *)
  Inductive ref_run : fmap -> list op -> list ret -> Prop :=
  | ref_nil f : ref_run f [] []
  | ref_cons f f' o r ops rs :
      ret_ok f o r -> (forall k, f' k = ref_step f o k) -> ref_run f' ops rs -> ref_run f (o :: ops) (r :: rs).

  (* ---- the concurrent object: atomic steps = critical sections ---- *)
  Inductive local :=
  | LStart (o : op)                 (* not yet entered its (first) section *)
  | LGoaWrite (k : K) (v : V).      (* GetOrAdd after a miss in the read section, before the write section *)

  Definition cstep (m : smap) (l : local) : smap * (local + ret) :=
    match l with
    | LStart (OGetOrAdd k v) =>
        match lookup k m with                       (* section 1: RLock; v, ok := m[k]; RUnlock *)
        | Some x => (m, inr (RVal x))
        | None => (m, inl (LGoaWrite k v))
        end
    | LStart o => let (m', r) := step m o in (m', inr r)     (* every other method: one section *)
    | LGoaWrite k v =>
        match lookup k m with                       (* section 2: Lock; re-check; insert *)
        | Some x => (m, inr (RVal x))
        | None => (set k v m, inr (RVal v))
        end
    end.

  Definition safemap_obj : object :=
    {| St := smap; Loc := local; Op := op; Ret := ret; obegin := LStart; ostep := cstep |}.

  (* ---- declared section structure of the object (compared with the generated skeleton) ----
     per method: the sections in program order, each with its lock mode and whether it may write m *)
  Definition method_name (o : op) : string :=
    match o with
    | OContains _ => "Contains" | OGet _ => "Get" | OGetOrAdd _ _ => "GetOrAdd" | OSet _ _ => "Set"
    | ODelete _ => "Delete" | OClear => "Clear" | OClearAndResize _ => "ClearAndResize" | OHas _ => "Has"
    | OLen => "Len" | OKeys => "Keys" | OValues => "Values" | OCopy => "CopyToMap"
    | OTranslate _ => "TranslateToMapOf"
    end%string.

  (* (lock mode, may read m, may write m) of each atomic step of an invocation of o, in order *)
  Definition sections_of (o : op) : list (mode * bool * bool) :=
    match o with
    | OGetOrAdd _ _ => [(Rd, true, false); (Wr, true, true)]      (* look up; then re-check and insert *)
    | OSet _ _ | ODelete _ | OClear | OClearAndResize _ => [(Wr, false, true)]
    | _ => [(Rd, true, false)]
    end.

  (* index of the section a local state is about to execute *)
  Definition section_index (l : local) : nat :=
    match l with LStart _ => 0 | LGoaWrite _ _ => 1 end.

  Definition op_of_local (l : local) : op :=
    match l with LStart o => o | LGoaWrite k v => OGetOrAdd k v end.
End SafeMap.

Arguments op : clear implicits.
Arguments ret : clear implicits.
Arguments local : clear implicits.
