(* Executable model of /repo/storage/tree.go (with the default node factory; after fix X03-F1: Walk on an
   empty tree is a no-op).  Definitions only.

   A node is a rose tree [Node value children] (children in slice order; AddChild appends).  A Tree is
   [option rtree]: [None] = root == nil.  Node pointers are PATHS (child indices from the root): the
   code finds a node (getLowestMatchingLeaf) and then mutates through the pointer (addChild); the model
   finds the path ([glml]) and rebuilds along it ([add_at]).
   Walk's callback is modelled by the list of (value, level) it is invoked on. *)
From Coq Require Import List Bool Arith.
Import ListNotations.

Section Tree.
  Context {A : Type}.
  Variable eqb : A -> A -> bool.      (* == of the comparable element type *)

  Inductive rtree := Node (v : A) (children : list rtree).
  Definition tree := option rtree.

  Definition value (n : rtree) : A := match n with Node v _ => v end.
  Definition children (n : rtree) : list rtree := match n with Node _ cs => cs end.

  (* for _, child := range children { if leaf, missing := f(child); leaf != nil { return leaf, missing } } *)
  Section FirstMatch.
    Context {R : Type}.
    Variable f : rtree -> option R.
    Fixpoint first_match (cs : list rtree) : option (nat * R) :=
      match cs with
      | [] => None
      | c :: t => match f c with
                  | Some r => Some (0, r)
                  | None => match first_match t with Some (i, r) => Some (S i, r) | None => None end
                  end
      end.
  End FirstMatch.

  (* getLowestMatchingLeaf(node, ancestry...) for node != nil:
     None = (nil, ancestry) resp. (nil, nil) for an empty ancestry;
     Some (path, missing) = (the node at [path] below [node], missing) *)
  Fixpoint glml (node : rtree) (anc : list A) {struct node} : option (list nat * list A) :=
    match node with
    | Node v cs =>
        match anc with
        | [] => None
        | cur :: desc =>
            if eqb v cur then
              match desc with
              | [] => Some ([], [])
              | _ :: _ =>
                  match first_match (fun c => glml c desc) cs with
                  | Some (i, (p, miss)) => Some (i :: p, miss)
                  | None => Some ([], desc)
                  end
              end
            else None
        end
    end.

  (* the nodes created by the loop  currentNode = addChild(factory, currentNode, ancestor)  for a
     non-empty list of missing ancestors: a linear chain *)
  Fixpoint chain (a : A) (rest : list A) : rtree :=
    match rest with
    | [] => Node a []
    | b :: r => Node a [chain b r]
    end.

  Fixpoint upd_nth {X} (i : nat) (f : X -> X) (l : list X) : list X :=
    match l, i with
    | [], _ => []
    | x :: t, 0 => f x :: t
    | x :: t, S j => x :: upd_nth j f t
    end.

  (* parent.AddChild(new) where parent is the node at [path] *)
  Fixpoint add_at (path : list nat) (new : rtree) (node : rtree) {struct path} : rtree :=
    match path with
    | [] => Node (value node) (children node ++ [new])
    | i :: p => Node (value node) (upd_nth i (add_at p new) (children node))
    end.

  (* AddAncestryChain: None = error returned (tree unchanged); Some t' = nil returned, tree now t' *)
  Definition add_chain (t : tree) (anc : list A) : option tree :=
    match t with
    | None =>                      (* root == nil: never an error; the first new node becomes the root *)
        Some (match anc with [] => None | a :: r => Some (chain a r) end)
    | Some root =>
        match glml root anc with
        | None => None             (* lowestParent == nil && tree.root != nil *)
        | Some (path, miss) =>
            Some (Some (match miss with [] => root | a :: r => add_at path (chain a r) root end))
        end
    end.

  (* Walk: f(node.Get(), level); for each child: walk(child, level+1) *)
  Fixpoint walk_from (lvl : nat) (node : rtree) : list (A * nat) :=
    match node with
    | Node v cs => (v, lvl) :: flat_map (walk_from (S lvl)) cs
    end.
  Definition walk (t : tree) : list (A * nat) :=
    match t with None => [] | Some r => walk_from 0 r end.

  (* histories: a sequence of AddAncestryChain calls; the result records which calls returned an error *)
  Fixpoint run (t : tree) (chains : list (list A)) : tree * list bool :=
    match chains with
    | [] => (t, [])
    | c :: rest =>
        match add_chain t c with
        | Some t' => let (t'', errs) := run t' rest in (t'', false :: errs)
        | None => let (t'', errs) := run t rest in (t'', true :: errs)
        end
    end.
End Tree.

Arguments rtree : clear implicits.
Arguments tree : clear implicits.
