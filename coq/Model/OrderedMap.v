(* Executable model of /repo/storage/orderedBTree.go.  Definitions only.

   OrderedBTree[K,V] wraps github.com/google/btree, which is trusted BY CONTRACT: an ordered map with
   ascending / descending range iteration.  The contract is written down here as a key-sorted
   association list ([omap]); the wrapper methods are modelled on top of it exactly as the Go code
   delegates (which bound goes where, what is returned for a missing key / an empty tree).
   Keys: Z (the order of any cmp.Ordered instantiation; the harness runs int, string and float64 under
   order-preserving encodings).  Values: *V pointers = an arbitrary type with a distinguished [vnil].
   A state is a pair of trees (slot false / slot true) so that Clone and the independence of the clone
   are part of the model.  Iteration callbacks: [cb_go cb i k] = does the callback return true at its
   i-th invocation (from 0) on key k. *)
From Coq Require Import List Bool ZArith Arith.
From TC.Lib Require Import Assoc.
Import ListNotations.
Local Open Scope Z_scope.

Section OrderedMap.
  Context {V : Type}.
  Variable vnil : V.

  Definition omap := list (Z * V).

  (* btree.ReplaceOrInsert *)
  Fixpoint set (k : Z) (v : V) (m : omap) : omap :=
    match m with
    | [] => [(k, v)]
    | (k', v') :: t =>
        if k <? k' then (k, v) :: m
        else if k =? k' then (k, v) :: t
        else (k', v') :: set k v t
    end.

  (* btree.Get *)
  Definition get (k : Z) (m : omap) : option V := lookup Z.eqb k m.

  (* btree.Delete: the removed item (if any) and the remaining tree *)
  Definition delete (k : Z) (m : omap) : option V * omap := (get k m, remove Z.eqb k m).

  Definition min_item (m : omap) : option (Z * V) := hd_error m.
  Definition max_item (m : omap) : option (Z * V) := hd_error (rev m).

  (* iteration: entries in range, in visiting order *)
  Definition range_asc (inr : Z -> bool) (m : omap) : omap := filter (fun e => inr (fst e)) m.
  Definition range_desc (inr : Z -> bool) (m : omap) : omap := rev (range_asc inr m).

  (* the callback is invoked on successive entries until it returns false (that entry is still visited) *)
  Fixpoint visit (f : nat -> Z -> bool) (i : nat) (r : omap) : omap :=
    match r with
    | [] => []
    | (k, v) :: t => if f i k then (k, v) :: visit f (S i) t else [(k, v)]
    end.

  (* ---- the wrapper ---- *)
  Inductive iter := IAscend | IAscendGE | IAscendLT | IAscendRange
                  | IDescend | IDescendLE | IDescendGT | IDescendRange.

  (* script of a callback: returns false at invocation number [stop_after] (1-based; 0 = never)
     and on every key in [stop_keys] *)
  Record callback := { stop_after : nat; stop_keys : list Z }.
  Definition cb_go (cb : callback) (i : nat) (k : Z) : bool :=
    negb (Nat.eqb (S i) (stop_after cb)) && negb (existsb (Z.eqb k) (stop_keys cb)).

  Inductive op :=
  | OSet (k : Z) (v : V) | OGet (k : Z) | ODelete (k : Z) | OHas (k : Z) | OLen
  | OMin | OMax | ODeleteMin | ODeleteMax
  | OIter (it : iter) (a b : Z) (cb : callback)     (* a, b: first and second bound argument *)
  | OClone.

  Inductive res :=
  | RUnit | ROpt (o : option V) | RBool (b : bool) | RNat (n : nat) | RKV (k : Z) (v : V)
  | RVisit (l : list (Z * V)).

  (* which keys an iteration variant ranges over, as the wrapper passes its arguments on:
     AscendGreaterOrEqual(a): a <= k;  AscendLessThan(a): k < a;  AscendRange(a, b): a <= k < b;
     DescendLessOrEqual(a): k <= a;  DescendGreaterThan(a): a < k;
     DescendRange(a, b) = btree.DescendRange(lessOrEqual := a, greaterThan := b): b < k <= a *)
  Definition in_range (it : iter) (a b k : Z) : bool :=
    match it with
    | IAscend | IDescend => true
    | IAscendGE => a <=? k
    | IAscendLT => k <? a
    | IAscendRange => (a <=? k) && (k <? b)
    | IDescendLE => k <=? a
    | IDescendGT => a <? k
    | IDescendRange => (k <=? a) && (b <? k)
    end.
  Definition descending (it : iter) : bool :=
    match it with IDescend | IDescendLE | IDescendGT | IDescendRange => true | _ => false end.

  Definition iterate (it : iter) (a b : Z) (cb : callback) (m : omap) : omap :=
    visit (cb_go cb) 0
      (if descending it then range_desc (in_range it a b) m else range_asc (in_range it a b) m).

  (* item == nil  =>  zero key and nil value *)
  Definition kv_or_zero (o : option (Z * V)) : res :=
    match o with Some (k, v) => RKV k v | None => RKV 0 vnil end.

  Definition step1 (m : omap) (o : op) : omap * res :=
    match o with
    | OSet k v => (set k v m, RUnit)
    | OGet k => (m, ROpt (get k m))
    | ODelete k => let (r, m') := delete k m in (m', ROpt r)
    | OHas k => (m, RBool (match get k m with Some _ => true | None => false end))
    | OLen => (m, RNat (length m))
    | OMin => (m, kv_or_zero (min_item m))
    | OMax => (m, kv_or_zero (max_item m))
    | ODeleteMin => (match min_item m with Some (k, _) => snd (delete k m) | None => m end, kv_or_zero (min_item m))
    | ODeleteMax => (match max_item m with Some (k, _) => snd (delete k m) | None => m end, kv_or_zero (max_item m))
    | OIter it a b cb => (m, RVisit (iterate it a b cb m))
    | OClone => (m, RUnit)
    end.

  (* two trees; [tgt] selects the receiver; Clone overwrites the other slot with a copy of the receiver *)
  Definition state := (omap * omap)%type.
  Definition sel (tgt : bool) (s : state) : omap := if tgt then snd s else fst s.
  Definition upd (tgt : bool) (s : state) (m : omap) : state := if tgt then (fst s, m) else (m, snd s).

  Definition step (s : state) (to : bool * op) : state * res :=
    let (tgt, o) := to in
    match o with
    | OClone => (upd (negb tgt) s (sel tgt s), RUnit)
    | _ => let (m', r) := step1 (sel tgt s) o in (upd tgt s m', r)
    end.

  Fixpoint run (s : state) (ops : list (bool * op)) : state * list res :=
    match ops with
    | [] => (s, [])
    | o :: t => let (s', r) := step s o in let (s'', rs) := run s' t in (s'', r :: rs)
    end.

  Definition init : state := ([], []).
End OrderedMap.
