(* Executable interleaving model of /repo/storage/fifoMapCache.go (with genericStack.go and safeMap.go as it
   uses them), after fixes F9 (GenericStack.Pop) and F15 (getCurrentPartition re-checks under the write lock).
   Definitions only.

   Heap.  The cache holds POINTERS to a partition stack, to an index map and (through the stack) to partition
   maps; Clear replaces the first two, Sweep drops partitions that goroutines may still hold.  So the model has
   three object stores (lists, a reference = a position, allocation = append):
     stacks : GenericStack objects, at the level of C11's queue specification (Props/C11.v: the heap-based
              implementation produces exactly the outputs of a FIFO queue with ids 1,2,3,...): entries
              (id, partition ref) in push order + the id counter;
     pmaps  : partition SafeMaps (association lists);   idxs : index SafeMaps (key -> partition id).
   Fields of the cache: fparts (f.partitions), findex (f.valuePartitionIndex), cur (f.currentPartitionId);
   maxPartitions / partitionCapacity are constants of the configuration (Resize is not modelled; its locked
   prefix is Clear's).  Locks: currentPartitionMux = (cpmw, cpmr) when held ACROSS steps (Clear; a Sweep in
   progress), sweepingMux = swm.  The locks inside GenericStack/SafeMap make each of their methods one step.

   Threads.  A goroutine = (operation, program counter).  One step = one critical section of the code, or one
   access outside any lock:
     PIdx       f.valuePartitionIndex.Get(key)                       (Get/Contains/Delete/Set, first line)
     PRdParts   the unlocked read of the field f.partitions
     PPeek      partitions.Peek(id) on the stack object that was read
     PRead      partition.Get / partition.Contains / partition.Has
     PDel       partition.Delete;  PDelIdx  index delete (only if the configuration says Delete has fix F1)
     PInPlace   partition.Set on the partition the index named
     PFast      getCurrentPartition, RLock section;   PSlow  its Lock section (re-check = fix F15; opens a
                partition, sets currentPartitionId, spawns `go f.Sweep()`)
     PWrite     partition.Set on the partition getCurrentPartition returned;  PIndex  index.Set(key, id)
     PSwBegin   sweepingMux.Lock; RLock; numToPop := Len - maxPartitions;  PSwPop n  one Pop each; at 0 unlock
     PCl1..3    Clear: Lock + f.partitions := new stack; f.valuePartitionIndex := new map; push a new
                partition, currentPartitionId := its id, Unlock
     PTkWait    the ticker goroutine's select: takes a delivered tick (then sweeps) or, once the context is
                cancelled, may exit (label LExit)
   Environment labels: LSpawn op (some goroutine calls op), LTick (the ticker channel delivers; buffer 1),
   LCancel (the construction context is cancelled).  "Every schedule" = every label list accepted by [run].
   A dangling reference (impossible in Go, = nil dereference) sets [panicked]. *)
From Coq Require Import List Arith Bool.
Import ListNotations.

Fixpoint upd {A} (n : nat) (x : A) (l : list A) : list A :=
  match l, n with
  | [], _ => []
  | _ :: t, 0 => x :: t
  | y :: t, S n' => y :: upd n' x t
  end.

(* GenericStack at the level of its queue specification *)
Record stk := { ents : list (nat * nat); ctr : nat }.       (* (id, partition ref) in push order; currentKey *)
Definition stk_empty : stk := {| ents := []; ctr := 0 |}.
Fixpoint peek_ents (id : nat) (l : list (nat * nat)) : option nat :=
  match l with
  | [] => None
  | (i, p) :: t => if i =? id then Some p else peek_ents id t
  end.
Definition stk_peek (id : nat) (st : stk) : option nat := peek_ents id (ents st).
Definition stk_push (p : nat) (st : stk) : stk := {| ents := ents st ++ [(S (ctr st), p)]; ctr := S (ctr st) |}.
Definition stk_pop (st : stk) : stk := {| ents := tl (ents st); ctr := ctr st |}.   (* Pop on empty: zero value *)

Record config := {
  maxP : nat;          (* f.maxPartitions *)
  capC : nat;          (* f.partitionCapacity *)
  recheck : bool;      (* true = getCurrentPartition after fix F15; false = the pinned code (Findings/CacheConc.v) *)
  delidx : bool        (* true = Delete also removes the index entry (fix F1, made elsewhere); theorems hold for both *)
}.

Inductive loc := FParts | FIndex | FCur | FMaxP | FCapC | OStack (s : nat) | OPmap (p : nat) | OIdx (i : nat).
Inductive lock := MCpm | MSwm | MStack (s : nat) | MPmap (p : nat) | MIdx (i : nat).
Record access := { aloc : loc; awr : bool; aheld : list (lock * bool) }.   (* bool: true = exclusive *)

Definition loc_eqb (a b : loc) : bool :=
  match a, b with
  | FParts, FParts | FIndex, FIndex | FCur, FCur | FMaxP, FMaxP | FCapC, FCapC => true
  | OStack x, OStack y | OPmap x, OPmap y | OIdx x, OIdx y => x =? y
  | _, _ => false
  end.
Definition lock_eqb (a b : lock) : bool :=
  match a, b with
  | MCpm, MCpm | MSwm, MSwm => true
  | MStack x, MStack y | MPmap x, MPmap y | MIdx x, MIdx y => x =? y
  | _, _ => false
  end.
(* a common lock, held exclusively by at least one side *)
Definition protected (a b : access) : bool :=
  existsb (fun la => existsb (fun lb => lock_eqb (fst la) (fst lb) && (snd la || snd lb)) (aheld b)) (aheld a).
Definition conflict (a b : access) : bool :=
  loc_eqb (aloc a) (aloc b) && (awr a || awr b) && negb (protected a b).

Section CacheConc.
  Context {K V : Type}.
  Variable keqb : K -> K -> bool.
  Variable zero : V.

  (* Go maps as association lists *)
  Fixpoint lookup {B} (k : K) (m : list (K * B)) : option B :=
    match m with
    | [] => None
    | (k', b) :: t => if keqb k k' then Some b else lookup k t
    end.
  Fixpoint aset {B} (k : K) (b : B) (m : list (K * B)) : list (K * B) :=
    match m with
    | [] => [(k, b)]
    | (k', b') :: t => if keqb k k' then (k, b) :: t else (k', b') :: aset k b t
    end.
  Fixpoint adel {B} (k : K) (m : list (K * B)) : list (K * B) :=
    match m with
    | [] => []
    | (k', b') :: t => if keqb k k' then t else (k', b') :: adel k t
    end.
  Definition amem {B} (k : K) (m : list (K * B)) : bool :=
    match lookup k m with Some _ => true | None => false end.

  Inductive op := OSet (k : K) (v : V) | OGet (k : K) | OContains (k : K) | ODelete (k : K)
                | OSweep | OClear | OTicker.
  Inductive res := RUnit | RVal (v : V) | RBool (b : bool).
  Inductive pc :=
  | PIdx | PRdParts (id : nat) | PPeek (id s : nat) | PRead (p : nat) | PDel (p : nat) | PDelIdx
  | PInPlace (p : nat) | PFast | PSlow | PWrite (p id : nat) | PIndex (id : nat)
  | PSwBegin | PSwPop (n : nat) | PCl1 | PCl2 | PCl3 | PTkWait | PDone (r : res).
  Definition thread : Type := (op * pc)%type.

  Record state := {
    stacks : list stk;
    pmaps : list (list (K * V));
    idxs : list (list (K * nat));
    fparts : nat;
    findex : nat;
    cur : nat;
    cpmw : bool;
    cpmr : nat;
    swm : bool;
    tick : bool;
    cancelled : bool;
    threads : list thread;
    setlog : list (K * V);
    panicked : bool
  }.

  Definition set_stacks (s : state) (x : list stk) : state :=
    {| stacks := x; pmaps := pmaps s; idxs := idxs s; fparts := fparts s; findex := findex s; cur := cur s; cpmw := cpmw s; cpmr := cpmr s; swm := swm s; tick := tick s; cancelled := cancelled s; threads := threads s; setlog := setlog s; panicked := panicked s |}.
  Definition set_pmaps (s : state) (x : list (list (K * V))) : state :=
    {| stacks := stacks s; pmaps := x; idxs := idxs s; fparts := fparts s; findex := findex s; cur := cur s; cpmw := cpmw s; cpmr := cpmr s; swm := swm s; tick := tick s; cancelled := cancelled s; threads := threads s; setlog := setlog s; panicked := panicked s |}.
  Definition set_idxs (s : state) (x : list (list (K * nat))) : state :=
    {| stacks := stacks s; pmaps := pmaps s; idxs := x; fparts := fparts s; findex := findex s; cur := cur s; cpmw := cpmw s; cpmr := cpmr s; swm := swm s; tick := tick s; cancelled := cancelled s; threads := threads s; setlog := setlog s; panicked := panicked s |}.
  Definition set_fparts (s : state) (x : nat) : state :=
    {| stacks := stacks s; pmaps := pmaps s; idxs := idxs s; fparts := x; findex := findex s; cur := cur s; cpmw := cpmw s; cpmr := cpmr s; swm := swm s; tick := tick s; cancelled := cancelled s; threads := threads s; setlog := setlog s; panicked := panicked s |}.
  Definition set_findex (s : state) (x : nat) : state :=
    {| stacks := stacks s; pmaps := pmaps s; idxs := idxs s; fparts := fparts s; findex := x; cur := cur s; cpmw := cpmw s; cpmr := cpmr s; swm := swm s; tick := tick s; cancelled := cancelled s; threads := threads s; setlog := setlog s; panicked := panicked s |}.
  Definition set_cur (s : state) (x : nat) : state :=
    {| stacks := stacks s; pmaps := pmaps s; idxs := idxs s; fparts := fparts s; findex := findex s; cur := x; cpmw := cpmw s; cpmr := cpmr s; swm := swm s; tick := tick s; cancelled := cancelled s; threads := threads s; setlog := setlog s; panicked := panicked s |}.
  Definition set_cpmw (s : state) (x : bool) : state :=
    {| stacks := stacks s; pmaps := pmaps s; idxs := idxs s; fparts := fparts s; findex := findex s; cur := cur s; cpmw := x; cpmr := cpmr s; swm := swm s; tick := tick s; cancelled := cancelled s; threads := threads s; setlog := setlog s; panicked := panicked s |}.
  Definition set_cpmr (s : state) (x : nat) : state :=
    {| stacks := stacks s; pmaps := pmaps s; idxs := idxs s; fparts := fparts s; findex := findex s; cur := cur s; cpmw := cpmw s; cpmr := x; swm := swm s; tick := tick s; cancelled := cancelled s; threads := threads s; setlog := setlog s; panicked := panicked s |}.
  Definition set_swm (s : state) (x : bool) : state :=
    {| stacks := stacks s; pmaps := pmaps s; idxs := idxs s; fparts := fparts s; findex := findex s; cur := cur s; cpmw := cpmw s; cpmr := cpmr s; swm := x; tick := tick s; cancelled := cancelled s; threads := threads s; setlog := setlog s; panicked := panicked s |}.
  Definition set_tick (s : state) (x : bool) : state :=
    {| stacks := stacks s; pmaps := pmaps s; idxs := idxs s; fparts := fparts s; findex := findex s; cur := cur s; cpmw := cpmw s; cpmr := cpmr s; swm := swm s; tick := x; cancelled := cancelled s; threads := threads s; setlog := setlog s; panicked := panicked s |}.
  Definition set_cancelled (s : state) (x : bool) : state :=
    {| stacks := stacks s; pmaps := pmaps s; idxs := idxs s; fparts := fparts s; findex := findex s; cur := cur s; cpmw := cpmw s; cpmr := cpmr s; swm := swm s; tick := tick s; cancelled := x; threads := threads s; setlog := setlog s; panicked := panicked s |}.
  Definition set_threads (s : state) (x : list thread) : state :=
    {| stacks := stacks s; pmaps := pmaps s; idxs := idxs s; fparts := fparts s; findex := findex s; cur := cur s; cpmw := cpmw s; cpmr := cpmr s; swm := swm s; tick := tick s; cancelled := cancelled s; threads := x; setlog := setlog s; panicked := panicked s |}.
  Definition set_setlog (s : state) (x : list (K * V)) : state :=
    {| stacks := stacks s; pmaps := pmaps s; idxs := idxs s; fparts := fparts s; findex := findex s; cur := cur s; cpmw := cpmw s; cpmr := cpmr s; swm := swm s; tick := tick s; cancelled := cancelled s; threads := threads s; setlog := x; panicked := panicked s |}.
  Definition set_panicked (s : state) (x : bool) : state :=
    {| stacks := stacks s; pmaps := pmaps s; idxs := idxs s; fparts := fparts s; findex := findex s; cur := cur s; cpmw := cpmw s; cpmr := cpmr s; swm := swm s; tick := tick s; cancelled := cancelled s; threads := threads s; setlog := setlog s; panicked := x |}.

  Definition init : state :=
    {| stacks := [stk_empty]; pmaps := []; idxs := [[]]; fparts := 0; findex := 0; cur := 0;
       cpmw := false; cpmr := 0; swm := false; tick := false; cancelled := false;
       threads := [(OTicker, PTkWait)]; setlog := []; panicked := false |}.

  Inductive label := LSpawn (o : op) | LStep (i : nat) | LTick | LCancel | LExit (i : nat).

  Definition start_pc (o : op) : pc :=
    match o with
    | OSet _ _ | OGet _ | OContains _ | ODelete _ => PIdx
    | OSweep => PSwBegin
    | OClear => PCl1
    | OTicker => PTkWait
    end.
  Definition okey (o : op) : option K :=
    match o with OSet k _ | OGet k | OContains k | ODelete k => Some k | _ => None end.

  Definition set_pc (s : state) (i : nat) (o : op) (p : pc) : state := set_threads s (upd i (o, p) (threads s)).
  Definition panic (s : state) : state := set_panicked s true.

  (* what the operation does when the key is not (or no longer) findable through index + Peek *)
  Definition miss (o : op) : pc :=
    match o with
    | OSet _ _ => PFast
    | OGet _ => PDone (RVal zero)
    | OContains _ => PDone (RBool false)
    | _ => PDone RUnit
    end.
  Definition hit (o : op) (p : nat) : pc :=
    match o with OSet _ _ => PInPlace p | _ => PRead p end.

  (* the current partition, if it exists and has room: (ref, id) *)
  Definition room (c : config) (s : state) : option (option nat) :=
    match nth_error (stacks s) (fparts s) with
    | None => None                                        (* dangling *)
    | Some st =>
        match stk_peek (cur s) st with
        | None => Some None
        | Some p => match nth_error (pmaps s) p with
                    | None => None                        (* dangling *)
                    | Some m => Some (if length m <? capC c then Some p else None)
                    end
        end
    end.

  (* open a new partition on the current stack: NewSafeMap; Push; currentPartitionId := id *)
  Definition open_partition (s : state) : option (state * nat * nat) :=
    match nth_error (stacks s) (fparts s) with
    | None => None
    | Some st =>
        let p := length (pmaps s) in
        let st' := stk_push p st in
        Some (set_cur (set_stacks (set_pmaps s (pmaps s ++ [[]])) (upd (fparts s) st' (stacks s))) (ctr st'), p, ctr st')
    end.

  Definition step_thread (c : config) (s : state) (i : nat) (o : op) (p : pc) : option state :=
    match p with
    | PIdx =>
        match okey o, nth_error (idxs s) (findex s) with
        | Some k, Some ix =>
            match lookup k ix with
            | Some (S id') => Some (set_pc s i o (PRdParts (S id')))
            | _ => Some (set_pc s i o (miss o))
            end
        | _, _ => Some (panic s)
        end
    | PRdParts id => Some (set_pc s i o (PPeek id (fparts s)))
    | PPeek id sr =>
        match nth_error (stacks s) sr with
        | Some st => match stk_peek id st with
                     | Some p' => Some (set_pc s i o (hit o p'))
                     | None => Some (set_pc s i o (miss o))
                     end
        | None => Some (panic s)
        end
    | PRead p' =>
        match okey o, nth_error (pmaps s) p' with
        | Some k, Some m =>
            match o with
            | OGet _ => Some (set_pc s i o (PDone (RVal (match lookup k m with Some v => v | None => zero end))))
            | OContains _ => Some (set_pc s i o (PDone (RBool (amem k m))))
            | _ => Some (set_pc s i o (if amem k m then PDel p' else PDone RUnit))
            end
        | _, _ => Some (panic s)
        end
    | PDel p' =>
        match okey o, nth_error (pmaps s) p' with
        | Some k, Some m =>
            Some (set_pc (set_pmaps s (upd p' (adel k m) (pmaps s))) i o (if delidx c then PDelIdx else PDone RUnit))
        | _, _ => Some (panic s)
        end
    | PDelIdx =>
        match okey o, nth_error (idxs s) (findex s) with
        | Some k, Some ix => Some (set_pc (set_idxs s (upd (findex s) (adel k ix) (idxs s))) i o (PDone RUnit))
        | _, _ => Some (panic s)
        end
    | PInPlace p' =>
        match o, nth_error (pmaps s) p' with
        | OSet k v, Some m => Some (set_pc (set_pmaps s (upd p' (aset k v m) (pmaps s))) i o (PDone RUnit))
        | _, _ => Some (panic s)
        end
    | PFast =>
        if cpmw s then None else
        match room c s with
        | None => Some (panic s)
        | Some (Some p') => Some (set_pc s i o (PWrite p' (cur s)))
        | Some None => Some (set_pc s i o PSlow)
        end
    | PSlow =>
        if cpmw s || negb (cpmr s =? 0) then None else
        match room c s with
        | None => Some (panic s)
        | Some r =>
            match (if recheck c then r else None) with
            | Some p' => Some (set_pc s i o (PWrite p' (cur s)))
            | None =>
                match open_partition s with
                | None => Some (panic s)
                | Some (s1, p', id) =>
                    Some (set_threads s1 (upd i (o, PWrite p' id) (threads s1) ++ [(OSweep, PSwBegin)]))
                end
            end
        end
    | PWrite p' id =>
        match o, nth_error (pmaps s) p' with
        | OSet k v, Some m => Some (set_pc (set_pmaps s (upd p' (aset k v m) (pmaps s))) i o (PIndex id))
        | _, _ => Some (panic s)
        end
    | PIndex id =>
        match okey o, nth_error (idxs s) (findex s) with
        | Some k, Some ix => Some (set_pc (set_idxs s (upd (findex s) (aset k id ix) (idxs s))) i o (PDone RUnit))
        | _, _ => Some (panic s)
        end
    | PSwBegin =>
        if swm s || cpmw s then None else
        match nth_error (stacks s) (fparts s) with
        | Some st => Some (set_pc (set_cpmr (set_swm s true) (S (cpmr s))) i o (PSwPop (length (ents st) - maxP c)))
        | None => Some (panic s)
        end
    | PSwPop (S n) =>
        match nth_error (stacks s) (fparts s) with
        | Some st => Some (set_pc (set_stacks s (upd (fparts s) (stk_pop st) (stacks s))) i o (PSwPop n))
        | None => Some (panic s)
        end
    | PSwPop 0 =>
        Some (set_pc (set_cpmr (set_swm s false) (pred (cpmr s))) i o
                     (match o with OTicker => PTkWait | _ => PDone RUnit end))
    | PCl1 =>
        if cpmw s || negb (cpmr s =? 0) then None else
        Some (set_pc (set_fparts (set_stacks (set_cpmw s true) (stacks s ++ [stk_empty])) (length (stacks s))) i o PCl2)
    | PCl2 =>
        Some (set_pc (set_findex (set_idxs s (idxs s ++ [[]])) (length (idxs s))) i o PCl3)
    | PCl3 =>
        match open_partition s with
        | None => Some (panic s)
        | Some (s1, _, _) => Some (set_pc (set_cpmw s1 false) i o (PDone RUnit))
        end
    | PTkWait =>
        if tick s then Some (set_pc (set_tick s false) i o PSwBegin) else None
    | PDone _ => None
    end.

  Definition step (c : config) (s : state) (l : label) : option state :=
    match l with
    | LSpawn OTicker => None                               (* only NewFifoMapCache starts the ticker goroutine *)
    | LSpawn o =>
        Some (set_setlog (set_threads s (threads s ++ [(o, start_pc o)]))
                         (match o with OSet k v => (k, v) :: setlog s | _ => setlog s end))
    | LStep i =>
        match nth_error (threads s) i with
        | Some (o, p) => step_thread c s i o p
        | None => None
        end
    | LTick => Some (set_tick s true)
    | LCancel => Some (set_cancelled s true)
    | LExit i =>
        match nth_error (threads s) i with
        | Some (OTicker, PTkWait) => if cancelled s then Some (set_pc s i OTicker (PDone RUnit)) else None
        | _ => None
        end
    end.

  Fixpoint run (c : config) (s : state) (ls : list label) : option state :=
    match ls with
    | [] => Some s
    | l :: t => match step c s l with Some s' => run c s' t | None => None end
    end.

  (* ---- observers: the public views evaluated atomically on a state (used at quiescence) ---- *)
  Definition live_parts (s : state) : list (list (K * V)) :=
    match nth_error (stacks s) (fparts s) with
    | Some st => map (fun e => nth (snd e) (pmaps s) []) (ents st)
    | None => []
    end.
  Definition keys_now (s : state) : list K := flat_map (map fst) (live_parts s).
  Definition get_now (s : state) (k : K) : V :=
    match nth_error (idxs s) (findex s), nth_error (stacks s) (fparts s) with
    | Some ix, Some st =>
        match lookup k ix with
        | Some (S id') => match stk_peek (S id') st with
                          | Some p => match lookup k (nth p (pmaps s) []) with Some v => v | None => zero end
                          | None => zero
                          end
        | _ => zero
        end
    | _, _ => zero
    end.
  Definition idle (t : thread) : bool :=
    match snd t with PDone _ | PTkWait => true | _ => false end.
  Definition quiescent (s : state) : bool := forallb idle (threads s).

  (* ---- which shared locations the NEXT step of a thread reads / writes, and under which locks ---- *)
  Definition acc (l : loc) (w : bool) (h : list (lock * bool)) : access := {| aloc := l; awr := w; aheld := h |}.
  Definition footprint (s : state) (p : pc) : list access :=
    let fp := fparts s in let fi := findex s in
    match p with
    | PIdx => [acc FIndex false []; acc (OIdx fi) false [(MIdx fi, false)]]
    | PRdParts _ => [acc FParts false []]
    | PPeek _ sr => [acc (OStack sr) false [(MStack sr, false)]]
    | PRead p' => [acc (OPmap p') false [(MPmap p', false)]]
    | PDel p' | PInPlace p' | PWrite p' _ => [acc (OPmap p') true [(MPmap p', true)]]
    | PDelIdx | PIndex _ => [acc FIndex false []; acc (OIdx fi) true [(MIdx fi, true)]]
    | PFast =>
        [acc FParts false [(MCpm, false)]; acc FCur false [(MCpm, false)]; acc FCapC false [(MCpm, false)];
         acc (OStack fp) false [(MCpm, false); (MStack fp, false)]]
        ++ match nth_error (stacks s) fp with
           | Some st => match stk_peek (cur s) st with
                        | Some p' => [acc (OPmap p') false [(MCpm, false); (MPmap p', false)]]
                        | None => []
                        end
           | None => []
           end
    | PSlow =>
        [acc FParts false [(MCpm, true)]; acc FCur true [(MCpm, true)]; acc FCapC false [(MCpm, true)];
         acc (OStack fp) true [(MCpm, true); (MStack fp, true)]]
        ++ match nth_error (stacks s) fp with
           | Some st => match stk_peek (cur s) st with
                        | Some p' => [acc (OPmap p') false [(MCpm, true); (MPmap p', false)]]
                        | None => []
                        end
           | None => []
           end
    | PSwBegin =>
        [acc FParts false [(MSwm, true); (MCpm, false)]; acc FMaxP false [(MSwm, true); (MCpm, false)];
         acc (OStack fp) false [(MSwm, true); (MCpm, false); (MStack fp, false)]]
    | PSwPop (S _) =>
        [acc FParts false [(MSwm, true); (MCpm, false)];
         acc (OStack fp) true [(MSwm, true); (MCpm, false); (MStack fp, true)]]
    | PSwPop 0 => []
    | PCl1 => [acc FParts true [(MCpm, true)]; acc FMaxP false [(MCpm, true)]]
    | PCl2 => [acc FIndex true [(MCpm, true)]]
    | PCl3 => [acc FParts false [(MCpm, true)]; acc FCapC false [(MCpm, true)]; acc FCur true [(MCpm, true)];
               acc (OStack fp) true [(MCpm, true); (MStack fp, true)]]
    | PTkWait | PDone _ => []
    end.
  Definition enabled (c : config) (s : state) (i : nat) : bool :=
    match step c s (LStep i) with Some _ => true | None => false end.
  Definition conflicting (s : state) (p q : pc) : bool :=
    existsb (fun a => existsb (fun b => conflict a b) (footprint s q)) (footprint s p).
  (* a data race: two different goroutines whose next steps are both enabled and contain conflicting accesses
     that no common lock orders *)
  Definition race_at (c : config) (s : state) (i j : nat) : bool :=
    negb (i =? j) && enabled c s i && enabled c s j &&
    match nth_error (threads s) i, nth_error (threads s) j with
    | Some (_, p), Some (_, q) => conflicting s p q
    | _, _ => false
    end.
  Definition race (c : config) (s : state) : Prop := exists i j, race_at c s i j = true.
End CacheConc.
